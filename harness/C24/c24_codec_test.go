package jsonrpc_test

// C24 - JSON-RPC protocol is a faithful frame bridge (codec level).
//
// Black-box, bounded-exhaustive enumeration against the real pkg/protocol/jsonrpc:
//
//   inbound  (client -> server): frame f in {CONNECT, SEND, PING, DISCONNECT, RECVACK} is written
//            as its JSON-RPC request/notification (the client role: a field-by-field copy into the
//            package's own Params types), Encode -> bytes -> Decode -> ToFrame must give a frame
//            equivalent to f and the same request id.
//   outbound (server -> client): frame f in {CONNACK, SENDACK, RECV, EVENT, DISCONNECT, PONG} goes
//            through FromFrame(id, f) -> Encode -> bytes -> Decode; the decoded message (for
//            responses: GenericResponse + the package's own result type) is copied back into a
//            frame (client role) which must be equivalent to f, and the response id must be id.
//   decode   every truncation, every single-byte replacement by a structural byte and every
//            structural mutant (type swaps, nulls, nesting, duplicate / renamed / moved / deleted
//            keys, huge numbers, wrappers) of every canonical message: Decode (+ToFrame on what it
//            accepts, as the gateway adapter does) never panics and returns exactly one of
//            {well-formed message, error}.
//
// "Equivalent" = equal on every field the JSON-RPC representation carries (see c24Carried).
// Fields the representation does not carry are normalised:
//   all types : Framer.FrameType / RemainingLength / FrameSize / HasServerVersion
//   DISCONNECT, PING, PONG : the whole Framer (their params have no header)
//   SEND, RECV : Setting bits other than receipt|signal|topic|stream (mask 0xAA; NoEncrypt is not
//                carried), ClientSeq; nil vs empty Payload
//   SENDACK    : ClientSeq, ClientMsgNo
//   CONNECT    : Version 0 == frame.LatestVersion (an omitted version means "latest")
//   EVENT      : nil vs empty Data
// Text fields (Go strings, and EVENT.Data which the representation declares as a JSON string)
// range over valid UTF-8 only: JSON strings are Unicode text.

import (
	"bytes"
	"encoding/base64"
	"encoding/json"
	"errors"
	"fmt"
	"io"
	"reflect"
	"sort"
	"strconv"
	"strings"
	"testing"
	"unicode/utf8"

	"github.com/WuKongIM/WuKongIM/pkg/protocol/frame"
	"github.com/WuKongIM/WuKongIM/pkg/protocol/jsonrpc"
	"github.com/WuKongIM/WuKongIM/pkg/zzverif/ev"
)

// c24EventBinaryDataIsViolation decides how EVENT frames whose Data is not valid UTF-8 are
// classified. The JSON-RPC representation carries EventPacket.Data ([]byte) as a JSON *string*
// (string(data)), so such bytes are replaced by U+FFFD. The representation's declared domain
// for that field is text, therefore the default is "outside the domain, counted, not a
// violation". Flip to true to report it as C24:outbound-EVENT-mismatch:Data:non-utf8.
const c24EventBinaryDataIsViolation = false

type c24Viol struct{ fp, msg string }

type c24KV struct{ k, v string }

// ------------------------------------------------------------------ equivalence

const c24SettingMask = frame.SettingReceiptEnabled | frame.SettingSignal | frame.SettingTopic | frame.SettingStream

func c24Hdr(f frame.Framer) string {
	return fmt.Sprintf("np=%v rd=%v so=%v dup=%v end=%v", f.NoPersist, f.RedDot, f.SyncOnce, f.DUP, f.End)
}

// c24Carried renders the fields of f that the JSON-RPC representation carries.
func c24Carried(f frame.Frame) (string, []c24KV) {
	q := func(s string) string { return strconv.Quote(s) }
	b := func(p []byte) string { return base64.StdEncoding.EncodeToString(p) } // nil == empty
	switch p := f.(type) {
	case *frame.ConnectPacket:
		v := p.Version
		if v == 0 {
			v = frame.LatestVersion
		}
		return "CONNECT", []c24KV{{"Header", c24Hdr(p.Framer)}, {"Version", fmt.Sprint(v)}, {"ClientKey", q(p.ClientKey)},
			{"DeviceID", q(p.DeviceID)}, {"DeviceFlag", fmt.Sprint(uint8(p.DeviceFlag))}, {"ClientTimestamp", fmt.Sprint(p.ClientTimestamp)},
			{"UID", q(p.UID)}, {"Token", q(p.Token)}}
	case *frame.SendPacket:
		return "SEND", []c24KV{{"Header", c24Hdr(p.Framer)}, {"Setting", fmt.Sprint(uint8(p.Setting & c24SettingMask))}, {"MsgKey", q(p.MsgKey)},
			{"Expire", fmt.Sprint(p.Expire)}, {"ClientMsgNo", q(p.ClientMsgNo)}, {"StreamNo", q(p.StreamNo)}, {"ChannelID", q(p.ChannelID)},
			{"ChannelType", fmt.Sprint(p.ChannelType)}, {"Topic", q(p.Topic)}, {"Payload", b(p.Payload)}}
	case *frame.PingPacket:
		return "PING", nil
	case *frame.PongPacket:
		return "PONG", nil
	case *frame.DisconnectPacket:
		return "DISCONNECT", []c24KV{{"ReasonCode", fmt.Sprint(uint8(p.ReasonCode))}, {"Reason", q(p.Reason)}}
	case *frame.RecvackPacket:
		return "RECVACK", []c24KV{{"Header", c24Hdr(p.Framer)}, {"MessageID", fmt.Sprint(p.MessageID)}, {"MessageSeq", fmt.Sprint(p.MessageSeq)}}
	case *frame.ConnackPacket:
		return "CONNACK", []c24KV{{"Header", c24Hdr(p.Framer)}, {"ServerVersion", fmt.Sprint(p.ServerVersion)}, {"ServerKey", q(p.ServerKey)},
			{"Salt", q(p.Salt)}, {"TimeDiff", fmt.Sprint(p.TimeDiff)}, {"ReasonCode", fmt.Sprint(uint8(p.ReasonCode))}, {"NodeId", fmt.Sprint(p.NodeId)}}
	case *frame.SendackPacket:
		return "SENDACK", []c24KV{{"Header", c24Hdr(p.Framer)}, {"MessageID", fmt.Sprint(p.MessageID)}, {"MessageSeq", fmt.Sprint(p.MessageSeq)},
			{"ReasonCode", fmt.Sprint(uint8(p.ReasonCode))}}
	case *frame.RecvPacket:
		return "RECV", []c24KV{{"Header", c24Hdr(p.Framer)}, {"Setting", fmt.Sprint(uint8(p.Setting & c24SettingMask))}, {"MsgKey", q(p.MsgKey)},
			{"Expire", fmt.Sprint(p.Expire)}, {"MessageID", fmt.Sprint(p.MessageID)}, {"MessageSeq", fmt.Sprint(p.MessageSeq)},
			{"ClientMsgNo", q(p.ClientMsgNo)}, {"StreamNo", q(p.StreamNo)}, {"StreamId", fmt.Sprint(p.StreamId)}, {"StreamFlag", fmt.Sprint(uint8(p.StreamFlag))},
			{"Timestamp", fmt.Sprint(p.Timestamp)}, {"ChannelID", q(p.ChannelID)}, {"ChannelType", fmt.Sprint(p.ChannelType)}, {"Topic", q(p.Topic)},
			{"FromUID", q(p.FromUID)}, {"Payload", b(p.Payload)}}
	case *frame.EventPacket:
		return "EVENT", []c24KV{{"Header", c24Hdr(p.Framer)}, {"Id", q(p.Id)}, {"Type", q(p.Type)}, {"Timestamp", fmt.Sprint(p.Timestamp)}, {"Data", b(p.Data)}}
	}
	return fmt.Sprintf("%T", f), nil
}

// c24Diff returns the name of the first carried field on which a and b differ ("" = equivalent).
func c24Diff(a, b frame.Frame) (string, string) {
	ta, fa := c24Carried(a)
	tb, fb := c24Carried(b)
	if ta != tb {
		return "frame-type", fmt.Sprintf("%s vs %s", ta, tb)
	}
	for i := range fa {
		if fa[i] != fb[i] {
			return fa[i].k, fmt.Sprintf("%s: sent %s, got back %s", fa[i].k, fa[i].v, fb[i].v)
		}
	}
	return "", ""
}

// ------------------------------------------------------------------ client role (harness side of the bridge)

func c24HeaderOf(f frame.Framer) jsonrpc.Header {
	return jsonrpc.Header{NoPersist: f.NoPersist, RedDot: f.RedDot, SyncOnce: f.SyncOnce, Dup: f.DUP, End: f.End}
}

func c24FramerOf(h *jsonrpc.Header) frame.Framer {
	if h == nil {
		return frame.Framer{}
	}
	return frame.Framer{NoPersist: h.NoPersist, RedDot: h.RedDot, SyncOnce: h.SyncOnce, DUP: h.Dup, End: h.End}
}

func c24FlagsOf(s frame.Setting) jsonrpc.SettingFlags {
	return jsonrpc.SettingFlags{Receipt: s.IsSet(frame.SettingReceiptEnabled), Signal: s.IsSet(frame.SettingSignal),
		Stream: s.IsSet(frame.SettingStream), Topic: s.IsSet(frame.SettingTopic)}
}

func c24SettingOf(f *jsonrpc.SettingFlags) frame.Setting {
	var s frame.Setting
	if f == nil {
		return s
	}
	if f.Receipt {
		s |= frame.SettingReceiptEnabled
	}
	if f.Signal {
		s |= frame.SettingSignal
	}
	if f.Stream {
		s |= frame.SettingStream
	}
	if f.Topic {
		s |= frame.SettingTopic
	}
	return s
}

// c24ClientMessage writes an inbound frame as the JSON-RPC message a client sends for it.
// variant 1 (PING only) sends "params":{} instead of omitting params.
func c24ClientMessage(f frame.Frame, id string, variant int) any {
	switch p := f.(type) {
	case *frame.ConnectPacket:
		return jsonrpc.NewRequest(jsonrpc.MethodConnect, id, jsonrpc.ConnectParams{Header: c24HeaderOf(p.Framer), Version: int(p.Version),
			ClientKey: p.ClientKey, DeviceID: p.DeviceID, DeviceFlag: jsonrpc.DeviceFlagEnum(p.DeviceFlag), ClientTimestamp: p.ClientTimestamp,
			UID: p.UID, Token: p.Token})
	case *frame.SendPacket:
		return jsonrpc.NewRequest(jsonrpc.MethodSend, id, jsonrpc.SendParams{Header: c24HeaderOf(p.Framer), Setting: c24FlagsOf(p.Setting),
			MsgKey: p.MsgKey, Expire: p.Expire, ClientMsgNo: p.ClientMsgNo, StreamNo: p.StreamNo, ChannelID: p.ChannelID,
			ChannelType: int(p.ChannelType), Topic: p.Topic, Payload: p.Payload})
	case *frame.PingPacket:
		if variant == 1 {
			return jsonrpc.NewRequest(jsonrpc.MethodPing, id, jsonrpc.PingParams{})
		}
		return jsonrpc.NewRequest(jsonrpc.MethodPing, id, nil)
	case *frame.DisconnectPacket:
		return jsonrpc.NewRequest(jsonrpc.MethodDisconnect, id, jsonrpc.DisconnectParams{ReasonCode: jsonrpc.ReasonCodeEnum(p.ReasonCode), Reason: p.Reason})
	case *frame.RecvackPacket:
		return jsonrpc.RecvAckNotification{BaseNotification: jsonrpc.BaseNotification{Jsonrpc: "2.0", Method: jsonrpc.MethodRecvAck},
			Params: jsonrpc.RecvAckParams{Header: c24HeaderOf(p.Framer), MessageID: strconv.FormatInt(p.MessageID, 10), MessageSeq: p.MessageSeq}}
	}
	return nil
}

// c24ClientFrame reads a decoded outbound message back into a frame of the given type.
func c24ClientFrame(typ string, dec any) (frame.Frame, string, error) {
	result := func(into any) (string, error) {
		resp, ok := dec.(jsonrpc.GenericResponse)
		if !ok {
			return "", fmt.Errorf("decoded as %T, want GenericResponse", dec)
		}
		if resp.Error != nil {
			return resp.ID, fmt.Errorf("response carries an error object %+v instead of a result", *resp.Error)
		}
		if into == nil {
			return resp.ID, nil
		}
		if err := json.Unmarshal(resp.Result, into); err != nil {
			return resp.ID, fmt.Errorf("result %s: %v", resp.Result, err)
		}
		return resp.ID, nil
	}
	switch typ {
	case "CONNACK":
		var res jsonrpc.ConnectResult
		id, err := result(&res)
		if err != nil {
			return nil, id, err
		}
		if res.ServerVersion < 0 || res.ServerVersion > 255 || res.ReasonCode < 0 || res.ReasonCode > 255 {
			return nil, id, fmt.Errorf("result out of range: %+v", res)
		}
		return &frame.ConnackPacket{Framer: c24FramerOf(res.Header), ServerVersion: uint8(res.ServerVersion), ServerKey: res.ServerKey, Salt: res.Salt,
			TimeDiff: res.TimeDiff, ReasonCode: frame.ReasonCode(res.ReasonCode), NodeId: res.NodeID}, id, nil
	case "SENDACK":
		var res jsonrpc.SendResult
		id, err := result(&res)
		if err != nil {
			return nil, id, err
		}
		mid, err := strconv.ParseInt(res.MessageID, 10, 64)
		if err != nil {
			return nil, id, fmt.Errorf("messageId %q: %v", res.MessageID, err)
		}
		if res.ReasonCode < 0 || res.ReasonCode > 255 {
			return nil, id, fmt.Errorf("result out of range: %+v", res)
		}
		return &frame.SendackPacket{Framer: c24FramerOf(res.Header), MessageID: mid, MessageSeq: res.MessageSeq, ReasonCode: frame.ReasonCode(res.ReasonCode)}, id, nil
	case "PONG":
		id, err := result(nil)
		if err != nil {
			return nil, id, err
		}
		return &frame.PongPacket{}, id, nil
	case "RECV":
		n, ok := dec.(jsonrpc.RecvNotification)
		if !ok {
			return nil, "", fmt.Errorf("decoded as %T, want RecvNotification", dec)
		}
		p := n.Params
		mid, err := strconv.ParseInt(p.MessageID, 10, 64)
		if err != nil {
			return nil, "", fmt.Errorf("messageId %q: %v", p.MessageID, err)
		}
		var sid uint64
		if p.StreamID != "" {
			if sid, err = strconv.ParseUint(p.StreamID, 10, 64); err != nil {
				return nil, "", fmt.Errorf("streamId %q: %v", p.StreamID, err)
			}
		}
		if p.ChannelType < 0 || p.ChannelType > 255 || p.StreamFlag < 0 || p.StreamFlag > 255 {
			return nil, "", fmt.Errorf("params out of range: %+v", p)
		}
		return &frame.RecvPacket{Framer: c24FramerOf(p.Header), Setting: c24SettingOf(p.Setting), MsgKey: p.MsgKey, Expire: p.Expire, MessageID: mid,
			MessageSeq: p.MessageSeq, ClientMsgNo: p.ClientMsgNo, StreamNo: p.StreamNo, StreamId: sid, StreamFlag: frame.StreamFlag(p.StreamFlag),
			Timestamp: p.Timestamp, ChannelID: p.ChannelID, ChannelType: uint8(p.ChannelType), Topic: p.Topic, FromUID: p.FromUID, Payload: p.Payload}, "", nil
	case "EVENT":
		n, ok := dec.(jsonrpc.EventNotification)
		if !ok {
			return nil, "", fmt.Errorf("decoded as %T, want EventNotification", dec)
		}
		p := n.Params
		return &frame.EventPacket{Framer: c24FramerOf(p.Header), Id: p.ID, Type: p.Type, Timestamp: p.Timestamp, Data: []byte(p.Data)}, "", nil
	case "DISCONNECT":
		n, ok := dec.(jsonrpc.DisconnectNotification)
		if !ok {
			return nil, "", fmt.Errorf("decoded as %T, want DisconnectNotification", dec)
		}
		if n.Params.ReasonCode < 0 || n.Params.ReasonCode > 255 {
			return nil, "", fmt.Errorf("params out of range: %+v", n.Params)
		}
		return &frame.DisconnectPacket{ReasonCode: frame.ReasonCode(n.Params.ReasonCode), Reason: n.Params.Reason}, "", nil
	}
	return nil, "", fmt.Errorf("harness: unknown outbound type %s", typ)
}

// ------------------------------------------------------------------ the two round-trip oracles

func c24Decode(data []byte) (any, error) {
	msg, _, err := jsonrpc.Decode(json.NewDecoder(bytes.NewReader(data)))
	return msg, err
}

// c24CheckInbound: frame -> client JSON-RPC message -> bytes -> Decode -> ToFrame.
func c24CheckInbound(f frame.Frame, id string, variant int) (string, []byte, *c24Viol) {
	typ, _ := c24Carried(f)
	wantID := id
	if typ == "RECVACK" {
		wantID = "" // a notification: there is no request id to preserve
	}
	var (
		data        []byte
		dec         any
		back        frame.Frame
		gotID       string
		stage       = "encode"
		eerr, derr  error
		terr        error
		clientMsg   = c24ClientMessage(f, id, variant)
		failedStage string
	)
	if clientMsg == nil {
		return "", nil, &c24Viol{"C24:harness-no-client-message", "harness: no client message for " + typ}
	}
	if p := ev.Recover(func() {
		data, eerr = jsonrpc.Encode(clientMsg)
		if eerr != nil {
			failedStage = "encode"
			return
		}
		stage = "decode"
		dec, derr = c24Decode(data)
		if derr != nil {
			failedStage = "decode"
			return
		}
		stage = "toframe"
		back, gotID, terr = jsonrpc.ToFrame(dec)
		if terr != nil {
			failedStage = "toframe"
		}
	}); p != nil {
		return "panic", data, &c24Viol{"C24:inbound-" + typ + "-panic-in-" + stage, fmt.Sprintf("%v (message %s)", p, data)}
	}
	switch failedStage {
	case "encode":
		return "encode-error", data, &c24Viol{"C24:inbound-" + typ + "-encode-error", eerr.Error()}
	case "decode":
		return "decode-error", data, &c24Viol{"C24:inbound-" + typ + "-message-rejected-by-decode", fmt.Sprintf("Decode(%s): %v", data, derr)}
	case "toframe":
		return "toframe-error", data, &c24Viol{"C24:inbound-" + typ + "-toframe-error", fmt.Sprintf("ToFrame(%T from %s): %v", dec, data, terr)}
	}
	if back == nil || reflect.ValueOf(back).IsNil() {
		return "nil-frame", data, &c24Viol{"C24:inbound-" + typ + "-nil-frame", fmt.Sprintf("ToFrame returned a nil frame without error for %s", data)}
	}
	if back.GetFrameType() != f.GetFrameType() {
		return "type-changed", data, &c24Viol{"C24:inbound-" + typ + "-frame-type-changed", fmt.Sprintf("frame type %v became %v via %s", f.GetFrameType(), back.GetFrameType(), data)}
	}
	if field, detail := c24Diff(f, back); field != "" {
		return "mismatch", data, &c24Viol{"C24:inbound-" + typ + "-mismatch:" + field, fmt.Sprintf("%s round trip via %s is not equivalent: %s", typ, data, detail)}
	}
	if gotID != wantID {
		return "id-changed", data, &c24Viol{"C24:inbound-" + typ + "-request-id-changed", fmt.Sprintf("request id %q came back as %q via %s", wantID, gotID, data)}
	}
	return "equivalent", data, nil
}

// c24CheckOutbound: frame -> FromFrame -> bytes -> Decode -> client reads the message back.
func c24CheckOutbound(f frame.Frame, id string) (string, []byte, *c24Viol) {
	typ, _ := c24Carried(f)
	isResponse := typ == "CONNACK" || typ == "SENDACK" || typ == "PONG"
	var (
		data        []byte
		msg, dec    any
		stage       = "fromframe"
		ferr, eerr  error
		derr        error
		failedStage string
	)
	if p := ev.Recover(func() {
		msg, ferr = jsonrpc.FromFrame(id, f)
		if ferr != nil {
			failedStage = "fromframe"
			return
		}
		stage = "encode"
		data, eerr = jsonrpc.Encode(msg)
		if eerr != nil {
			failedStage = "encode"
			return
		}
		stage = "decode"
		dec, derr = c24Decode(data)
		if derr != nil {
			failedStage = "decode"
		}
	}); p != nil {
		return "panic", data, &c24Viol{"C24:outbound-" + typ + "-panic-in-" + stage, fmt.Sprintf("%v (message %s)", p, data)}
	}
	switch failedStage {
	case "fromframe":
		return "fromframe-error", data, &c24Viol{"C24:outbound-" + typ + "-fromframe-error", ferr.Error()}
	case "encode":
		return "encode-error", data, &c24Viol{"C24:outbound-" + typ + "-encode-error", eerr.Error()}
	case "decode":
		return "decode-error", data, &c24Viol{"C24:outbound-" + typ + "-message-rejected-by-decode",
			fmt.Sprintf("FromFrame(%q, %s) encodes to %s, which the package's own Decode rejects: %v", id, typ, data, derr)}
	}
	back, gotID, err := c24ClientFrame(typ, dec)
	if err != nil {
		return "unreadable", data, &c24Viol{"C24:outbound-" + typ + "-message-unreadable", fmt.Sprintf("%s: %v", data, err)}
	}
	if field, detail := c24Diff(f, back); field != "" {
		fp := "C24:outbound-" + typ + "-mismatch:" + field
		if evp, ok := f.(*frame.EventPacket); ok && field == "Data" && !utf8.Valid(evp.Data) {
			if !c24EventBinaryDataIsViolation {
				return "event-data-not-text(lossy,out-of-domain)", data, nil
			}
			fp += ":non-utf8"
		}
		return "mismatch", data, &c24Viol{fp, fmt.Sprintf("%s round trip via %s is not equivalent: %s", typ, data, detail)}
	}
	if isResponse && gotID != id {
		return "id-changed", data, &c24Viol{"C24:outbound-" + typ + "-request-id-changed", fmt.Sprintf("request id %q came back as %q via %s", id, gotID, data)}
	}
	return "equivalent", data, nil
}

// ------------------------------------------------------------------ menus

var c24Strs = []string{"", "a1", "u/1@x#&", "ü✓\U0001F600 ", "<&>\"\\\n\t\x00\x7f", strings.Repeat("k", 300)}
var c24IDs = []string{"1", "req-1", "a\"b\\c\n", "ü✓", "null", " ", "0", strings.Repeat("i", 200)}
var c24U8 = []uint8{0, 1, 2, 6, 127, 128, 255}
var c24U32 = []uint32{0, 1, 1 << 31, 1<<32 - 1}
var c24U64 = []uint64{0, 1, 1 << 53, 1<<53 + 1, 1<<63 - 1, 1 << 63, 1<<64 - 1}
var c24I64 = []int64{0, 1, -1, 1 << 53, -(1 << 53) - 1, 1<<63 - 1, -1 << 63}
var c24I32 = []int32{0, 1, -1, 1<<31 - 1, -1 << 31}
var c24Settings = []frame.Setting{0, 0xAA, 0x10, 0x80, 0x20, 0x08, 0x02, 0xFF, 0x55}
var c24Bytes = [][]byte{nil, {0xff, 0x00}, {}, {0x41}, {0x00, 0x01, 0x02}, []byte("hello 世界"), c24AllBytes(), bytes.Repeat([]byte{0xab}, 1025)}
var c24Texts = [][]byte{nil, []byte("{\"k\":\"v\"}"), {}, []byte("plain"), []byte("<&>\"\\\n\x00"), []byte("ü✓\U0001F600�")}
var c24Binary = [][]byte{{0xff}, {0xc3, 0x28}, {0x01, 0x00, 0x00, 0x00, 0x00, 0x00, 0x00, 0x00, 0x07, 0x9c, 0xfe, 0x80, 0x81}}

func c24AllBytes() []byte {
	b := make([]byte, 256)
	for i := range b {
		b[i] = byte(i)
	}
	return b
}

// header flag combinations: none, all, NoPersist only, End only, then every other subset.
var c24FlagOrder = func() []int {
	o := []int{0, 31, 1, 16}
	for v := 0; v < 32; v++ {
		if v != 0 && v != 31 && v != 1 && v != 16 {
			o = append(o, v)
		}
	}
	return o
}()

func c24Framer(n int) frame.Framer {
	i := c24FlagOrder[n]
	// the not-carried Framer fields are set to non-zero values on purpose
	return frame.Framer{NoPersist: i&1 != 0, RedDot: i&2 != 0, SyncOnce: i&4 != 0, DUP: i&8 != 0, End: i&16 != 0,
		HasServerVersion: i&1 != 0, RemainingLength: uint32(i), FrameSize: int64(i)}
}

type c24Spec struct {
	name  string
	dir   string // "in" | "out"
	hasID bool   // the message carries a request id
	dims  []int  // full menu size per field
	small []int  // menu prefix used in the full product (quick)
	wide  []int  // menu prefix used in the full product (thorough)
	base  []int  // base value per field for the one-field-at-a-time enumeration
	field []string
	build func(ix []int) frame.Frame
}

func c24Specs() []c24Spec {
	nS, nU8, nU32, nU64, nI64, nI32, nSet, nB := len(c24Strs), len(c24U8), len(c24U32), len(c24U64), len(c24I64), len(c24I32), len(c24Settings), len(c24Bytes)
	return []c24Spec{
		{name: "CONNECT", dir: "in", hasID: true,
			field: []string{"Framer", "Version", "ClientKey", "DeviceID", "DeviceFlag", "ClientTimestamp", "UID", "Token"},
			dims:  []int{32, nU8, nS, nS, nU8, nI64, nS, nS},
			small: []int{4, 2, 2, 2, 2, 2, 2, 2}, wide: []int{32, 3, 2, 2, 3, 3, 2, 2}, base: []int{0, 3, 1, 1, 1, 1, 1, 1},
			build: func(ix []int) frame.Frame {
				return &frame.ConnectPacket{Framer: c24Framer(ix[0]), Version: c24U8[ix[1]], ClientKey: c24Strs[ix[2]], DeviceID: c24Strs[ix[3]],
					DeviceFlag: frame.DeviceFlag(c24U8[ix[4]]), ClientTimestamp: c24I64[ix[5]], UID: c24Strs[ix[6]], Token: c24Strs[ix[7]]}
			}},
		{name: "SEND", dir: "in", hasID: true,
			field: []string{"Framer", "Setting", "MsgKey", "Expire", "ClientSeq", "ClientMsgNo", "StreamNo", "ChannelID", "ChannelType", "Topic", "Payload"},
			dims:  []int{32, nSet, nS, nU32, nU64, nS, nS, nS, nU8, nS, nB},
			small: []int{4, 3, 2, 2, 2, 2, 2, 2, 2, 2, 2}, wide: []int{32, nSet, 2, 2, 2, 2, 2, 2, 3, 2, 3}, base: []int{0, 0, 1, 1, 1, 1, 1, 1, 2, 1, 1},
			build: func(ix []int) frame.Frame {
				return &frame.SendPacket{Framer: c24Framer(ix[0]), Setting: c24Settings[ix[1]], MsgKey: c24Strs[ix[2]], Expire: c24U32[ix[3]], ClientSeq: c24U64[ix[4]],
					ClientMsgNo: c24Strs[ix[5]], StreamNo: c24Strs[ix[6]], ChannelID: c24Strs[ix[7]], ChannelType: c24U8[ix[8]], Topic: c24Strs[ix[9]], Payload: c24Bytes[ix[10]]}
			}},
		{name: "PING", dir: "in", hasID: true, field: []string{"Framer"}, dims: []int{32}, small: []int{32}, wide: []int{32}, base: []int{0},
			build: func(ix []int) frame.Frame { return &frame.PingPacket{Framer: c24Framer(ix[0])} }},
		{name: "DISCONNECT", dir: "in", hasID: true, field: []string{"Framer", "ReasonCode", "Reason"}, dims: []int{32, nU8, nS}, small: []int{4, nU8, nS}, wide: []int{32, nU8, nS}, base: []int{0, 1, 1},
			build: func(ix []int) frame.Frame {
				return &frame.DisconnectPacket{Framer: c24Framer(ix[0]), ReasonCode: frame.ReasonCode(c24U8[ix[1]]), Reason: c24Strs[ix[2]]}
			}},
		{name: "RECVACK", dir: "in", field: []string{"Framer", "MessageID", "MessageSeq"}, dims: []int{32, nI64, nU64}, small: []int{32, nI64, nU64}, wide: []int{32, nI64, nU64}, base: []int{0, 1, 1},
			build: func(ix []int) frame.Frame {
				return &frame.RecvackPacket{Framer: c24Framer(ix[0]), MessageID: c24I64[ix[1]], MessageSeq: c24U64[ix[2]]}
			}},
		{name: "CONNACK", dir: "out", hasID: true,
			field: []string{"Framer", "ServerVersion", "ServerKey", "Salt", "TimeDiff", "ReasonCode", "NodeId"},
			dims:  []int{32, nU8, nS, nS, nI64, nU8, nU64},
			small: []int{4, 2, 2, 2, 3, 3, 3}, wide: []int{32, 3, 3, 3, nI64, nU8, nU64}, base: []int{0, 3, 1, 1, 1, 1, 1},
			build: func(ix []int) frame.Frame {
				return &frame.ConnackPacket{Framer: c24Framer(ix[0]), ServerVersion: c24U8[ix[1]], ServerKey: c24Strs[ix[2]], Salt: c24Strs[ix[3]],
					TimeDiff: c24I64[ix[4]], ReasonCode: frame.ReasonCode(c24U8[ix[5]]), NodeId: c24U64[ix[6]]}
			}},
		{name: "SENDACK", dir: "out", hasID: true,
			field: []string{"Framer", "MessageID", "MessageSeq", "ClientSeq", "ClientMsgNo", "ReasonCode"},
			dims:  []int{32, nI64, nU64, nU64, nS, nU8},
			small: []int{4, 3, 3, 2, 2, 3}, wide: []int{32, nI64, nU64, 2, 2, nU8}, base: []int{0, 1, 1, 1, 1, 1},
			build: func(ix []int) frame.Frame {
				return &frame.SendackPacket{Framer: c24Framer(ix[0]), MessageID: c24I64[ix[1]], MessageSeq: c24U64[ix[2]], ClientSeq: c24U64[ix[3]],
					ClientMsgNo: c24Strs[ix[4]], ReasonCode: frame.ReasonCode(c24U8[ix[5]])}
			}},
		{name: "RECV", dir: "out",
			field: []string{"Framer", "Setting", "MsgKey", "Expire", "MessageID", "MessageSeq", "ClientMsgNo", "StreamNo", "StreamId", "StreamFlag", "Timestamp", "ChannelID", "ChannelType", "Topic", "FromUID", "Payload", "ClientSeq"},
			dims:  []int{32, nSet, nS, nU32, nI64, nU64, nS, nS, nU64, nU8, nI32, nS, nU8, nS, nS, nB, nU64},
			small: []int{4, 3, 2, 2, 2, 2, 2, 2, 2, 2, 2, 2, 2, 2, 2, 2, 1}, wide: []int{32, nSet, 2, 2, 2, 2, 2, 2, 2, 2, 2, 2, 2, 2, 2, 2, 1},
			base:  []int{0, 0, 1, 1, 1, 1, 1, 1, 1, 1, 1, 1, 2, 1, 1, 1, 1},
			build: func(ix []int) frame.Frame {
				return &frame.RecvPacket{Framer: c24Framer(ix[0]), Setting: c24Settings[ix[1]], MsgKey: c24Strs[ix[2]], Expire: c24U32[ix[3]], MessageID: c24I64[ix[4]],
					MessageSeq: c24U64[ix[5]], ClientMsgNo: c24Strs[ix[6]], StreamNo: c24Strs[ix[7]], StreamId: c24U64[ix[8]], StreamFlag: frame.StreamFlag(c24U8[ix[9]]),
					Timestamp: c24I32[ix[10]], ChannelID: c24Strs[ix[11]], ChannelType: c24U8[ix[12]], Topic: c24Strs[ix[13]], FromUID: c24Strs[ix[14]],
					Payload: c24Bytes[ix[15]], ClientSeq: c24U64[ix[16]]}
			}},
		{name: "EVENT", dir: "out", field: []string{"Framer", "Id", "Type", "Timestamp", "Data"},
			dims:  []int{32, nS, nS, nI64, len(c24Texts) + len(c24Binary)},
			small: []int{4, 3, 3, 3, len(c24Texts)}, wide: []int{32, nS, nS, nI64, len(c24Texts) + len(c24Binary)}, base: []int{0, 1, 1, 1, 1},
			build: func(ix []int) frame.Frame {
				var data []byte
				if ix[4] < len(c24Texts) {
					data = c24Texts[ix[4]]
				} else {
					data = c24Binary[ix[4]-len(c24Texts)]
				}
				return &frame.EventPacket{Framer: c24Framer(ix[0]), Id: c24Strs[ix[1]], Type: c24Strs[ix[2]], Timestamp: c24I64[ix[3]], Data: data}
			}},
		{name: "DISCONNECT", dir: "out", field: []string{"Framer", "ReasonCode", "Reason"}, dims: []int{32, nU8, nS}, small: []int{4, nU8, nS}, wide: []int{32, nU8, nS}, base: []int{0, 1, 1},
			build: func(ix []int) frame.Frame {
				return &frame.DisconnectPacket{Framer: c24Framer(ix[0]), ReasonCode: frame.ReasonCode(c24U8[ix[1]]), Reason: c24Strs[ix[2]]}
			}},
		{name: "PONG", dir: "out", hasID: true, field: []string{"Framer"}, dims: []int{32}, small: []int{32}, wide: []int{32}, base: []int{0},
			build: func(ix []int) frame.Frame { return &frame.PongPacket{Framer: c24Framer(ix[0])} }},
	}
}

func c24Product(sizes []int, fn func(ix []int)) {
	ix := make([]int, len(sizes))
	for {
		fn(ix)
		k := len(ix) - 1
		for k >= 0 {
			ix[k]++
			if ix[k] < sizes[k] {
				break
			}
			ix[k] = 0
			k--
		}
		if k < 0 {
			return
		}
	}
}

// ------------------------------------------------------------------ replay payload

type c24Replay struct {
	Kind      string          `json:"kind"` // "inbound" | "outbound" | "decode"
	FrameType string          `json:"frame_type,omitempty"`
	Frame     json.RawMessage `json:"frame,omitempty"`
	ID        string          `json:"id,omitempty"`
	Variant   int             `json:"variant,omitempty"`
	DocB64    string          `json:"doc_b64,omitempty"`
	DocText   string          `json:"doc_text,omitempty"`
	Origin    string          `json:"origin,omitempty"`
}

func c24FrameReplay(kind string, f frame.Frame, id string, variant int, data []byte) c24Replay {
	typ, _ := c24Carried(f)
	fj, _ := json.Marshal(f)
	return c24Replay{Kind: kind, FrameType: typ, Frame: fj, ID: id, Variant: variant, DocText: string(data)}
}

func c24FrameFromReplay(rp c24Replay) (frame.Frame, error) {
	var f frame.Frame
	switch rp.FrameType {
	case "CONNECT":
		f = &frame.ConnectPacket{}
	case "SEND":
		f = &frame.SendPacket{}
	case "PING":
		f = &frame.PingPacket{}
	case "PONG":
		f = &frame.PongPacket{}
	case "DISCONNECT":
		f = &frame.DisconnectPacket{}
	case "RECVACK":
		f = &frame.RecvackPacket{}
	case "CONNACK":
		f = &frame.ConnackPacket{}
	case "SENDACK":
		f = &frame.SendackPacket{}
	case "RECV":
		f = &frame.RecvPacket{}
	case "EVENT":
		f = &frame.EventPacket{}
	default:
		return nil, fmt.Errorf("unknown frame type %q", rp.FrameType)
	}
	return f, json.Unmarshal(rp.Frame, f)
}

func c24RunReplay(r *ev.R, rf *ev.ReplayFile) {
	var rp c24Replay
	if err := json.Unmarshal(rf.Replay, &rp); err != nil {
		r.HarnessError("replay: %v", err)
		return
	}
	if strings.HasPrefix(rp.Kind, "retention-") {
		c24rRunReplay(r, rf) // c24_retention_test.go
		return
	}
	e := r.NewEnum("replay")
	var v *c24Viol
	var out string
	switch rp.Kind {
	case "inbound", "outbound":
		f, err := c24FrameFromReplay(rp)
		if err != nil {
			r.HarnessError("replay: %v", err)
			return
		}
		var data []byte
		if rp.Kind == "inbound" {
			out, data, v = c24CheckInbound(f, rp.ID, rp.Variant)
		} else {
			out, data, v = c24CheckOutbound(f, rp.ID)
		}
		fmt.Printf("replay %s %s id=%q: message %s -> %s\n", rp.Kind, rp.FrameType, rp.ID, data, out)
	case "decode":
		doc, err := base64.StdEncoding.DecodeString(rp.DocB64)
		if err != nil {
			r.HarnessError("replay: %v", err)
			return
		}
		out, v = c24CheckDecode(doc)
		fmt.Printf("replay decode %q -> %s\n", doc, out)
	default:
		r.HarnessError("replay: unknown kind %q", rp.Kind)
		return
	}
	e.CaseByConstruction(true, out)
	e.Done(true, nil, "replay")
	r.Sample(rp)
	if v != nil {
		fmt.Printf("replay: VIOLATES [%s] %s\n", v.fp, v.msg)
		r.MarkReplayReproduced()
		r.Violation(ev.Violation{Fingerprint: v.fp, Message: v.msg, System: rf.System, Replay: rp})
	}
}

// ------------------------------------------------------------------ round-trip enumeration

func c24RoundTrips(r *ev.R) {
	specs := c24Specs()
	for _, dir := range []string{"in", "out"} {
		system := map[string]string{"in": "roundtrip-inbound", "out": "roundtrip-outbound"}[dir]
		e := r.NewEnum(system)
		perType := map[string]int64{}
		lossy := int64(0)
		sampled := map[string]bool{}
		run := func(sp c24Spec, ix []int, id string) {
			f := sp.build(ix)
			variants := 1
			if sp.name == "PING" {
				variants = 2
			}
			for variant := 0; variant < variants; variant++ {
				var out string
				var data []byte
				var v *c24Viol
				if dir == "in" {
					out, data, v = c24CheckInbound(f, id, variant)
				} else {
					out, data, v = c24CheckOutbound(f, id)
				}
				e.CaseByConstruction(true, sp.name+":"+out)
				perType[sp.name]++
				if strings.HasPrefix(out, "event-data-not-text") {
					lossy++
				}
				if v != nil {
					r.Violation(ev.Violation{Fingerprint: v.fp, Message: v.msg, System: system, Replay: c24FrameReplay(map[string]string{"in": "inbound", "out": "outbound"}[dir], f, id, variant, data)})
				} else if !sampled[sp.name] && out == "equivalent" {
					sampled[sp.name] = true
					_, carried := c24Carried(f)
					r.Sample(map[string]any{"direction": dir, "frame": sp.name, "carried_fields": fmt.Sprint(carried), "request_id": id, "json": string(data), "outcome": out})
				}
			}
		}
		for _, sp := range specs {
			if sp.dir != dir {
				continue
			}
			// (a) the full product of the menu prefixes, one request id
			sizes := sp.small
			if r.Thorough() {
				sizes = sp.wide
			}
			c24Product(sizes, func(ix []int) { run(sp, ix, c24IDs[1]) })
			// (b) every value of every field's full menu x every request id, other fields at base
			// (cases already contained in (a) are skipped, so no case is counted twice)
			ids := c24IDs
			if !sp.hasID {
				ids = c24IDs[1:2]
			}
			for fi := range sp.dims {
				for vi := 0; vi < sp.dims[fi]; vi++ {
					ix := append([]int(nil), sp.base...)
					ix[fi] = vi
					inProduct := true
					for k := range ix {
						if ix[k] >= sizes[k] {
							inProduct = false
						}
					}
					for _, id := range ids {
						if inProduct && id == c24IDs[1] {
							continue
						}
						if vi == sp.base[fi] && fi > 0 {
							continue // the all-base vector is enumerated once (under field 0)
						}
						run(sp, ix, id)
					}
				}
			}
		}
		names := []string{}
		for k := range perType {
			names = append(names, k)
		}
		sort.Strings(names)
		bounds := map[string]any{"frame_types": names, "request_ids": len(c24IDs), "string_menu": len(c24Strs), "payload_menu": len(c24Bytes)}
		for _, n := range names {
			bounds["cases_"+n] = perType[n]
		}
		e.Done(true, bounds, "per frame type: full product of menu prefixes (one id) + every full-menu value of every field x every request id")
		want := map[string]int{"in": 5, "out": 6}[dir]
		r.Guard(system+"-all-bridge-types", len(names) == want, "frame types exercised: %v (need %d)", names, want)
		if dir == "out" {
			r.Count("event_data_not_utf8_lossy_cases", lossy)
			r.Guard("event-binary-data-classified", c24EventBinaryDataIsViolation || lossy > 0, "non-UTF-8 EVENT.Data cases classified as out-of-domain: %d", lossy)
		}
	}
}

// ------------------------------------------------------------------ Decode neighbourhood

var c24KnownErrs = []struct {
	name string
	err  error
}{
	{"invalid-version", jsonrpc.ErrInvalidVersion}, {"invalid-structure", jsonrpc.ErrInvalidStructure}, {"response-format", jsonrpc.ErrResponseFormat},
	{"request-format", jsonrpc.ErrRequestFormat}, {"notification-format", jsonrpc.ErrNotificationFormat}, {"unknown-method", jsonrpc.ErrUnknownMethod},
	{"missing-params", jsonrpc.ErrMissingParams}, {"unmarshal-field", jsonrpc.ErrUnmarshalFieldFailed}, {"eof", io.EOF}, {"unexpected-eof", io.ErrUnexpectedEOF},
}

func c24ErrClass(err error) string {
	for _, k := range c24KnownErrs {
		if errors.Is(err, k.err) {
			return k.name
		}
	}
	var te *json.UnmarshalTypeError
	if errors.As(err, &te) {
		return "json-type"
	}
	if strings.Contains(err.Error(), "unable to determine message type") {
		return "undetermined-type"
	}
	return "other"
}

// c24WellFormed checks a successfully decoded message: a documented message type, version 2.0,
// the method that belongs to the type, and for responses exactly one of result / error.
func c24WellFormed(msg any) (typ, id, problem string) {
	req := func(b jsonrpc.BaseRequest, method string) string {
		if b.Jsonrpc != "2.0" {
			return "jsonrpc=" + strconv.Quote(b.Jsonrpc)
		}
		if b.Method != method {
			return "method=" + strconv.Quote(b.Method) + " in " + method + " request"
		}
		return ""
	}
	ntf := func(b jsonrpc.BaseNotification, method string) string {
		if b.Jsonrpc != "2.0" {
			return "jsonrpc=" + strconv.Quote(b.Jsonrpc)
		}
		if b.Method != method {
			return "method=" + strconv.Quote(b.Method) + " in " + method + " notification"
		}
		return ""
	}
	switch m := msg.(type) {
	case jsonrpc.ConnectRequest:
		return "ConnectRequest", m.ID, req(m.BaseRequest, jsonrpc.MethodConnect)
	case jsonrpc.SendRequest:
		return "SendRequest", m.ID, req(m.BaseRequest, jsonrpc.MethodSend)
	case jsonrpc.SubscribeRequest:
		return "SubscribeRequest", m.ID, req(m.BaseRequest, jsonrpc.MethodSubscribe)
	case jsonrpc.UnsubscribeRequest:
		return "UnsubscribeRequest", m.ID, req(m.BaseRequest, jsonrpc.MethodUnsubscribe)
	case jsonrpc.PingRequest:
		return "PingRequest", m.ID, req(m.BaseRequest, jsonrpc.MethodPing)
	case jsonrpc.DisconnectRequest:
		return "DisconnectRequest", m.ID, req(m.BaseRequest, jsonrpc.MethodDisconnect)
	case jsonrpc.RecvNotification:
		return "RecvNotification", "", ntf(m.BaseNotification, jsonrpc.MethodRecv)
	case jsonrpc.RecvAckNotification:
		return "RecvAckNotification", "", ntf(m.BaseNotification, jsonrpc.MethodRecvAck)
	case jsonrpc.DisconnectNotification:
		return "DisconnectNotification", "", ntf(m.BaseNotification, jsonrpc.MethodDisconnect)
	case jsonrpc.EventNotification:
		return "EventNotification", "", ntf(m.BaseNotification, jsonrpc.MethodEvent)
	case jsonrpc.GenericResponse:
		p := ""
		if m.Jsonrpc != "2.0" {
			p = "jsonrpc=" + strconv.Quote(m.Jsonrpc)
		} else if (m.Result != nil) == (m.Error != nil) {
			p = fmt.Sprintf("response with result present=%v and error present=%v", m.Result != nil, m.Error != nil)
		}
		return "GenericResponse", m.ID, p
	}
	return fmt.Sprintf("%T", msg), "", "undocumented message type"
}

var c24BridgedType = map[string]frame.FrameType{"ConnectRequest": frame.CONNECT, "SendRequest": frame.SEND, "PingRequest": frame.PING,
	"DisconnectRequest": frame.DISCONNECT, "RecvAckNotification": frame.RECVACK}

// c24CheckDecode is the oracle of the Decode neighbourhood.
func c24CheckDecode(doc []byte) (string, *c24Viol) {
	in := make([]byte, len(doc)) // cap == len
	copy(in, doc)
	var msg any
	var err error
	if p := ev.Recover(func() { msg, err = c24Decode(in) }); p != nil {
		return "panic", &c24Viol{"C24:decode-panic", fmt.Sprintf("Decode(%q): %v", doc, p)}
	}
	if !bytes.Equal(in, doc) {
		return "input-modified", &c24Viol{"C24:decode-modified-input", fmt.Sprintf("Decode modified its input %q", doc)}
	}
	if msg == nil && err == nil {
		return "nil-nil", &c24Viol{"C24:decode-neither-message-nor-error", fmt.Sprintf("Decode(%q) returned neither a message nor an error", doc)}
	}
	if msg != nil && err != nil {
		return "msg+err", &c24Viol{"C24:decode-message-and-error", fmt.Sprintf("Decode(%q) returned a %T and the error %v", doc, msg, err)}
	}
	if err != nil {
		return "err:" + c24ErrClass(err), nil
	}
	typ, id, problem := c24WellFormed(msg)
	if problem != "" {
		return "malformed", &c24Viol{"C24:decode-malformed-" + typ, fmt.Sprintf("Decode(%q) accepted a message that is not well formed: %s", doc, problem)}
	}
	// what the gateway adapter does next with every accepted message
	var f frame.Frame
	var gotID string
	var terr error
	if p := ev.Recover(func() { f, gotID, terr = jsonrpc.ToFrame(msg) }); p != nil {
		return "toframe-panic", &c24Viol{"C24:toframe-panic-" + typ, fmt.Sprintf("ToFrame(%T decoded from %q): %v", msg, doc, p)}
	}
	want, bridged := c24BridgedType[typ]
	if !bridged {
		if terr == nil {
			return "bridged-unexpectedly", &c24Viol{"C24:toframe-accepted-" + typ, fmt.Sprintf("ToFrame accepted a %s (decoded from %q)", typ, doc)}
		}
		return "ok:" + typ + "(no-frame)", nil
	}
	if terr != nil {
		return "toframe-error", &c24Viol{"C24:toframe-error-" + typ, fmt.Sprintf("ToFrame(%T decoded from %q): %v", msg, doc, terr)}
	}
	if f == nil || reflect.ValueOf(f).IsNil() || f.GetFrameType() != want {
		return "toframe-wrong-frame", &c24Viol{"C24:toframe-wrong-frame-" + typ, fmt.Sprintf("ToFrame(%T decoded from %q) returned %T", msg, doc, f)}
	}
	if gotID != id {
		return "toframe-id", &c24Viol{"C24:toframe-request-id-changed-" + typ, fmt.Sprintf("ToFrame(%T decoded from %q) returned request id %q, message id is %q", msg, doc, gotID, id)}
	}
	return "ok:" + typ, nil
}

// ---- ordered JSON tree for structural mutants

type c24Node struct {
	kind byte // 'o' object, 'a' array, 's' scalar / raw text
	raw  string
	keys []string
	kids []*c24Node
}

func c24Parse(dec *json.Decoder) *c24Node {
	tok, err := dec.Token()
	if err != nil {
		panic("harness: canonical document does not parse: " + err.Error())
	}
	switch t := tok.(type) {
	case json.Delim:
		n := &c24Node{kind: 'a'}
		if t == '{' {
			n.kind = 'o'
		}
		for dec.More() {
			if n.kind == 'o' {
				k, _ := dec.Token()
				n.keys = append(n.keys, k.(string))
			}
			n.kids = append(n.kids, c24Parse(dec))
		}
		dec.Token()
		return n
	case string:
		b, _ := json.Marshal(t)
		return &c24Node{kind: 's', raw: string(b)}
	case json.Number:
		return &c24Node{kind: 's', raw: t.String()}
	case bool:
		return &c24Node{kind: 's', raw: strconv.FormatBool(t)}
	}
	return &c24Node{kind: 's', raw: "null"}
}

func (n *c24Node) render(b *bytes.Buffer) {
	switch n.kind {
	case 's':
		b.WriteString(n.raw)
	case 'a':
		b.WriteByte('[')
		for i, k := range n.kids {
			if i > 0 {
				b.WriteByte(',')
			}
			k.render(b)
		}
		b.WriteByte(']')
	case 'o':
		b.WriteByte('{')
		for i, k := range n.kids {
			if i > 0 {
				b.WriteByte(',')
			}
			kb, _ := json.Marshal(n.keys[i])
			b.Write(kb)
			b.WriteByte(':')
			k.render(b)
		}
		b.WriteByte('}')
	}
}

func (n *c24Node) all(out *[]*c24Node) {
	*out = append(*out, n)
	for _, k := range n.kids {
		k.all(out)
	}
}

func c24Nest(open, close string, depth int, leaf string) string {
	return strings.Repeat(open, depth) + leaf + strings.Repeat(close, depth)
}

func c24ValueMenu(thorough bool) []string {
	m := []string{"null", "true", "false", "0", "-1", "1.5", "1e400", "-1e400", "123456789012345678901234567890", "18446744073709551616",
		"4294967296", "256", "-9223372036854775809", `""`, `"x"`, `"2.0"`, `"12"`, `"AAAA"`, `"!!!"`, "[]", "{}", "[1]", `{"a":1}`, `[null]`,
		`{"code":1,"message":"m","data":{"k":[1,2]}}`,
		c24Nest("[", "]", 64, "1"), c24Nest(`{"a":`, "}", 64, "1"), c24Nest("[", "]", 10050, ""), c24Nest(`{"a":`, "}", 10050, "1")}
	if thorough {
		m = append(m, `"\ud800"`, `"\u0000"`, "1E-400", "-0", "0.0", "1e2", `{"header":null}`, `{"header":{"noPersist":1}}`, `[[],{}]`,
			`"`+strings.Repeat("A", 4096)+`"`, c24Nest("[", "]", 9999, "1"))
	}
	return m
}

// c24Structural calls emit for every structural mutant of doc.
func c24Structural(doc []byte, values []string, pairValues []string, emit func(kind string, mutant []byte)) {
	dec := json.NewDecoder(bytes.NewReader(doc))
	dec.UseNumber()
	root := c24Parse(dec)
	var nodes []*c24Node
	root.all(&nodes)
	render := func() []byte {
		var b bytes.Buffer
		root.render(&b)
		return append([]byte(nil), b.Bytes()...)
	}
	// (1) every node replaced by every menu value
	for _, n := range nodes {
		saved := *n
		for _, v := range values {
			*n = c24Node{kind: 's', raw: v}
			emit("replace", render())
		}
		*n = saved
	}
	// (2) every pair of nodes replaced simultaneously (pairValues may be empty)
	if len(pairValues) > 0 {
		for i := 1; i < len(nodes); i++ {
			for j := i + 1; j < len(nodes); j++ {
				si, sj := *nodes[i], *nodes[j]
				for _, vi := range pairValues {
					for _, vj := range pairValues {
						*nodes[i] = c24Node{kind: 's', raw: vi}
						*nodes[j] = c24Node{kind: 's', raw: vj}
						emit("replace2", render())
						*nodes[i], *nodes[j] = si, sj
					}
				}
			}
		}
	}
	// (3) key operations on every object
	dupValues := []string{"", "null", `"dup"`, "0", "{}", "[]"}
	for _, n := range nodes {
		if n.kind != 'o' {
			continue
		}
		keys, kids := n.keys, n.kids
		for j := range keys {
			// delete
			n.keys = append(append([]string(nil), keys[:j]...), keys[j+1:]...)
			n.kids = append(append([]*c24Node(nil), kids[:j]...), kids[j+1:]...)
			emit("delete-key", render())
			// duplicate (appended last / inserted first), same or different value
			for _, dv := range dupValues {
				d := kids[j]
				if dv != "" {
					d = &c24Node{kind: 's', raw: dv}
				}
				n.keys = append(append([]string(nil), keys...), keys[j])
				n.kids = append(append([]*c24Node(nil), kids...), d)
				emit("dup-key-last", render())
				n.keys = append([]string{keys[j]}, keys...)
				n.kids = append([]*c24Node{d}, kids...)
				emit("dup-key-first", render())
			}
			// rename: upper case (encoding/json matches case-insensitively), unknown name, empty name
			for _, nk := range []string{strings.ToUpper(keys[j]), keys[j] + "x", ""} {
				n.keys = append([]string(nil), keys...)
				n.keys[j] = nk
				n.kids = kids
				emit("rename-key", render())
			}
			// move to the front / to the end
			n.keys = append([]string{keys[j]}, append(append([]string(nil), keys[:j]...), keys[j+1:]...)...)
			n.kids = append([]*c24Node{kids[j]}, append(append([]*c24Node(nil), kids[:j]...), kids[j+1:]...)...)
			emit("move-key-first", render())
			n.keys = append(append(append([]string(nil), keys[:j]...), keys[j+1:]...), keys[j])
			n.kids = append(append(append([]*c24Node(nil), kids[:j]...), kids[j+1:]...), kids[j])
			emit("move-key-last", render())
		}
		// unknown extra members
		for _, extra := range []string{"zz", "result", "error", "method", "id", "params", "jsonrpc"} {
			for _, xv := range []string{"null", "1", `"x"`, "{}"} {
				n.keys = append(append([]string(nil), keys...), extra)
				n.kids = append(append([]*c24Node(nil), kids...), &c24Node{kind: 's', raw: xv})
				emit("extra-key", render())
			}
		}
		n.keys, n.kids = keys, kids
	}
	// (4) wrappers around the whole document
	d := string(doc)
	for _, w := range []string{"[" + d + "]", d + d, d + " " + d, d + ",", " \t\r\n" + d, "\xef\xbb\xbf" + d, `{"a":` + d + "}", d + "}", "{" + d, `"` + d + `"`,
		d + "\x00", "[" + d + "," + d + "]", "null", "[]", "{}", "0", `""`, "true", " ", "", "{", `{"`, "nul"} {
		emit("wrapper", []byte(w))
	}
}

var c24StructuralBytes = []byte{'{', '}', '[', ']', '"', ',', ':', '0', 'n', 't', '\\', 0x00, 0xFF}

type c24Doc struct {
	name string
	data []byte // harness-owned bytes: what Encode returned, copied the moment it returned
	// asReturned is the slice Encode returned, kept uncopied while the other documents are
	// encoded. Only the retention section (c24_retention_test.go, c24rCanonicalBuild) looks at it.
	asReturned []byte
}

// c24CanonicalDocs: one canonical message per JSON-RPC message shape the package knows.
func c24CanonicalDocs(r *ev.R) []c24Doc {
	var docs []c24Doc
	add := func(name string, msg any) {
		b, err := jsonrpc.Encode(msg)
		if err != nil {
			r.HarnessError("canonical %s: %v", name, err)
			return
		}
		// The documents are kept while 15 more Encode calls are made. The Decode sections work on
		// the harness's own copy (taken here, before any other call), so that an Encode whose
		// result does not survive later calls is JUDGED - by the retention section, which compares
		// asReturned with this copy after the last call - instead of silently corrupting the
		// canonical documents of the Decode neighbourhood (which would show up as failed guards).
		docs = append(docs, c24Doc{name: name, data: append([]byte(nil), b...), asReturned: b})
	}
	hdr := frame.Framer{NoPersist: true, End: true}
	add("connect", c24ClientMessage(&frame.ConnectPacket{Framer: hdr, Version: 4, ClientKey: "ck", DeviceID: "d1", DeviceFlag: 1, ClientTimestamp: 1700000000123, UID: "u1", Token: "t\"k"}, "req-1", 0))
	add("send", c24ClientMessage(&frame.SendPacket{Framer: hdr, Setting: 0xAA, MsgKey: "mk", Expire: 60, ClientMsgNo: "cm1", StreamNo: "s1", ChannelID: "g1", ChannelType: 2, Topic: "tp", Payload: []byte("hi!\x00")}, "req-2", 0))
	add("ping", c24ClientMessage(&frame.PingPacket{}, "req-3", 0))
	add("ping-params", c24ClientMessage(&frame.PingPacket{}, "req-4", 1))
	add("disconnect-request", c24ClientMessage(&frame.DisconnectPacket{ReasonCode: 2, Reason: "bye"}, "req-5", 0))
	add("recvack", c24ClientMessage(&frame.RecvackPacket{Framer: hdr, MessageID: 1234567890123, MessageSeq: 77}, "", 0))
	add("subscribe", jsonrpc.NewRequest(jsonrpc.MethodSubscribe, "req-6", jsonrpc.SubscribeParams{SubNo: "n1", ChannelID: "g1", ChannelType: 2, Param: "p"}))
	add("unsubscribe", jsonrpc.NewRequest(jsonrpc.MethodUnsubscribe, "req-7", jsonrpc.UnsubscribeParams{SubNo: "n1", ChannelID: "g1", ChannelType: 2}))
	out := func(name, id string, f frame.Frame) {
		msg, err := jsonrpc.FromFrame(id, f)
		if err != nil {
			r.HarnessError("canonical %s: %v", name, err)
			return
		}
		add(name, msg)
	}
	out("connack", "req-1", &frame.ConnackPacket{Framer: hdr, ServerVersion: 4, ServerKey: "sk", Salt: "salt", TimeDiff: -12, ReasonCode: 1, NodeId: 9})
	out("sendack", "req-2", &frame.SendackPacket{Framer: hdr, MessageID: 1234567890123, MessageSeq: 78, ReasonCode: 1})
	out("recv", "", &frame.RecvPacket{Framer: hdr, Setting: 0x88, MsgKey: "mk", Expire: 9, MessageID: 55, MessageSeq: 3, ClientMsgNo: "cm", StreamNo: "sn", StreamId: 4, StreamFlag: 1,
		Timestamp: 1700000000, ChannelID: "g1", ChannelType: 2, Topic: "tp", FromUID: "u2", Payload: []byte("yo")})
	out("event", "", &frame.EventPacket{Framer: hdr, Id: "e1", Type: "typ", Timestamp: 1700000000123, Data: []byte(`{"k":1}`)})
	out("disconnect-notification", "", &frame.DisconnectPacket{ReasonCode: 3, Reason: "kick"})
	out("pong", "req-3", &frame.PongPacket{})
	add("error-response", jsonrpc.NewGenericResponseWithErr("req-9", &jsonrpc.ErrorObject{Code: -32000, Message: "boom", Data: map[string]any{"k": []int{1}}}))
	add("result-response", jsonrpc.NewGenericResponse("req-8", json.RawMessage(`{}`)))
	docs = append(docs,
		c24Doc{name: "doc-minimal-ping", data: []byte(`{"method":"ping","id":"p"}`)},
		c24Doc{name: "doc-minimal-connect", data: []byte(`{"method":"connect","id":"1","params":{"uid":"u","token":"t","deviceFlag":0}}`)},
		c24Doc{name: "doc-minimal-recvack", data: []byte(`{"method":"recvack","params":{"messageId":"7","messageSeq":1}}`)})
	return docs
}

func c24DecodeNeighbourhood(r *ev.R) {
	docs := c24CanonicalDocs(r)
	th := r.Thorough()
	okTypes := map[string]bool{}
	record := func(e *ev.Enum, system, origin string, doc []byte) {
		out, v := c24CheckDecode(doc)
		e.Case(string(doc), true, out)
		if strings.HasPrefix(out, "ok:") {
			okTypes[out] = true
		}
		if v != nil {
			text := string(doc)
			if len(text) > 600 {
				text = text[:600] + "...(truncated, full document in doc_b64)"
			}
			r.Violation(ev.Violation{Fingerprint: v.fp, Message: v.msg[:min(len(v.msg), 1200)], System: system,
				Replay: c24Replay{Kind: "decode", DocB64: base64.StdEncoding.EncodeToString(doc), DocText: text, Origin: origin}})
		}
	}

	// the canonical documents themselves must decode (pong excepted: see c24CheckOutbound)
	e0 := r.NewEnum("decode-canonical")
	for _, d := range docs {
		out, v := c24CheckDecode(d.data)
		e0.Case(string(d.data), true, out)
		if v != nil {
			r.Violation(ev.Violation{Fingerprint: v.fp, Message: v.msg, System: "decode-canonical", Replay: c24Replay{Kind: "decode", DocB64: base64.StdEncoding.EncodeToString(d.data), DocText: string(d.data), Origin: d.name}})
		}
		if !strings.HasPrefix(out, "ok:") && d.name != "pong" {
			r.HarnessError("canonical document %s does not decode: %s: %s", d.name, out, d.data)
		}
		if d.name == "send" {
			r.Sample(map[string]any{"decode_case": "canonical", "doc": string(d.data), "outcome": out})
		}
	}
	e0.Done(true, map[string]any{"documents": len(docs)}, "unmutated canonical messages")

	// truncations + single-byte mutations
	e1 := r.NewEnum("decode-byte-mutations")
	total := 0
	for _, d := range docs {
		total += len(d.data)
		for n := 0; n < len(d.data); n++ {
			record(e1, "decode-byte-mutations", d.name+":truncate", d.data[:n])
		}
		repl := c24StructuralBytes
		if th {
			repl = c24AllBytes()
		}
		buf := make([]byte, len(d.data))
		for pos := 0; pos < len(d.data); pos++ {
			for _, b := range repl {
				if b == d.data[pos] {
					continue
				}
				copy(buf, d.data)
				buf[pos] = b
				record(e1, "decode-byte-mutations", d.name+":replace", buf)
			}
		}
		if th {
			// single-byte deletions and structural-byte insertions
			for pos := 0; pos < len(d.data); pos++ {
				del := append(append([]byte(nil), d.data[:pos]...), d.data[pos+1:]...)
				record(e1, "decode-byte-mutations", d.name+":delete", del)
			}
			for pos := 0; pos <= len(d.data); pos++ {
				for _, b := range c24StructuralBytes {
					ins := append(append(append([]byte(nil), d.data[:pos]...), b), d.data[pos:]...)
					record(e1, "decode-byte-mutations", d.name+":insert", ins)
				}
			}
		}
	}
	if th {
		// every pair of structural-byte replacements in the three shortest documents
		short := append([]c24Doc(nil), docs...)
		sort.SliceStable(short, func(i, j int) bool { return len(short[i].data) < len(short[j].data) })
		for _, d := range short[:3] {
			buf := make([]byte, len(d.data))
			for p1 := 0; p1 < len(d.data); p1++ {
				for p2 := p1 + 1; p2 < len(d.data); p2++ {
					for _, b1 := range c24StructuralBytes {
						for _, b2 := range c24StructuralBytes {
							copy(buf, d.data)
							buf[p1], buf[p2] = b1, b2
							record(e1, "decode-byte-mutations", d.name+":replace2", buf)
						}
					}
				}
			}
		}
	}
	sample := append([]byte(nil), docs[1].data...)
	sample[len(sample)/2] = '}'
	so, _ := c24CheckDecode(sample)
	r.Sample(map[string]any{"decode_case": "single-byte replacement", "doc": string(sample), "outcome": so})
	e1.Done(true, map[string]any{"documents": len(docs), "document_bytes": total, "replacement_bytes": ev.Pick(r, len(c24StructuralBytes), 256),
		"deletions_insertions": th, "pairs_on_3_shortest": th}, "every truncation and every single-byte replacement of every canonical message (thorough: all 256 byte values, deletions, structural insertions, pairs on the 3 shortest)")
	errs := int64(0)
	for _, k := range c24KnownErrs {
		errs += e1.Outcome("err:" + k.name)
	}
	r.Guard("decode-byte-mutations-rejected", errs >= 1000, "mutants answered with a classified error: %d", errs)
	r.Guard("decode-byte-mutations-accepted", e1.Evals()-errs >= 100, "mutants not answered with a classified error (accepted or other error): %d", e1.Evals()-errs)

	// structural mutants
	e2 := r.NewEnum("decode-structural-mutants")
	values := c24ValueMenu(th)
	var pairValues []string
	if th {
		pairValues = []string{"null", "0", `""`, "[]", "{}", `"x"`, "1e400", "true"}
	}
	kinds := map[string]int64{}
	for _, d := range docs {
		c24Structural(d.data, values, pairValues, func(kind string, mutant []byte) {
			kinds[kind]++
			record(e2, "decode-structural-mutants", d.name+":"+kind, mutant)
		})
	}
	b2 := map[string]any{"documents": len(docs), "value_menu": len(values), "pair_value_menu": len(pairValues)}
	for k, n := range kinds {
		b2["mutants_"+k] = n
	}
	e2.Done(true, b2, "every JSON node replaced by every menu value (wrong types, nulls, huge numbers, nesting 64 and >10000), every key deleted / duplicated / renamed / moved, extra members, document wrappers (thorough: every pair of nodes replaced)")
	r.Guard("decode-structural-kinds", len(kinds) >= 9, "structural mutant kinds: %d", len(kinds))
	names := []string{}
	for k := range okTypes {
		names = append(names, k)
	}
	sort.Strings(names)
	r.Guard("decode-accepts-every-message-type", len(names) >= 11, "message types accepted somewhere in the neighbourhood: %v", names)
}

func TestVerifC24(t *testing.T) {
	r := ev.Start(t, "C24")
	defer r.Finish()
	if rf := r.Replay(); rf != nil {
		c24RunReplay(r, rf)
		return
	}
	r.Assume("text fields (Go strings and EVENT.Data, which the JSON-RPC representation declares as a JSON string) range over valid UTF-8; JSON strings cannot carry other bytes")
	r.Assume("equivalence ignores what the representation does not carry: Framer.{FrameType,RemainingLength,FrameSize,HasServerVersion}; the Framer of DISCONNECT/PING/PONG; Setting bits outside receipt|signal|topic|stream; ClientSeq; SENDACK.ClientMsgNo; CONNECT.Version 0 == LatestVersion; nil vs empty byte slices")
	r.Assume("request ids are non-empty strings (the only ids Decode accepts for requests and responses)")
	c24RoundTrips(r)
	c24DecodeNeighbourhood(r)
	c24Retention(r) // c24_retention_test.go: call sequences with retained results
}
