package jsonrpc_test

// C24 retention section: short call SEQUENCES through the codec, results RETAINED across calls.
//
// The round-trip and Decode sections of c24_codec_test.go evaluate one call chain per input
// (encode -> decode) and consume every result before the next call is made. A breakage that
// lives in memory carried from one call to the next - Encode returning a slice of a recycled
// (sync.Pool / package-level) buffer that a later Encode overwrites, Decode handing out
// json.RawMessage fields of a reused scratch Probe, a failing call leaving a half-written
// scratch buffer for the next one - is invisible to them: every single call is still correct.
// In the gateway the results ARE retained: session A's response bytes are queued for writing
// while session B's response is being encoded.
//
// This section enumerates EVERY sequence of 1..L calls over a menu of 39 calls and every
// sequence of L+1 calls over a core menu of 17 of them (L = 2 quick, 3 thorough), keeps every result exactly as the package returned it (no copy), and judges:
//
//   identity   after every later call, every result obtained earlier in the sequence is
//              byte-for-byte what it was when it was returned (compared with a copy / a
//              rendering the harness took at that moment; the copy is the harness's own);
//   history    the result of a call does not depend on the calls made before it: it equals the
//              result the same call gave when it was first executed;
//   meaning    at the end of the sequence every retained encoding still decodes back to the
//              frame and the request id it was made from (the C24 round trip, judged on the
//              retained bytes instead of on fresh ones).
//
// Menu (see c24rOps): FromFrame+Encode of every outbound frame type, with two request ids of
// equal length (req-a / req-b: an overwrite shows up as "the wrong request id"), a 200-byte id,
// short and long bodies (PONG ~40 bytes .. RECV ~2.6 KiB, so an intervening encoding can be
// longer, shorter or exactly as long as the retained one); Encode of every inbound client
// message; EncodeErrorResponse; a failing Encode; FromFrame alone; Decode alone (request,
// response with raw result, error response, notification, rejected, truncated, garbage);
// Decode+ToFrame of every inbound message.
//
// A second enumeration runs the same sequences with the calls distributed over two goroutines
// ("two sessions"), strictly handed over through unbuffered channels - one call at a time,
// never overlapping: real parallel overlap is not enumerable and is outside this check.
// A third case rebuilds the 16 canonical documents of the Decode sections (16 Encode calls)
// and judges all 16 retained results at the end; c24CanonicalDocs itself hands harness-owned
// copies to the Decode sections, so those sections are not disturbed by such a breakage.
//
// Determinism: the run is pinned to GOMAXPROCS=1 (harness.json "gomaxprocs": 1, whole codec run) and the garbage
// collector only runs between sequences (SetGCPercent(-1) + runtime.GC() every 128
// sequences). A sync.Pool hands an object Put on a P back to the next Get on the same P
// (per-P private slot), so with one P and no collection in between, the hand-over of a pooled
// object from call i to call i+1 is deterministic - also from one goroutine to the other. The
// guard "retention-pool-reuse-observable" demonstrates this in the running process with a
// harness-local model of the bug class. The ORACLE never depends on any of this: on a tree
// without recycled memory every call is a pure function and every result is caller-owned.
// The hidden process state (what a pool holds) cannot be reset between sequences; a sequence
// starts from whatever the previous ones left behind, which is a function of the enumeration
// order only (VERIF_SEED rotates the menu).

import (
	"bytes"
	"encoding/json"
	"errors"
	"fmt"
	"reflect"
	"runtime"
	"runtime/debug"
	"sort"
	"strings"
	"sync"

	"github.com/WuKongIM/WuKongIM/pkg/protocol/frame"
	"github.com/WuKongIM/WuKongIM/pkg/protocol/jsonrpc"
	"github.com/WuKongIM/WuKongIM/pkg/zzverif/ev"
)

const (
	c24rEncode    = "encode"
	c24rErrResp   = "encode-error-response"
	c24rEncFail   = "encode-fail"
	c24rFromFrame = "fromframe"
	c24rDecode    = "decode"
	c24rToFrame   = "toframe"
)

// c24rHeld is what a caller holds after one call: the real results, uncopied, plus the
// harness's own record of what they were at that moment.
type c24rHeld struct {
	op *c24rOp
	// results exactly as returned by the package
	enc   []byte
	msg   any
	probe jsonrpc.Probe
	frm   frame.Frame
	id    string
	err   string
	pan   string
	// harness-owned record, taken immediately after the call returned
	encCopy []byte
	snap    [3]string
}

type c24rOp struct {
	Label string
	Kind  string
	run   func(h *c24rHeld)
	// expectation for retained encodings ("out": FromFrame side, "in": client message, "errresp")
	dir string
	f   frame.Frame
	id  string
	// reference: the result of the first execution of this call in the process
	ref *c24rHeld
	// refBroken: the call's own encoding does not decode back even when nothing else was called (a
	// single-call defect, reported once under its own fingerprint and judged in detail by the
	// round-trip sections); the end-of-sequence meaning check is then skipped for this call
	refBroken bool
}

// c24rRender renders everything in h except the encoding (compared bytewise) into strings,
// following every pointer and raw-JSON field the caller can reach: [0] the message (and id /
// error), [1] the raw JSON members of the Probe, [2] the frame.
func c24rRender(h *c24rHeld) [3]string {
	var b, pb, fb strings.Builder
	fmt.Fprintf(&b, "err=%q panic=%q id=%q", h.err, h.pan, h.id)
	if h.msg != nil {
		fmt.Fprintf(&b, " msg=%T", h.msg)
		if mb, err := json.Marshal(h.msg); err != nil { // encoding/json directly, not the package's Encode
			fmt.Fprintf(&b, " <not marshalable: %v>", err)
		} else {
			b.Write(mb)
		}
		if g, ok := h.msg.(jsonrpc.GenericResponse); ok {
			fmt.Fprintf(&b, " raw-result=%q", []byte(g.Result))
		}
	}
	if h.op != nil && (h.op.Kind == c24rDecode || h.op.Kind == c24rToFrame) {
		p := h.probe
		fmt.Fprintf(&pb, "jsonrpc=%q id=%q method=%q params=%q result=%q error=%q", []byte(p.Jsonrpc), []byte(p.ID), p.Method, []byte(p.Params), []byte(p.Result), []byte(p.Error))
	}
	if h.frm != nil && !reflect.ValueOf(h.frm).IsNil() {
		typ, carried := c24Carried(h.frm)
		fj, _ := json.Marshal(h.frm)
		fmt.Fprintf(&fb, "%s %v %s", typ, carried, fj)
	}
	return [3]string{b.String(), pb.String(), fb.String()}
}

// c24rExec executes one call and records the harness's copy of its results.
func c24rExec(op *c24rOp) *c24rHeld {
	h := &c24rHeld{op: op}
	if p := ev.Recover(func() { op.run(h) }); p != nil {
		h.pan = p.Error()
	}
	if h.enc != nil {
		h.encCopy = append([]byte(nil), h.enc...) // the harness's copy; h.enc stays as returned
	}
	h.snap = c24rRender(h)
	return h
}

// c24rIntact compares a retained result with the harness's record of it. part names what
// changed: "encode-result", "decode-message", "decode-probe", "fromframe-message", "toframe-frame".
func c24rIntact(h *c24rHeld) (ok bool, part, detail string) {
	if !bytes.Equal(h.enc, h.encCopy) {
		return false, "encode-result", fmt.Sprintf("the %d bytes returned by %s were %q and are now %q", len(h.encCopy), h.op.Label, c24rClip(h.encCopy), c24rClip(h.enc))
	}
	now := c24rRender(h)
	for i, name := range []string{"message", "probe", "frame"} {
		if now[i] == h.snap[i] {
			continue
		}
		was, is := h.snap[i], now[i]
		d := 0
		for d < len(is) && d < len(was) && is[d] == was[d] {
			d++
		}
		from := max(0, d-30)
		part = map[string]string{c24rFromFrame: "fromframe-", c24rDecode: "decode-", c24rToFrame: "decode-"}[h.op.Kind] + name
		if name == "frame" {
			part = "toframe-frame"
		}
		return false, part, fmt.Sprintf("the %s obtained by %s differs from the harness's record of it from offset %d on: it was ...%s... and is now ...%s...",
			name, h.op.Label, d, was[from:min(len(was), d+90)], is[from:min(len(is), d+90)])
	}
	return true, "", ""
}

func c24rClip(b []byte) string {
	if len(b) > 260 {
		return string(b[:200]) + "...(" + fmt.Sprint(len(b)) + " bytes)..." + string(b[len(b)-40:])
	}
	return string(b)
}

// c24rMeaning decodes a retained encoding and compares it with what it was made from.
// "" = it still decodes back to the frame and request id.
func c24rMeaning(h *c24rHeld) string {
	op := h.op
	if op.dir == "" || h.enc == nil {
		return ""
	}
	var problem string
	if p := ev.Recover(func() {
		dec, err := c24Decode(h.enc)
		if err != nil {
			problem = "Decode rejects them: " + err.Error()
			return
		}
		switch op.dir {
		case "out":
			typ, _ := c24Carried(op.f)
			back, gotID, err := c24ClientFrame(typ, dec)
			if err != nil {
				problem = "not readable as " + typ + ": " + err.Error()
				return
			}
			if field, detail := c24Diff(op.f, back); field != "" {
				problem = "they decode to a different " + typ + ": " + detail
				return
			}
			if (typ == "CONNACK" || typ == "SENDACK" || typ == "PONG") && gotID != op.id {
				problem = fmt.Sprintf("they decode to a response with request id %q, the response was made for %q", gotID, op.id)
			}
		case "in":
			typ, _ := c24Carried(op.f)
			back, gotID, err := jsonrpc.ToFrame(dec)
			if err != nil {
				problem = "ToFrame rejects the decoded message: " + err.Error()
				return
			}
			if field, detail := c24Diff(op.f, back); field != "" {
				problem = "they decode to a different " + typ + ": " + detail
				return
			}
			want := op.id
			if typ == "RECVACK" {
				want = ""
			}
			if gotID != want {
				problem = fmt.Sprintf("they decode to request id %q, the message was written with %q", gotID, want)
			}
		case "errresp":
			g, ok := dec.(jsonrpc.GenericResponse)
			if !ok || g.Error == nil || g.ID != op.id || g.Error.Message != "boom" {
				problem = fmt.Sprintf("they decode to %T %+v, want the error response for %q", dec, dec, op.id)
			}
		}
	}); p != nil {
		problem = "decoding them panics: " + p.Error()
	}
	return problem
}

// ------------------------------------------------------------------ the menu of calls

func c24rOps() []*c24rOp {
	var ops []*c24rOp
	hdr := frame.Framer{NoPersist: true, End: true}
	long := strings.Repeat("k", 300)
	longID := strings.Repeat("i", 200)

	out := func(label, id string, f frame.Frame) {
		ops = append(ops, &c24rOp{Label: "E:" + label + "#" + id[:min(len(id), 8)], Kind: c24rEncode, dir: "out", f: f, id: id, run: func(h *c24rHeld) {
			msg, err := jsonrpc.FromFrame(id, f)
			if err != nil {
				h.err = "fromframe: " + err.Error()
				return
			}
			var eerr error
			h.enc, eerr = jsonrpc.Encode(msg)
			if eerr != nil {
				h.err = "encode: " + eerr.Error()
			}
		}})
	}
	connack := func() frame.Frame {
		return &frame.ConnackPacket{Framer: hdr, ServerVersion: 4, ServerKey: "sk", Salt: "salt", TimeDiff: -12, ReasonCode: 1, NodeId: 9}
	}
	sendack := func() frame.Frame {
		return &frame.SendackPacket{Framer: hdr, MessageID: 1234567890123, MessageSeq: 78, ReasonCode: 1}
	}
	recvShort := func() frame.Frame {
		return &frame.RecvPacket{MessageID: 55, MessageSeq: 3, ChannelID: "g1", ChannelType: 2, FromUID: "u2", Payload: []byte("yo")}
	}
	recvLong := func() frame.Frame {
		return &frame.RecvPacket{Framer: hdr, Setting: 0x88, MsgKey: long, Expire: 9, MessageID: -1 << 63, MessageSeq: 1<<64 - 1, ClientMsgNo: long, StreamNo: "sn", StreamId: 1 << 63,
			StreamFlag: 1, Timestamp: 1700000000, ChannelID: long, ChannelType: 255, Topic: "tp", FromUID: "u2", Payload: bytes.Repeat([]byte{0xab}, 1025)}
	}
	out("CONNACK", "req-a", connack())
	out("CONNACK", "req-b", connack())
	out("SENDACK", "req-a", sendack())
	out("SENDACK", "req-b", sendack())
	out("PONG", "req-a", &frame.PongPacket{})
	out("PONG", "req-b", &frame.PongPacket{})
	out("PONG", longID, &frame.PongPacket{})
	out("RECV-short", "n", recvShort())
	out("RECV-long", "n", recvLong())
	out("EVENT", "n", &frame.EventPacket{Framer: hdr, Id: "e1", Type: "typ", Timestamp: 1700000000123, Data: []byte(`{"k":1}`)})
	out("DISCONNECT", "n", &frame.DisconnectPacket{ReasonCode: 3, Reason: "kick"})

	in := func(label, id string, f frame.Frame, variant int) {
		ops = append(ops, &c24rOp{Label: "E:" + label + "#" + id, Kind: c24rEncode, dir: "in", f: f, id: id, run: func(h *c24rHeld) {
			var eerr error
			h.enc, eerr = jsonrpc.Encode(c24ClientMessage(f, id, variant))
			if eerr != nil {
				h.err = "encode: " + eerr.Error()
			}
		}})
	}
	connect := func() frame.Frame {
		return &frame.ConnectPacket{Framer: hdr, Version: 4, ClientKey: "ck", DeviceID: "d1", DeviceFlag: 1, ClientTimestamp: 1700000000123, UID: "u1", Token: "t\"k"}
	}
	send := func() frame.Frame {
		return &frame.SendPacket{Framer: hdr, Setting: 0xAA, MsgKey: "mk", Expire: 60, ClientMsgNo: "cm1", StreamNo: "s1", ChannelID: "g1", ChannelType: 2, Topic: "tp", Payload: []byte("hi!\x00")}
	}
	in("connect", "req-a", connect(), 0)
	in("send", "req-a", send(), 0)
	in("send", "req-b", send(), 0)
	in("ping", "1", &frame.PingPacket{}, 0)
	in("ping-params", "req-a", &frame.PingPacket{}, 1)
	in("disconnect", "req-a", &frame.DisconnectPacket{ReasonCode: 2, Reason: "bye"}, 0)
	in("recvack", "-", &frame.RecvackPacket{Framer: hdr, MessageID: 1234567890123, MessageSeq: 77}, 0)

	for _, id := range []string{"req-a", "req-b"} {
		ops = append(ops, &c24rOp{Label: "EncodeErrorResponse#" + id, Kind: c24rErrResp, dir: "errresp", id: id, run: func(h *c24rHeld) {
			h.enc = jsonrpc.EncodeErrorResponse(id, errors.New("boom"))
		}})
	}
	ops = append(ops, &c24rOp{Label: "E:unmarshalable", Kind: c24rEncFail, run: func(h *c24rHeld) {
		var eerr error
		// a message whose second member cannot be marshalled: the first one has been written by then
		h.enc, eerr = jsonrpc.Encode(struct {
			A string      `json:"a"`
			B chan string `json:"b"`
		}{A: strings.Repeat("x", 64)})
		if eerr == nil {
			h.err = "no error"
		} else {
			h.err = "encode error (expected)"
		}
	}})

	ff := func(label, id string, f frame.Frame) {
		ops = append(ops, &c24rOp{Label: "F:" + label + "#" + id, Kind: c24rFromFrame, run: func(h *c24rHeld) {
			var err error
			h.msg, err = jsonrpc.FromFrame(id, f)
			if err != nil {
				h.err = err.Error()
			}
		}})
	}
	ff("CONNACK", "req-a", connack())
	ff("PONG", "req-b", &frame.PongPacket{})
	ff("RECV-long", "n", recvLong())

	// documents for the Decode calls: written with encoding/json by the harness (never with the
	// package's Encode), cap == len, never modified
	doc := func(v any) []byte {
		b, err := json.Marshal(v)
		if err != nil {
			panic("harness: " + err.Error())
		}
		return append(make([]byte, 0, len(b)), b...)
	}
	dd := func(label string, d []byte) {
		ops = append(ops, &c24rOp{Label: "D:" + label, Kind: c24rDecode, run: func(h *c24rHeld) {
			var err error
			h.msg, h.probe, err = jsonrpc.Decode(json.NewDecoder(bytes.NewReader(d)))
			if err != nil {
				h.err = c24ErrClass(err) + ": " + err.Error()
			}
		}})
	}
	mustMsg := func(id string, f frame.Frame) any {
		m, err := jsonrpc.FromFrame(id, f)
		if err != nil {
			panic("harness: " + err.Error())
		}
		return m
	}
	dd("connack-response#req-a", doc(mustMsg("req-a", connack())))
	dd("connack-response#req-b", doc(mustMsg("req-b", connack())))
	dd("result-response#req-a", []byte(`{"jsonrpc":"2.0","id":"req-a","result":{"k":[1,2,3],"s":"`+strings.Repeat("r", 90)+`"}}`))
	dd("error-response#req-a", doc(jsonrpc.NewGenericResponseWithErr("req-a", &jsonrpc.ErrorObject{Code: -32000, Message: "boom", Data: map[string]any{"k": []int{1}}})))
	dd("send-request#req-a", doc(c24ClientMessage(send(), "req-a", 0)))
	dd("recv-notification", doc(mustMsg("n", recvLong())))
	dd("subscribe-request", doc(jsonrpc.NewRequest(jsonrpc.MethodSubscribe, "req-6", jsonrpc.SubscribeParams{SubNo: "n1", ChannelID: "g1", ChannelType: 2, Param: "p"})))
	dd("truncated", []byte(`{"jsonrpc":"2.0","method":"ping","id":"d"`))
	dd("garbage", []byte(`{"jsonrpc":"2.0",]`))
	dd("wrong-version", []byte(`{"jsonrpc":"1.0","method":"ping","id":"d"}`))

	tt := func(label, id string, f frame.Frame, variant int) {
		d := doc(c24ClientMessage(f, id, variant))
		ops = append(ops, &c24rOp{Label: "T:" + label + "#" + id, Kind: c24rToFrame, run: func(h *c24rHeld) {
			var err error
			h.msg, h.probe, err = jsonrpc.Decode(json.NewDecoder(bytes.NewReader(d)))
			if err != nil {
				h.err = "decode: " + err.Error()
				return
			}
			h.frm, h.id, err = jsonrpc.ToFrame(h.msg)
			if err != nil {
				h.err = "toframe: " + err.Error()
			}
		}})
	}
	tt("connect", "req-a", connect(), 0)
	tt("send", "req-b", send(), 0)
	tt("ping", "1", &frame.PingPacket{}, 0)
	tt("disconnect", "req-a", &frame.DisconnectPacket{ReasonCode: 2, Reason: "bye"}, 0)
	tt("recvack", "-", &frame.RecvackPacket{Framer: hdr, MessageID: 1234567890123, MessageSeq: 77}, 0)
	return ops
}

// ------------------------------------------------------------------ sequences

type c24rReplay struct {
	Kind     string   `json:"kind"` // "retention-sequence" | "retention-canonical-build"
	Ops      []string `json:"ops,omitempty"`
	Sessions []int    `json:"sessions,omitempty"` // goroutine each call is made on (0 = the test goroutine)
	Note     string   `json:"note,omitempty"`
}

// c24rSession is the second goroutine: it executes one call at a time, on request.
type c24rSession struct {
	req  chan func()
	done chan struct{}
}

func c24rNewSession() *c24rSession {
	s := &c24rSession{req: make(chan func()), done: make(chan struct{})}
	go func() {
		for f := range s.req {
			f()
			s.done <- struct{}{}
		}
	}()
	return s
}

func (s *c24rSession) do(f func()) { s.req <- f; <-s.done }

type c24rStats struct {
	judged        int64 // retained results compared after a later call
	encLonger     int64 // retained encoding followed by a longer / shorter / equally long encoding
	encShorter    int64
	encEqual      int64
	afterEncode   map[string]int64 // kind of the call made while an encoding was retained
	refMismatches int64
}

// c24rRunSequence executes one sequence and returns its outcome label and the first violation.
func c24rRunSequence(seq []*c24rOp, sessions []int, second *c24rSession, st *c24rStats) (string, *c24Viol) {
	held := make([]*c24rHeld, 0, len(seq))
	labels := func(n int) string {
		l := make([]string, n)
		for i := range l {
			l[i] = seq[i].Label
			if sessions != nil && sessions[i] == 1 {
				l[i] += "@session2"
			}
		}
		return "[" + strings.Join(l, ", ") + "]"
	}
	for k, op := range seq {
		var h *c24rHeld
		if sessions != nil && sessions[k] == 1 {
			second.do(func() { h = c24rExec(op) })
		} else {
			h = c24rExec(op)
		}
		if h.pan != "" {
			return "panic", &c24Viol{"C24:panic-in-call-sequence-" + op.Kind, fmt.Sprintf("call %d of %s: %s", k+1, labels(k+1), h.pan)}
		}
		// history: the same call gave the same result when it was first made
		if op.ref != nil && (h.snap != op.ref.snap || !bytes.Equal(h.encCopy, op.ref.encCopy)) {
			if st != nil {
				st.refMismatches++
			}
			return "history-dependent", &c24Viol{"C24:" + op.Kind + "-result-depends-on-earlier-calls",
				fmt.Sprintf("%s, made after %s, returned %q / %s; made first in the process it returned %q / %s", op.Label, labels(k), c24rClip(h.encCopy), c24rClip([]byte(strings.Join(h.snap[:], " | "))),
					c24rClip(op.ref.encCopy), c24rClip([]byte(strings.Join(op.ref.snap[:], " | "))))}
		}
		// identity: everything obtained earlier is still what it was
		for i, e := range held {
			if st != nil {
				st.judged++
				if e.enc != nil && i == k-1 {
					st.afterEncode[op.Kind]++
					if h.enc != nil {
						switch {
						case len(h.enc) > len(e.enc):
							st.encLonger++
						case len(h.enc) < len(e.enc):
							st.encShorter++
						default:
							st.encEqual++
						}
					}
				}
			}
			if ok, part, detail := c24rIntact(e); !ok {
				by := map[string]string{c24rEncode: "encode", c24rErrResp: "encode", c24rEncFail: "encode", c24rFromFrame: "fromframe", c24rDecode: "decode", c24rToFrame: "decode"}[op.Kind]
				msg := fmt.Sprintf("sequence %s: the result of call %d is no longer what the caller was given after call %d: %s", labels(k+1), i+1, k+1, detail)
				if m := c24rMeaning(e); m != "" {
					msg += "; " + m
				}
				return "retained-result-changed", &c24Viol{"C24:" + part + "-overwritten-by-later-" + by, msg}
			}
		}
		held = append(held, h)
	}
	// meaning: the retained encodings still decode back to what they were made from
	for i, e := range held {
		if e.op.refBroken {
			continue
		}
		if m := c24rMeaning(e); m != "" {
			return "retained-encoding-wrong", &c24Viol{"C24:retained-encoding-does-not-decode-back", fmt.Sprintf("sequence %s: the bytes returned by call %d (%q): %s", labels(len(seq)), i+1, c24rClip(e.enc), m)}
		}
	}
	return fmt.Sprintf("intact:len%d", len(seq)), nil
}

// c24rCore is the reduced menu used for the longest sequences: the two equal-length responses,
// the shortest and the longest encodings, one inbound message, the error response, the failing
// Encode, and one call of every other kind (incl. rejected input).
var c24rCore = map[string]bool{"E:CONNACK#req-a": true, "E:CONNACK#req-b": true, "E:PONG#req-a": true, "E:PONG#iiiiiiii": true, "E:RECV-short#n": true, "E:RECV-long#n": true,
	"E:send#req-a": true, "E:ping#1": true, "EncodeErrorResponse#req-a": true, "E:unmarshalable": true, "F:CONNACK#req-a": true, "D:connack-response#req-a": true,
	"D:result-response#req-a": true, "D:recv-notification": true, "D:garbage": true, "T:send#req-b": true, "T:ping#1": true}

// c24rPoolProbe is a harness-local model of the bug class (marshal into a pooled buffer, put it
// back, return a slice of it). It is used ONLY by the vacuity guard that shows that, in this
// process, two consecutive calls really share pooled memory.
var c24rProbePool = sync.Pool{New: func() any { return new(bytes.Buffer) }}

func c24rPoolProbe(s string) []byte {
	b := c24rProbePool.Get().(*bytes.Buffer)
	b.Reset()
	b.WriteString(s)
	c24rProbePool.Put(b)
	return b.Bytes()
}

func c24rByLabel(ops []*c24rOp) map[string]*c24rOp {
	m := map[string]*c24rOp{}
	for _, o := range ops {
		if _, dup := m[o.Label]; dup {
			panic("harness: duplicate call label " + o.Label)
		}
		m[o.Label] = o
	}
	return m
}

// c24rCanonicalBuild rebuilds the canonical documents of the Decode sections, keeps all results
// as returned and judges them after the last one was made.
func c24rCanonicalBuild(r *ev.R) (intact, changed int, first *c24Viol) {
	docs := c24CanonicalDocs(r)
	for i, d := range docs {
		if d.asReturned == nil {
			continue // a literal document, not produced by Encode
		}
		if bytes.Equal(d.asReturned, d.data) {
			intact++
			continue
		}
		changed++
		if first == nil {
			first = &c24Viol{"C24:encode-result-overwritten-by-later-encode", fmt.Sprintf("canonical build: after all %d documents were encoded, the bytes returned for document %d (%s) were %q and are now %q",
				len(docs), i+1, d.name, c24rClip(d.data), c24rClip(d.asReturned))}
		}
	}
	return intact, changed, first
}

// c24rRefViolation judges the reference execution of a call on its own (nothing retained yet):
// an encoding that does not decode back here is a single-call defect with its own fingerprint.
func c24rRefViolation(o *c24rOp) *c24Viol {
	m := c24rMeaning(o.ref)
	if m == "" {
		return nil
	}
	o.refBroken = true
	typ := "error-response"
	if o.f != nil {
		typ, _ = c24Carried(o.f)
	}
	return &c24Viol{"C24:menu-call-does-not-round-trip-" + o.dir + "-" + typ, fmt.Sprintf("%s alone: the bytes %q: %s", o.Label, c24rClip(o.ref.enc), m)}
}

// c24rSetup builds the menu and the second goroutine.
func c24rSetup() ([]*c24rOp, map[string]*c24rOp, *c24rSession) {
	ops := c24rOps()
	return ops, c24rByLabel(ops), c24rNewSession()
}

// c24rRunReplay re-executes one recorded retention case.
func c24rRunReplay(r *ev.R, rf *ev.ReplayFile) {
	defer debug.SetGCPercent(debug.SetGCPercent(-1))
	ops, byLabel, second := c24rSetup()
	defer close(second.req)
	var rp c24rReplay
	if err := json.Unmarshal(rf.Replay, &rp); err != nil {
		r.HarnessError("replay: %v", err)
		return
	}
	e := r.NewEnum("replay")
	var v *c24Viol
	out := ""
	switch rp.Kind {
	case "retention-sequence":
		var seq []*c24rOp
		for _, l := range rp.Ops {
			o := byLabel[l]
			if o == nil {
				r.HarnessError("replay: unknown call %q", l)
				return
			}
			seq = append(seq, o)
		}
		// as in the enumeration, every call has been made once before (reference results)
		var refViol *c24Viol
		for _, o := range ops {
			o.ref = c24rExec(o)
			if rv := c24rRefViolation(o); rv != nil && len(seq) == 1 && seq[0] == o {
				refViol = rv
			}
		}
		if out, v = c24rRunSequence(seq, rp.Sessions, second, nil); v == nil && refViol != nil {
			out, v = "menu-call-broken", refViol
		}
	case "retention-canonical-build":
		_, _, v = c24rCanonicalBuild(r)
		out = "canonical-build"
	default:
		r.HarnessError("replay: unknown kind %q", rp.Kind)
		return
	}
	fmt.Printf("replay %s %v sessions %v -> %s\n", rp.Kind, rp.Ops, rp.Sessions, out)
	e.CaseByConstruction(true, out)
	e.Done(true, nil, "replay")
	r.Sample(rp)
	if v != nil {
		fmt.Printf("replay: VIOLATES [%s] %s\n", v.fp, v.msg)
		r.MarkReplayReproduced()
		r.Violation(ev.Violation{Fingerprint: v.fp, Message: v.msg, System: rf.System, Replay: rp})
	}
}

// c24Retention is the retention part of TestVerifC24 (see the file comment).
func c24Retention(r *ev.R) {
	defer debug.SetGCPercent(debug.SetGCPercent(-1)) // the collector runs between sequences only (see file comment)
	ops, _, second := c24rSetup()
	defer close(second.req)

	r.Assume("retention: calls are made one at a time (also when distributed over two goroutines); truly overlapping calls are outside this enumeration")
	r.Assume("retention: GOMAXPROCS=1 and no garbage collection inside a sequence, so that a recycled (sync.Pool) object is handed from one call to the next deterministically; the oracle itself does not depend on it")

	// ---- environment guards
	r.Guard("retention-gomaxprocs-1", runtime.GOMAXPROCS(0) == 1, "GOMAXPROCS=%d (harness.json pins the run to 1)", runtime.GOMAXPROCS(0))
	a := c24rPoolProbe("AAAAAAAAAAAAAAAA")
	_ = c24rPoolProbe("BBBBBBBBBBBBBBBB")
	same := string(a) == "BBBBBBBBBBBBBBBB"
	c := c24rPoolProbe("CCCCCCCCCCCCCCCC")
	second.do(func() { _ = c24rPoolProbe("DDDDDDDDDDDDDDDD") })
	cross := string(c) == "DDDDDDDDDDDDDDDD"
	r.Guard("retention-pool-reuse-observable", same && cross, "harness-local pooled-buffer model: second call on the same goroutine overwrote the first result: %v; call on the second goroutine overwrote it: %v", same, cross)

	// ---- reference results: every call once, in menu order, before any sequence
	kinds := map[string]int{}
	for _, o := range ops {
		o.ref = c24rExec(o)
		kinds[o.Kind]++
		if o.ref.pan != "" {
			r.Violation(ev.Violation{Fingerprint: "C24:panic-in-call-sequence-" + o.Kind, Message: o.Label + ": " + o.ref.pan, System: "retention-sequences",
				Replay: c24rReplay{Kind: "retention-sequence", Ops: []string{o.Label}}})
		}
		if (o.Kind == c24rEncode || o.Kind == c24rErrResp) && (o.ref.enc == nil || o.ref.err != "") {
			r.HarnessError("retention menu: %s does not encode: %s", o.Label, o.ref.err)
		}
		if o.Kind == c24rToFrame && o.ref.pan == "" && (o.ref.frm == nil || o.ref.err != "") {
			r.HarnessError("retention menu: %s does not give a frame: %s", o.Label, o.ref.err)
		}
		if v := c24rRefViolation(o); v != nil {
			r.Violation(ev.Violation{Fingerprint: v.fp, Message: v.msg, System: "retention-sequences", Replay: c24rReplay{Kind: "retention-sequence", Ops: []string{o.Label}}})
		}
	}
	r.Guard("retention-menu-kinds", len(kinds) == 6 && len(ops) >= 30, "calls in the menu: %d, per kind %v", len(ops), kinds)

	// VERIF_SEED rotates the menu (order of enumeration only)
	rot := int(((r.Seed() % int64(len(ops))) + int64(len(ops))) % int64(len(ops)))
	menu := append(append([]*c24rOp(nil), ops[rot:]...), ops[:rot]...)

	st := &c24rStats{afterEncode: map[string]int64{}}
	nseq := 0
	tick := func() {
		nseq++
		if nseq%128 == 0 {
			runtime.GC()
		}
	}
	report := func(system string, seq []*c24rOp, sessions []int, v *c24Viol) {
		l := make([]string, len(seq))
		for i, o := range seq {
			l[i] = o.Label
		}
		r.Violation(ev.Violation{Fingerprint: v.fp, Message: v.msg[:min(len(v.msg), 1500)], System: system,
			Replay: c24rReplay{Kind: "retention-sequence", Ops: l, Sessions: sessions, Note: "every call of the menu is executed once before the sequence, as in the enumeration"}})
	}

	// ---- (1) every sequence of 1..L calls over the full menu and every sequence of L+1 calls
	// over the core menu, on one goroutine (L = 2 quick, 3 thorough)
	fullLen := ev.Pick(r, 2, 3)
	var core []*c24rOp
	for _, o := range menu {
		if c24rCore[o.Label] {
			core = append(core, o)
		}
	}
	if len(core) != len(c24rCore) {
		r.HarnessError("retention: core menu names %d calls, %d exist", len(c24rCore), len(core))
	}
	e1 := r.NewEnum("retention-sequences")
	sampled := false
	// shortest sequences first, so that the first counterexample reported is a shortest one
	enumerate := func(from []*c24rOp, length int) {
		sizes := make([]int, length)
		for i := range sizes {
			sizes[i] = len(from)
		}
		seq := make([]*c24rOp, length)
		c24Product(sizes, func(ix []int) {
			for i := range seq {
				seq[i] = from[ix[i]]
			}
			out, v := c24rRunSequence(seq, nil, second, st)
			tick()
			e1.CaseByConstruction(length >= 2, out)
			if v != nil {
				report("retention-sequences", seq, nil, v)
			} else if !sampled && length == 3 && seq[0].Label == "E:CONNACK#req-a" && seq[1].Label == "E:CONNACK#req-b" && seq[2].Label == "D:garbage" {
				sampled = true
				r.Sample(map[string]any{"retention_sequence": []string{seq[0].Label, seq[1].Label, seq[2].Label}, "retained_first_result": string(seq[0].ref.encCopy),
					"retained_second_result": string(seq[1].ref.encCopy), "outcome": out})
			}
		})
	}
	for length := 1; length <= fullLen; length++ {
		enumerate(menu, length) // full menu
	}
	enumerate(core, fullLen+1) // core menu (shorter sequences over it are contained in the loop above)
	labels := make([]string, len(ops))
	for i, o := range ops {
		labels[i] = o.Label
	}
	sort.Strings(labels)
	coreLabels := make([]string, 0, len(core))
	for _, o := range core {
		coreLabels = append(coreLabels, o.Label)
	}
	sort.Strings(coreLabels)
	e1.Done(true, map[string]any{"calls": labels, "max_length_full_menu": fullLen, "core_calls": coreLabels, "length_core_menu": fullLen + 1, "retained_results_judged": st.judged},
		"every sequence of 1..max_length_full_menu calls over the full menu and every sequence of length_core_menu calls over the core menu, on one goroutine; every result retained as returned and judged after every later call (identity), against its first execution (history) and by decoding it at the end (meaning); non-trivial = at least one call is made while a result is retained")
	r.Guard("retention-sequences-count", e1.Evals() >= 6000, "sequences executed: %d", e1.Evals())
	r.Guard("retention-encode-then-longer-shorter-equal", st.encLonger > 0 && st.encShorter > 0 && st.encEqual > 0,
		"a retained encoding directly followed by a longer / shorter / equally long encoding: %d / %d / %d", st.encLonger, st.encShorter, st.encEqual)
	r.Guard("retention-every-call-kind-after-encode", len(st.afterEncode) == 6, "kinds of calls made directly after a retained encoding: %v", st.afterEncode)
	r.Guard("retention-sample-recorded", sampled || r.ViolationCount() > 0, "the written-out sequence [E:CONNACK#req-a, E:CONNACK#req-b, D:garbage] was reached: %v", sampled)
	r.Count("retention_results_judged_after_later_call", st.judged)

	// ---- (2) the same sequences with the calls distributed over two goroutines
	e2 := r.NewEnum("retention-two-sessions")
	st2 := &c24rStats{afterEncode: map[string]int64{}}
	assignments := [][]int{{0, 1}}
	if r.Thorough() {
		assignments = append(assignments, []int{0, 1, 0}, []int{0, 1, 1}, []int{0, 0, 1})
	}
	for _, as := range assignments {
		seq := make([]*c24rOp, len(as))
		sizes := make([]int, len(as))
		for i := range sizes {
			sizes[i] = len(menu)
		}
		c24Product(sizes, func(ix []int) {
			for i := range seq {
				seq[i] = menu[ix[i]]
			}
			out, v := c24rRunSequence(seq, as, second, st2)
			tick()
			e2.CaseByConstruction(true, out)
			if v != nil {
				report("retention-two-sessions", append([]*c24rOp(nil), seq...), as, v)
			}
		})
	}
	e2.Done(true, map[string]any{"calls": len(ops), "goroutine_assignments": assignments, "retained_results_judged": st2.judged},
		"every sequence over the menu for each listed assignment of calls to goroutines (0 = test goroutine, 1 = second goroutine), strictly handed over, never overlapping")
	r.Guard("retention-two-sessions-count", e2.Evals() >= int64(len(ops)*len(ops)), "sequences executed: %d", e2.Evals())

	// ---- (3) the canonical documents of the Decode sections, built in one go and all retained
	e3 := r.NewEnum("retention-canonical-build")
	nIntact, nChanged, v := c24rCanonicalBuild(r)
	n := nIntact + nChanged
	for i := 0; i < nIntact; i++ {
		e3.CaseByConstruction(true, "intact")
	}
	for i := 0; i < nChanged; i++ {
		e3.CaseByConstruction(true, "changed")
	}
	if v != nil {
		r.Violation(ev.Violation{Fingerprint: v.fp, Message: v.msg, System: "retention-canonical-build", Replay: c24rReplay{Kind: "retention-canonical-build"}})
	}
	e3.Done(true, map[string]any{"encode_calls": n}, "the canonical messages of the Decode sections encoded one after the other, every result retained and judged after the last call")
	r.Guard("retention-canonical-build-count", n >= 16, "retained canonical encodings judged: %d", n)
}
