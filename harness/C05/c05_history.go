package c05gen

// Call HISTORIES over caller-owned buffers.
//
// The product / sweep sections evaluate VerifyEntry once per input, every input in buffers
// of its own. That decides the property for a verification that is a function of its
// arguments, but not for one that carries state from call to call (a memo of verified
// (identity, record) pairs, a remembered "last digest", a cache filled while sealing): such
// state is only observable through a SEQUENCE of calls, and - when it remembers the caller's
// Payload slice instead of a copy - only when the caller reuses the same backing array, as a
// streaming / two-pass reader that decodes every row into one reusable buffer does.
//
// This section therefore enumerates, for every tuple of a record-shape product and every
// perturbation y of its sealed content x (the same single-field neighbourhood as the product
// section, plus every same-length payload variant), short call sequences in which ALL records
// presented live in ONE caller buffer that is overwritten in place between the calls:
//
//	pre   VerifyEntry(identity(x) , y in buffers of its own)            -> must reject (stateless reference)
//	(a)   Seal(x in buf); overwrite buf := y;  VerifyEntry(id, y in buf) -> must reject
//	(b)   overwrite buf := x; VerifyEntry(id(x), x in buf)               -> must accept (perturbed first, genuine second)
//	      overwrite buf := y; VerifyEntry(id, y in buf)                  -> must reject (genuine first, perturbed second)
//	(c)   when y is itself sealable content (a second genuine record, identity(y) sealed from
//	      buffers of its own): x and y alternate in buf; each identity must accept exactly its
//	      own content, and sealing from buf must give the identity sealed from fresh buffers.
//
// "Overwrite in place" = copy the new payload bytes to the start of the same backing array and
// re-slice it to the new length; all other fields are assigned in the same Record variable.
// The whole section runs in ONE goroutine and FIRST in the process, so that call-to-call
// state of any size (a single remembered entry, a bounded table that stops filling) is in the
// state the sequence itself produced. Strings are immutable in Go and cannot alias a caller
// buffer without unsafe (the repository has no zero-copy string decoding), so Payload is the
// only aliasing field; the other fields are perturbed by value in the reused Record.

import (
	"fmt"
	"time"

	ql "github.com/WuKongIM/WuKongIM/pkg/quorumlog"
	"github.com/WuKongIM/WuKongIM/pkg/zzverif/ev"
)

// historySpace is the record-shape product of the history section: every sender / client
// number / payload shape of the product section plus a payload longer than one SHA-256 block,
// genesis and non-genesis predecessor, boundary values of the by-value record fields.
func historySpace(tier string, reduce bool) *Space {
	d1 := dig(0xd1, 0)
	long := make([]byte, 100)
	for i := range long {
		long[i] = 'A' + byte(i%26)
	}
	s := &Space{Tier: tier, FullSameLen: true}
	s.Epoch = []uint64{1}
	s.Term = []uint64{1}
	s.Fence = []uint64{1}
	s.Pred = []Pred{{0, 0, ql.EntryDigest{}}, {1, 1, d1}}
	s.Cmd = []ql.CommandID{cmd(1, 0)}
	s.ID = []uint64{1, 1 << 63}
	s.Setting = []uint8{0, 1, 128}
	s.Sync = []bool{false, true}
	s.TS = []int64{1, 1<<63 - 1}
	s.From = []string{"", "a", "ab", "a" + be8(0) + be8(16)}
	s.Client = []string{"", "c", "bc", "c" + be8(8)}
	s.Pay = []string{"", "c", be8(0), be8(0) + be8(0), string(long)}
	if tier != "thorough" && !reduce {
		s.ID = s.ID[:1]
	}
	if tier == "thorough" {
		s.Epoch = []uint64{1, 1 << 32}
		s.Term = []uint64{1, 2}
		s.Pred = append(s.Pred, Pred{2, 1, d1})
	}
	if reduce {
		s.ID = s.ID[:1]
		s.TS = s.TS[:1]
		s.Setting = s.Setting[:2]
		if tier != "thorough" {
			s.From = []string{"", "ab"}
			s.Client = []string{"", "bc"}
		} else {
			s.Epoch, s.Term, s.Pred = s.Epoch[:1], s.Term[:1], s.Pred[:2]
		}
	}
	return s
}

// sameLenPayloads lists payloads of the same length as cur that differ from it: per byte
// position (all positions up to 16 bytes, else the first 4, the middle and the last 4) the
// low-bit and the high-bit flip, plus "every byte changed". full=false keeps three of them.
func sameLenPayloads(cur string, full bool) []string {
	n := len(cur)
	if n == 0 {
		return nil
	}
	flip := func(i int, m byte) string {
		b := []byte(cur)
		b[i] ^= m
		return string(b)
	}
	all := []byte(cur)
	for i := range all {
		all[i]++
	}
	if !full {
		return []string{flip(0, 0x80), flip(n-1, 0x01), string(all)}
	}
	var pos []int
	if n <= 16 {
		for i := 0; i < n; i++ {
			pos = append(pos, i)
		}
	} else {
		pos = []int{0, 1, 2, 3, n / 2, n - 4, n - 3, n - 2, n - 1}
	}
	out := []string{string(all)}
	for _, i := range pos {
		out = append(out, flip(i, 0x01), flip(i, 0x80))
	}
	return out
}

// sealable reports whether rec is content DeriveProposalEntries accepts under identity e's
// authority and index (so that a perturbed record is itself a second genuine record).
func sealable(e ql.EntryIdentity, rec ql.Record) bool {
	return rec.ID != 0 && (rec.Index == 0 || rec.Index == e.Index) && rec.Epoch == e.ChannelEpoch && rec.ServerTimestampMS > 0
}

type histCounts struct {
	histories, verifyCalls, sealCalls  int64
	sameLenOverwrites, otherOverwrites int64
	siblings                           int64
	tuplesWithSameLen                  int64
}

// historyCase runs every history of tuple i of the history space hs.
func (x *runner) historyCase(hs *Space, i int, c counts, hc *histCounts) {
	t := hs.At(i)
	m := t.Manifest(1)
	r0 := t.Record()
	bad := func(fp, field, format string, args ...any) {
		x.sink.add(finding{fp, fmt.Sprintf("[%s] history tuple #%d %v: ", x.api.Name, i, t.Show()) + fmt.Sprintf(format, args...),
			Probe{API: x.api.Name, Tier: hs.Tier, Reduce: x.opt.Reduce, Section: "history", I: i, J: -1, Detail: map[string]string{"field": field}}})
	}
	verify := func(e ql.EntryIdentity, r ql.Record) bool { hc.verifyCalls++; return x.api.Verify(e, r) }
	seal := func(r ql.Record) (ql.EntryIdentity, bool) {
		hc.sealCalls++
		_, es, ok := x.api.Seal(m, []ql.Record{r})
		if !ok || len(es) != 1 {
			return ql.EntryIdentity{}, false
		}
		return es[0], true
	}
	e, ok := seal(r0) // reference identity, sealed from buffers of its own
	if !ok {
		bad("C05:seal-refused-valid-input", "", "SealProposalManifest refused a structurally valid single-record proposal")
		c["seal-refused"]++
		return
	}
	perts := hs.perturbations(t, e, r0)
	// stateless reference: every perturbed input in buffers of its own, before anything was verified
	// and, where y is itself sealable content, identity(y) sealed from buffers of its own
	pre := make([]bool, len(perts))
	sib := make([]bool, len(perts))
	eys := make([]ql.EntryIdentity, len(perts))
	maxLen := len(r0.Payload)
	for k, p := range perts {
		q := p.r
		q.Payload = append([]byte(nil), p.r.Payload...)
		pre[k] = verify(p.e, q)
		if p.e == e && sealable(e, p.r) {
			q2 := p.r
			q2.Payload = append([]byte(nil), p.r.Payload...)
			if eys[k], sib[k] = seal(q2); !sib[k] {
				bad("C05:seal-refused-valid-input", p.field, "SealProposalManifest refused the valid content %s", showRecord(q2))
			}
		}
		if len(p.r.Payload) > maxLen {
			maxLen = len(p.r.Payload)
		}
	}
	// the caller's reusable buffer and Record variable
	buf := make([]byte, maxLen+1)
	var cur ql.Record
	load := func(r ql.Record) ql.Record { // overwrite in place
		n := copy(buf, r.Payload)
		cur = r
		cur.Payload = buf[:n]
		return cur
	}
	sameLenSeen := false
	acc0 := c["history:genuine-accepted-after-perturbed"]
	for k, p := range perts {
		if pre[k] {
			bad("C05:verify-accepts-perturbed:"+p.field, p.field, "identity sealed as %s; a first VerifyEntry(%s, %s) = true although the %s differs from the sealed content",
				showEntry(e), showEntry(p.e), showRecord(p.r), p.field)
			c["history:stateless-accepted"]++
			continue
		}
		hc.histories++
		sameLen := len(p.r.Payload) == len(r0.Payload) && len(r0.Payload) > 0 && string(p.r.Payload) != string(r0.Payload)
		if sameLen {
			hc.sameLenOverwrites++
			sameLenSeen = true
		} else {
			hc.otherOverwrites++
		}
		// (a) seal from the caller's buffer, overwrite, verify
		if e2, ok2 := seal(load(r0)); !ok2 || e2 != e {
			bad("C05:seal-not-deterministic", p.field, "sealing the content from a reused caller buffer gave %s (ok=%v), from fresh buffers %s", showEntry(e2), ok2, showEntry(e))
		}
		if verify(p.e, load(p.r)) {
			bad("C05:verify-accepts-overwritten-buffer:"+p.field, p.field,
				"Seal(x in caller buffer); buffer overwritten in place with y; VerifyEntry(%s, %s) = true although the %s differs from the sealed content "+
					"(a first verification of the same y in fresh buffers is rejected; earlier in this tuple's history x was verified in the same buffer %d times)",
				showEntry(p.e), showRecord(cur), p.field, c["history:genuine-accepted-after-perturbed"]-acc0)
			c["history:accepted-after-seal+overwrite"]++
		} else {
			c["history:rejected-after-seal+overwrite"]++
		}
		// (b) perturbed first / genuine second, then genuine first / perturbed second
		if !verify(e, load(r0)) {
			bad("C05:verify-rejects-sealed-content-after-buffer-reuse", p.field,
				"VerifyEntry(identity, y) was rejected, the caller buffer was overwritten in place with the sealed content x, VerifyEntry(%s, %s) = false (y differed in %s)",
				showEntry(e), showRecord(cur), p.field)
			c["history:genuine-rejected-after-perturbed"]++
		} else {
			c["history:genuine-accepted-after-perturbed"]++
		}
		if verify(p.e, load(p.r)) {
			bad("C05:verify-accepts-overwritten-buffer:"+p.field, p.field,
				"VerifyEntry(%s, x in caller buffer) = true; buffer overwritten in place with y; VerifyEntry(%s, %s) = true although the %s differs from the sealed content (a first verification of the same y in fresh buffers is rejected)",
				showEntry(e), showEntry(p.e), showRecord(cur), p.field)
			c["history:accepted-after-verify+overwrite"]++
		} else {
			c["history:rejected-after-verify+overwrite"]++
		}
		// (c) y is a second genuine record: both contents alternate in the one buffer
		if !sib[k] {
			continue
		}
		ey := eys[k]
		if ey.Digest == e.Digest {
			continue // a stateless digest collision: reported by the product / sweep sections
		}
		hc.siblings++
		step := func(what string, id ql.EntryIdentity, content ql.Record, want bool) {
			if got := verify(id, load(content)); got != want {
				fp := "C05:verify-accepts-overwritten-buffer:" + p.field
				if want {
					fp = "C05:verify-rejects-sealed-content-after-buffer-reuse"
				}
				bad(fp, p.field, "two genuine records x, y (differing in %s) alternate in one caller buffer: %s: VerifyEntry(%s, %s) = %v, want %v",
					p.field, what, showEntry(id), showRecord(cur), got, want)
				c["history:sibling-wrong"]++
				return
			}
			c["history:sibling-right"]++
		}
		step("buffer := x, identity(x)", e, r0, true)
		step("buffer := y, identity(y)", ey, p.r, true)
		step("buffer := y, identity(x)", e, p.r, false)
		step("buffer := x, identity(x)", e, r0, true)
		step("buffer := x, identity(y)", ey, r0, false)
		if s1, ok1 := seal(load(r0)); !ok1 || s1 != e {
			bad("C05:seal-stale-after-buffer-reuse", p.field, "Seal(x in the shared buffer) = %s, from fresh buffers %s", showEntry(s1), showEntry(e))
		}
		if s2, ok2 := seal(load(p.r)); !ok2 || s2 != ey {
			bad("C05:seal-stale-after-buffer-reuse", p.field, "Seal(x in buffer); buffer overwritten in place with y (%s differs); Seal(y in buffer) = %s, from fresh buffers %s",
				p.field, showEntry(s2), showEntry(ey))
			c["history:seal-stale"]++
		}
	}
	if sameLenSeen {
		hc.tuplesWithSameLen++
	}
	if !verify(e, load(r0)) {
		bad("C05:verify-rejects-sealed-content-after-buffer-reuse", "", "at the end of the tuple's histories the sealed content in the caller buffer is rejected")
	}
}

func (x *runner) historySection(r *ev.R) {
	start := time.Now()
	hs := historySpace(x.sp.Tier, x.opt.Reduce)
	if err := hs.Validate(); err != nil {
		r.HarnessError("C05 history menus: %v", err)
		return
	}
	n := hs.Size()
	ord := order(n, r.Seed())
	c := counts{}
	hc := &histCounts{}
	nonEmpty := 0
	for p := 0; p < n; p++ { // one goroutine: call-to-call state is produced by this sequence only
		i := ord(p)
		if len(hs.At(i).Pay) > 0 {
			nonEmpty++
		}
		x.historyCase(hs, i, c, hc)
	}
	b := hs.Bounds()
	b["outcomes"] = map[string]int64(c)
	b["histories"] = hc.histories
	b["verify_calls"] = hc.verifyCalls
	b["seal_calls"] = hc.sealCalls
	b["histories_with_same_length_in_place_payload_overwrite"] = hc.sameLenOverwrites
	b["histories_with_two_genuine_records_in_one_buffer"] = hc.siblings
	name := x.api.Name + "/buffer-reuse-histories"
	r.Section(ev.Section{Name: name, Kind: "enum", Evaluations: hc.histories, Distinct: hc.histories, Exhaustive: true, Bounds: b,
		Outcomes: int64(len(c)), WallS: time.Since(start).Seconds(),
		Note: "per tuple of the record-shape product and per perturbation y of its sealed content x (single-field neighbourhood + every same-length payload variant): " +
			"call sequences over ONE caller buffer overwritten in place - Seal(x);y rejected - y rejected;x accepted - x accepted;y rejected - and, when y is sealable, " +
			"x and y alternating under both identities + re-sealing from the shared buffer; single goroutine, first section of the process"})
	r.Count(x.api.Name+"/history_verify_calls", hc.verifyCalls)
	r.Guard(name+"/same-length-overwrites", hc.sameLenOverwrites >= 3*int64(nonEmpty) && hc.tuplesWithSameLen == int64(nonEmpty),
		"same-length in-place payload overwrites=%d over %d tuples with a non-empty payload (%d of them covered)", hc.sameLenOverwrites, nonEmpty, hc.tuplesWithSameLen)
	r.Guard(name+"/two-genuine-records", hc.siblings >= int64(n), "histories with two genuine records in one buffer=%d for %d tuples", hc.siblings, n)
	r.Guard(name+"/both-answers", c["history:genuine-accepted-after-perturbed"] > 0 && c["history:rejected-after-verify+overwrite"] > 0 && c["history:sibling-right"] > 0,
		"accepted=%d rejected=%d sibling steps=%d", c["history:genuine-accepted-after-perturbed"], c["history:rejected-after-verify+overwrite"], c["history:sibling-right"])
}

// replayHistory re-runs all histories of one tuple in a fresh process.
func (x *runner) replayHistory(p Probe) {
	hs := historySpace(p.Tier, p.Reduce)
	if p.I < 0 || p.I >= hs.Size() {
		fmt.Println("replay: bad history tuple", p.I)
		return
	}
	c := counts{}
	x.historyCase(hs, p.I, c, &histCounts{})
	fmt.Printf("replay: history tuple #%d %v outcomes %v\n", p.I, hs.At(p.I).Show(), c)
}
