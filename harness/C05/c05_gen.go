// Package c05gen is the C05 harness core shared by the pkg/quorumlog run and the
// pkg/channel (wrapper) run. It is injected as a virtual package
// (pkg/zzverif/c05gen) by harness.json; it only uses the exported quorumlog API.
//
// Deciding technique: the full product of per-field menus (semantic tuples) is sealed
// through the real API; the digests are required to be pairwise distinct over the
// whole enumerated set (digest -> tuple index table: equal digest with a different
// tuple is a violation), VerifyEntry(identity(x), y) must hold exactly for y = x over
// every single-field perturbation y, and Seal / Derive must agree. No sampling: the
// seed only permutes the visiting order.
package c05gen

import (
	"bytes"
	"encoding/hex"
	"encoding/json"
	"fmt"
	"math"
	"runtime"
	"sort"
	"strings"
	"sync"
	"time"

	ql "github.com/WuKongIM/WuKongIM/pkg/quorumlog"
	"github.com/WuKongIM/WuKongIM/pkg/zzverif/ev"
)

// API is the surface under test (quorumlog directly, or the pkg/channel wrappers).
type API struct {
	Name   string
	Seal   func(m ql.ProposalManifest, recs []ql.Record) (ql.ProposalManifest, []ql.EntryIdentity, bool)
	Derive func(m ql.ProposalManifest, recs []ql.Record) ([]ql.EntryIdentity, bool)
	Verify func(e ql.EntryIdentity, r ql.Record) bool
}

// Options selects what one run does.
type Options struct {
	// Reference, when set, is a second API whose Seal result must equal api.Seal's.
	Reference *API
	// Perturb runs the VerifyEntry single-field perturbation neighbourhood.
	Perturb bool
	// Reduce shrinks the identity product (used by the wrapper run).
	Reduce bool
}

// Pred is one predecessor situation (index = Base+1).
type Pred struct {
	Base     uint64
	PrevTerm uint64
	PrevDig  ql.EntryDigest
}

// Tuple is the semantic content an identity is sealed from.
type Tuple struct {
	Epoch, Term, Fence uint64
	Pred               Pred
	Cmd                ql.CommandID
	ID                 uint64
	Setting            uint8
	Sync               bool
	TS                 int64
	From, Client, Pay  string
}

// Space is the product of menus.
type Space struct {
	Tier    string
	Epoch   []uint64
	Term    []uint64
	Fence   []uint64
	Pred    []Pred
	Cmd     []ql.CommandID
	ID      []uint64
	Setting []uint8
	Sync    []bool
	TS      []int64
	From    []string
	Client  []string
	Pay     []string
	// FullSameLen: the payload perturbations hold every same-length variant (per byte
	// position), not only three of them (history section).
	FullSameLen bool
}

func be8(n uint64) string {
	b := make([]byte, 8)
	for i := 7; i >= 0; i-- {
		b[i] = byte(n)
		n >>= 8
	}
	return string(b)
}

func dig(first, last byte) (d ql.EntryDigest) { d[0] = first; d[31] = last; return }
func cmd(first, last byte) (c ql.CommandID)   { c[0] = first; c[31] = last; return }

// NewSpace builds the menus of a tier. The string menus are adversarial for a
// length-prefixed concatenation:
//   - ("a","bc") vs ("ab","c") and ("","c") vs ("c",""): bytes shifted between adjacent fields
//     (collide when sender/client are written without a length prefix);
//   - sender "a"+be8(0)+be8(16) with payload "" vs sender "a" with payload 16 zero bytes
//     (collide when only the sender's prefix is dropped: the string contains what looks like
//     the following length prefixes);
//   - client "c"+be8(8) with payload "" vs client "c" with payload 8 zero bytes (same for the
//     client number's prefix).
func NewSpace(tier string, reduce bool) *Space {
	d1, d2 := dig(0xd1, 0), dig(0xd2, 0)
	s := &Space{Tier: tier}
	s.Epoch = []uint64{1, 1 << 32}
	s.Term = []uint64{1, 2}
	s.Fence = []uint64{1, 2}
	s.Pred = []Pred{
		{0, 0, ql.EntryDigest{}}, // genesis
		{1, 1, d1},
		{1, 2, d1}, // previous term differs
		{1, 1, d2}, // previous digest differs
		{2, 1, d1}, // index differs
	}
	s.Cmd = []ql.CommandID{cmd(1, 0), cmd(0, 1)}
	s.ID = []uint64{1, 1 << 63}
	s.Setting = []uint8{0, 1, 128}
	s.Sync = []bool{false, true}
	s.TS = []int64{1, math.MaxInt64}
	s.From = []string{"", "a", "ab", "a" + be8(0) + be8(16)}
	s.Client = []string{"", "c", "bc", "c" + be8(8)}
	s.Pay = []string{"", "c", be8(0), be8(0) + be8(0)}
	if tier == "thorough" {
		s.Epoch = append(s.Epoch, 2)
		s.TS = append(s.TS, 2)
		s.Term = append(s.Term, 1<<40)
		s.Fence = append(s.Fence, 256)
		s.Pred = append(s.Pred, Pred{1 << 32, 1, d1}, Pred{1, 1, dig(0xd1, 1)})
		s.Cmd = append(s.Cmd, cmd(1, 1))
		s.ID = append(s.ID, 2, 256)
		s.Setting = append(s.Setting, 255)
		s.From = append(s.From, be8(1)+"a")
		s.Client = append(s.Client, "b")
	}
	if reduce {
		s.Epoch = s.Epoch[:2]
		s.Term = s.Term[:2]
		s.Fence = s.Fence[:2]
		s.Cmd = s.Cmd[:2]
		s.ID = s.ID[:2]
		s.TS = s.TS[:2]
		s.Pred = s.Pred[:5]
		if tier != "thorough" {
			s.Pred = s.Pred[:2]
			s.Setting = s.Setting[:2]
		}
	}
	return s
}

func (s *Space) dims() []int {
	return []int{len(s.Epoch), len(s.Term), len(s.Fence), len(s.Pred), len(s.Cmd), len(s.ID), len(s.Setting),
		len(s.Sync), len(s.TS), len(s.From), len(s.Client), len(s.Pay)}
}

// Size is the number of tuples.
func (s *Space) Size() int {
	n := 1
	for _, d := range s.dims() {
		n *= d
	}
	return n
}

// Bounds describes the menus for the evidence file.
func (s *Space) Bounds() map[string]any {
	return map[string]any{
		"menu_sizes": map[string]int{"channel_epoch": len(s.Epoch), "leader_term": len(s.Term), "fence_version": len(s.Fence),
			"predecessor(index,prev_term,prev_digest)": len(s.Pred), "command": len(s.Cmd), "message_id": len(s.ID), "setting": len(s.Setting),
			"sync_once": len(s.Sync), "timestamp": len(s.TS), "sender": len(s.From), "client_number": len(s.Client), "payload": len(s.Pay)},
		"product": s.Size(),
	}
}

// Validate checks that no menu repeats a value (so distinct indexes are distinct tuples).
func (s *Space) Validate() error {
	chk := func(name string, vals []string) error {
		seen := map[string]bool{}
		for _, v := range vals {
			if seen[v] {
				return fmt.Errorf("menu %s repeats %q", name, v)
			}
			seen[v] = true
		}
		return nil
	}
	f := func(name string, n int, at func(int) string) error {
		v := make([]string, n)
		for i := range v {
			v[i] = at(i)
		}
		return chk(name, v)
	}
	errs := []error{
		f("epoch", len(s.Epoch), func(i int) string { return fmt.Sprint(s.Epoch[i]) }),
		f("term", len(s.Term), func(i int) string { return fmt.Sprint(s.Term[i]) }),
		f("fence", len(s.Fence), func(i int) string { return fmt.Sprint(s.Fence[i]) }),
		f("pred", len(s.Pred), func(i int) string { return fmt.Sprint(s.Pred[i]) }),
		f("cmd", len(s.Cmd), func(i int) string { return fmt.Sprint(s.Cmd[i]) }),
		f("id", len(s.ID), func(i int) string { return fmt.Sprint(s.ID[i]) }),
		f("setting", len(s.Setting), func(i int) string { return fmt.Sprint(s.Setting[i]) }),
		f("ts", len(s.TS), func(i int) string { return fmt.Sprint(s.TS[i]) }),
		chk("from", s.From), chk("client", s.Client), chk("payload", s.Pay),
	}
	for _, e := range errs {
		if e != nil {
			return e
		}
	}
	return nil
}

// At decodes tuple number i (mixed radix over the menus).
func (s *Space) At(i int) Tuple {
	pick := func(n int) int { k := i % n; i /= n; return k }
	var t Tuple
	t.Pay = s.Pay[pick(len(s.Pay))]
	t.Client = s.Client[pick(len(s.Client))]
	t.From = s.From[pick(len(s.From))]
	t.TS = s.TS[pick(len(s.TS))]
	t.Sync = s.Sync[pick(len(s.Sync))]
	t.Setting = s.Setting[pick(len(s.Setting))]
	t.ID = s.ID[pick(len(s.ID))]
	t.Cmd = s.Cmd[pick(len(s.Cmd))]
	t.Pred = s.Pred[pick(len(s.Pred))]
	t.Fence = s.Fence[pick(len(s.Fence))]
	t.Term = s.Term[pick(len(s.Term))]
	t.Epoch = s.Epoch[pick(len(s.Epoch))]
	return t
}

// Manifest is the unsealed manifest of the n-record proposal that starts at t's predecessor.
func (t Tuple) Manifest(n int) ql.ProposalManifest {
	return ql.ProposalManifest{
		Version: ql.ProposalManifestVersion, ChannelEpoch: t.Epoch, LeaderTerm: t.Term, FenceVersion: t.Fence,
		CommandID: t.Cmd, BaseOffset: t.Pred.Base, LastOffset: t.Pred.Base + uint64(n),
		PreviousTerm: t.Pred.PrevTerm, PreviousIndex: t.Pred.Base, PreviousDigest: t.Pred.PrevDig,
	}
}

// Record is t's record with an explicit index.
func (t Tuple) Record() ql.Record {
	return ql.Record{ID: t.ID, Index: t.Pred.Base + 1, Epoch: t.Epoch, Setting: t.Setting, FromUID: t.From, ClientMsgNo: t.Client,
		ServerTimestampMS: t.TS, SyncOnce: t.Sync, Payload: []byte(t.Pay)}
}

// Diff names the semantic fields in which two tuples differ.
func Diff(a, b Tuple) []string {
	var d []string
	add := func(c bool, n string) {
		if c {
			d = append(d, n)
		}
	}
	add(a.Epoch != b.Epoch, "channel-epoch")
	add(a.Term != b.Term, "leader-term")
	add(a.Fence != b.Fence, "fence-version")
	add(a.Pred.Base != b.Pred.Base, "index")
	add(a.Pred.PrevTerm != b.Pred.PrevTerm, "previous-term")
	add(a.Pred.PrevDig != b.Pred.PrevDig, "previous-digest")
	add(a.Cmd != b.Cmd, "command")
	add(a.ID != b.ID, "message-id")
	add(a.Setting != b.Setting, "setting")
	add(a.Sync != b.Sync, "sync-once")
	add(a.TS != b.TS, "timestamp")
	add(a.From != b.From, "sender")
	add(a.Client != b.Client, "client-number")
	add(a.Pay != b.Pay, "payload")
	return d
}

// Show renders a tuple for messages / samples.
func (t Tuple) Show() map[string]any {
	return map[string]any{"channel_epoch": t.Epoch, "leader_term": t.Term, "fence_version": t.Fence, "index": t.Pred.Base + 1,
		"previous_term": t.Pred.PrevTerm, "previous_digest": hex.EncodeToString(t.Pred.PrevDig[:]), "command": hex.EncodeToString(t.Cmd[:]),
		"message_id": t.ID, "setting": t.Setting, "sync_once": t.Sync, "timestamp": t.TS,
		"sender": fmt.Sprintf("%q", t.From), "client_number": fmt.Sprintf("%q", t.Client), "payload": fmt.Sprintf("%q", t.Pay)}
}

// Probe is the replay payload of a violation.
type Probe struct {
	API     string `json:"api"`
	Tier    string `json:"tier"`
	Reduce  bool   `json:"reduce"`
	Section string `json:"section"` // "identity" | "chain"
	I       int    `json:"i"`
	J       int    `json:"j"` // second case of a collision, else -1
	Detail  any    `json:"detail,omitempty"`
}

type finding struct {
	fp, msg string
	probe   Probe
}

type sink struct {
	mu   sync.Mutex
	best map[string]finding // per fingerprint: the finding with the smallest (I,J)
}

func (s *sink) add(f finding) {
	s.mu.Lock()
	defer s.mu.Unlock()
	if s.best == nil {
		s.best = map[string]finding{}
	}
	o, ok := s.best[f.fp]
	if !ok || f.probe.I < o.probe.I || (f.probe.I == o.probe.I && f.probe.J < o.probe.J) {
		s.best[f.fp] = f
	}
}

func (s *sink) sorted() []finding {
	s.mu.Lock()
	defer s.mu.Unlock()
	keys := make([]string, 0, len(s.best))
	for k := range s.best {
		keys = append(keys, k)
	}
	sort.Strings(keys)
	out := make([]finding, 0, len(keys))
	for _, k := range keys {
		out = append(out, s.best[k])
	}
	return out
}

// counts is a per-worker outcome counter.
type counts map[string]int64

func (c counts) merge(o counts) {
	for k, v := range o {
		c[k] += v
	}
}

// pert is one perturbed (identity, record) input that differs from the sealed content.
type pert struct {
	field string
	e     ql.EntryIdentity
	r     ql.Record
}

func others[T comparable](menu []T, cur T, extra ...T) []T {
	seen := map[T]bool{cur: true}
	var out []T
	for _, v := range append(append([]T{}, menu...), extra...) {
		if !seen[v] {
			seen[v] = true
			out = append(out, v)
		}
	}
	return out
}

func flipLast32(b [32]byte) [32]byte { b[31] ^= 1; return b }
func flipFirst32(b [32]byte) [32]byte { b[0] ^= 0x80; return b }

// perturbations lists every input y != x in the single-field neighbourhood of the sealed
// content x = (e minus digest, r): each other menu value of each field, plus boundary
// neighbours (0, +1, high bit, appended / prepended NUL, truncation, byte flips) and the
// adjacent-field byte shifts.
func (s *Space) perturbations(t Tuple, e ql.EntryIdentity, r ql.Record) []pert {
	var ps []pert
	rec := func(field string, f func(*ql.Record)) {
		c := r
		c.Payload = append([]byte{}, r.Payload...)
		f(&c)
		ps = append(ps, pert{field, e, c})
	}
	ent := func(field string, f func(*ql.EntryIdentity, *ql.Record)) {
		c, cr := e, r
		f(&c, &cr)
		ps = append(ps, pert{field, c, cr})
	}
	// ---- record side (identity untouched)
	for _, v := range others(s.ID, t.ID, 0, t.ID+1, t.ID^(1<<63)) {
		v := v
		rec("message-id", func(c *ql.Record) { c.ID = v })
	}
	for _, v := range others(s.Setting, t.Setting, t.Setting^0x80, t.Setting^1, t.Setting+1) {
		v := v
		rec("setting", func(c *ql.Record) { c.Setting = v })
	}
	rec("sync-once", func(c *ql.Record) { c.SyncOnce = !c.SyncOnce })
	tsx := []int64{0, -1, -t.TS, t.TS ^ 1}
	if t.TS < math.MaxInt64 {
		tsx = append(tsx, t.TS+1)
	}
	for _, v := range others(s.TS, t.TS, tsx...) {
		v := v
		rec("timestamp", func(c *ql.Record) { c.ServerTimestampMS = v })
	}
	strx := func(cur string) []string {
		x := []string{cur + "\x00", "\x00" + cur, cur + cur + "z", strings.ToUpper(cur)}
		if len(cur) > 0 {
			x = append(x, cur[:len(cur)-1], cur[1:])
		}
		return x
	}
	for _, v := range others(s.From, t.From, strx(t.From)...) {
		v := v
		rec("sender", func(c *ql.Record) { c.FromUID = v })
	}
	for _, v := range others(s.Client, t.Client, strx(t.Client)...) {
		v := v
		rec("client-number", func(c *ql.Record) { c.ClientMsgNo = v })
	}
	for _, v := range others(s.Pay, t.Pay, append(strx(t.Pay), sameLenPayloads(t.Pay, s.FullSameLen)...)...) {
		v := v
		rec("payload", func(c *ql.Record) { c.Payload = []byte(v) })
	}
	// adjacent-field byte shifts (two fields change, the concatenation does not)
	if len(t.From) > 0 {
		rec("sender>client-shift", func(c *ql.Record) {
			c.FromUID, c.ClientMsgNo = t.From[:len(t.From)-1], t.From[len(t.From)-1:]+t.Client
		})
	}
	if len(t.Client) > 0 {
		rec("client>sender-shift", func(c *ql.Record) { c.FromUID, c.ClientMsgNo = t.From+t.Client[:1], t.Client[1:] })
		rec("client>payload-shift", func(c *ql.Record) {
			c.ClientMsgNo, c.Payload = t.Client[:len(t.Client)-1], []byte(t.Client[len(t.Client)-1:]+t.Pay)
		})
	}
	if len(t.Pay) > 0 {
		rec("payload>client-shift", func(c *ql.Record) { c.ClientMsgNo, c.Payload = t.Client+t.Pay[:1], []byte(t.Pay[1:]) })
	}
	for _, v := range others(s.Epoch, t.Epoch, 0, t.Epoch+1) {
		v := v
		rec("record-epoch", func(c *ql.Record) { c.Epoch = v })
	}
	rec("record-index", func(c *ql.Record) { c.Index = e.Index + 1 })
	if e.Index > 1 {
		rec("record-index", func(c *ql.Record) { c.Index = e.Index - 1 })
	}
	// ---- identity side (digest kept; the record follows where the API couples them)
	for _, v := range others(s.Epoch, t.Epoch, t.Epoch+1) {
		v := v
		ent("channel-epoch", func(c *ql.EntryIdentity, cr *ql.Record) { c.ChannelEpoch = v; cr.Epoch = v })
		ent("channel-epoch", func(c *ql.EntryIdentity, cr *ql.Record) { c.ChannelEpoch = v })
	}
	for _, v := range others(s.Term, t.Term, 0, t.Term+1) {
		v := v
		ent("leader-term", func(c *ql.EntryIdentity, _ *ql.Record) { c.LeaderTerm = v })
	}
	for _, v := range others(s.Fence, t.Fence, 0, t.Fence+1) {
		v := v
		ent("fence-version", func(c *ql.EntryIdentity, _ *ql.Record) { c.FenceVersion = v })
	}
	for _, p := range s.Pred {
		if p == t.Pred {
			continue
		}
		p := p
		name := "predecessor"
		if d := Diff(Tuple{Pred: p}, Tuple{Pred: t.Pred}); len(d) == 1 {
			name = d[0]
		}
		ent(name, func(c *ql.EntryIdentity, cr *ql.Record) {
			c.Index, c.PreviousIndex, c.PreviousTerm, c.PreviousDigest = p.Base+1, p.Base, p.PrevTerm, p.PrevDig
			cr.Index = p.Base + 1
		})
	}
	ent("index", func(c *ql.EntryIdentity, cr *ql.Record) {
		c.Index++
		c.PreviousIndex++
		cr.Index = c.Index
		if t.Pred.Base == 0 { // keep the shifted identity structurally complete
			c.PreviousTerm, c.PreviousDigest = 1, dig(0xd1, 0)
		}
	})
	ent("index", func(c *ql.EntryIdentity, cr *ql.Record) { c.Index++; cr.Index = c.Index }) // predecessor no longer adjacent
	ent("previous-term", func(c *ql.EntryIdentity, _ *ql.Record) { c.PreviousTerm++ })
	ent("previous-digest", func(c *ql.EntryIdentity, _ *ql.Record) { c.PreviousDigest = flipLast32(c.PreviousDigest) })
	ent("previous-digest", func(c *ql.EntryIdentity, _ *ql.Record) { c.PreviousDigest = flipFirst32(c.PreviousDigest) })
	for _, v := range others(s.Cmd, t.Cmd, ql.CommandID{}, ql.CommandID(flipLast32(t.Cmd)), ql.CommandID(flipFirst32(t.Cmd))) {
		v := v
		ent("command", func(c *ql.EntryIdentity, _ *ql.Record) { c.CommandID = v })
	}
	ent("digest", func(c *ql.EntryIdentity, _ *ql.Record) { c.Digest = flipLast32(c.Digest) })
	ent("digest", func(c *ql.EntryIdentity, _ *ql.Record) { c.Digest = flipFirst32(c.Digest) })
	ent("digest", func(c *ql.EntryIdentity, _ *ql.Record) { c.Digest = ql.EntryDigest{} })
	return ps
}

func showEntry(e ql.EntryIdentity) string {
	return fmt.Sprintf("{v%d epoch=%d term=%d fence=%d index=%d prevTerm=%d prevIndex=%d cmd=%x.. prevDigest=%x.. digest=%x}",
		e.Version, e.ChannelEpoch, e.LeaderTerm, e.FenceVersion, e.Index, e.PreviousTerm, e.PreviousIndex, e.CommandID[:2], e.PreviousDigest[:2], e.Digest[:])
}

func showRecord(r ql.Record) string {
	return fmt.Sprintf("{id=%d index=%d epoch=%d setting=%d sender=%q client=%q ts=%d sync=%v payload=%q}",
		r.ID, r.Index, r.Epoch, r.Setting, r.FromUID, r.ClientMsgNo, r.ServerTimestampMS, r.SyncOnce, r.Payload)
}

func entriesEqual(a, b []ql.EntryIdentity) bool {
	if len(a) != len(b) {
		return false
	}
	for i := range a {
		if a[i] != b[i] {
			return false
		}
	}
	return true
}

type runner struct {
	api  API
	opt  Options
	sp   *Space
	sink *sink
}

func (x *runner) probe(section string, i, j int, detail any) Probe {
	return Probe{API: x.api.Name, Tier: x.sp.Tier, Reduce: x.opt.Reduce, Section: section, I: i, J: j, Detail: detail}
}

// identityCase evaluates tuple i completely and returns its digest.
func (x *runner) identityCase(i int, c counts) (ql.EntryDigest, bool) {
	t := x.sp.At(i)
	m, r := t.Manifest(1), t.Record()
	bad := func(fp, format string, args ...any) {
		x.sink.add(finding{fp, fmt.Sprintf("[%s] tuple #%d %v: ", x.api.Name, i, t.Show()) + fmt.Sprintf(format, args...), x.probe("identity", i, -1, nil)})
	}
	sealed, entries, ok := x.api.Seal(m, []ql.Record{r})
	if !ok || len(entries) != 1 {
		bad("C05:seal-refused-valid-input", "SealProposalManifest refused a structurally valid single-record proposal (ok=%v entries=%d)", ok, len(entries))
		c["seal-refused"]++
		return ql.EntryDigest{}, false
	}
	e := entries[0]
	c["sealed"]++
	want := ql.EntryIdentity{Version: ql.ProposalManifestVersion, ChannelEpoch: t.Epoch, LeaderTerm: t.Term, FenceVersion: t.Fence,
		Index: t.Pred.Base + 1, PreviousTerm: t.Pred.PrevTerm, PreviousIndex: t.Pred.Base, CommandID: t.Cmd, PreviousDigest: t.Pred.PrevDig, Digest: e.Digest}
	if e != want {
		bad("C05:identity-fields-differ-from-manifest", "identity %s does not carry the manifest's authority/index/command/predecessor", showEntry(e))
	}
	if e.Digest == (ql.EntryDigest{}) {
		bad("C05:zero-digest", "sealed digest is all-zero")
	}
	wm := m
	wm.Digest = e.Digest
	if sealed != wm {
		bad("C05:sealed-digest-not-tail", "sealed manifest %+v is not the input manifest with Digest = the last entry digest %x", sealed, e.Digest)
	}
	// seal / derive agreement (from the sealed and from the unsealed manifest)
	for _, dm := range []ql.ProposalManifest{sealed, m} {
		d, dok := x.api.Derive(dm, []ql.Record{r})
		if !dok || !entriesEqual(d, entries) {
			bad("C05:seal-derive-disagree", "DeriveProposalEntries(ok=%v) = %v, SealProposalManifest gave %v", dok, d, entries)
		}
	}
	// sealing is a function of the content: a second seal of an equal copy gives the same identity
	r2 := r
	r2.Payload = append([]byte(nil), r.Payload...)
	if _, again, ok2 := x.api.Seal(m, []ql.Record{r2}); !ok2 || !entriesEqual(again, entries) {
		bad("C05:seal-not-deterministic", "sealing an equal copy of the content gave %v, first %v", again, entries)
	}
	if x.opt.Reference != nil {
		rs, re, rok := x.opt.Reference.Seal(m, []ql.Record{r})
		if rok != ok || rs != sealed || !entriesEqual(re, entries) {
			bad("C05:wrapper-differs-from-"+x.opt.Reference.Name, "%s seal = (%v, %v), %s seal = (%v, %v)", x.api.Name, sealed.Digest, ok, x.opt.Reference.Name, rs.Digest, rok)
		}
		c["reference-compared"]++
	}
	// verification accepts exactly the sealed content
	if !x.api.Verify(e, r) {
		bad("C05:verify-rejects-sealed-content", "VerifyEntry(%s, %s) = false for the content the identity was sealed from", showEntry(e), showRecord(r))
	}
	c["verify-accepts-sealed"]++
	nilp := r
	if len(r.Payload) == 0 {
		nilp.Payload = nil
		if !x.api.Verify(e, nilp) {
			bad("C05:verify-rejects-sealed-content", "VerifyEntry rejects the sealed content when the empty payload is passed as nil")
		}
		c["verify-accepts-sealed"]++
	}
	zero := r
	zero.Index = 0 // unassigned-index form of the same record: observed, not demanded
	if x.api.Verify(e, zero) {
		c["observed:zero-index-form-accepted"]++
	} else {
		c["observed:zero-index-form-rejected"]++
	}
	if x.opt.Perturb {
		for _, p := range x.sp.perturbations(t, e, r) {
			if x.api.Verify(p.e, p.r) {
				x.sink.add(finding{"C05:verify-accepts-perturbed:" + p.field,
					fmt.Sprintf("[%s] tuple #%d %v: identity sealed as %s; VerifyEntry(%s, %s) = true although the %s differs from the sealed content",
						x.api.Name, i, t.Show(), showEntry(e), showEntry(p.e), showRecord(p.r), p.field),
					x.probe("identity", i, -1, map[string]string{"field": p.field})})
				c["perturbed-accepted:"+p.field]++
			} else {
				c["perturbed-rejected:"+p.field]++
			}
		}
	}
	return e.Digest, true
}

func (x *runner) collision(section string, i, j int, a, b Tuple, d ql.EntryDigest, extra string) {
	if j < i {
		i, j = j, i
		a, b = b, a
	}
	df := Diff(a, b)
	x.sink.add(finding{"C05:digest-collision:" + strings.Join(df, "+") + extra,
		fmt.Sprintf("[%s] two different contents have the same entry digest %x: #%d %v and #%d %v (differ in %s)", x.api.Name, d[:], i, a.Show(), j, b.Show(), strings.Join(df, ", ")),
		x.probe(section, i, j, nil)})
}

// order returns the visiting order position -> index: an affine permutation chosen by the seed.
func order(n int, seed int64) func(int) int {
	if seed == 0 || n < 3 {
		return func(p int) int { return p }
	}
	gcd := func(a, b int) int {
		for b != 0 {
			a, b = b, a%b
		}
		return a
	}
	a := int((uint64(seed)*2654435761 + 1) % uint64(n))
	for a < 2 || gcd(a, n) != 1 {
		a++
		if a >= n {
			a = 1
			break
		}
	}
	b := int((uint64(seed) * 40503) % uint64(n))
	return func(p int) int { return int((uint64(a)*uint64(p) + uint64(b)) % uint64(n)) }
}

func (x *runner) identitySection(r *ev.R) {
	start := time.Now()
	n := x.sp.Size()
	digs := make([]ql.EntryDigest, n)
	okv := make([]bool, n)
	workers := runtime.GOMAXPROCS(0)
	if workers > 8 {
		workers = 8
	}
	ord := order(n, r.Seed())
	total := counts{}
	var mu sync.Mutex
	var wg sync.WaitGroup
	for w := 0; w < workers; w++ {
		wg.Add(1)
		go func(w int) {
			defer wg.Done()
			c := counts{}
			for p := w; p < n; p += workers {
				i := ord(p)
				digs[i], okv[i] = x.identityCase(i, c)
			}
			mu.Lock()
			total.merge(c)
			mu.Unlock()
		}(w)
	}
	wg.Wait()
	// digests pairwise distinct over the whole product
	table := make(map[ql.EntryDigest]int32, n)
	distinct := 0
	for i := 0; i < n; i++ {
		if !okv[i] {
			continue
		}
		if j, dup := table[digs[i]]; dup {
			x.collision("identity", int(j), i, x.sp.At(int(j)), x.sp.At(i), digs[i], "")
			total["digest-collisions"]++
			continue
		}
		table[digs[i]] = int32(i)
		distinct++
	}
	var evals, pr int64
	for k, v := range total {
		if strings.HasPrefix(k, "perturbed-") {
			pr += v
		}
	}
	evals = int64(n) + pr
	b := x.sp.Bounds()
	b["outcomes"] = map[string]int64(total)
	b["perturbed_inputs"] = pr
	b["distinct_digests"] = distinct
	r.Section(ev.Section{Name: x.api.Name + "/identity-product", Kind: "enum", Evaluations: evals, Distinct: int64(n) + pr, Exhaustive: true,
		Bounds: b, Outcomes: int64(len(total)), WallS: time.Since(start).Seconds(),
		Note: "every tuple of the menu product sealed through the real API (cases distinct by construction: menus hold no repeated value); digest table over the whole product; " +
			"each tuple's single-field perturbation neighbourhood passed to VerifyEntry"})
	r.Count(x.api.Name+"/tuples", int64(n))
	r.Count(x.api.Name+"/distinct_digests", int64(distinct))
	r.Count(x.api.Name+"/perturbed_inputs_rejected", pr-sumPrefix(total, "perturbed-accepted:"))
	r.Guard(x.api.Name+"/all-tuples-sealed", total["sealed"] == int64(n), "sealed=%d of %d tuples", total["sealed"], n)
	r.Guard(x.api.Name+"/digest-table-nontrivial", distinct >= 1000, "distinct digests=%d (need >=1000)", distinct)
	if x.opt.Perturb {
		fields := map[string]bool{}
		for k := range total {
			if strings.HasPrefix(k, "perturbed-") {
				fields[k[strings.Index(k, ":")+1:]] = true
			}
		}
		r.Guard(x.api.Name+"/perturbation-fields", len(fields) >= 18, "perturbed field kinds=%d (need >=18: 7 record fields, shifts, record epoch/index, 9 identity fields)", len(fields))
		r.Guard(x.api.Name+"/perturbations-per-tuple", pr >= 30*int64(n), "perturbed inputs=%d for %d tuples (need >=30 per tuple)", pr, n)
	}
	if x.opt.Reference != nil {
		r.Guard(x.api.Name+"/reference-compared", total["reference-compared"] == int64(n), "compared=%d of %d", total["reference-compared"], n)
	}
}

func sumPrefix(c counts, p string) int64 {
	var s int64
	for k, v := range c {
		if strings.HasPrefix(k, p) {
			s += v
		}
	}
	return s
}

// ---------------------------------------------------------------- chains

// chainSpace: multi-record proposals over a reduced record menu; the predecessor of record
// k>0 is the real digest of record k-1, so "predecessor changes => digest changes" is
// decided on real digests, and multi-record sealing must equal iterated single sealing.
type chainSpace struct {
	recs  []Tuple // record-side menu (authority fields unused)
	heads []Tuple // authority + predecessor of the proposal
	n     int     // records per proposal
}

func (x *runner) chainSpaces() []chainSpace {
	th := x.sp.Tier == "thorough"
	var recs []Tuple
	for _, id := range []uint64{1, 2} {
		for _, set := range []uint8{0, 1} {
			for _, sy := range []bool{false, true} {
				for _, ts := range []int64{1, 2} {
					for _, fr := range []string{"a", "ab"} {
						for _, cl := range []string{"c", "bc"} {
							for _, pay := range []string{"", "c"} {
								recs = append(recs, Tuple{ID: id, Setting: set, Sync: sy, TS: ts, From: fr, Client: cl, Pay: pay})
							}
						}
					}
				}
			}
		}
	}
	small := []Tuple{}
	for _, k := range []int{0, 1, 2, 4, 8, 16, 32, 64} { // one value changed per field
		small = append(small, recs[k])
	}
	mid := recs
	if !th || x.opt.Reduce {
		mid = append([]Tuple{}, small...)
		for _, k := range []int{3, 5, 9, 17, 33, 65, 127, 96} {
			mid = append(mid, recs[k])
		}
	}
	d1 := dig(0xd1, 0)
	heads := []Tuple{
		{Epoch: 1, Term: 1, Fence: 1, Cmd: cmd(1, 0), Pred: Pred{0, 0, ql.EntryDigest{}}},
		{Epoch: 1, Term: 2, Fence: 1, Cmd: cmd(1, 0), Pred: Pred{1, 1, d1}},
		{Epoch: 2, Term: 2, Fence: 3, Cmd: cmd(0, 1), Pred: Pred{5, 2, d1}},
	}
	return []chainSpace{{recs: mid, heads: heads, n: 2}, {recs: small, heads: heads[:2], n: 3}}
}

func (cs chainSpace) size() int {
	n := len(cs.heads)
	for k := 0; k < cs.n; k++ {
		n *= len(cs.recs)
	}
	return n
}

func (cs chainSpace) at(i int) (Tuple, []Tuple) {
	out := make([]Tuple, cs.n)
	for k := cs.n - 1; k >= 0; k-- {
		out[k] = cs.recs[i%len(cs.recs)]
		i /= len(cs.recs)
	}
	return cs.heads[i], out
}

func recOf(head Tuple, t Tuple, index uint64) ql.Record {
	return ql.Record{ID: t.ID, Index: index, Epoch: head.Epoch, Setting: t.Setting, FromUID: t.From, ClientMsgNo: t.Client,
		ServerTimestampMS: t.TS, SyncOnce: t.Sync, Payload: []byte(t.Pay)}
}

func sameRec(a, b Tuple) bool {
	return a.ID == b.ID && a.Setting == b.Setting && a.Sync == b.Sync && a.TS == b.TS && a.From == b.From && a.Client == b.Client && a.Pay == b.Pay
}

func (x *runner) chainCase(ci int, cs chainSpace, i int, c counts) (ql.EntryDigest, bool) {
	head, ts := cs.at(i)
	m := head.Manifest(cs.n)
	recs := make([]ql.Record, cs.n)
	for k := range recs {
		recs[k] = recOf(head, ts[k], 0) // unassigned-index form
	}
	desc := func() string {
		var b strings.Builder
		fmt.Fprintf(&b, "[%s] %d-record proposal #%d authority(epoch=%d term=%d fence=%d) base=%d:", x.api.Name, cs.n, i, head.Epoch, head.Term, head.Fence, head.Pred.Base)
		for _, r := range recs {
			b.WriteString(" " + showRecord(r))
		}
		return b.String()
	}
	bad := func(fp, format string, args ...any) {
		x.sink.add(finding{fp, desc() + ": " + fmt.Sprintf(format, args...), x.probe("chain", i, -1, map[string]int{"space": ci})})
	}
	sealed, entries, ok := x.api.Seal(m, recs)
	if !ok || len(entries) != cs.n {
		bad("C05:seal-refused-valid-input", "SealProposalManifest refused a valid %d-record proposal (ok=%v entries=%d)", cs.n, ok, len(entries))
		c["seal-refused"]++
		return ql.EntryDigest{}, false
	}
	c["sealed"]++
	wm := m
	wm.Digest = entries[cs.n-1].Digest
	if sealed != wm {
		bad("C05:sealed-digest-not-tail", "sealed manifest digest %x is not the last entry digest %x (or other manifest fields changed)", sealed.Digest, entries[cs.n-1].Digest)
	}
	if d, dok := x.api.Derive(sealed, recs); !dok || !entriesEqual(d, entries) {
		bad("C05:seal-derive-disagree", "DeriveProposalEntries(ok=%v) = %v, SealProposalManifest gave %v", dok, d, entries)
	}
	if x.opt.Reference != nil {
		rs, re, rok := x.opt.Reference.Seal(m, recs)
		if rok != ok || rs != sealed || !entriesEqual(re, entries) {
			bad("C05:wrapper-differs-from-"+x.opt.Reference.Name, "%s and %s seal the same proposal differently", x.api.Name, x.opt.Reference.Name)
		}
		c["reference-compared"]++
	}
	pt, pi, pd := head.Pred.PrevTerm, head.Pred.Base, head.Pred.PrevDig
	for k, e := range entries {
		want := ql.EntryIdentity{Version: ql.ProposalManifestVersion, ChannelEpoch: head.Epoch, LeaderTerm: head.Term, FenceVersion: head.Fence,
			Index: head.Pred.Base + uint64(k) + 1, PreviousTerm: pt, PreviousIndex: pi, CommandID: head.Cmd, PreviousDigest: pd, Digest: e.Digest}
		if e != want {
			bad("C05:chain-link-mismatch", "entry %d is %s, want the predecessor link (term=%d index=%d digest=%x..)", k, showEntry(e), pt, pi, pd[:4])
		}
		// the same record sealed alone after the same predecessor must get the same identity
		single := Tuple{Epoch: head.Epoch, Term: head.Term, Fence: head.Fence, Cmd: head.Cmd, Pred: Pred{pi, pt, pd}}.Manifest(1)
		if _, se, sok := x.api.Seal(single, recs[k:k+1]); !sok || len(se) != 1 || se[0] != e {
			bad("C05:chain-entry-differs-from-single-seal", "entry %d is %s but sealing record %d alone after the same predecessor gives %v (ok=%v)", k, showEntry(e), k, se, sok)
		}
		c["chain-entries"]++
		for j := range recs {
			got := x.api.Verify(e, recs[j])
			wantOK := sameRec(ts[j], ts[k])
			if got && !wantOK {
				bad("C05:verify-accepts-other-record-of-proposal", "VerifyEntry(entry %d, record %d) = true although the records differ", k, j)
			}
			if !got && wantOK {
				bad("C05:verify-rejects-sealed-content", "VerifyEntry(entry %d %s, record %d) = false for the sealed content", k, showEntry(e), j)
			}
			if got {
				c["chain-verify-accepted"]++
			} else {
				c["chain-verify-rejected"]++
			}
		}
		pt, pi, pd = e.LeaderTerm, e.Index, e.Digest
	}
	return entries[cs.n-1].Digest, true
}

func (x *runner) chainSection(r *ev.R) {
	for ci, cs := range x.chainSpaces() {
		start := time.Now()
		n := cs.size()
		total := counts{}
		table := make(map[ql.EntryDigest]int32, n)
		ord := order(n, r.Seed())
		digs := make([]ql.EntryDigest, n)
		okv := make([]bool, n)
		for p := 0; p < n; p++ {
			i := ord(p)
			digs[i], okv[i] = x.chainCase(ci, cs, i, total)
		}
		for i := 0; i < n; i++ {
			if !okv[i] {
				continue
			}
			if j, dup := table[digs[i]]; dup {
				ha, ra := cs.at(int(j))
				hb, rb := cs.at(i)
				// fingerprint: the set of field names that differ (record positions only in the message)
				var df, where []string
				seenF := map[string]bool{}
				for _, f := range Diff(ha, hb) {
					seenF[f] = true
					where = append(where, f)
				}
				for k := range ra {
					for _, f := range Diff(ra[k], rb[k]) {
						seenF[f] = true
						where = append(where, fmt.Sprintf("record%d.%s", k, f))
					}
				}
				for _, f := range Diff(Tuple{Epoch: 1, Term: 1, Fence: 1, Pred: Pred{1, 1, dig(1, 1)}, Cmd: cmd(1, 1), ID: 1, Setting: 1, Sync: true, TS: 1, From: "x", Client: "x", Pay: "x"}, Tuple{}) {
					if seenF[f] { // canonical field order
						df = append(df, f)
					}
				}
				x.sink.add(finding{"C05:tail-digest-collision:" + strings.Join(df, "+"),
					fmt.Sprintf("[%s] two different %d-record proposals #%d and #%d have the same tail digest %x (differ in %s)", x.api.Name, cs.n, j, i, digs[i][:], strings.Join(where, ", ")),
					x.probe("chain", int(j), i, map[string]int{"space": ci})})
				total["tail-digest-collisions"]++
				continue
			}
			table[digs[i]] = int32(i)
		}
		name := fmt.Sprintf("%s/chain-%d-records", x.api.Name, cs.n)
		r.Section(ev.Section{Name: name, Kind: "enum", Evaluations: int64(n), Distinct: int64(n), Exhaustive: true,
			Bounds:   map[string]any{"records_per_proposal": cs.n, "record_menu": len(cs.recs), "authority_predecessor_menu": len(cs.heads), "product": n, "outcomes": map[string]int64(total)},
			Outcomes: int64(len(total)), WallS: time.Since(start).Seconds(),
			Note: "every proposal of the product sealed; chain links, equality with iterated single-record sealing, Seal/Derive agreement, VerifyEntry of every (entry, record) pair, tail digests pairwise distinct"})
		r.Guard(name+"/all-sealed", total["sealed"] == int64(n), "sealed=%d of %d", total["sealed"], n)
		r.Guard(name+"/cross-verify-both-ways", total["chain-verify-accepted"] > 0 && total["chain-verify-rejected"] > 0, "accepted=%d rejected=%d", total["chain-verify-accepted"], total["chain-verify-rejected"])
	}
}

// Run executes the C05 check for one API.
func Run(r *ev.R, api API, opt Options) {
	if rf := r.Replay(); rf != nil {
		replay(r, api, opt, rf)
		return
	}
	sp := NewSpace(r.Tier(), opt.Reduce)
	if err := sp.Validate(); err != nil {
		r.HarnessError("C05 menus: %v", err)
		return
	}
	x := &runner{api: api, opt: opt, sp: sp, sink: &sink{}}
	x.historySection(r) // first: call-to-call state must be what the histories themselves produce
	x.sweepSection(r)
	x.identitySection(r)
	x.chainSection(r)
	for _, f := range x.sink.sorted() {
		r.Violation(ev.Violation{Fingerprint: f.fp, Message: f.msg, System: api.Name, Replay: f.probe})
	}
	t := sp.At(sp.Size() / 3)
	if _, es, ok := api.Seal(t.Manifest(1), []ql.Record{t.Record()}); ok {
		smp := map[string]any{"api": api.Name, "tuple": t.Show(), "digest": hex.EncodeToString(es[0].Digest[:]), "verify_sealed": api.Verify(es[0], t.Record())}
		if opt.Perturb {
			smp["perturbed_inputs_checked_all_rejected"] = len(sp.perturbations(t, es[0], t.Record()))
		}
		r.Sample(smp)
	}
	r.Assume("SHA-256 is collision resistant: digest inequality outside the enumerated menus rests on the length-prefixed pre-image shape, which the check decides only within the menus")
}

func replay(r *ev.R, api API, opt Options, rf *ev.ReplayFile) {
	var p Probe
	if err := json.Unmarshal(rf.Replay, &p); err != nil {
		r.HarnessError("replay payload: %v", err)
		return
	}
	if p.API != api.Name {
		return
	}
	opt.Reduce = p.Reduce
	x := &runner{api: api, opt: opt, sp: NewSpace(p.Tier, p.Reduce), sink: &sink{}}
	c := counts{}
	switch p.Section {
	case "identity":
		di, _ := x.identityCase(p.I, c)
		fmt.Printf("replay: tuple #%d %v digest %x\n", p.I, x.sp.At(p.I).Show(), di[:])
		if p.J >= 0 {
			dj, _ := x.identityCase(p.J, c)
			fmt.Printf("replay: tuple #%d %v digest %x\n", p.J, x.sp.At(p.J).Show(), dj[:])
			if bytes.Equal(di[:], dj[:]) {
				x.collision("identity", p.I, p.J, x.sp.At(p.I), x.sp.At(p.J), di, "")
			}
		}
	case "sweep":
		x.replaySweep(p)
	case "history":
		x.replayHistory(p)
	case "chain":
		ci := 0
		if m, ok := p.Detail.(map[string]any); ok {
			if f, ok := m["space"].(float64); ok {
				ci = int(f)
			}
		}
		spaces := x.chainSpaces()
		if ci < 0 || ci >= len(spaces) {
			r.HarnessError("replay: bad chain space %d", ci)
			return
		}
		di, _ := x.chainCase(ci, spaces[ci], p.I, c)
		if p.J >= 0 {
			dj, _ := x.chainCase(ci, spaces[ci], p.J, c)
			if di == dj {
				x.sink.add(finding{rf.Fingerprint, "tail digest collision reproduced", p})
			}
		}
	}
	for _, f := range x.sink.sorted() {
		fmt.Printf("replay: [%s] %s\n", f.fp, f.msg)
		if f.fp == rf.Fingerprint {
			r.MarkReplayReproduced()
			r.Violation(ev.Violation{Fingerprint: f.fp, Message: f.msg, System: api.Name, Replay: f.probe})
		}
	}
	r.Section(ev.Section{Name: api.Name + "/replay", Kind: "enum", Evaluations: 1, Note: "replay"})
}
