package c05gen

// Small-domain sweeps: the fields whose whole domain (or whose every bit) is cheap to
// enumerate are enumerated completely, so that a refactoring that aliases a bit of one
// field into another field (e.g. packing SyncOnce into an "unused" Setting bit, or two
// counters into one word) is decided, not left to the choice of 2-4 menu values.
//
//   1. Setting x SyncOnce exhaustively: all 256 x 2 values (other fields fixed, two bases):
//      digests pairwise distinct and VerifyEntry(identity(x), y) <=> x = y for ALL 512 x 512
//      pairs (this contains every single-bit Setting flip and every SyncOnce flip).
//   2. Per numeric field (channel epoch, leader term, fence version, index/previous index,
//      previous term, message id, timestamp): every single-bit value 1<<k plus 3 and all-ones;
//      digests pairwise distinct, VerifyEntry cross-checked over all pairs of the sweep.
//   3. Pairs of fields: every (1<<i, 1<<j) for every pair of numeric fields, and every
//      (Setting, SyncOnce) x 1<<k for every numeric field: digests pairwise distinct (an OR /
//      shift packing of two fields collides on (1<<(s+i),1<<j) vs (1<<(s+j),1<<i)).
//
// All sweep tuples share one digest table (digest -> tuple): equal digest with a different
// tuple is a violation whichever sweep produced the two tuples.

import (
	"encoding/json"
	"fmt"
	"math"
	"strings"
	"time"

	ql "github.com/WuKongIM/WuKongIM/pkg/quorumlog"
	"github.com/WuKongIM/WuKongIM/pkg/zzverif/ev"
)

type numField struct {
	name string // same names as Diff
	bits int    // single-bit values 1<<k for k in [low, bits)
	low  int
	set  func(*Tuple, uint64)
}

func numFields() []numField {
	return []numField{
		{"channel-epoch", 64, 0, func(t *Tuple, v uint64) { t.Epoch = v }},
		{"leader-term", 64, 0, func(t *Tuple, v uint64) { t.Term = v }},
		{"fence-version", 64, 0, func(t *Tuple, v uint64) { t.Fence = v }},
		// index = Base+1 and previous index = Base move together (VerifyEntry requires adjacency);
		// index 1 is genesis (different predecessor shape), so the sweep starts at 1<<1
		{"index", 64, 1, func(t *Tuple, v uint64) { t.Pred.Base = v - 1 }},
		{"previous-term", 64, 0, func(t *Tuple, v uint64) { t.Pred.PrevTerm = v }},
		{"message-id", 64, 0, func(t *Tuple, v uint64) { t.ID = v }},
		{"timestamp", 63, 0, func(t *Tuple, v uint64) { t.TS = int64(v) }},
	}
}

func (f numField) values(extra bool) []uint64 {
	var out []uint64
	for k := f.low; k < f.bits; k++ {
		out = append(out, uint64(1)<<uint(k))
	}
	if extra {
		all := ^uint64(0)
		if f.bits == 63 {
			all = uint64(math.MaxInt64)
		}
		out = append(out, 3, all)
	}
	return out
}

func sweepBases() []Tuple {
	return []Tuple{
		{Epoch: 1, Term: 1, Fence: 1, Pred: Pred{1, 1, dig(0xd1, 0)}, Cmd: cmd(1, 0), ID: 1, Setting: 0, Sync: false, TS: 1, From: "a", Client: "c", Pay: "p"},
		{Epoch: 3, Term: 5, Fence: 7, Pred: Pred{8, 2, dig(0xd2, 9)}, Cmd: cmd(0, 1), ID: 11, Setting: 1, Sync: true, TS: 1001, From: "", Client: "", Pay: ""},
	}
}

type sealedTuple struct {
	t Tuple
	e ql.EntryIdentity
	r ql.Record
}

type sweeper struct {
	x     *runner
	table map[ql.EntryDigest]Tuple
	c     counts
}

func sweepProbe(x *runner, a, b Tuple) Probe {
	return Probe{API: x.api.Name, Tier: x.sp.Tier, Reduce: x.opt.Reduce, Section: "sweep", I: -1, J: -1, Detail: map[string]any{"a": a, "b": b}}
}

func (s *sweeper) bad(fp string, a, b Tuple, format string, args ...any) {
	s.x.sink.add(finding{fp, "[" + s.x.api.Name + "] " + fmt.Sprintf(format, args...), sweepProbe(s.x, a, b)})
}

// seal seals one tuple through the real API, checks that the sealed content verifies and
// enters its digest into the shared table.
func (s *sweeper) seal(t Tuple) (sealedTuple, bool) {
	r := t.Record()
	_, es, ok := s.x.api.Seal(t.Manifest(1), []ql.Record{r})
	if !ok || len(es) != 1 {
		s.bad("C05:seal-refused-valid-input", t, t, "SealProposalManifest refused the valid content %v", t.Show())
		s.c["seal-refused"]++
		return sealedTuple{}, false
	}
	s.c["sealed"]++
	e := es[0]
	if !s.x.api.Verify(e, r) {
		s.bad("C05:verify-rejects-sealed-content", t, t, "VerifyEntry(%s, %s) = false for the sealed content", showEntry(e), showRecord(r))
	}
	if o, dup := s.table[e.Digest]; dup {
		if o != t {
			df := Diff(o, t)
			s.bad("C05:digest-collision:"+strings.Join(df, "+"), o, t, "two different contents have the same entry digest %x: %v and %v (differ in %s)", e.Digest[:], o.Show(), t.Show(), strings.Join(df, ", "))
			s.c["digest-collisions"]++
		}
	} else {
		s.table[e.Digest] = t
	}
	return sealedTuple{t, e, r}, true
}

// cross demands VerifyEntry(identity(a), content b) <=> a = b for every pair of the set: the
// identity presented is b's own authority/index/command/predecessor fields with a's digest.
func (s *sweeper) cross(set []sealedTuple) {
	for i := range set {
		for j := range set {
			y := set[j].e
			y.Digest = set[i].e.Digest
			got := s.x.api.Verify(y, set[j].r)
			same := set[i].t == set[j].t
			switch {
			case got && !same:
				df := Diff(set[i].t, set[j].t)
				s.bad("C05:verify-accepts-perturbed:"+strings.Join(df, "+"), set[i].t, set[j].t,
					"identity sealed from %v as %s; VerifyEntry(%s, %s) = true although the %s differs from the sealed content",
					set[i].t.Show(), showEntry(set[i].e), showEntry(y), showRecord(set[j].r), strings.Join(df, ", "))
				s.c["cross-verify-accepted-different"]++
			case !got && same:
				s.bad("C05:verify-rejects-sealed-content", set[i].t, set[j].t, "VerifyEntry(%s, %s) = false for the sealed content", showEntry(y), showRecord(set[j].r))
			case got:
				s.c["cross-verify-accepted-same"]++
			default:
				s.c["cross-verify-rejected-different"]++
			}
		}
	}
}

func (x *runner) sweepSection(r *ev.R) {
	s := &sweeper{x: x, table: map[ql.EntryDigest]Tuple{}, c: counts{}}
	thorough := x.sp.Tier == "thorough"
	bases := sweepBases()
	fields := numFields()
	emit := func(name string, start time.Time, before counts, bounds map[string]any, note string) int64 {
		d := counts{}
		for k, v := range s.c {
			if v-before[k] != 0 {
				d[k] = v - before[k]
			}
		}
		n := d["sealed"] + d["seal-refused"] + sumPrefix(d, "cross-verify-")
		bounds["outcomes"] = map[string]int64(d)
		r.Section(ev.Section{Name: x.api.Name + "/" + name, Kind: "enum", Evaluations: n, Distinct: n, Exhaustive: true, Bounds: bounds,
			Outcomes: int64(len(d)), WallS: time.Since(start).Seconds(), Note: note})
		return d["sealed"]
	}
	snap := func() counts { c := counts{}; c.merge(s.c); return c }

	// ---- 1. Setting x SyncOnce, whole domain
	start, before := time.Now(), snap()
	for _, b := range bases {
		var set []sealedTuple
		for v := 0; v < 256; v++ {
			for _, sy := range []bool{false, true} {
				t := b
				t.Setting, t.Sync = uint8(v), sy
				if st, ok := s.seal(t); ok {
					set = append(set, st)
				}
			}
		}
		s.cross(set)
	}
	n1 := emit("setting-sync-exhaustive", start, before, map[string]any{"setting_values": 256, "sync_once_values": 2, "bases": len(bases), "tuples": 512 * len(bases), "verify_pairs": 512 * 512 * len(bases)},
		"Setting over all 256 byte values x SyncOnce over both values (other fields fixed, two bases): digests pairwise distinct, VerifyEntry(identity(x), y) <=> x = y for every pair of the 512 (includes every single-bit Setting flip and every SyncOnce flip)")
	r.Guard(x.api.Name+"/setting-sync-whole-domain", n1 == int64(512*len(bases)), "sealed=%d (need %d = 256 settings x 2 sync-once x %d bases)", n1, 512*len(bases), len(bases))

	// ---- 2. every single-bit value of every numeric field, cross-verified
	start, before = time.Now(), snap()
	want := 0
	for _, b := range bases {
		for _, f := range fields {
			var set []sealedTuple
			for _, v := range f.values(true) {
				t := b
				f.set(&t, v)
				want++
				if st, ok := s.seal(t); ok {
					set = append(set, st)
				}
			}
			s.cross(set)
		}
	}
	n2 := emit("numeric-bit-sweep", start, before, map[string]any{"fields": len(fields), "values_per_field": "1<<k for every bit of the type (index from 1<<1, timestamp to 1<<62), 3, all-ones", "bases": len(bases), "tuples": want},
		"per numeric field every single-bit value (plus 3 and all-ones), other fields fixed: digests pairwise distinct, VerifyEntry cross-checked over all pairs of each sweep")
	r.Guard(x.api.Name+"/numeric-bit-sweep-complete", n2 == int64(want) && want >= 2*7*60, "sealed=%d of %d", n2, want)

	// ---- 3. pairs of fields
	start, before = time.Now(), snap()
	want = 0
	pairBases := bases
	if !thorough {
		pairBases = bases[:1]
	}
	for _, b := range pairBases {
		for i := range fields {
			for j := i + 1; j < len(fields); j++ {
				for _, v := range fields[i].values(false) {
					for _, w := range fields[j].values(false) {
						t := b
						fields[i].set(&t, v)
						fields[j].set(&t, w)
						want++
						s.seal(t)
					}
				}
			}
		}
		var settings []uint8
		for v := 0; v < 256; v++ {
			if thorough || v == 0 || v == 255 || v&(v-1) == 0 {
				settings = append(settings, uint8(v))
			}
		}
		for _, f := range fields {
			for _, v := range f.values(false) {
				for _, set := range settings {
					for _, sy := range []bool{false, true} {
						t := b
						f.set(&t, v)
						t.Setting, t.Sync = set, sy
						want++
						s.seal(t)
					}
				}
			}
		}
	}
	n3 := emit("field-pair-bit-sweep", start, before, map[string]any{"numeric_field_pairs": len(fields) * (len(fields) - 1) / 2, "bases": len(pairBases), "tuples": want,
		"setting_values_per_numeric_bit": map[bool]string{true: "all 256", false: "0, 255 and the 8 single bits"}[thorough]},
		"every (1<<i, 1<<j) for every pair of numeric fields and every (Setting, SyncOnce) x 1<<k for every numeric field: digests pairwise distinct over the shared table of all sweeps")
	r.Guard(x.api.Name+"/field-pair-sweep-complete", n3 == int64(want) && want >= 80000, "sealed=%d of %d", n3, want)
	r.Count(x.api.Name+"/sweep_distinct_digests", int64(len(s.table)))
}

// replaySweep re-evaluates the two tuples of a sweep finding.
func (x *runner) replaySweep(p Probe) {
	raw, err := json.Marshal(p.Detail)
	if err != nil {
		return
	}
	var d struct{ A, B Tuple }
	if err := json.Unmarshal(raw, &d); err != nil {
		fmt.Println("replay: bad sweep payload:", err)
		return
	}
	s := &sweeper{x: x, table: map[ql.EntryDigest]Tuple{}, c: counts{}}
	var set []sealedTuple
	for _, t := range []Tuple{d.A, d.B} {
		if st, ok := s.seal(t); ok {
			fmt.Printf("replay: %v -> digest %x\n", t.Show(), st.e.Digest[:])
			set = append(set, st)
		}
	}
	s.cross(set)
}
