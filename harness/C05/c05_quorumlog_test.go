package quorumlog_test

// C05 - An entry identity binds every field of its message (pkg/quorumlog, black box).
//
// The deciding code is the shared generator c05_gen.go (virtual package
// pkg/zzverif/c05gen); this file only binds it to the exported quorumlog API.

import (
	"testing"

	"github.com/WuKongIM/WuKongIM/pkg/quorumlog"
	"github.com/WuKongIM/WuKongIM/pkg/zzverif/c05gen"
	"github.com/WuKongIM/WuKongIM/pkg/zzverif/ev"
)

func TestVerifC05(t *testing.T) {
	r := ev.Start(t, "C05")
	defer r.Finish()
	c05gen.Run(r, c05gen.API{
		Name: "quorumlog",
		Seal: quorumlog.SealProposalManifest,
		Derive: func(m quorumlog.ProposalManifest, recs []quorumlog.Record) ([]quorumlog.EntryIdentity, bool) {
			return quorumlog.DeriveProposalEntries(m, len(recs), func(i int) quorumlog.Record { return recs[i] })
		},
		Verify: quorumlog.VerifyEntry,
	}, c05gen.Options{Perturb: true})
}
