package channel_test

// C05 - the pkg/channel wrappers (SealProposalManifest / DeriveProposalEntries over
// channel.Record) must bind the same fields: the same enumeration is sealed through the
// wrappers, digests must be pairwise distinct and equal to what quorumlog derives for
// the field-by-field equal quorumlog.Record.

import (
	"testing"

	"github.com/WuKongIM/WuKongIM/pkg/channel"
	"github.com/WuKongIM/WuKongIM/pkg/quorumlog"
	"github.com/WuKongIM/WuKongIM/pkg/zzverif/c05gen"
	"github.com/WuKongIM/WuKongIM/pkg/zzverif/ev"
)

func c05ChannelRecords(recs []quorumlog.Record) []channel.Record {
	out := make([]channel.Record, len(recs))
	for i, r := range recs {
		out[i] = channel.Record{ID: r.ID, Index: r.Index, Epoch: r.Epoch, Setting: r.Setting, FromUID: r.FromUID, ClientMsgNo: r.ClientMsgNo,
			ServerTimestampMS: r.ServerTimestampMS, SyncOnce: r.SyncOnce, Payload: r.Payload, SizeBytes: len(r.Payload)}
	}
	return out
}

func TestVerifC05Channel(t *testing.T) {
	r := ev.Start(t, "C05")
	defer r.Finish()
	ref := &c05gen.API{Name: "quorumlog", Seal: quorumlog.SealProposalManifest}
	c05gen.Run(r, c05gen.API{
		Name: "channel-wrapper",
		Seal: func(m quorumlog.ProposalManifest, recs []quorumlog.Record) (quorumlog.ProposalManifest, []quorumlog.EntryIdentity, bool) {
			return channel.SealProposalManifest(m, c05ChannelRecords(recs))
		},
		Derive: func(m quorumlog.ProposalManifest, recs []quorumlog.Record) ([]quorumlog.EntryIdentity, bool) {
			cr := c05ChannelRecords(recs)
			return channel.DeriveProposalEntries(m, len(cr), func(i int) channel.Record { return cr[i] })
		},
		Verify: quorumlog.VerifyEntry,
	}, c05gen.Options{Reference: ref, Reduce: true})
}
