package raftlog

// C14 - the snapshot GC as an OWNED source of nondeterminism.
//
// A successful snapshot save starts a background GC pass (DB.startSnapshotGC ->
// DB.runSnapshotGC): it collects the snapshot directories referenced by the manifests in
// Pebble and removes every other inactive, expired directory under the snapshot root (grace
// 0 = at once). Left alone this is a free-running goroutine whose interleaving with the next
// save is decided by the Go scheduler. The check therefore
//
//  1. waits for every automatic pass right after the call that started it (VerifC14WaitGC:
//     DB.gcWG), so no pass ever overlaps a later call by accident, and
//  2. places additional passes itself, through the package's own entry point
//     DB.runSnapshotGC, at chosen points of a snapshot save (VerifC14ArmGC):
//       "publish"  inside publishSnapshotAndCommit, at DB.snapshotAfterPublishTestHook: the
//                  final directory is renamed into place, the manifest is NOT yet committed
//                  and the saving goroutine holds the snapshot lifecycle lock;
//       "staging"  after the first chunk file was written into the temporary directory
//                  (TestingSetSnapshotWriteFileHook), the lifecycle lock is free;
//     and as a stand-alone event between calls (VerifC14GCPass).
//
// A pass placed inside a save cannot run synchronously (the save may hold the lifecycle lock
// the pass needs), so it runs on its own goroutine G and the save continues only once G has
// SETTLED: G has returned, or G sleeps on the lifecycle lock (the lock word says "locked, one
// waiter", and G is the only goroutine that can be the waiter because the only other
// goroutine in the store is the save itself, which owns the lock). Everything G does before
// asking for the lock has then happened, everything after it happens after the save
// released the lock; the same condition is re-established before the write worker commits
// the batch (DB.writeCommitTestHook), so a pass is never racing the manifest commit. This is
// a wait for a condition, not for time: every execution of the same history takes the same
// interleaving.
//
// The lock word is read with reflect+unsafe from sync.Mutex (state: bit 0 locked, bits 3..
// waiter count; go1.18 - go1.26 layouts); an unknown layout is a harness error.

import (
	"context"
	"fmt"
	"reflect"
	"strings"
	"sync"
	"sync/atomic"
	"time"
	"unsafe"
)

// VerifC14WaitGC waits until every automatic snapshot GC pass started so far has returned.
func VerifC14WaitGC(db *DB) { db.gcWG.Wait() }

// VerifC14GCPass runs one synchronous GC pass (no save in flight).
func VerifC14GCPass(db *DB) error { return db.runSnapshotGC(context.Background()) }

// VerifC14GCReport says what an armed pass did.
type VerifC14GCReport struct {
	Fired   bool   // the placement point was reached and a pass was started there
	Blocked bool   // the pass slept on the lifecycle lock while the save went on
	Err     error  // result of the pass
	Herr    string // infrastructure problem (layout unknown, pass never settled)
}

var (
	c14gcStateOff  uintptr
	c14gcStateOK   bool
	c14gcStateOnce sync.Once
)

// c14gcLockWord returns (locked, waiters) of a sync.Mutex.
func c14gcLockWord(m *sync.Mutex) (bool, int32, bool) {
	c14gcStateOnce.Do(func() {
		t := reflect.TypeOf(sync.Mutex{})
		if f, ok := t.FieldByName("state"); ok && f.Type.Kind() == reflect.Int32 {
			c14gcStateOff, c14gcStateOK = f.Offset, true
			return
		}
		if f, ok := t.FieldByName("mu"); ok && f.Type.Kind() == reflect.Struct {
			if g, ok := f.Type.FieldByName("state"); ok && g.Type.Kind() == reflect.Int32 {
				c14gcStateOff, c14gcStateOK = f.Offset+g.Offset, true
			}
		}
	})
	if !c14gcStateOK {
		return false, 0, false
	}
	s := atomic.LoadInt32((*int32)(unsafe.Add(unsafe.Pointer(m), c14gcStateOff)))
	return s&1 != 0, s >> 3, true
}

type c14gcArm struct {
	db      *DB
	where   string
	root    string
	started bool
	done    chan struct{}
	rep     VerifC14GCReport
}

func (a *c14gcArm) start() {
	if a.started {
		return
	}
	a.started = true
	a.rep.Fired = true
	a.done = make(chan struct{})
	go func() {
		defer close(a.done)
		a.rep.Err = a.db.runSnapshotGC(context.Background())
	}()
	a.settle()
}

// settle returns when the pass has returned or sleeps on the lifecycle lock.
func (a *c14gcArm) settle() {
	if !a.started {
		return
	}
	deadline := time.Now().Add(120 * time.Second)
	for spins := 0; ; spins++ {
		select {
		case <-a.done:
			return
		default:
		}
		locked, waiters, ok := c14gcLockWord(&a.db.snapshotLifecycleMu)
		if !ok {
			a.rep.Herr = "sync.Mutex layout not recognised"
			return
		}
		if locked && waiters >= 1 {
			a.rep.Blocked = true
			return
		}
		if time.Now().After(deadline) {
			a.rep.Herr = "GC pass neither returned nor reached the lifecycle lock within 120 s"
			return
		}
		if spins < 200 {
			time.Sleep(5 * time.Microsecond)
		} else {
			time.Sleep(200 * time.Microsecond)
		}
	}
}

// VerifC14ArmGC places one GC pass inside the next snapshot save on db (where = "publish" or
// "staging"; root = the snapshot root of db, needed to recognise its chunk writes). The
// returned function is called after the save returned: it joins the pass, removes the hooks
// and reports. The chunk-write dispatcher (c14cInstallChunkHook) must be installed.
func VerifC14ArmGC(db *DB, where, root string) func() VerifC14GCReport {
	a := &c14gcArm{db: db, where: where, root: root}
	if _, _, ok := c14gcLockWord(&db.snapshotLifecycleMu); !ok {
		return func() VerifC14GCReport { return VerifC14GCReport{Herr: "sync.Mutex layout not recognised"} }
	}
	switch where {
	case "publish":
		db.snapshotAfterPublishTestHook = func(*stagedSnapshot) error { a.start(); return nil }
	case "staging":
		c14cHookMu.Lock()
		c14cHookRoots[root] = func(op string) {
			if strings.HasPrefix(op, "hook:after-chunk ") {
				a.start()
			}
		}
		c14cHookMu.Unlock()
		db.snapshotAfterPublishTestHook = func(*stagedSnapshot) error { a.settle(); return nil }
	default:
		return func() VerifC14GCReport { return VerifC14GCReport{Herr: fmt.Sprintf("unknown placement %q", where)} }
	}
	db.writeCommitTestHook = func() error { a.settle(); return nil }
	return func() VerifC14GCReport {
		if a.started {
			select {
			case <-a.done:
			case <-time.After(120 * time.Second):
				a.rep.Herr = "GC pass did not return within 120 s after the save"
			}
		}
		db.snapshotAfterPublishTestHook, db.writeCommitTestHook = nil, nil
		if where == "staging" {
			c14cHookMu.Lock()
			delete(c14cHookRoots, root)
			c14cHookMu.Unlock()
		}
		return a.rep
	}
}
