// Package c14model is the reference model of check C14: a boring in-memory Raft storage
// (hard state, applied marks, one snapshot, a contiguous slice of entries), the generators
// of Raft-valid storage calls, and the observation/comparison code that reads a real
// multiraft.Storage through its public interface and compares it with the model.
//
// It deliberately shares no code with pkg/raftlog (neither memory.go nor meta.go): the
// configuration state is derived by a set union over "add node" entries, which is all the
// alphabet ever generates.
package c14model

import (
	"bytes"
	"context"
	"fmt"
	"regexp"
	"sort"
	"strings"

	"github.com/WuKongIM/WuKongIM/pkg/slot/multiraft"
	"go.etcd.io/raft/v3/raftpb"
)

// ---------------------------------------------------------------- model

// Snap is the model's snapshot (Index 0 = none).
type Snap struct {
	Index, Term uint64
	Voters      []uint64
	Data        []byte
}

// Scope is the reference state of one Raft scope.
type Scope struct {
	HS         raftpb.HardState
	Applied    uint64
	CfgApplied uint64
	Snap       Snap
	Ents       []raftpb.Entry // contiguous, all above Snap.Index
}

// Clone deep-copies the model.
func (s *Scope) Clone() *Scope {
	c := *s
	c.Snap.Voters = append([]uint64(nil), s.Snap.Voters...)
	c.Snap.Data = append([]byte(nil), s.Snap.Data...)
	c.Ents = make([]raftpb.Entry, len(s.Ents))
	for i, e := range s.Ents {
		c.Ents[i] = e
		c.Ents[i].Data = append([]byte(nil), e.Data...)
	}
	return &c
}

// Call is one storage call (exactly one field set).
type Call struct {
	Save       *multiraft.PersistentState
	Applied    *uint64
	CfgApplied *uint64
}

func (c Call) String() string {
	switch {
	case c.Applied != nil:
		return fmt.Sprintf("MarkApplied(%d)", *c.Applied)
	case c.CfgApplied != nil:
		return fmt.Sprintf("MarkConfigApplied(%d)", *c.CfgApplied)
	case c.Save != nil:
		var b strings.Builder
		b.WriteString("Save{")
		if c.Save.HardState != nil {
			fmt.Fprintf(&b, "hs(t%d v%d c%d) ", c.Save.HardState.Term, c.Save.HardState.Vote, c.Save.HardState.Commit)
		}
		if c.Save.Snapshot != nil {
			m := c.Save.Snapshot.Metadata
			fmt.Fprintf(&b, "snap(i%d t%d v%v %dB) ", m.Index, m.Term, m.ConfState.Voters, len(c.Save.Snapshot.Data))
		}
		for _, e := range c.Save.Entries {
			ty := "n"
			if e.Type == raftpb.EntryConfChange {
				ty = "cc"
			}
			fmt.Fprintf(&b, "e(i%d t%d %s) ", e.Index, e.Term, ty)
		}
		return strings.TrimSpace(b.String()) + "}"
	}
	return "noop"
}

// Do executes the call on a real storage.
func (c Call) Do(ctx context.Context, st multiraft.Storage) error {
	switch {
	case c.Save != nil:
		return st.Save(ctx, *c.Save)
	case c.Applied != nil:
		return st.MarkApplied(ctx, *c.Applied)
	case c.CfgApplied != nil:
		cs, ok := st.(multiraft.ConfigAppliedIndexStorage)
		if !ok {
			return fmt.Errorf("storage does not implement ConfigAppliedIndexStorage")
		}
		return cs.MarkConfigApplied(ctx, *c.CfgApplied)
	}
	return nil
}

// Apply is the reference semantics of a storage call.
func (s *Scope) Apply(c Call) {
	switch {
	case c.Applied != nil:
		s.Applied = *c.Applied
	case c.CfgApplied != nil:
		s.CfgApplied = *c.CfgApplied
	case c.Save != nil:
		st := c.Save
		if st.HardState != nil {
			s.HS = *st.HardState
		}
		ents := st.Entries
		if st.Snapshot != nil {
			m := st.Snapshot.Metadata
			if m.Index > s.Snap.Index {
				s.Snap = Snap{Index: m.Index, Term: m.Term, Voters: append([]uint64(nil), m.ConfState.Voters...), Data: append([]byte(nil), st.Snapshot.Data...)}
				var keep []raftpb.Entry
				for _, e := range s.Ents {
					if e.Index > m.Index {
						keep = append(keep, e)
					}
				}
				s.Ents = keep
			}
			if s.HS.Commit < m.Index {
				s.HS.Commit = m.Index
			}
			var above []raftpb.Entry
			for _, e := range ents {
				if e.Index > m.Index {
					above = append(above, e)
				}
			}
			ents = above
		}
		if len(ents) > 0 {
			first := ents[0].Index
			var keep []raftpb.Entry
			for _, e := range s.Ents {
				if e.Index < first {
					keep = append(keep, e)
				}
			}
			for _, e := range ents {
				e.Data = append([]byte(nil), e.Data...)
				keep = append(keep, e)
			}
			s.Ents = keep
		}
	}
}

// First / Last / TermAt / VotersAt are the model's read functions.
func (s *Scope) First() uint64 {
	if len(s.Ents) > 0 {
		return s.Ents[0].Index
	}
	if s.Snap.Index > 0 {
		return s.Snap.Index + 1
	}
	return 1
}

func (s *Scope) Last() uint64 {
	if len(s.Ents) > 0 {
		return s.Ents[len(s.Ents)-1].Index
	}
	return s.Snap.Index
}

// TermAt returns the term of a held index (entry or snapshot point), 0 otherwise.
func (s *Scope) TermAt(i uint64) uint64 {
	for _, e := range s.Ents {
		if e.Index == i {
			return e.Term
		}
	}
	if s.Snap.Index > 0 && s.Snap.Index == i {
		return s.Snap.Term
	}
	return 0
}

// Holds reports whether index i is an entry or the snapshot point.
func (s *Scope) Holds(i uint64) bool {
	for _, e := range s.Ents {
		if e.Index == i {
			return true
		}
	}
	return s.Snap.Index > 0 && s.Snap.Index == i
}

// VotersAt is the configuration after applying everything up to index i: the snapshot's
// voters plus every "add node" entry in (Snap.Index, i].
func (s *Scope) VotersAt(i uint64) []uint64 {
	set := map[uint64]bool{}
	for _, v := range s.Snap.Voters {
		set[v] = true
	}
	for _, e := range s.Ents {
		if e.Index > s.Snap.Index && e.Index <= i && e.Type == raftpb.EntryConfChange {
			var cc raftpb.ConfChange
			if err := cc.Unmarshal(e.Data); err == nil && cc.Type == raftpb.ConfChangeAddNode {
				set[cc.NodeID] = true
			}
		}
	}
	out := make([]uint64, 0, len(set))
	for v := range set {
		out = append(out, v)
	}
	sort.Slice(out, func(a, b int) bool { return out[a] < out[b] })
	return out
}

// CommittedVoters is the configuration InitialState must report.
func (s *Scope) CommittedVoters() []uint64 {
	c := s.HS.Commit
	if c < s.Snap.Index {
		c = s.Snap.Index
	}
	return s.VotersAt(c)
}

// ---------------------------------------------------------------- generators (Raft-valid by construction)

// NormalEntry / ConfEntry build the menu entries; payloads carry index and term so that a
// stale or misplaced row is visible.
func NormalEntry(i, t uint64) raftpb.Entry {
	return raftpb.Entry{Index: i, Term: t, Type: raftpb.EntryNormal, Data: []byte(fmt.Sprintf("n%d.%d", i, t))}
}

func ConfEntry(i, t, node uint64) raftpb.Entry {
	cc := raftpb.ConfChange{Type: raftpb.ConfChangeAddNode, NodeID: node}
	d, _ := cc.Marshal()
	return raftpb.Entry{Index: i, Term: t, Type: raftpb.EntryConfChange, Data: d}
}

// SnapData returns the payload of a snapshot at (i, t): empty, exactly one 4-byte chunk or
// 10 bytes (three chunks at chunk size 4), selected by the index.
func SnapData(i, t uint64) []byte {
	s := fmt.Sprintf("%d:%d|snapshot-data", i, t)
	switch i % 3 {
	case 0:
		return nil
	case 1:
		return []byte(s[:4])
	default:
		return []byte(s[:10])
	}
}

func mkSnap(i, t uint64, voters []uint64) *raftpb.Snapshot {
	return &raftpb.Snapshot{
		Metadata: raftpb.SnapshotMetadata{Index: i, Term: t, ConfState: raftpb.ConfState{Voters: append([]uint64(nil), voters...)}},
		Data:     SnapData(i, t),
	}
}

// Events of one scope. Base alphabet first, wide alphabet after.
var BaseEvents = []string{"app", "app2", "hs", "commit", "applied", "ovw", "ovwL", "compact", "install", "instM"}
var WideEvents = []string{"commit1", "resnap", "cfgapp", "instE"}

func (s *Scope) term() uint64 {
	if s.HS.Term == 0 {
		return 1
	}
	return s.HS.Term
}

func (s *Scope) floor() uint64 { // highest index that may no longer be rewritten
	f := s.HS.Commit
	if f < s.Snap.Index {
		f = s.Snap.Index
	}
	return f
}

// Gen materialises event ev in the current state; ok=false when the event is not enabled
// (it would not be a Raft-valid call here).
func (s *Scope) Gen(ev string) (Call, bool) {
	last, T := s.Last(), s.term()
	save := func(st multiraft.PersistentState) (Call, bool) { return Call{Save: &st}, true }
	hsIfFirst := func() *raftpb.HardState { // the first write of a term-less scope carries the term
		if s.HS.Term == 0 {
			return &raftpb.HardState{Term: 1, Vote: 0, Commit: s.HS.Commit}
		}
		return nil
	}
	switch ev {
	case "app": // append one normal entry at the tail
		return save(multiraft.PersistentState{HardState: hsIfFirst(), Entries: []raftpb.Entry{NormalEntry(last+1, T)}})
	case "app2": // append a normal entry and a membership change
		return save(multiraft.PersistentState{HardState: hsIfFirst(), Entries: []raftpb.Entry{NormalEntry(last+1, T), ConfEntry(last+2, T, 3)}})
	case "hs": // new term, vote
		nt := s.HS.Term + 1
		return save(multiraft.PersistentState{HardState: &raftpb.HardState{Term: nt, Vote: 1 + nt%2, Commit: s.HS.Commit}})
	case "commit": // commit everything held
		if s.HS.Commit >= last {
			return Call{}, false
		}
		return save(multiraft.PersistentState{HardState: &raftpb.HardState{Term: T, Vote: s.HS.Vote, Commit: last}})
	case "commit1": // commit one more index
		if s.HS.Commit+1 >= last || s.HS.Commit+1 <= s.Snap.Index {
			return Call{}, false
		}
		return save(multiraft.PersistentState{HardState: &raftpb.HardState{Term: T, Vote: s.HS.Vote, Commit: s.HS.Commit + 1}})
	case "applied":
		if s.Applied >= s.HS.Commit {
			return Call{}, false
		}
		c := s.HS.Commit
		return Call{Applied: &c}, true
	case "cfgapp":
		if s.Applied == 0 || s.CfgApplied == s.Applied {
			return Call{}, false
		}
		c := s.Applied
		return Call{CfgApplied: &c}, true
	case "ovw": // a new leader overwrites the whole uncommitted suffix with one entry
		k := s.floor() + 1
		if k > last {
			return Call{}, false
		}
		nt := s.HS.Term + 1
		return save(multiraft.PersistentState{HardState: &raftpb.HardState{Term: nt, Vote: 1 + nt%2, Commit: s.HS.Commit},
			Entries: []raftpb.Entry{NormalEntry(k, nt)}})
	case "ovwL": // ... overwrites only the last entry, with two entries
		k := s.floor() + 1
		if k >= last {
			return Call{}, false
		}
		nt := s.HS.Term + 1
		return save(multiraft.PersistentState{HardState: &raftpb.HardState{Term: nt, Vote: 1 + nt%2, Commit: s.HS.Commit},
			Entries: []raftpb.Entry{NormalEntry(last, nt), NormalEntry(last+1, nt)}})
	case "compact": // snapshot of the applied prefix (what multiraft's compactor saves)
		a := s.Applied
		if a <= s.Snap.Index || a > last || a > s.HS.Commit {
			return Call{}, false
		}
		return save(multiraft.PersistentState{Snapshot: mkSnap(a, s.TermAt(a), s.VotersAt(a))})
	case "install": // leader snapshot beyond the log, with the hard state that goes with it
		i := last + 2
		return save(multiraft.PersistentState{HardState: &raftpb.HardState{Term: T, Vote: s.HS.Vote, Commit: i}, Snapshot: mkSnap(i, T, []uint64{1, 2})})
	case "instE": // ... followed by an entry in the same save
		i := last + 2
		return save(multiraft.PersistentState{HardState: &raftpb.HardState{Term: T, Vote: s.HS.Vote, Commit: i}, Snapshot: mkSnap(i, T, []uint64{1, 2}),
			Entries: []raftpb.Entry{NormalEntry(i+1, T), NormalEntry(i+2, T)}})
	case "instM": // leader snapshot inside the held log, no hard state: the suffix stays, commit is raised by the store
		i := s.floor() + 1
		if i > last || s.HS.Term == 0 {
			return Call{}, false
		}
		return save(multiraft.PersistentState{Snapshot: mkSnap(i, T, []uint64{1, 2, 3})})
	case "resnap": // retry of the snapshot that is already stored
		if s.Snap.Index == 0 {
			return Call{}, false
		}
		return save(multiraft.PersistentState{Snapshot: &raftpb.Snapshot{
			Metadata: raftpb.SnapshotMetadata{Index: s.Snap.Index, Term: s.Snap.Term, ConfState: raftpb.ConfState{Voters: append([]uint64(nil), s.Snap.Voters...)}},
			Data:     append([]byte(nil), s.Snap.Data...)}})
	}
	return Call{}, false
}

// Enabled lists the enabled events of the alphabet in order.
func (s *Scope) Enabled(alphabet []string) []string {
	var out []string
	for _, e := range alphabet {
		if _, ok := s.Gen(e); ok {
			out = append(out, e)
		}
	}
	return out
}

// ---------------------------------------------------------------- observation of a real storage

// Obs is everything read from one scope of a real storage.
type Obs struct {
	N          uint64 // indexes 0..N were probed
	InitErr    string
	HS         raftpb.HardState
	Voters     []uint64
	ConfOther  string // non-empty when learners / joint / auto-leave are set
	Applied    uint64
	CfgApplied uint64
	First      uint64
	FirstErr   string
	Last       uint64
	LastErr    string
	SnapErr    string
	Snap       Snap
	SnapOther  string
	Terms      []uint64
	TermErrs   []string
	Ranges     map[[2]uint64]string // (lo,hi) -> rendered entries or "ERR: ..."
	Sized      map[uint64]string    // maxSize -> rendered entries of [1, N+1)
	RangeBelow map[[2]uint64]uint64 // (lo,hi) -> lowest returned index (0 = none)
}

// SizeMenu is the maxSize menu of the size-limited reads (entry sizes here are 12 and 14 bytes).
var SizeMenu = []uint64{1, 12, 25, 26, 40}

func errStr(err error) string {
	if err == nil {
		return ""
	}
	return Sanitize(err.Error())
}

var (
	sanPath  = regexp.MustCompile(`(?:/[^/\s:"']+)+`)
	sanNonce = regexp.MustCompile(`(snap-[0-9a-f]{16}-[0-9a-f]{16}-)[0-9a-f]{16}`)
	sanScope = regexp.MustCompile(`\b(slot|controller)-[0-9]+\b`)
)

// Sanitize makes an error text of the store reproducible: file-system errors carry the
// snapshot root of this execution (a per-instance scratch directory), the numeric id of the
// scope and the random nonce of the snapshot directory. Violation messages must be identical
// when the same history is executed again (the mc engine re-executes a violating path twice
// and only believes a violation that reproduces verbatim), so every path is cut down to its
// last element and the nonce / scope id are masked. Nothing the oracle compares goes through
// here - only texts that are printed.
func Sanitize(s string) string {
	s = sanPath.ReplaceAllStringFunc(s, func(p string) string {
		return "<dir>" + p[strings.LastIndexByte(p, '/'):]
	})
	s = sanNonce.ReplaceAllString(s, "${1}<nonce>")
	return sanScope.ReplaceAllString(s, "${1}-<id>")
}

func render(es []raftpb.Entry) string {
	var b strings.Builder
	for _, e := range es {
		fmt.Fprintf(&b, "[%d t%d y%d %x]", e.Index, e.Term, e.Type, e.Data)
	}
	return b.String()
}

func confOther(cs raftpb.ConfState) string {
	if len(cs.Learners) > 0 || len(cs.VotersOutgoing) > 0 || len(cs.LearnersNext) > 0 || cs.AutoLeave {
		return fmt.Sprintf("learners=%v outgoing=%v next=%v autoleave=%v", cs.Learners, cs.VotersOutgoing, cs.LearnersNext, cs.AutoLeave)
	}
	return ""
}

func sortedCopy(v []uint64) []uint64 {
	o := append([]uint64(nil), v...)
	sort.Slice(o, func(a, b int) bool { return o[a] < o[b] })
	return o
}

// Observe reads everything the property talks about: InitialState, FirstIndex, LastIndex,
// Snapshot, Term(i) for i in 0..n, Entries(lo,hi,0) for all 0<=lo<=hi<=n+1 with hi>=1, and
// size-limited reads of the whole range.
func Observe(ctx context.Context, st multiraft.Storage, n uint64) *Obs {
	return observe(ctx, st, n, false)
}

// ObserveLight is Observe with the (lo,hi) ranges reduced to every suffix [lo,n+1), every
// prefix [0,hi) and every single index [i,i+1) - used where the same store is read very
// often (crash images); the entry rows themselves are still all read and compared.
func ObserveLight(ctx context.Context, st multiraft.Storage, n uint64) *Obs {
	return observe(ctx, st, n, true)
}

func observe(ctx context.Context, st multiraft.Storage, n uint64, light bool) *Obs {
	o := &Obs{N: n, Ranges: map[[2]uint64]string{}, Sized: map[uint64]string{}, RangeBelow: map[[2]uint64]uint64{}}
	bs, err := st.InitialState(ctx)
	o.InitErr = errStr(err)
	o.HS, o.Voters, o.ConfOther, o.Applied, o.CfgApplied = bs.HardState, sortedCopy(bs.ConfState.Voters), confOther(bs.ConfState), bs.AppliedIndex, bs.ConfigAppliedIndex
	o.First, err = st.FirstIndex(ctx)
	o.FirstErr = errStr(err)
	o.Last, err = st.LastIndex(ctx)
	o.LastErr = errStr(err)
	sn, err := st.Snapshot(ctx)
	o.SnapErr = errStr(err)
	o.Snap = Snap{Index: sn.Metadata.Index, Term: sn.Metadata.Term, Voters: sortedCopy(sn.Metadata.ConfState.Voters), Data: sn.Data}
	o.SnapOther = confOther(sn.Metadata.ConfState)
	for i := uint64(0); i <= n; i++ {
		t, err := st.Term(ctx, i)
		o.Terms = append(o.Terms, t)
		o.TermErrs = append(o.TermErrs, errStr(err))
	}
	for lo := uint64(0); lo <= n+1; lo++ {
		for hi := lo; hi <= n+1; hi++ {
			if hi == 0 {
				continue // hi=0 means "unbounded" to the durable store and "nothing" to a slice; Raft never asks
			}
			if light && !(hi == n+1 || lo == 0 || hi == lo+1) {
				continue
			}
			es, err := st.Entries(ctx, lo, hi, 0)
			if err != nil {
				o.Ranges[[2]uint64{lo, hi}] = "ERR: " + Sanitize(err.Error())
				continue
			}
			o.Ranges[[2]uint64{lo, hi}] = render(es)
			if len(es) > 0 {
				min := es[0].Index
				for _, e := range es {
					if e.Index < min {
						min = e.Index
					}
				}
				o.RangeBelow[[2]uint64{lo, hi}] = min
			}
		}
	}
	for _, ms := range SizeMenu {
		es, err := st.Entries(ctx, 1, n+1, ms)
		if err != nil {
			o.Sized[ms] = "ERR: " + Sanitize(err.Error())
		} else {
			o.Sized[ms] = render(es)
		}
	}
	return o
}

// Diff is one mismatch between an observation and the model.
type Diff struct {
	Kind string // structural classification (becomes part of the fingerprint)
	Msg  string
}

func eqU(a, b []uint64) bool {
	if len(a) != len(b) {
		return false
	}
	for i := range a {
		if a[i] != b[i] {
			return false
		}
	}
	return true
}

func (s *Scope) expectRange(lo, hi, maxSize uint64) string {
	var out []raftpb.Entry
	var size uint64
	for _, e := range s.Ents {
		if e.Index < lo || e.Index >= hi {
			continue
		}
		if maxSize > 0 && len(out) > 0 && size+uint64(e.Size()) > maxSize {
			break
		}
		size += uint64(e.Size())
		out = append(out, e)
	}
	return render(out)
}

// Diffs compares an observation with the model and returns every mismatch (ordered:
// safety-flavoured kinds first).
func (s *Scope) Diffs(o *Obs) []Diff {
	var d []Diff
	add := func(kind, format string, args ...any) {
		d = append(d, Diff{Kind: kind, Msg: fmt.Sprintf(format, args...)})
	}
	// "never returns entries below the compaction point"
	for k, min := range o.RangeBelow {
		if min != 0 && min <= s.Snap.Index {
			add("entry-below-compaction-returned", "Entries(%d,%d) returned index %d <= snapshot index %d", k[0], k[1], min, s.Snap.Index)
			break
		}
	}
	// "never returns a term for an index it does not hold"
	for i, t := range o.Terms {
		if o.TermErrs[i] == "" && t != 0 && !s.Holds(uint64(i)) {
			add("term-for-unheld-index", "Term(%d)=%d but the index is neither an entry nor the snapshot point (first=%d last=%d snap=%d)", i, t, s.First(), s.Last(), s.Snap.Index)
			break
		}
	}
	if o.InitErr != "" {
		add("initial-state-error", "InitialState: %s", o.InitErr)
	} else {
		if o.HS.Term != s.HS.Term || o.HS.Vote != s.HS.Vote || o.HS.Commit != s.HS.Commit {
			add("hardstate-mismatch", "HardState got (t%d v%d c%d) want (t%d v%d c%d)", o.HS.Term, o.HS.Vote, o.HS.Commit, s.HS.Term, s.HS.Vote, s.HS.Commit)
		}
		if o.Applied != s.Applied {
			add("applied-index-mismatch", "AppliedIndex got %d want %d", o.Applied, s.Applied)
		}
		if o.CfgApplied != s.CfgApplied {
			add("config-applied-index-mismatch", "ConfigAppliedIndex got %d want %d", o.CfgApplied, s.CfgApplied)
		}
		if want := s.CommittedVoters(); !eqU(o.Voters, want) || o.ConfOther != "" {
			add("confstate-mismatch", "InitialState ConfState voters got %v %s want %v", o.Voters, o.ConfOther, want)
		}
	}
	if o.FirstErr != "" {
		add("first-index-error", "FirstIndex: %s", o.FirstErr)
	} else if o.First != s.First() {
		add("first-index-mismatch", "FirstIndex got %d want %d", o.First, s.First())
	}
	if o.LastErr != "" {
		add("last-index-error", "LastIndex: %s", o.LastErr)
	} else if o.Last != s.Last() {
		add("last-index-mismatch", "LastIndex got %d want %d", o.Last, s.Last())
	}
	if o.SnapErr != "" {
		add("snapshot-read-error", "Snapshot: %s (model snapshot index %d)", o.SnapErr, s.Snap.Index)
	} else if o.Snap.Index != s.Snap.Index || o.Snap.Term != s.Snap.Term || !eqU(o.Snap.Voters, sortedCopy(s.Snap.Voters)) || o.SnapOther != "" || !bytes.Equal(o.Snap.Data, s.Snap.Data) {
		add("snapshot-mismatch", "Snapshot got (i%d t%d v%v %s %q) want (i%d t%d v%v %q)", o.Snap.Index, o.Snap.Term, o.Snap.Voters, o.SnapOther, o.Snap.Data,
			s.Snap.Index, s.Snap.Term, s.Snap.Voters, s.Snap.Data)
	}
	for i, t := range o.Terms {
		if o.TermErrs[i] != "" {
			add("term-error", "Term(%d): %s", i, o.TermErrs[i])
			break
		}
		if want := s.TermAt(uint64(i)); t != want {
			add("term-mismatch", "Term(%d) got %d want %d", i, t, want)
			break
		}
	}
	keys := make([][2]uint64, 0, len(o.Ranges))
	for k := range o.Ranges {
		keys = append(keys, k)
	}
	sort.Slice(keys, func(a, b int) bool {
		if keys[a][0] != keys[b][0] {
			return keys[a][0] < keys[b][0]
		}
		return keys[a][1] < keys[b][1]
	})
	for _, k := range keys {
		got := o.Ranges[k]
		if strings.HasPrefix(got, "ERR: ") {
			add("entries-error", "Entries(%d,%d): %s", k[0], k[1], got)
			break
		}
		if want := s.expectRange(k[0], k[1], 0); got != want {
			add("entries-mismatch", "Entries(%d,%d) got %s want %s", k[0], k[1], got, want)
			break
		}
	}
	for _, ms := range SizeMenu {
		got := o.Sized[ms]
		if strings.HasPrefix(got, "ERR: ") {
			add("entries-error", "Entries(1,%d,max %d): %s", o.N+1, ms, got)
			break
		}
		if want := s.expectRange(1, o.N+1, ms); got != want {
			add("entries-size-limit-mismatch", "Entries(1,%d,max %d) got %s want %s", o.N+1, ms, got, want)
			break
		}
	}
	return d
}

// Summary is a short rendering of the model state (for samples and messages).
func (s *Scope) Summary() string {
	return fmt.Sprintf("hs(t%d v%d c%d) applied=%d cfg=%d snap(i%d t%d v%v %dB) ents=%s", s.HS.Term, s.HS.Vote, s.HS.Commit, s.Applied, s.CfgApplied,
		s.Snap.Index, s.Snap.Term, s.Snap.Voters, len(s.Snap.Data), func() string {
			var b strings.Builder
			for _, e := range s.Ents {
				fmt.Fprintf(&b, "%d@%d ", e.Index, e.Term)
			}
			return strings.TrimSpace(b.String())
		}())
}
