package raftlog_test

// C14 (open part) - the durable Raft log behaves as a correct Raft storage while open and
// across clean close+reopen.
//
// Black-box explicit-state exploration of raftlog.Open(...).For(scope): every sequence, up
// to the depth bound, of Raft-valid storage calls (hard-state saves, appends incl. a
// membership-change entry, overwrites of the uncommitted suffix, applied marks, compaction
// snapshots at the applied index, leader snapshots beyond and inside the held log) on two
// scopes of ONE database, plus close+reopen of that database. After every step everything
// the property names is read back for both scopes (InitialState, FirstIndex, LastIndex,
// Snapshot, Term(i) for every index 0..last+2, Entries(lo,hi) for every 0<=lo<=hi<=last+3,
// size-limited Entries) and compared with the in-harness reference model (package
// c14model). The same calls are also fed to the repository's own in-memory storage
// (raftlog.NewMemory) and that is compared with the model as well, as a cross-check of the
// model.
//
// No state merging: the writer's per-scope cache (cached tail, cached metadata) and the LSM
// are hidden state, so the enumeration is over event sequences (Canon() == "").
//
// The snapshot GC (a background goroutine started by every successful snapshot save) is owned
// by the check, see c14_gc_test.go: after every call the automatic pass is awaited
// (raftlog.VerifC14WaitGC) so that it never overlaps the read-back or a later call, and the
// open-gc system places additional passes as explicit events: "<save>+gcP" (started while the
// save holds the lifecycle lock between publishing its directory and committing its
// manifest), "<save>+gcS" (during chunk staging) and "gc" (between calls). Error texts of the
// store are sanitised (c14model.Sanitize: scratch paths, random snapshot nonce, scope id) so
// that a violation reproduces verbatim when the engine re-executes its path.
//
// This file is the black-box half (package raftlog_test, exported API only). It registers
// itself with the in-package half (c14_crash_test.go, which owns TestVerifC14) so that both
// run in one test binary and write one result.

import (
	"context"
	"fmt"
	"os"
	"path/filepath"
	"strings"
	"sync"
	"sync/atomic"
	"time"

	"github.com/WuKongIM/WuKongIM/pkg/raftlog"
	"github.com/WuKongIM/WuKongIM/pkg/slot/multiraft"
	"github.com/WuKongIM/WuKongIM/pkg/zzverif/c14model"
	"github.com/WuKongIM/WuKongIM/pkg/zzverif/crashfs"
	"github.com/WuKongIM/WuKongIM/pkg/zzverif/ev"
	"github.com/WuKongIM/WuKongIM/pkg/zzverif/mc"
	"github.com/cockroachdb/pebble/v2"
	"github.com/cockroachdb/pebble/v2/vfs"
)

const c14DirPrefix = "verif-C14-"

var (
	c14PoolMu   sync.Mutex
	c14PoolFree []*c14Backend
	c14DirSeq   atomic.Uint64
	c14ScopeSeq atomic.Uint64
	c14Opens    atomic.Int64

	// vacuity counters
	c14nTrunc, c14nReplaceLast, c14nCompactKeep, c14nCompactAll, c14nInstall, c14nInstMid           atomic.Int64
	c14nReopenSnap, c14nReopenDirty, c14nMultiChunk, c14nBothScopes, c14nBelowProbe, c14nConfChange atomic.Int64
	c14nSizeCut                                                                                     atomic.Int64

	// snapshot GC placement (open-gc system)
	c14nGCPublish, c14nGCPublishBlocked, c14nGCPublishPayload, c14nGCStaging, c14nGCAlone atomic.Int64
	c14nGCSuperseded, c14nGCOtherScopeSnap, c14nGCSecondSnap, c14nGCThenReopen            atomic.Int64
)

type c14Backend struct {
	dir  string // real directory (tmpfs): the snapshot root lives here
	vdir string // mount point of this backend's in-memory filesystem (Pebble files)
	db   *raftlog.DB
	uses int
}

func (b *c14Backend) open() (*raftlog.DB, error) {
	o := c14Options()
	o.SnapshotPath = filepath.Join(b.dir, "snapshots")
	return raftlog.Open(b.vdir+"/db", o)
}

func c14Options() raftlog.Options {
	// SnapshotChunkSize 4: the snapshot payload menu (0, 4 and 10 bytes) covers zero, exactly
	// one and several chunks. WriteBatchMaxWait 1ns: the group-write collector does not wait
	// for companions (sequential histories; the group path is exercised by the crash run).
	return raftlog.Options{SnapshotChunkSize: 4, WriteBatchMaxWait: time.Nanosecond}
}

var (
	c14TweakOnce sync.Once
	c14Cache     *pebble.Cache
	c14Router    *crashfs.Router
)

// c14Tweak is tuning only (raftlog.VerifTweak / VerifFS, the -tags verif seam): pebble's
// default 4 MiB memtable arena and 8 MiB block cache are calloc'ed on every Open, and every
// Open creates and syncs a handful of files; both dominate the cost of close+reopen events.
// Each backend's Pebble files therefore live on their own pebble vfs.NewMem() (a plain
// in-memory filesystem that keeps everything across Close/Open), mounted under a unique
// prefix; the snapshot directories stay real files on tmpfs. Nothing semantic depends on
// the sizes. (Crash behaviour is the subject of the second run, not of this one.)
func c14Tweak() {
	c14TweakOnce.Do(func() {
		c14Cache = pebble.NewCache(4 << 20)
		c14Router = crashfs.NewRouter()
	})
	raftlog.VerifFS = c14Router
	raftlog.VerifTweak = func(o *pebble.Options) {
		o.MemTableSize = 64 << 10
		o.Cache = c14Cache
		o.Logger = c14QuietLogger{} // pebble logs three lines per Open to stderr otherwise
	}
}

type c14QuietLogger struct{}

func (c14QuietLogger) Infof(string, ...interface{})  {}
func (c14QuietLogger) Errorf(string, ...interface{}) {}
func (c14QuietLogger) Fatalf(f string, a ...interface{}) {
	panic(fmt.Sprintf("pebble fatal: "+f, a...))
}

func c14OpenBackend() (*c14Backend, error) {
	seq := c14DirSeq.Add(1)
	b := &c14Backend{dir: filepath.Join("/dev/shm", fmt.Sprintf("%s%d-o%d", c14DirPrefix, os.Getpid(), seq)), vdir: fmt.Sprintf("/c14open%d", seq)}
	if err := os.MkdirAll(b.dir, 0o755); err != nil {
		return nil, err
	}
	c14Router.Mount(b.vdir, vfs.NewMem())
	db, err := b.open()
	if err != nil {
		return nil, err
	}
	b.db = db
	return b, nil
}

func c14GetBackend() (*c14Backend, error) {
	c14PoolMu.Lock()
	if n := len(c14PoolFree); n > 0 {
		b := c14PoolFree[n-1]
		c14PoolFree = c14PoolFree[:n-1]
		c14PoolMu.Unlock()
		return b, nil
	}
	c14PoolMu.Unlock()
	return c14OpenBackend()
}

func (b *c14Backend) discard() {
	if b.db != nil {
		_ = b.db.Close()
	}
	_ = os.RemoveAll(b.dir)
	c14Router.Unmount(b.vdir)
}

func c14PutBackend(b *c14Backend, dirty bool) {
	b.uses++
	if dirty || b.uses >= 300 { // rotate: keeps the snapshot root and the memtable small
		b.discard()
		return
	}
	c14PoolMu.Lock()
	c14PoolFree = append(c14PoolFree, b)
	c14PoolMu.Unlock()
}

func c14DrainPool() {
	c14PoolMu.Lock()
	defer c14PoolMu.Unlock()
	for _, b := range c14PoolFree {
		b.discard()
	}
	c14PoolFree = nil
}

// ---------------------------------------------------------------- instance

type c14Inst struct {
	be       *c14Backend
	nScopes  int
	alphabet []string
	scopes   [2]raftlog.Scope
	st       [2]multiraft.Storage
	mem      [2]multiraft.Storage
	m        [2]*c14model.Scope
	phase    string
	broken   error
	dirty    bool
	sinceRe  int
	gc       bool   // system places snapshot GC passes (events "<snapshot save>+gcP", "+gcS", "gc")
	lastEv   string // previous event (a GC pass directly after a GC pass adds nothing)
	gcPlaced int    // GC passes placed on this path so far
}

// c14GCAlphabet is the per-scope alphabet of the open-gc system: what is needed to reach and
// to move past snapshot saves; every snapshot save additionally comes with a GC pass placed
// inside it (see Events).
var c14GCAlphabet = []string{"app", "commit", "applied", "compact", "install", "instM"}

func c14IsSnapshotSave(e string) bool { return e == "compact" || e == "install" || e == "instM" }

func (in *c14Inst) snapDirs(si int) int {
	ents, err := os.ReadDir(filepath.Join(in.be.dir, "snapshots", fmt.Sprintf("slot-%d", in.scopes[si].ID)))
	if err != nil {
		return 0
	}
	n := 0
	for _, e := range ents {
		if e.IsDir() {
			n++
		}
	}
	return n
}

var c14ScopeNames = [2]string{"A", "B"}

// c14Preamble is the warm start: both scopes hold entries 1..3 (2 is a membership change),
// 1..2 committed and applied, 3 uncommitted - so every event of the alphabet is enabled at
// depth 1.
var c14Preamble = []string{"app2", "commit", "applied", "app"}

func c14New(nScopes int, alphabet []string, warm bool, gc bool) func() mc.Instance {
	return func() mc.Instance {
		in := &c14Inst{nScopes: nScopes, alphabet: alphabet, phase: "open", gc: gc}
		defer func() {
			if !warm || in.broken != nil {
				return
			}
			for si := 0; si < 2; si++ {
				for _, e := range c14Preamble {
					call, ok := in.m[si].Gen(e)
					if !ok {
						in.broken = fmt.Errorf("preamble event %s not enabled", e)
						return
					}
					if err := call.Do(context.Background(), in.st[si]); err != nil {
						in.broken = fmt.Errorf("preamble %s: %v", call, err)
						return
					}
					_ = call.Do(context.Background(), in.mem[si])
					in.m[si].Apply(call)
					in.sinceRe++
				}
			}
		}()
		be, err := c14GetBackend()
		if err != nil {
			in.broken = err
			return in
		}
		in.be = be
		base := c14ScopeSeq.Add(2) // adjacent ids: scope B's keys directly follow scope A's
		for i := 0; i < 2; i++ {
			in.scopes[i] = raftlog.SlotScope(base + uint64(i))
			in.st[i] = be.db.For(in.scopes[i])
			in.mem[i] = raftlog.NewMemory()
			in.m[i] = &c14model.Scope{}
		}
		return in
	}
}

func (in *c14Inst) Close() {
	if in.be != nil {
		// the scopes of this instance are never used again: drop their snapshot directories so
		// that the store's snapshot GC (which lists the whole root) stays cheap
		for _, sc := range in.scopes {
			_ = os.RemoveAll(filepath.Join(in.be.dir, "snapshots", fmt.Sprintf("slot-%d", sc.ID)))
		}
		c14PutBackend(in.be, in.dirty || in.broken != nil)
		in.be = nil
	}
}

func (in *c14Inst) Canon() string { return "" }

func (in *c14Inst) Events() []string {
	var out []string
	for i := 0; i < in.nScopes; i++ {
		en := in.m[i].Enabled(in.alphabet)
		for _, e := range en {
			out = append(out, c14ScopeNames[i]+"."+e)
		}
		if !in.gc {
			continue
		}
		// the same snapshot saves with a GC pass placed inside: while the final directory is
		// published and the manifest is not yet committed (+gcP), and while the chunks are being
		// staged (+gcS; needs at least one chunk file)
		for _, e := range en {
			if c14IsSnapshotSave(e) {
				out = append(out, c14ScopeNames[i]+"."+e+"+gcP")
			}
		}
		for _, e := range en {
			if !c14IsSnapshotSave(e) {
				continue
			}
			if c, ok := in.m[i].Gen(e); ok && c.Save != nil && c.Save.Snapshot != nil && len(c.Save.Snapshot.Data) > 0 {
				out = append(out, c14ScopeNames[i]+"."+e+"+gcS")
			}
		}
	}
	if in.sinceRe > 0 { // a reopen directly after a reopen (or of an untouched store) adds nothing
		out = append(out, "reopen")
	}
	if in.gc && in.lastEv != "gc" && (in.m[0].Snap.Index > 0 || in.m[1].Snap.Index > 0) {
		out = append(out, "gc") // a GC pass between calls
	}
	return out
}

func (in *c14Inst) Apply(event string, env *mc.Env) (string, error) {
	if in.broken != nil {
		return "broken", nil
	}
	ctx := context.Background()
	prevEv := in.lastEv
	in.lastEv = event
	if event == "gc" {
		in.phase = "gc"
		before := in.snapDirs(0) + in.snapDirs(1)
		err := raftlog.VerifC14GCPass(in.be.db)
		c14nGCAlone.Add(1)
		in.gcPlaced++
		if prevEv == "reopen" {
			c14nGCThenReopen.Add(1)
		}
		if in.snapDirs(0)+in.snapDirs(1) < before {
			c14nGCSuperseded.Add(1)
		}
		if err != nil {
			return "gc pass: " + c14model.Sanitize(err.Error()), nil
		}
		return "gc pass", nil
	}
	if event == "reopen" {
		in.phase = "reopen"
		if err := in.be.db.Close(); err != nil {
			in.dirty = true
			return "close error", mc.Violatef("C14:close-failed", "Close: %v", err)
		}
		db, err := in.be.open()
		c14Opens.Add(1)
		if err != nil {
			in.be.db = nil
			in.dirty = true
			return "open error", mc.Violatef("C14:reopen-failed", "Open after clean Close: %v", err)
		}
		in.be.db = db
		for i := 0; i < 2; i++ {
			in.st[i] = db.For(in.scopes[i])
		}
		if in.m[0].Snap.Index > 0 || in.m[1].Snap.Index > 0 {
			c14nReopenSnap.Add(1)
		}
		if in.sinceRe > 0 {
			c14nReopenDirty.Add(1)
		}
		in.sinceRe = 0
		return "reopened", nil
	}
	in.phase = "open"
	si := 0
	if strings.HasPrefix(event, "B.") {
		si = 1
	}
	name := event[2:]
	place := "" // GC pass placed inside this save: "publish" | "staging"
	switch {
	case strings.HasSuffix(name, "+gcP"):
		name, place, in.phase = strings.TrimSuffix(name, "+gcP"), "publish", "gc-in-publish"
	case strings.HasSuffix(name, "+gcS"):
		name, place, in.phase = strings.TrimSuffix(name, "+gcS"), "staging", "gc-in-staging"
	}
	m := in.m[si]
	call, ok := m.Gen(name)
	if !ok {
		in.broken = fmt.Errorf("event %s not enabled", event)
		return "", nil
	}
	// vacuity bookkeeping (from the model, before the call)
	if call.Save != nil {
		if len(call.Save.Entries) > 0 && call.Save.Snapshot == nil {
			first := call.Save.Entries[0].Index
			lastNew := call.Save.Entries[len(call.Save.Entries)-1].Index
			if first <= m.Last() && lastNew < m.Last() {
				c14nTrunc.Add(1)
			}
			if first <= m.Last() && first == m.Last() {
				c14nReplaceLast.Add(1)
			}
			for _, e := range call.Save.Entries {
				if e.Type != 0 {
					c14nConfChange.Add(1)
				}
			}
		}
		if sn := call.Save.Snapshot; sn != nil {
			switch {
			case name == "compact" && sn.Metadata.Index < m.Last():
				c14nCompactKeep.Add(1)
			case name == "compact":
				c14nCompactAll.Add(1)
			case name == "instM":
				c14nInstMid.Add(1)
			default:
				c14nInstall.Add(1)
			}
			if len(sn.Data) > 4 {
				c14nMultiChunk.Add(1)
			}
		}
	}
	var finishGC func() raftlog.VerifC14GCReport
	dirsBefore := 0
	if place != "" {
		dirsBefore = in.snapDirs(0) + in.snapDirs(1)
		finishGC = raftlog.VerifC14ArmGC(in.be.db, place, filepath.Join(in.be.dir, "snapshots"))
	}
	err := call.Do(ctx, in.st[si])
	gcNote := ""
	if finishGC != nil {
		rep := finishGC()
		if rep.Herr != "" {
			in.broken = fmt.Errorf("GC placement (%s) in %s: %s", place, event, rep.Herr)
			in.dirty = true
			return "", nil
		}
		if !rep.Fired && err == nil {
			in.broken = fmt.Errorf("GC placement point (%s) was not reached by %s (%s)", place, event, call)
			in.dirty = true
			return "", nil
		}
		in.gcPlaced++
		gcNote = " with a GC pass placed at " + place
		if rep.Blocked {
			gcNote += " (the pass waited for the lifecycle lock until the save released it)"
		}
		if place == "publish" {
			c14nGCPublish.Add(1)
			if rep.Blocked {
				c14nGCPublishBlocked.Add(1)
			}
			if len(call.Save.Snapshot.Data) > 0 {
				c14nGCPublishPayload.Add(1)
			}
			if in.m[1-si].Snap.Index > 0 && len(in.m[1-si].Snap.Data) > 0 {
				c14nGCOtherScopeSnap.Add(1)
			}
			if m.Snap.Index > 0 {
				c14nGCSecondSnap.Add(1)
			}
		} else {
			c14nGCStaging.Add(1)
		}
	}
	// the automatic GC pass started by a successful snapshot save has returned before anything
	// else happens: no free-running pass overlaps the read-back or a later call
	raftlog.VerifC14WaitGC(in.be.db)
	if place != "" && err == nil && in.snapDirs(0)+in.snapDirs(1) <= dirsBefore {
		c14nGCSuperseded.Add(1) // one directory added, at least one (superseded) removed
	}
	if err != nil {
		in.dirty = true
		fp := "C14:valid-call-rejected"
		if place != "" {
			fp += "@" + in.phase
		}
		return "rejected", mc.Violatef(fp, "scope %s: %s%s on model [%s] returned error: %s", c14ScopeNames[si], call, gcNote, m.Summary(), c14model.Sanitize(err.Error()))
	}
	if merr := call.Do(ctx, in.mem[si]); merr != nil {
		in.dirty = true
		return "rejected-by-memory", mc.Violatef("C14:memory-store:valid-call-rejected", "scope %s: %s: raftlog.NewMemory returned error: %v", c14ScopeNames[si], call, merr)
	}
	m.Apply(call)
	in.sinceRe++
	if len(in.m[0].Ents) > 0 && len(in.m[1].Ents) > 0 {
		c14nBothScopes.Add(1)
	}
	return call.String() + gcNote, nil
}

func (in *c14Inst) Check() error {
	if in.broken != nil {
		return mc.Violatef("C14:harness-broken", "harness: %v", in.broken)
	}
	ctx := context.Background()
	for i := 0; i < 2; i++ {
		m := in.m[i]
		n := m.Last() + 2
		o := c14model.Observe(ctx, in.st[i], n)
		if m.Snap.Index > 0 {
			c14nBelowProbe.Add(1)
		}
		if o.Sized[12] != o.Sized[40] {
			c14nSizeCut.Add(1)
		}
		if d := m.Diffs(o); len(d) > 0 {
			in.dirty = true
			return mc.Violatef("C14:"+d[0].Kind+"@"+in.phase, "scope %s (%s): %s | model: %s | %d mismatching aspects", c14ScopeNames[i], in.phase, d[0].Msg, m.Summary(), len(d))
		}
		// cross-check of the model against the repository's in-memory storage
		om := c14model.Observe(ctx, in.mem[i], n)
		if d := m.Diffs(om); len(d) > 0 {
			return mc.Violatef("C14:memory-store:"+d[0].Kind, "scope %s: raftlog.NewMemory disagrees with the reference model: %s | model: %s", c14ScopeNames[i], d[0].Msg, m.Summary())
		}
	}
	return nil
}

// ---------------------------------------------------------------- test

func init() { raftlog.VerifC14OpenPart = c14OpenPart }

func c14OpenPart(r *ev.R) {
	c14Tweak()
	defer func() { raftlog.VerifFS, raftlog.VerifTweak = nil, nil }()
	defer c14DrainPool()

	r.Assume("Histories are Raft-valid by construction: indexes are contiguous, only the uncommitted suffix is overwritten, snapshot indexes only grow and are >= the commit index, compaction snapshots are taken at the applied index with the entry's term and the configuration reached there.")
	r.Assume("Entries(lo,hi) is queried with hi >= 1 only: hi = 0 means 'unbounded' to the durable store and 'nothing' to a slice-backed storage, and Raft never asks it. 'Below the compaction point' is compared with the in-memory reference, which returns only retained entries and no error (so does the durable store); what is demanded is that no entry <= the snapshot index is ever returned and Term() is 0 for every index that is neither an entry nor the snapshot point.")
	r.Assume("Reference semantics of a snapshot save inside the held log: the suffix above the snapshot index stays (as pkg/raftlog/memory.go does); the model is written independently and cross-checked against raftlog.NewMemory on every state.")

	base := c14model.BaseEvents
	wide := append(append([]string{}, c14model.BaseEvents...), c14model.WideEvents...)

	type sys struct {
		name     string
		scopes   int
		alphabet []string
		warm     bool
		depth    int
		note     string
		gc       bool
	}
	systems := []sys{
		{"open-2scopes", 2, base, false, ev.Pick(r, 3, 4), "all sequences of base-alphabet calls on two adjacent scopes of one DB + reopen, from empty scopes; full read-back compare after every step", false},
		{"open-1scope-deep", 1, base, false, ev.Pick(r, 4, 6), "one scope, deeper", false},
		{"open-2scopes-warm", 2, base, true, ev.Pick(r, 3, 4), "starts after a 4-call preamble on both scopes (entries 1..3, 2 committed+applied, 3 uncommitted) so that overwrite/compaction/install are enabled at depth 1", false},
		{"open-2scopes-warm-wide", 2, wide, true, ev.Pick(r, 2, 3), "warm start; adds partial commit, same-snapshot retry, config-applied mark, snapshot+entries in one save", false},
		{"open-gc", 2, c14GCAlphabet, true, ev.Pick(r, 3, 4), "snapshot GC passes as explicit events: every snapshot save also with a GC pass placed inside it (+gcP: started while the save holds the lifecycle lock between publishing its directory and committing its manifest, continues when the save has released the lock; +gcS: during chunk staging) and stand-alone passes between calls ('gc'); two scopes of one DB, grace 0, warm start, reopen; a committed snapshot must stay readable and equal to the reference now and after reopen", true},
	}
	for _, s := range systems {
		if r.ViolationCount() > 0 {
			break
		}
		start := any("empty")
		if s.warm {
			start = c14Preamble
		}
		global := []string{"reopen (after at least one write)"}
		bounds := map[string]any{"scopes": s.scopes, "alphabet": s.alphabet, "merging": "none", "start": start}
		if s.gc {
			global = append(global, "gc (one synchronous GC pass; when a snapshot exists, not directly after a gc)")
			bounds["gc_placement"] = "every enabled snapshot save (compact, install, instM) additionally as <save>+gcP and, when its payload has at least one chunk, <save>+gcS"
			bounds["snapshot_gc_grace"] = 0
		}
		bounds["global"] = global
		mc.Run(r, mc.System{Name: s.name, New: c14New(s.scopes, s.alphabet, s.warm, s.gc), MaxDepth: s.depth, Bounds: bounds, Note: s.note})
	}

	if r.Replay() == nil && r.ViolationCount() == 0 {
		g := func(name string, c *atomic.Int64, min int64) {
			r.Guard(name, c.Load() >= min, "%d (min %d)", c.Load(), min)
			r.Count(name, c.Load())
		}
		g("suffix_overwrite_that_shortens_the_log", &c14nTrunc, 1)
		g("overwrite_of_last_entry_only", &c14nReplaceLast, 1)
		g("compaction_keeping_a_suffix", &c14nCompactKeep, 1)
		g("compaction_of_whole_log", &c14nCompactAll, 1)
		g("install_beyond_log", &c14nInstall, 1)
		g("install_inside_log", &c14nInstMid, 1)
		g("reopen_with_snapshot_present", &c14nReopenSnap, 1)
		g("reopen_after_writes", &c14nReopenDirty, 1)
		g("multi_chunk_snapshot", &c14nMultiChunk, 1)
		g("both_scopes_hold_entries", &c14nBothScopes, 1)
		g("states_probed_below_compaction_point", &c14nBelowProbe, 1)
		g("membership_change_entries", &c14nConfChange, 1)
		g("size_limit_cut_a_read", &c14nSizeCut, 1)
		g("gc_pass_placed_between_publish_and_manifest_commit", &c14nGCPublish, 1)
		g("gc_pass_waited_on_lifecycle_lock_held_by_the_save", &c14nGCPublishBlocked, 1)
		g("gc_pass_inside_save_of_snapshot_with_chunk_files", &c14nGCPublishPayload, 1)
		g("gc_pass_inside_save_while_other_scope_holds_a_snapshot_with_chunks", &c14nGCOtherScopeSnap, 1)
		g("gc_pass_inside_second_snapshot_save_of_a_scope", &c14nGCSecondSnap, 1)
		g("gc_pass_placed_during_chunk_staging", &c14nGCStaging, 1)
		g("gc_pass_between_calls", &c14nGCAlone, 1)
		g("gc_pass_directly_after_reopen", &c14nGCThenReopen, 1)
		g("gc_pass_removed_a_superseded_snapshot_directory", &c14nGCSuperseded, 1)
		r.Count("database_reopens", c14Opens.Load())
	}
}
