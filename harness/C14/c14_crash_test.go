package raftlog

// C14 (crash part) - the durable Raft log returns the reference state after reopening at any
// crash point; group writes of two scopes.
//
// In-package because the capture points for the snapshot directories (plain os files beside
// Pebble) are the package's own test seams: TestingSetSnapshotWriteFileHook (before/after
// every chunk file), DB.snapshotAfterPublishTestHook (final directory renamed, manifest not
// yet committed), DB.writeCommitTestHook (batch built, not yet committed; also used to count
// physical commits of the group writer) and DB.gcWG (wait for the background snapshot GC so
// that captures are deterministic). Everything else goes through Open / For / the
// multiraft.Storage interface.
//
// TestVerifC14 (below) runs the black-box open part first (c14_open_test.go, registered
// through VerifC14OpenPart) and then the sections of this file:
//   crash-seq    every history of exactly d Raft-valid calls on two scopes (slot/1 and the
//                controller scope) of one DB on crashfs, from three starts (empty, warm cache,
//                warm data + cold cache). Every mutating Pebble FS call is a crash point
//                (kill image + power-loss image), plus the snapshot-directory capture points
//                above; with every image goes a copy of the snapshot root as it was at that
//                instant. EVERY image is reopened with the real Open and both scopes must
//                equal the reference model after j_s calls of scope s, acked_s <= j_s <=
//                started_s (every acknowledged call was committed with pebble.Sync, so the
//                lower bound also holds for power-loss images). After a successful compare
//                the in-flight call is re-issued on the recovered store when it was lost
//                (the Raft layer's retry) and the result compared again.
//   group-open   mc over pairs of calls submitted concurrently from two goroutines on
//                different scopes of a DB opened with WriteBatchMaxItems=2 and a 60 s batch
//                window: the write worker flushes exactly when both requests are in, so each
//                pair is one physical commit (counted through writeCommitTestHook, guarded);
//                oracle on the final state only.
//   crash-group  the same pairs on crashfs: every image reopened, per-scope bounds as above
//                (so "none / only A / only B / both" are all admitted while both are in
//                flight - the property does not promise cross-scope atomicity).

import (
	"context"
	"encoding/json"
	"fmt"
	"os"
	"path/filepath"
	"runtime"
	"sort"
	"strconv"
	"strings"
	"sync"
	"sync/atomic"
	"testing"
	"time"

	"github.com/WuKongIM/WuKongIM/pkg/zzverif/c14model"
	"github.com/WuKongIM/WuKongIM/pkg/zzverif/crashfs"
	"github.com/WuKongIM/WuKongIM/pkg/zzverif/ev"
	"github.com/WuKongIM/WuKongIM/pkg/zzverif/mc"
	"github.com/cockroachdb/pebble/v2"
)

const c14cDirPrefix = "verif-C14-"

var c14cScopes = [2]Scope{SlotScope(1), ControllerScope()}
var c14cDummy = [2]Scope{SlotScope(1000), SlotScope(1001)} // companions of unpaired group calls
var c14cNames = [2]string{"A", "B"}

// crash alphabet: the base alphabet of the open run
var c14cAlphabet = c14model.BaseEvents
var c14cPreamble = []string{"app2", "commit", "applied", "app"}

// Two snapshot saves can never share a batch: publishSnapshotAndCommit holds the DB-wide
// snapshot lifecycle mutex from the directory rename until the commit is acknowledged, so the
// second save only reaches the writer after the first batch was flushed. Such pairs are
// sequential by design (covered by the sequential sections) and are not group pairs.
func c14cIsSnapshotEvent(e string) bool { return e == "compact" || e == "install" || e == "instM" }

func c14cSweepStale() {
	ents, _ := os.ReadDir("/dev/shm")
	for _, e := range ents {
		n := e.Name()
		if !strings.HasPrefix(n, c14cDirPrefix) {
			continue
		}
		rest := strings.TrimPrefix(n, c14cDirPrefix)
		if i := strings.IndexByte(rest, '-'); i >= 0 {
			rest = rest[:i]
		}
		pid, err := strconv.Atoi(rest)
		if err != nil || pid == os.Getpid() {
			continue
		}
		if _, err := os.Stat(fmt.Sprintf("/proc/%d", pid)); os.IsNotExist(err) {
			_ = os.RemoveAll(filepath.Join("/dev/shm", n))
		}
	}
}

type c14cQuietLogger struct{} // pebble logs three lines per Open to stderr otherwise

func (c14cQuietLogger) Infof(string, ...interface{})  {}
func (c14cQuietLogger) Errorf(string, ...interface{}) {}
func (c14cQuietLogger) Fatalf(f string, a ...interface{}) {
	panic(fmt.Sprintf("pebble fatal: "+f, a...))
}

// ---------------------------------------------------------------- snapshot-directory capture

type c14cTree struct {
	dirs  []string          // relative paths
	files map[string][]byte // relative path -> content
}

func c14cCopyTree(root string) *c14cTree {
	t := &c14cTree{files: map[string][]byte{}}
	var walk func(rel string)
	walk = func(rel string) {
		ents, err := os.ReadDir(filepath.Join(root, rel))
		if err != nil {
			return
		}
		for _, e := range ents {
			p := filepath.Join(rel, e.Name())
			if e.IsDir() {
				t.dirs = append(t.dirs, p)
				walk(p)
				continue
			}
			if b, err := os.ReadFile(filepath.Join(root, p)); err == nil {
				t.files[p] = b
			}
		}
	}
	walk("")
	return t
}

func (t *c14cTree) materialize(root string) error {
	if err := os.MkdirAll(root, 0o755); err != nil {
		return err
	}
	for _, d := range t.dirs {
		if err := os.MkdirAll(filepath.Join(root, d), 0o755); err != nil {
			return err
		}
	}
	for p, b := range t.files {
		if err := os.WriteFile(filepath.Join(root, p), b, 0o600); err != nil {
			return err
		}
	}
	return nil
}

// chunk-write hook: one process-global seam, dispatched by snapshot root
var (
	c14cHookMu    sync.RWMutex
	c14cHookRoots = map[string]func(op string){}
)

func c14cInstallChunkHook() func() {
	return TestingSetSnapshotWriteFileHook(func(path string, data []byte) error {
		var capture func(string)
		c14cHookMu.RLock()
		for root, f := range c14cHookRoots {
			if strings.HasPrefix(path, root+string(filepath.Separator)) {
				capture = f
			}
		}
		c14cHookMu.RUnlock()
		if capture != nil {
			capture("hook:before-chunk " + filepath.Base(path))
		}
		err := writeSyncedFile(path, data) // the package's real chunk writer
		if capture != nil {
			capture("hook:after-chunk " + filepath.Base(path))
		}
		return err
	})
}

// ---------------------------------------------------------------- histories

// A step is one call (sequential) or two concurrent calls on different scopes (group).
// [0], [1] = event per scope ("" = none); [2] = order of the two requests inside the batch:
// "" = whatever the goroutines produce, "A" = scope A's request is queued first, "B" = scope
// B's first (see c14cRunStepOrdered).
type c14cStep [3]string

func (s c14cStep) String() string {
	var p []string
	for i := 0; i < 2; i++ {
		if s[i] != "" {
			p = append(p, c14cNames[i]+"."+s[i])
		}
	}
	switch {
	case s[2] == "A" && len(p) == 2:
		return p[0] + ">>" + p[1]
	case s[2] == "B" && len(p) == 2:
		return p[1] + ">>" + p[0]
	case s[2] != "" && len(p) == 1:
		if (s[2] == "A") == (s[0] != "") {
			return p[0] + ">>noop"
		}
		return "noop>>" + p[0]
	}
	return strings.Join(p, "||")
}

type c14cHistory struct {
	start string // "empty" | "warm" | "warm-reopened" | "warm+Bcommit" (B additionally commits entry 3, so that an applied mark is enabled on B)
	steps []c14cStep
}

// c14cReplay is the replay payload of a crash violation.
type c14cReplay struct {
	Group bool        `json:"group"`
	Start string      `json:"start"`
	Steps [][3]string `json:"steps"`
}

func (p c14cReplay) history() c14cHistory {
	h := c14cHistory{start: p.Start}
	for _, s := range p.Steps {
		h.steps = append(h.steps, c14cStep(s))
	}
	return h
}

func (h c14cHistory) replay(group bool) c14cReplay {
	p := c14cReplay{Group: group, Start: h.start}
	for _, s := range h.steps {
		p.Steps = append(p.Steps, [3]string(s))
	}
	return p
}

func (h c14cHistory) String() string {
	var p []string
	for _, s := range h.steps {
		p = append(p, s.String())
	}
	return h.start + ": " + strings.Join(p, " ; ")
}

func c14cStartModels(start string) [2]*c14model.Scope {
	m := [2]*c14model.Scope{{}, {}}
	if start != "empty" {
		for si := 0; si < 2; si++ {
			for _, e := range c14cPreamble {
				c, _ := m[si].Gen(e)
				m[si].Apply(c)
			}
		}
	}
	for _, x := range c14cStartExtra(start) {
		c, _ := m[x.scope].Gen(x.ev)
		m[x.scope].Apply(c)
	}
	return m
}

type c14cExtra struct {
	scope int
	ev    string
}

func c14cStartExtra(start string) []c14cExtra {
	if start == "warm+Bcommit" {
		return []c14cExtra{{1, "commit"}}
	}
	return nil
}

// c14cEnumerate lists every history of exactly depth steps (sequential: one call per step;
// group: at least one call per step, at most one per scope), enabledness from the model.
func c14cEnumerate(start string, depth int, group bool) []c14cHistory {
	var out []c14cHistory
	var rec func(m [2]*c14model.Scope, steps []c14cStep)
	rec = func(m [2]*c14model.Scope, steps []c14cStep) {
		if len(steps) == depth {
			out = append(out, c14cHistory{start: start, steps: append([]c14cStep(nil), steps...)})
			return
		}
		var cands []c14cStep
		ea, eb := m[0].Enabled(c14cAlphabet), m[1].Enabled(c14cAlphabet)
		if !group {
			for _, e := range ea {
				cands = append(cands, c14cStep{e, ""})
			}
			for _, e := range eb {
				cands = append(cands, c14cStep{"", e})
			}
		} else {
			for _, a := range append([]string{""}, ea...) {
				for _, b := range append([]string{""}, eb...) {
					if (a == "" && b == "") || (c14cIsSnapshotEvent(a) && c14cIsSnapshotEvent(b)) {
						continue
					}
					cands = append(cands, c14cStep{a, b})
				}
			}
		}
		for _, st := range cands {
			n := [2]*c14model.Scope{m[0].Clone(), m[1].Clone()}
			for si := 0; si < 2; si++ {
				if st[si] != "" {
					c, _ := n[si].Gen(st[si])
					n[si].Apply(c)
				}
			}
			rec(n, append(steps, st))
		}
	}
	rec(c14cStartModels(start), nil)
	return out
}

// c14cEnumerateMarks lists the ordered cross-scope batches: a Save-like call on scope A and an
// applied / config-applied mark on scope B, in both orders of the two requests inside the one
// batch, plus the mark with a no-op companion. Start "warm+Bcommit" (B has commit 3 > applied
// 2, config-applied 0, so both marks are enabled on B; A has an uncommitted entry).
func c14cEnumerateMarks(thorough bool) []c14cHistory {
	const start = "warm+Bcommit"
	m := c14cStartModels(start)
	var out []c14cHistory
	marks := []string{"cfgapp", "applied"}
	var firsts []c14cStep
	for _, a := range append([]string{""}, m[0].Enabled(c14cAlphabet)...) {
		if a == "applied" {
			continue
		}
		for _, b := range marks {
			if _, ok := m[1].Gen(b); !ok {
				continue
			}
			for _, order := range []string{"A", "B"} {
				firsts = append(firsts, c14cStep{a, b, order})
			}
		}
	}
	for _, st := range firsts {
		out = append(out, c14cHistory{start: start, steps: []c14cStep{st}})
		if thorough {
			for _, second := range []c14cStep{{"app", ""}, {"", "app"}} {
				out = append(out, c14cHistory{start: start, steps: []c14cStep{st, second}})
			}
		}
	}
	return out
}

// ---------------------------------------------------------------- one crash execution

type c14cMeta struct {
	acked, started [2]int
	tree           *c14cTree
}

type c14cWorker struct {
	id      int
	prefix  string // crashfs mount point
	realDir string // real tmpfs directory for snapshot roots
	seq     int
}

type c14cResult struct {
	images, reopens, inflight, retried int64
	ordered                            int64 // steps whose two requests were queued in a chosen order and committed as one batch
	saveThenMark, markThenSave         int64 // ... of which: Save-like call of A first and a mark of B last / the reverse
	ops                                map[string]int
	violation                          *ev.Violation
	herr                               string
}

func c14cOptions(snapRoot string, group bool) Options {
	o := Options{SnapshotPath: snapRoot, SnapshotChunkSize: 4, WriteBatchMaxWait: time.Nanosecond}
	if group {
		o.WriteBatchMaxItems = 2
		o.WriteBatchMaxWait = 60 * time.Second
	}
	return o
}

func c14cDummyCall() c14model.Call { z := uint64(0); return c14model.Call{Applied: &z} }

// c14cParker stalls the write worker inside one flush (through DB.writeCommitTestHook) so that
// later requests queue up behind it in a chosen order and are collected into ONE batch.
type c14cParker struct {
	arm     atomic.Bool
	parked  chan struct{}
	release chan struct{}
	flushes atomic.Int64
}

func newC14cParker() *c14cParker {
	return &c14cParker{parked: make(chan struct{}, 1), release: make(chan struct{}, 1)}
}

func (p *c14cParker) hook() {
	p.flushes.Add(1)
	if p.arm.CompareAndSwap(true, false) {
		p.parked <- struct{}{}
		<-p.release
	}
}

var c14cPark = [2]Scope{SlotScope(1002), SlotScope(1003)} // scopes of the two preliminary writes

// c14cRunStepOrdered submits the two calls of a step so that they form one batch with a
// chosen order of the requests inside it (DB opened with WriteBatchMaxItems=2):
//  1. two preliminary no-op marks on private scopes fill a batch; the worker is parked inside
//     that flush (before its commit);
//  2. the first call is submitted and we wait until its request sits in the writer's queue
//     (len(db.writeCh) == 1), then the second (== 2) - a wait for a condition, not for time;
//  3. the worker is released: it commits the preliminary batch, dequeues request 1, finds
//     request 2 already queued, the batch is full and is flushed at once.
//
// A nil call is replaced by a no-op mark on a private scope. Returns the calls' errors and a
// harness error when the choreography did not happen.
func c14cRunStepOrdered(db *DB, pk *c14cParker, calls [2]*c14model.Call, first int, started, acked *[2]atomic.Int64) ([2]error, error) {
	ctx := context.Background()
	var errs [2]error
	var wg sync.WaitGroup
	before := pk.flushes.Load()
	pk.arm.Store(true)
	for i := 0; i < 2; i++ {
		wg.Add(1)
		go func(i int) {
			defer wg.Done()
			_ = c14cDummyCall().Do(ctx, db.For(c14cPark[i]))
		}(i)
	}
	select {
	case <-pk.parked:
	case <-time.After(120 * time.Second):
		pk.arm.Store(false)
		return errs, fmt.Errorf("ordered step: write worker did not reach the preliminary flush")
	}
	var herr error
	for k, si := range [2]int{first, 1 - first} {
		var done atomic.Bool
		wg.Add(1)
		go func(si int) {
			defer wg.Done()
			defer done.Store(true)
			if calls[si] == nil {
				_ = c14cDummyCall().Do(ctx, db.For(c14cDummy[si]))
				return
			}
			started[si].Add(1)
			errs[si] = calls[si].Do(ctx, db.For(c14cScopes[si]))
			if errs[si] == nil {
				acked[si].Add(1)
			}
		}(si)
		deadline := time.Now().Add(120 * time.Second)
		for len(db.writeCh) < k+1 && !done.Load() {
			if time.Now().After(deadline) {
				herr = fmt.Errorf("ordered step: request %d never reached the writer queue", k+1)
				break
			}
			time.Sleep(20 * time.Microsecond)
		}
	}
	pk.release <- struct{}{}
	wg.Wait()
	if n := pk.flushes.Load() - before; herr == nil && errs[0] == nil && errs[1] == nil && n != 2 {
		herr = fmt.Errorf("ordered step: %d physical commits instead of 2 (preliminary batch + the ordered pair)", n)
	}
	return errs, herr
}

// runStep executes one step; in group mode two goroutines submit concurrently (an unpaired
// call is paired with a no-op mark on a private dummy scope so that the batch of two fills).
func c14cRunStep(db *DB, group bool, calls [2]*c14model.Call, started, acked *[2]atomic.Int64) [2]error {
	ctx := context.Background()
	var errs [2]error
	if !group {
		for si := 0; si < 2; si++ {
			if calls[si] != nil {
				started[si].Add(1)
				errs[si] = calls[si].Do(ctx, db.For(c14cScopes[si]))
				if errs[si] == nil {
					acked[si].Add(1)
				}
			}
		}
		return errs
	}
	var wg sync.WaitGroup
	for si := 0; si < 2; si++ {
		wg.Add(1)
		go func(si int) {
			defer wg.Done()
			if calls[si] == nil {
				_ = c14cDummyCall().Do(ctx, db.For(c14cDummy[si]))
				return
			}
			started[si].Add(1)
			errs[si] = calls[si].Do(ctx, db.For(c14cScopes[si]))
			if errs[si] == nil {
				acked[si].Add(1)
			}
		}(si)
	}
	wg.Wait()
	return errs
}

func c14cObserveBoth(db *DB, n uint64) [2]*c14model.Obs {
	var o [2]*c14model.Obs
	for si := 0; si < 2; si++ {
		o[si] = c14model.ObserveLight(context.Background(), db.For(c14cScopes[si]), n)
	}
	return o
}

// run executes one history on crashfs and reopens every image.
func (w *c14cWorker) run(router *crashfs.Router, h c14cHistory, group bool, retry bool) (res c14cResult) {
	res.ops = map[string]int{}
	fail := func(format string, args ...any) c14cResult {
		res.herr = fmt.Sprintf("history [%s]: ", h) + fmt.Sprintf(format, args...)
		return res
	}
	w.seq++
	snapRoot := filepath.Join(w.realDir, fmt.Sprintf("snap-%d", w.seq))
	defer os.RemoveAll(snapRoot)
	vol := crashfs.NewVolume()
	router.Mount(w.prefix, vol)
	defer router.Unmount(w.prefix)
	dbPath := w.prefix + "/db"
	if err := vol.MkdirAllSynced(dbPath); err != nil {
		return fail("mkdir: %v", err)
	}
	db, err := Open(dbPath, c14cOptions(snapRoot, group))
	if err != nil {
		return fail("open: %v", err)
	}
	closed := false
	defer func() {
		if !closed {
			_ = db.Close()
		}
	}()

	// ---- start state (not crash-enumerated)
	models := [2][]*c14model.Scope{{{}}, {{}}} // models[s][j] = scope s after j of its calls
	calls := [2][]c14model.Call{}              // calls[s][j] = the (j+1)-th call of scope s
	var started, acked [2]atomic.Int64
	var earlier [2][]*c14model.Scope // states inside the (acknowledged) preamble: only for classifying a loss
	if h.start != "empty" {
		for _, e := range c14cPreamble {
			var cs [2]*c14model.Call
			for si := 0; si < 2; si++ {
				c, ok := models[si][0].Gen(e)
				if !ok {
					return fail("preamble %s not enabled", e)
				}
				cs[si] = &c
			}
			var d1, d2 [2]atomic.Int64
			if errs := c14cRunStep(db, group, cs, &d1, &d2); errs[0] != nil || errs[1] != nil {
				return fail("preamble %s: %v %v", e, errs[0], errs[1])
			}
			for si := 0; si < 2; si++ {
				earlier[si] = append(earlier[si], models[si][0].Clone())
				models[si][0].Apply(*cs[si])
			}
		}
		for _, x := range c14cStartExtra(h.start) {
			c, ok := models[x.scope][0].Gen(x.ev)
			if !ok {
				return fail("start step %s not enabled", x.ev)
			}
			var cs [2]*c14model.Call
			cs[x.scope] = &c
			var d1, d2 [2]atomic.Int64
			if errs := c14cRunStep(db, group, cs, &d1, &d2); errs[0] != nil || errs[1] != nil {
				return fail("start step %s: %v %v", x.ev, errs[0], errs[1])
			}
			earlier[x.scope] = append(earlier[x.scope], models[x.scope][0].Clone())
			models[x.scope][0].Apply(c)
		}
		db.gcWG.Wait()
	}
	if h.start == "warm-reopened" {
		if err := db.Close(); err != nil {
			return fail("close: %v", err)
		}
		if db, err = Open(dbPath, c14cOptions(snapRoot, group)); err != nil {
			closed = true
			return fail("reopen: %v", err)
		}
	}

	// ---- capture points
	capture := func(op string) { vol.Snapshot(op) }
	c14cHookMu.Lock()
	c14cHookRoots[snapRoot] = capture
	c14cHookMu.Unlock()
	defer func() {
		c14cHookMu.Lock()
		delete(c14cHookRoots, snapRoot)
		c14cHookMu.Unlock()
	}()
	db.snapshotAfterPublishTestHook = func(*stagedSnapshot) error { capture("hook:published-uncommitted"); return nil }
	pk := newC14cParker()
	db.writeCommitTestHook = func() error { capture("hook:before-commit"); pk.hook(); return nil }
	vol.Meta = func() any {
		m := &c14cMeta{tree: c14cCopyTree(snapRoot)}
		for si := 0; si < 2; si++ {
			// acked first: a concurrent increment can only widen the admitted interval
			m.acked[si] = int(acked[si].Load())
		}
		for si := 0; si < 2; si++ {
			m.started[si] = int(started[si].Load())
		}
		return m
	}
	// Background deletions of obsolete Pebble files are scheduled by Pebble's cleaner at its
	// own pace; they are not part of any storage call, so they are not crash points here
	// (keeps the number of images independent of goroutine timing).
	vol.Filter = func(k int, op string) bool { return !strings.HasPrefix(op, "remove") }
	vol.Start()
	for _, st := range h.steps {
		var cs [2]*c14model.Call
		for si := 0; si < 2; si++ {
			if st[si] == "" {
				continue
			}
			cur := models[si][len(models[si])-1]
			c, ok := cur.Gen(st[si])
			if !ok {
				vol.Stop()
				return fail("event %s not enabled", st[si])
			}
			cs[si] = &c
			next := cur.Clone()
			next.Apply(c)
			models[si] = append(models[si], next)
			calls[si] = append(calls[si], c)
		}
		var errs [2]error
		if st[2] != "" {
			first := 0
			if st[2] == "B" {
				first = 1
			}
			var herr error
			if errs, herr = c14cRunStepOrdered(db, pk, cs, first, &started, &acked); herr != nil {
				vol.Stop()
				return fail("%v", herr)
			}
			res.ordered++
			if cs[0] != nil && cs[0].Save != nil && cs[1] != nil && cs[1].Save == nil {
				if first == 0 {
					res.saveThenMark++
				} else {
					res.markThenSave++
				}
			}
		} else {
			errs = c14cRunStep(db, group, cs, &started, &acked)
		}
		for si := 0; si < 2; si++ {
			if errs[si] != nil {
				vol.Stop()
				res.violation = &ev.Violation{Fingerprint: "C14:valid-call-rejected", System: "crash",
					Message: fmt.Sprintf("history [%s]: scope %s: %s returned error: %v", h, c14cNames[si], cs[si], errs[si]), Replay: h.replay(group)}
				return res
			}
		}
		db.gcWG.Wait() // the snapshot GC started by a successful snapshot save has finished
		capture("idle-after " + st.String())
	}
	vol.Stop()
	db.snapshotAfterPublishTestHook, db.writeCommitTestHook = nil, nil
	if err := db.Close(); err != nil {
		closed = true
		return fail("close: %v", err)
	}
	closed = true

	// ---- reopen every image
	var maxLast uint64
	for si := 0; si < 2; si++ {
		for _, m := range models[si] {
			if l := m.Last(); l > maxLast {
				maxLast = l
			}
		}
	}
	imgs := vol.Images()
	res.images = int64(len(imgs))
	for _, im := range imgs {
		meta := im.Meta.(*c14cMeta)
		opKind := im.Op
		if i := strings.IndexByte(opKind, ' '); i >= 0 {
			opKind = opKind[:i]
		}
		res.ops[opKind]++
		inflight := meta.started[0] > meta.acked[0] || meta.started[1] > meta.acked[1]
		for _, mode := range []string{"kill", "power"} {
			mem := im.Kill
			if mode == "power" {
				mem = im.Power
			}
			res.reopens++
			if inflight {
				res.inflight++
			}
			w.seq++
			root2 := filepath.Join(w.realDir, fmt.Sprintf("re-%d", w.seq))
			if err := meta.tree.materialize(root2); err != nil {
				return fail("materialize: %v", err)
			}
			router.Mount(w.prefix, crashfs.FromImage(mem))
			v := w.checkImage(dbPath, root2, group, h, im, mode, meta, models, earlier, calls, maxLast+2, retry, &res)
			_ = os.RemoveAll(root2)
			if v != nil {
				res.violation = v
				return res
			}
		}
	}
	return res
}

func c14cDescribe(h c14cHistory, im crashfs.Image, mode string, meta *c14cMeta) string {
	return fmt.Sprintf("history [%s], crash point #%d (%s), %s image, calls acked A=%d B=%d started A=%d B=%d", h, im.K, im.Op, mode,
		meta.acked[0], meta.acked[1], meta.started[0], meta.started[1])
}

func (w *c14cWorker) checkImage(dbPath, snapRoot string, group bool, h c14cHistory, im crashfs.Image, mode string, meta *c14cMeta,
	models [2][]*c14model.Scope, earlier [2][]*c14model.Scope, calls [2][]c14model.Call, n uint64, retry bool, res *c14cResult) *ev.Violation {
	where := "crash-" + mode
	// the reopened store is used sequentially: no batch window
	db, err := Open(dbPath, c14cOptions(snapRoot, false))
	if err != nil {
		return &ev.Violation{Fingerprint: "C14:open-failed@" + where, System: "crash", Replay: h.replay(group),
			Message: fmt.Sprintf("%s: Open failed: %v", c14cDescribe(h, im, mode, meta), err)}
	}
	defer db.Close()
	obs := c14cObserveBoth(db, n)
	var chosen [2]int
	for si := 0; si < 2; si++ {
		best, bestJ := []c14model.Diff(nil), -1
		for j := meta.acked[si]; j <= meta.started[si]; j++ {
			d := models[si][j].Diffs(obs[si])
			if len(d) == 0 {
				best, bestJ = nil, j
				break
			}
			if bestJ < 0 || len(d) < len(best) {
				best, bestJ = d, j
			}
		}
		if len(best) > 0 {
			past := append(append([]*c14model.Scope{}, earlier[si]...), models[si][:meta.acked[si]]...)
			for _, pm := range past {
				if len(pm.Diffs(obs[si])) == 0 {
					kind := "acknowledged-call-lost"
					if exp := models[si][meta.acked[si]].Clone(); true {
						exp.CfgApplied = pm.CfgApplied
						if len(exp.Diffs(obs[si])) == 0 {
							kind = "acknowledged-config-applied-mark-lost" // nothing but the config-applied mark is missing
						}
					}
					// no kill/power suffix: whether an unsynced record already reached the file when the
					// process is killed depends on pebble's flusher; the power image decides either way
					return &ev.Violation{Fingerprint: "C14:" + kind + "@crash", System: "crash", Replay: h.replay(group),
						Message: fmt.Sprintf("%s: scope %s recovered exactly to an EARLIER reference state [%s]: acknowledged calls were lost (expected [%s])",
							c14cDescribe(h, im, mode, meta), c14cNames[si], pm.Summary(), models[si][meta.acked[si]].Summary())}
				}
			}
			return &ev.Violation{Fingerprint: "C14:" + best[0].Kind + "@" + where, System: "crash", Replay: h.replay(group),
				Message: fmt.Sprintf("%s: scope %s equals no admitted reference state; nearest is the model after %d calls [%s]: %s (%d mismatching aspects)",
					c14cDescribe(h, im, mode, meta), c14cNames[si], bestJ, models[si][bestJ].Summary(), best[0].Msg, len(best))}
		}
		chosen[si] = bestJ
	}
	if !retry {
		return nil
	}
	// the Raft layer re-issues a call whose acknowledgement it never saw
	did := false
	for si := 0; si < 2; si++ {
		if chosen[si] < meta.started[si] {
			c := calls[si][chosen[si]]
			if err := c.Do(context.Background(), db.For(c14cScopes[si])); err != nil {
				return &ev.Violation{Fingerprint: "C14:retry-rejected@" + where, System: "crash", Replay: h.replay(group),
					Message: fmt.Sprintf("%s: scope %s recovered to the state before %s; re-issuing it failed: %v", c14cDescribe(h, im, mode, meta), c14cNames[si], c, err)}
			}
			did = true
		}
	}
	if !did {
		return nil
	}
	res.retried++
	obs = c14cObserveBoth(db, n)
	for si := 0; si < 2; si++ {
		if d := models[si][meta.started[si]].Diffs(obs[si]); len(d) > 0 {
			return &ev.Violation{Fingerprint: "C14:" + d[0].Kind + "@" + where + "+retry", System: "crash", Replay: h.replay(group),
				Message: fmt.Sprintf("%s: scope %s after re-issuing the lost call: %s | model: %s", c14cDescribe(h, im, mode, meta), c14cNames[si], d[0].Msg, models[si][meta.started[si]].Summary())}
		}
	}
	return nil
}

// ---------------------------------------------------------------- crash section driver

func c14cRunSection(r *ev.R, router *crashfs.Router, name string, hs []c14cHistory, group bool, bounds map[string]any, note string) {
	t0 := time.Now()
	nw := runtime.GOMAXPROCS(0)
	if nw > 12 {
		nw = 12
	}
	if nw > len(hs) {
		nw = len(hs)
	}
	var (
		mu                                  sync.Mutex
		images, reopens, inflight, retried  int64
		ops                                 = map[string]int{}
		done                                int64
		capped                              atomic.Bool
		ordered, saveThenMark, markThenSave int64
		fps                                 = map[string]int{} // violations of this section by fingerprint
		stop                                atomic.Bool
	)
	deadline := r.Deadline()
	work := make(chan c14cHistory)
	var wg sync.WaitGroup
	for i := 0; i < nw; i++ {
		wg.Add(1)
		go func(i int) {
			defer wg.Done()
			w := &c14cWorker{id: i, prefix: fmt.Sprintf("/c14crash-%s-%d", name, i),
				realDir: filepath.Join("/dev/shm", fmt.Sprintf("%s%d-%s%d", c14cDirPrefix, os.Getpid(), name, i))}
			_ = os.MkdirAll(w.realDir, 0o755)
			defer os.RemoveAll(w.realDir)
			for h := range work {
				if capped.Load() || stop.Load() {
					continue
				}
				if !deadline.IsZero() && time.Now().After(deadline) {
					capped.Store(true)
					continue
				}
				res := w.run(router, h, group, true)
				mu.Lock()
				images += res.images
				reopens += res.reopens
				inflight += res.inflight
				retried += res.retried
				ordered += res.ordered
				saveThenMark += res.saveThenMark
				markThenSave += res.markThenSave
				if res.violation != nil {
					fps[res.violation.Fingerprint]++
					hits := 0
					for _, n := range fps {
						hits += n
					}
					if len(fps) >= 3 || hits >= 12 { // enough distinct findings / enough evidence of one
						stop.Store(true)
					}
				}
				for k, v := range res.ops {
					ops[k] += v
				}
				done++
				first := done == 1
				mu.Unlock()
				if res.herr != "" {
					r.HarnessError("%s", res.herr)
				}
				if res.violation != nil {
					res.violation.System = name
					r.Violation(*res.violation)
				}
				if first {
					r.Sample(map[string]any{"section": name, "history": h.String(), "crash_points_captured": res.images, "images_reopened": res.reopens, "points_by_kind": res.ops})
				}
			}
		}(i)
	}
	// VERIF_SEED only rotates the order
	off := 0
	if len(hs) > 0 {
		off = int(r.Seed()%int64(len(hs))+int64(len(hs))) % len(hs)
	}
	for i := range hs {
		work <- hs[(i+off)%len(hs)]
	}
	close(work)
	wg.Wait()
	bounds["histories"] = len(hs)
	bounds["histories_executed"] = done
	kinds := make([]string, 0, len(ops))
	for k := range ops {
		kinds = append(kinds, k)
	}
	sort.Strings(kinds)
	pk := map[string]int{}
	for _, k := range kinds {
		pk[k] = ops[k]
	}
	bounds["crash_points_by_kind"] = pk
	r.Section(ev.Section{Name: name, Kind: "crash", Evaluations: reopens, Distinct: inflight, Validated: reopens, Exhaustive: !capped.Load() && !stop.Load() && done == int64(len(hs)),
		Bounds: bounds, Outcomes: int64(len(ops)), Note: note, WallS: time.Since(t0).Seconds()})
	r.Count(name+"_crash_points", images)
	r.Count(name+"_images_reopened", reopens)
	r.Count(name+"_images_with_call_in_flight", inflight)
	r.Count(name+"_lost_calls_reissued", retried)
	if group {
		r.Count(name+"_ordered_batches", ordered)
		r.Count(name+"_batches_save_then_mark", saveThenMark)
		r.Count(name+"_batches_mark_then_save", markThenSave)
		if r.Replay() == nil && len(fps) == 0 && !capped.Load() {
			r.Guard(name+"_ordered_cross_scope_batches", saveThenMark > 0 && markThenSave > 0,
				"one-batch pairs with a chosen request order: %d (Save-like call first, applied/config-applied mark of the other scope last: %d; mark first: %d)", ordered, saveThenMark, markThenSave)
		}
	}
	if r.Replay() == nil && len(fps) == 0 && r.ViolationCount() == 0 && !capped.Load() {
		r.Guard(name+"_in_flight_images", inflight > 0, "%d images captured strictly inside a call", inflight)
		r.Guard(name+"_lost_call_reissued", retried > 0, "%d recovered stores had lost the in-flight call and took the retry", retried)
		r.Guard(name+"_snapshot_dir_capture_points", ops["hook:published-uncommitted"] > 0 && ops["hook:before-chunk"] > 0, "published-uncommitted=%d before-chunk=%d", ops["hook:published-uncommitted"], ops["hook:before-chunk"])
		r.Guard(name+"_pebble_sync_points", ops["sync"]+ops["syncdata"]+ops["syncto"] > 0, "sync points %d", ops["sync"]+ops["syncdata"]+ops["syncto"])
	}
}

// ---------------------------------------------------------------- group-open (mc)

var (
	c14gFlushes, c14gPairs, c14gGrouped, c14gSplit atomic.Int64
	c14gOrdered                                    atomic.Int64
	c14gDirSeq                                     atomic.Uint64
)

type c14gInst struct {
	dir     string
	db      *DB
	m       [2]*c14model.Scope
	flushes atomic.Int64
	pk      *c14cParker
	broken  error // infrastructure problem
	preErr  error // violation raised by the preamble (reported by Check on the root state)
	sinceRe int
	steps   int
}

// c14gFullDepth: pair events are enabled on the first c14gFullDepth steps of a path; after
// that only single calls (paired with a no-op) and reopen, i.e. "what does the store do
// after a group commit".
var c14gFullDepth = 1

func (in *c14gInst) open() error {
	db, err := Open(filepath.Join(in.dir, "db"), c14cOptions(filepath.Join(in.dir, "snap"), true))
	if err != nil {
		return err
	}
	in.pk = newC14cParker()
	pk := in.pk
	db.writeCommitTestHook = func() error { in.flushes.Add(1); pk.hook(); return nil }
	in.db = db
	return nil
}

func c14gNew() mc.Instance {
	in := &c14gInst{dir: filepath.Join("/dev/shm", fmt.Sprintf("%s%d-g%d", c14cDirPrefix, os.Getpid(), c14gDirSeq.Add(1)))}
	in.m = [2]*c14model.Scope{{}, {}}
	if err := os.MkdirAll(in.dir, 0o755); err != nil {
		in.broken = err
		return in
	}
	if err := in.open(); err != nil {
		in.broken = err
		return in
	}
	for _, e := range c14cPreamble { // warm start, itself written as group pairs
		if _, err := in.pair(c14cStep{e, e}); err != nil {
			if _, ok := err.(*mc.V); ok {
				in.preErr = err
			} else {
				in.broken = fmt.Errorf("preamble %s: %v", e, err)
			}
			return in
		}
	}
	in.steps = 0
	return in
}

func (in *c14gInst) Close() {
	if in.db != nil {
		_ = in.db.Close()
	}
	_ = os.RemoveAll(in.dir)
}

func (in *c14gInst) Canon() string { return "" }

func (in *c14gInst) Events() []string {
	if in.broken != nil || in.preErr != nil {
		return nil
	}
	var out []string
	for _, a := range append([]string{"-"}, in.m[0].Enabled(c14cAlphabet)...) {
		for _, b := range append([]string{"-"}, in.m[1].Enabled(append(append([]string{}, c14cAlphabet...), "cfgapp"))...) {
			if (a == "-" && b == "-") || (c14cIsSnapshotEvent(a) && c14cIsSnapshotEvent(b)) {
				continue
			}
			if in.steps >= c14gFullDepth && a != "-" && b != "-" {
				continue
			}
			if a != "-" && (b == "cfgapp" || b == "applied") {
				// both orders of the two requests inside the one batch
				out = append(out, a+">>"+b, a+"<<"+b)
				continue
			}
			out = append(out, a+"||"+b)
		}
	}
	if in.sinceRe > 0 {
		out = append(out, "reopen")
	}
	return out
}

func (in *c14gInst) pair(st c14cStep) (string, error) {
	var cs [2]*c14model.Call
	var desc []string
	for si := 0; si < 2; si++ {
		if st[si] == "" {
			continue
		}
		c, ok := in.m[si].Gen(st[si])
		if !ok {
			return "", fmt.Errorf("event %s not enabled", st[si])
		}
		cs[si] = &c
		desc = append(desc, c14cNames[si]+":"+c.String())
	}
	before := in.flushes.Load()
	var d1, d2 [2]atomic.Int64
	var errs [2]error
	want := int64(1)
	if st[2] != "" {
		first := 0
		if st[2] == "B" {
			first = 1
		}
		var herr error
		if errs, herr = c14cRunStepOrdered(in.db, in.pk, cs, first, &d1, &d2); herr != nil {
			return "", herr
		}
		want = 2 // the preliminary batch + the ordered pair
		c14gOrdered.Add(1)
	} else {
		errs = c14cRunStep(in.db, true, cs, &d1, &d2)
	}
	in.db.gcWG.Wait()
	n := in.flushes.Load() - before
	c14gPairs.Add(1)
	c14gFlushes.Add(n)
	if n == want {
		c14gGrouped.Add(1)
	} else {
		c14gSplit.Add(1)
	}
	for si := 0; si < 2; si++ {
		if errs[si] != nil {
			return "", mc.Violatef("C14:valid-call-rejected@group", "scope %s: %s (submitted concurrently with %v) returned error: %s", c14cNames[si], cs[si], st, c14model.Sanitize(errs[si].Error()))
		}
		if cs[si] != nil {
			in.m[si].Apply(*cs[si])
		}
	}
	in.sinceRe++
	in.steps++
	sep := " || "
	if st[2] == "A" {
		sep = " >> "
	} else if st[2] == "B" {
		sep = " << "
	}
	return strings.Join(desc, sep), nil
}

func (in *c14gInst) Apply(event string, env *mc.Env) (string, error) {
	if in.broken != nil {
		return "broken", nil
	}
	if event == "reopen" {
		if err := in.db.Close(); err != nil {
			return "", mc.Violatef("C14:close-failed", "Close: %v", err)
		}
		in.db = nil
		if err := in.open(); err != nil {
			return "", mc.Violatef("C14:reopen-failed", "Open after clean Close: %v", err)
		}
		in.sinceRe = 0
		return "reopened", nil
	}
	sepTok, order := "||", ""
	if strings.Contains(event, ">>") {
		sepTok, order = ">>", "A"
	} else if strings.Contains(event, "<<") {
		sepTok, order = "<<", "B"
	}
	parts := strings.SplitN(event, sepTok, 2)
	var st c14cStep
	st[2] = order
	for i, p := range parts {
		if p != "-" {
			st[i] = p
		}
	}
	obs, err := in.pair(st)
	if err != nil {
		if _, ok := err.(*mc.V); ok {
			return "rejected", err
		}
		in.broken = err
		return "", nil
	}
	return obs, nil
}

func (in *c14gInst) Check() error {
	if in.broken != nil {
		return mc.Violatef("C14:harness-broken", "harness: %v", in.broken)
	}
	if in.preErr != nil {
		return in.preErr
	}
	for si := 0; si < 2; si++ {
		o := c14model.Observe(context.Background(), in.db.For(c14cScopes[si]), in.m[si].Last()+2)
		if d := in.m[si].Diffs(o); len(d) > 0 {
			return mc.Violatef("C14:"+d[0].Kind+"@group", "scope %s after concurrent submission: %s | model: %s | %d mismatching aspects", c14cNames[si], d[0].Msg, in.m[si].Summary(), len(d))
		}
	}
	return nil
}

// ---------------------------------------------------------------- test

// VerifC14OpenPart is set by the black-box half of the check (package raftlog_test, file
// c14_open_test.go) so that both halves run in one test binary and write one result.
var VerifC14OpenPart func(r *ev.R)

func TestVerifC14(t *testing.T) {
	r := ev.Start(t, "C14")
	defer r.Finish()
	c14cSweepStale()
	rf := r.Replay()
	if VerifC14OpenPart == nil {
		r.HarnessError("open part not linked in")
		return
	}
	// open part first: a defect that needs no crash gets the shortest counterexample
	if rf == nil || strings.HasPrefix(rf.System, "open-") {
		// the open-gc system places GC passes at chunk writes: dispatcher of the chunk-write seam
		restore := c14cInstallChunkHook()
		VerifC14OpenPart(r)
		restore()
	}
	if (rf == nil && r.ViolationCount() == 0) || (rf != nil && !strings.HasPrefix(rf.System, "open-")) {
		c14cCrashPart(r)
	}
}

func c14cCrashPart(r *ev.R) {

	router := crashfs.NewRouter()
	cache := pebble.NewCache(4 << 20)
	defer cache.Unref()
	VerifFS = router
	// tuning only: pebble callocs its memtable arena and block cache on every Open
	VerifTweak = func(o *pebble.Options) { o.MemTableSize = 64 << 10; o.Cache = cache; o.Logger = c14cQuietLogger{} }
	defer func() { VerifFS, VerifTweak = nil, nil }()
	restore := c14cInstallChunkHook()
	defer restore()

	r.Assume("Crash images of the Pebble files are the two deterministic extremes of pebble's crashable MemFS (all / none of the unsynced data); the snapshot directories are plain os files and are captured as they are at the crash instant (process-kill semantics: everything written is visible), also when they are combined with a power-loss image of the Pebble files.")
	r.Assume("Every acknowledged call is durable (the writer commits with pebble.Sync before acknowledging), so acked <= j also holds for power-loss images.")
	r.Assume("Pebble's background deletion of obsolete files is not a crash point (it belongs to no storage call).")

	if rf := r.Replay(); rf != nil && strings.HasPrefix(rf.System, "crash-") {
		var h c14cReplay
		if err := json.Unmarshal(rf.Replay, &h); err != nil {
			r.HarnessError("bad crash replay payload: %v", err)
			return
		}
		w := &c14cWorker{prefix: "/c14crash-replay", realDir: filepath.Join("/dev/shm", fmt.Sprintf("%s%d-replay", c14cDirPrefix, os.Getpid()))}
		_ = os.MkdirAll(w.realDir, 0o755)
		defer os.RemoveAll(w.realDir)
		res := w.run(router, h.history(), h.Group, true)
		fmt.Printf("replay %s: %d crash points, %d images reopened\n", h.history(), res.images, res.reopens)
		if res.herr != "" {
			r.HarnessError("%s", res.herr)
		}
		if res.violation != nil {
			fmt.Printf("replay VIOLATES: [%s] %s\n", res.violation.Fingerprint, res.violation.Message)
			res.violation.System = rf.System
			r.MarkReplayReproduced()
			r.Violation(*res.violation)
		}
		r.Section(ev.Section{Name: rf.System, Kind: "crash", Evaluations: res.reopens, Validated: res.reopens, Note: "replay"})
		return
	}

	dSeq := ev.Pick(r, 2, 3)
	var hs []c14cHistory
	for _, start := range []string{"empty", "warm", "warm-reopened"} {
		d := dSeq
		if start != "warm" {
			d = ev.Pick(r, 1, 2)
		}
		for _, h := range c14cEnumerate(start, d, false) {
			if len(h.steps) > ev.Pick(r, 1, 2) && h.steps[0][0] == "" {
				continue // the longest histories start on scope A (quick: A;x, thorough: A;x;y); shorter ones are unrestricted
			}
			hs = append(hs, h)
		}
	}
	// the config-applied mark alone (MarkConfigApplied is acknowledged like every other call and
	// multiraft records the index as durable once it returns): single mark, mark followed by a write
	for _, st := range [][]c14cStep{{{"cfgapp", ""}}, {{"", "cfgapp"}}, {{"cfgapp", ""}, {"app", ""}}, {{"cfgapp", ""}, {"", "app"}}, {{"", "cfgapp"}, {"commit", ""}}} {
		hs = append(hs, c14cHistory{start: "warm", steps: st})
	}
	c14cRunSection(r, router, "crash-seq", hs, false,
		map[string]any{"extra": "config-applied mark alone / followed by one call (5 histories, warm start)", "depth_warm": dSeq, "depth_empty_and_warm_reopened": ev.Pick(r, 1, 2), "alphabet": c14cAlphabet, "scopes": []string{"slot/1", "controller/1"}, "preamble": c14cPreamble, "modes": []string{"kill", "power"}},
		"every history of exactly d calls (the longest ones - 2 calls quick, 3 thorough - start on scope A); every Pebble FS mutation + snapshot-directory seam is a crash point; every image (kill and power) reopened and compared with the model after j calls, acked<=j<=started, then the lost call re-issued")

	{
		c14gFullDepth = ev.Pick(r, 1, 2)
		res := mc.Run(r, mc.System{Name: "group-open", New: c14gNew, MaxDepth: 2, Workers: 8,
			Bounds: map[string]any{"alphabet": c14cAlphabet, "alphabet_B_adds": "cfgapp", "ordered": "a pair whose B call is an applied / config-applied mark is submitted in BOTH orders of the two requests inside the batch (A>>B, B>>A) instead of unordered", "pairs": "(a,b), a in enabled(A)+none, b in enabled(B)+none, not both none, not both snapshot saves", "pair_steps": c14gFullDepth, "then": "single calls (paired with a no-op on a private scope) and reopen", "start": c14cPreamble, "WriteBatchMaxItems": 2},
			Note:   "two goroutines submit one call each on different scopes; the write worker commits them as one batch; final state compared"})
		_ = res
		r.Count("group_pairs_submitted", c14gPairs.Load())
		r.Count("group_pairs_committed_as_one_batch", c14gGrouped.Load())
		r.Count("group_pairs_not_one_batch", c14gSplit.Load())
		r.Count("group_ordered_pairs", c14gOrdered.Load())
		if r.Replay() == nil && r.ViolationCount() == 0 {
			r.Guard("group_open_ordered_pairs", c14gOrdered.Load() > 0, "%d pairs with a chosen request order inside one batch", c14gOrdered.Load())
			// a pair is split only if one goroutine is delayed for the whole 60 s window (host overload); the oracle does not depend on it
			r.Guard("group_pairs_were_one_physical_commit", c14gGrouped.Load() > 0 && c14gSplit.Load()*10 <= c14gPairs.Load(), "%d of %d concurrent pairs were committed by one batch (%d were not)", c14gGrouped.Load(), c14gPairs.Load(), c14gSplit.Load())
		}
	}

	{
		hg := c14cEnumerate("warm", 1, true)
		if r.Thorough() {
			hg = append(hg, c14cEnumerate("empty", 1, true)...)
			hg = append(hg, c14cEnumerate("warm-reopened", 1, true)...)
		}
		if !r.Thorough() {
			// quick: pairs only (single calls are the crash-seq section)
			var keep []c14cHistory
			for _, h := range hg {
				if h.steps[0][0] != "" && h.steps[0][1] != "" {
					keep = append(keep, h)
				}
			}
			hg = keep
		}
		hg = append(hg, c14cEnumerateMarks(r.Thorough())...)
		c14cRunSection(r, router, "crash-group", hg, true,
			map[string]any{"ordered_pairs": "start warm+Bcommit: {every enabled Save-like call on A} x {cfgapp, applied on B} x {A's request first in the batch, B's first}; {no-op} x {cfgapp, applied} in both orders; thorough: each followed by one more call", "depth": 1, "alphabet": c14cAlphabet, "starts": ev.Pick(r, []string{"warm (preamble written as group pairs)"}, []string{"warm", "empty", "warm-reopened"}), "steps": ev.Pick(r, "pairs", "pairs and single calls (paired with a no-op on a private scope)"), "WriteBatchMaxItems": 2, "modes": []string{"kill", "power"}},
			"concurrent pairs on crashfs (unordered, and - for pairs with an applied / config-applied mark - with the order of the two requests inside the one batch chosen by stalling the write worker); kill and power image at every crash point and when idle after both acknowledgements; per-scope bound acked_s<=j_s<=started_s")
	}
}
