package fsm_test

// C18 - The controller state machine applies commands deterministically.
//
// Black-box exploration of controller/fsm.StateMachine. An mc state is a command log (event =
// "append menu command k"); no merging, so every log up to the depth bound is enumerated. In
// every state the log is executed on fresh state machines
//
//   - one entry at a time (reference run; ApplyBatch with one entry, and again through Apply),
//   - under every other partition of the log into consecutive batches,
//   - after a restart (New + Load from the bytes the store held) at every point k of the log,
//     re-applying the whole log, once as one batch and once entry by entry,
//
// and the oracle compares per-entry results, published states and persisted images.
// Two worlds share the machinery: "empty" starts from a machine without state file, "tasks"
// from the state reached by a fixed setup log (c18Preamble) that is applied once through the
// real ApplyBatch and then loaded like a node boot would.

import (
	"context"
	"encoding/json"
	"errors"
	"fmt"
	"os"
	"path/filepath"
	"reflect"
	"runtime"
	"sort"
	"strings"
	"sync"
	"sync/atomic"
	"testing"
	"time"

	"github.com/WuKongIM/WuKongIM/pkg/controller/command"
	"github.com/WuKongIM/WuKongIM/pkg/controller/fsm"
	"github.com/WuKongIM/WuKongIM/pkg/controller/state"
	"github.com/WuKongIM/WuKongIM/pkg/controller/statefile"
	"github.com/WuKongIM/WuKongIM/pkg/zzverif/ev"
	"github.com/WuKongIM/WuKongIM/pkg/zzverif/mc"
)

// ---------------------------------------------------------------- stores

// c18Mem keeps what the real state file would keep: the bytes of state.Encode. preDecoded is
// set only for the world's base image, whose state.Decode result was computed once at setup.
type c18Mem struct {
	data       []byte
	preDecoded *state.ClusterState
}

func (s *c18Mem) Load(ctx context.Context) (state.ClusterState, error) {
	if s.data == nil {
		return state.ClusterState{}, fmt.Errorf("c18 memory store: %w", os.ErrNotExist)
	}
	if s.preDecoded != nil {
		return s.preDecoded.Clone(), nil
	}
	return state.Decode(s.data)
}

func (s *c18Mem) Save(ctx context.Context, st state.ClusterState) error {
	b, err := state.Encode(st) // normalises, validates, checksums - exactly what statefile.Store.Save writes
	if err != nil {
		return err
	}
	s.data, s.preDecoded = b, nil
	return nil
}

// c18Rec wraps a store, validates every state handed to Save and exposes the persisted image.
type c18Rec struct {
	inner    fsm.Store
	image    func() []byte
	validate bool // run state.Validate here (the memory store's Encode already does)
	saves    int
	invalid  string
}

func (s *c18Rec) Load(ctx context.Context) (state.ClusterState, error) { return s.inner.Load(ctx) }

func (s *c18Rec) Save(ctx context.Context, st state.ClusterState) error {
	s.saves++
	if s.invalid == "" && s.validate {
		if err := st.Validate(); err != nil {
			s.invalid = fmt.Sprintf("save #%d (revision %d, applied %d): %v", s.saves, st.Revision, st.AppliedRaftIndex, err)
		}
	}
	err := s.inner.Save(ctx, st)
	if err != nil && s.invalid == "" && (errors.Is(err, state.ErrInvalidState) || errors.Is(err, state.ErrUnsupportedSchema)) {
		s.invalid = fmt.Sprintf("save #%d (revision %d, applied %d): %v", s.saves, st.Revision, st.AppliedRaftIndex, err)
	}
	return err
}

// ---------------------------------------------------------------- world

type c18World struct {
	name            string
	menu            []c18Cmd
	enc             [][]byte // command.Encode of every menu command
	labels          []string
	byLabel         map[string]int
	baseImage       []byte             // persisted image after the preamble (nil: no state file)
	baseState       state.ClusterState // state.Decode(baseImage), computed once
	allRestartModes bool
	baseIndex       uint64 // raft index of the last preamble entry
	file            bool   // real statefile.Store on tmpfs instead of the memory store
	dirs            chan string

	mu                                                                             sync.Mutex
	outcomes                                                                       map[string]int64 // kind:class:reason -> count (last step of every log)
	changedBy                                                                      map[string]int64 // kind -> changed results
	nLogs, nPartitions, nRestarts, nRestartsPersisted, nReapplied, nAlreadyApplied atomic.Int64
	nBatchTwoChanged, nBatchRollbackAfterChange, nUpdated, nPreInitRejected        atomic.Int64
	nFileSaves                                                                     atomic.Int64
}

func (w *c18World) newStore(image []byte, dir string) *c18Rec {
	if !w.file {
		m := &c18Mem{data: image}
		if len(image) > 0 && len(w.baseImage) > 0 && &image[0] == &w.baseImage[0] {
			m.preDecoded = &w.baseState
		}
		return &c18Rec{inner: m, image: func() []byte { return m.data }}
	}
	path := filepath.Join(dir, "cluster-state.json")
	_ = os.Remove(path)
	if image != nil {
		if err := os.WriteFile(path, image, 0o600); err != nil {
			panic(err)
		}
	}
	return &c18Rec{inner: statefile.New(path), validate: true, image: func() []byte {
		b, err := os.ReadFile(path)
		if err != nil {
			return nil
		}
		return b
	}}
}

func (w *c18World) borrowDir() string {
	if !w.file {
		return ""
	}
	return <-w.dirs
}

func (w *c18World) returnDir(d string) {
	if w.file {
		w.dirs <- d
	}
}

// entry builds the committed entry for position i (0-based) of a log of menu indices. The
// command is decoded afresh from its replicated encoding, as the raft apply path does.
func (w *c18World) entry(log []int, i int) fsm.AppliedCommand {
	cmd, err := command.Decode(w.enc[log[i]])
	if err != nil {
		panic(fmt.Sprintf("c18: menu command %s does not decode: %v", w.labels[log[i]], err))
	}
	return fsm.AppliedCommand{Index: w.baseIndex + uint64(i) + 1, Term: 3 + uint64(i)/2, Command: cmd}
}

func (w *c18World) entries(log []int, from, to int) []fsm.AppliedCommand {
	out := make([]fsm.AppliedCommand, 0, to-from)
	for i := from; i < to; i++ {
		out = append(out, w.entry(log, i))
	}
	return out
}

func (w *c18World) logString(log []int) string {
	parts := make([]string, len(log))
	for i, k := range log {
		parts[i] = fmt.Sprintf("%d:%s", w.baseIndex+uint64(i)+1, w.labels[k])
	}
	return "[" + strings.Join(parts, " ; ") + "]"
}

// boot returns a fresh state machine over a fresh store that holds image, loaded.
func (w *c18World) boot(image []byte, dir string) (*fsm.StateMachine, *c18Rec, error) {
	st := w.newStore(image, dir)
	sm, err := fsm.New(st)
	if err != nil {
		return nil, nil, err
	}
	if err := sm.Load(context.Background()); err != nil {
		return nil, nil, err
	}
	return sm, st, nil
}

// ---------------------------------------------------------------- comparison forms

func c18JSON(v any) string {
	b, err := json.Marshal(v)
	if err != nil {
		return "marshal-error:" + err.Error()
	}
	return string(b)
}

// c18Full is the whole state in its durable encoding (checksum and applied index included).
func c18Full(st state.ClusterState) string { return c18JSON(st) }

// c18Untouched is the state modulo the applied-index / checksum bookkeeping that the machine
// advances for every committed entry (DESIGN appendix D).
func c18Untouched(st state.ClusterState) string {
	st.AppliedRaftIndex = 0
	st.Checksum = ""
	return c18JSON(st)
}

// c18Logical is the logical cluster state: everything except the bookkeeping fields, the
// revision/timestamp pair itself and the node health reports (stored without a revision step by
// design: ApplyResult.Updated).
func c18Logical(st state.ClusterState) string {
	st.AppliedRaftIndex = 0
	st.Checksum = ""
	st.Revision = 0
	st.UpdatedAt = time.Time{}
	st.NodeHealthReports = nil
	return c18JSON(st)
}

var c18Empty = c18Full(state.ClusterState{})

func c18Class(r fsm.ApplyResult) string {
	var c []string
	if r.Changed {
		c = append(c, "changed")
	}
	if r.Updated {
		c = append(c, "updated")
	}
	if r.Noop {
		c = append(c, "noop")
	}
	if r.Rejected {
		c = append(c, "rejected")
	}
	if len(c) == 0 {
		return "unclassified"
	}
	return strings.Join(c, "+")
}

// c18Published checks one published state: it is the empty pre-init state or it validates.
func c18Published(st state.ClusterState, what string) error {
	if st.Revision == 0 {
		if c18Full(st) != c18Empty {
			return mc.Violatef("C18:published-state-invalid", "%s has revision 0 but is not the empty state: %s", what, c18Full(st))
		}
		return nil
	}
	if err := st.Validate(); err != nil {
		return mc.Violatef("C18:published-state-invalid", "%s does not pass state.Validate: %v", what, err)
	}
	return nil
}

// ---------------------------------------------------------------- executions

// c18Trace is the reference execution: one entry at a time.
type c18Trace struct {
	ents    []fsm.AppliedCommand // the committed entries, decoded once per explored log
	results []fsm.ApplyResult
	states  []state.ClusterState // states[i] = published state after i entries
	images  [][]byte             // persisted image after i entries (nil = no state file)
}

// Equality is decided on the durable JSON encoding; reflect.DeepEqual is only a fast path.
func c18SameState(a, b state.ClusterState) bool {
	return reflect.DeepEqual(a, b) || c18Full(a) == c18Full(b)
}

func c18SameResult(a, b fsm.ApplyResult) bool {
	return reflect.DeepEqual(a, b) || c18JSON(a) == c18JSON(b)
}

func (w *c18World) reference(log []int, dir string) (*c18Trace, error) {
	sm, st, err := w.boot(w.baseImage, dir)
	if err != nil {
		return nil, mc.Violatef("C18:boot-error", "cannot boot from the base image: %v", err)
	}
	ctx := context.Background()
	tr := &c18Trace{ents: w.entries(log, 0, len(log))}
	snap := sm.Snapshot(ctx)
	tr.states = append(tr.states, snap)
	tr.images = append(tr.images, append([]byte(nil), st.image()...))
	if w.baseImage == nil {
		tr.images[0] = nil
	}
	for i := range log {
		e := tr.ents[i]
		out, err := sm.ApplyBatch(ctx, tr.ents[i:i+1])
		if err != nil {
			return nil, mc.Violatef("C18:apply-error", "ApplyBatch of the single entry %d (%s) fails: %v | log %s", e.Index, w.labels[log[i]], err, w.logString(log))
		}
		if len(out.Results) != 1 {
			return nil, mc.Violatef("C18:result-count", "ApplyBatch of one entry returned %d results | log %s", len(out.Results), w.logString(log))
		}
		snap = sm.Snapshot(ctx)
		if !c18SameState(out.FinalState, snap) {
			return nil, mc.Violatef("C18:final-state-differs-from-snapshot", "entry %d (%s): BatchApplyResult.FinalState %s != Snapshot %s | log %s", e.Index, w.labels[log[i]], c18Full(out.FinalState), c18Full(snap), w.logString(log))
		}
		tr.results = append(tr.results, out.Results[0])
		tr.states = append(tr.states, snap)
		img := st.image()
		if img != nil {
			img = append([]byte(nil), img...)
		}
		tr.images = append(tr.images, img)
	}
	if st.invalid != "" {
		return nil, mc.Violatef("C18:saved-state-invalid", "a state handed to Store.Save does not pass state.Validate: %s | log %s", st.invalid, w.logString(log))
	}
	if w.file {
		w.nFileSaves.Add(int64(st.saves))
	}
	return tr, nil
}

// stepOracle checks the property's per-command clauses on the last step of the reference run.
func (w *c18World) stepOracle(log []int, tr *c18Trace) error {
	n := len(log)
	if n == 0 {
		return c18Published(tr.states[0], "the initial state")
	}
	prev, cur, r := tr.states[n-1], tr.states[n], tr.results[n-1]
	label := w.labels[log[n-1]]
	where := fmt.Sprintf("entry %d (%s) -> %s reason=%q | log %s", w.baseIndex+uint64(n), label, c18Class(r), r.Reason, w.logString(log))
	if err := c18Published(cur, "the state published after "+label); err != nil {
		return mc.Violatef("C18:published-state-invalid", "%v | %s", err, where)
	}
	if r.Changed && (cur.Revision != prev.Revision+1 || r.Revision != prev.Revision+1) {
		return mc.Violatef("C18:changed-revision-not-plus-one", "Changed result but revision went %d -> %d (result reports %d) | %s", prev.Revision, cur.Revision, r.Revision, where)
	}
	if (r.Rejected || r.Noop) && c18Untouched(prev) != c18Untouched(cur) {
		return mc.Violatef("C18:rejected-or-noop-changed-state", "state before %s | state after %s | %s", c18Untouched(prev), c18Untouched(cur), where)
	}
	if c18Logical(prev) != c18Logical(cur) && cur.Revision != prev.Revision+1 {
		return mc.Violatef("C18:logical-change-without-revision-step", "logical state changed but revision went %d -> %d | before %s | after %s | %s", prev.Revision, cur.Revision, c18Logical(prev), c18Logical(cur), where)
	}
	if cur.Revision != 0 && tr.images[n] == nil {
		return mc.Violatef("C18:published-state-not-persisted", "a state with revision %d is published but the store holds no image | %s", cur.Revision, where)
	}
	return nil
}

// c18Compositions lists all ways to cut n entries into consecutive batches, as lists of
// batch end positions; the all-singletons composition comes first.
func c18Compositions(n int) [][]int {
	if n == 0 {
		return nil
	}
	var out [][]int
	for mask := (1 << (n - 1)) - 1; mask >= 0; mask-- {
		var ends []int
		for i := 1; i < n; i++ {
			if mask&(1<<(i-1)) != 0 {
				ends = append(ends, i)
			}
		}
		out = append(out, append(ends, n))
	}
	return out
}

func c18PartString(ends []int) string {
	parts := make([]string, 0, len(ends))
	from := 0
	for _, e := range ends {
		parts = append(parts, fmt.Sprint(e-from))
		from = e
	}
	return strings.Join(parts, "+")
}

// partitions runs the log under every partition with at least one batch of two or more entries.
func (w *c18World) partitions(log []int, tr *c18Trace, dir string) error {
	ctx := context.Background()
	n := len(log)
	for _, ends := range c18Compositions(n) {
		if len(ends) == n {
			continue // the reference run
		}
		w.nPartitions.Add(1)
		sm, st, err := w.boot(w.baseImage, dir)
		if err != nil {
			return mc.Violatef("C18:boot-error", "cannot boot from the base image: %v", err)
		}
		from := 0
		for _, to := range ends {
			out, err := sm.ApplyBatch(ctx, tr.ents[from:to])
			lo, hi := from, to
			desc := func() string {
				return fmt.Sprintf("partition %s, batch of entries %d..%d | log %s", c18PartString(ends), w.baseIndex+uint64(lo)+1, w.baseIndex+uint64(hi), w.logString(log))
			}
			if err != nil {
				return mc.Violatef("C18:apply-error", "ApplyBatch fails: %v | %s", err, desc())
			}
			if len(out.Results) != to-from {
				return mc.Violatef("C18:result-count", "%d results for %d entries | %s", len(out.Results), to-from, desc())
			}
			changed, rollbackAfterChange := 0, false
			for i, r := range out.Results {
				if !c18SameResult(r, tr.results[from+i]) {
					return mc.Violatef("C18:batch-result-differs", "entry %d (%s): batched result %s != one-at-a-time result %s | %s", w.baseIndex+uint64(from+i)+1, w.labels[log[from+i]], c18JSON(r), c18JSON(tr.results[from+i]), desc())
				}
				if r.Changed {
					changed++
				} else if r.Rejected && r.Reason == fsm.ReasonInvalidState && changed > 0 {
					rollbackAfterChange = true
				}
			}
			if changed >= 2 {
				w.nBatchTwoChanged.Add(1)
			}
			if rollbackAfterChange {
				w.nBatchRollbackAfterChange.Add(1)
			}
			snap := sm.Snapshot(ctx)
			if !c18SameState(snap, tr.states[to]) {
				return mc.Violatef("C18:batch-state-differs", "state after the batch %s != state after the same entries one at a time %s | %s", c18Full(snap), c18Full(tr.states[to]), desc())
			}
			if !c18SameState(out.FinalState, tr.states[to]) {
				return mc.Violatef("C18:batch-final-state-differs", "BatchApplyResult.FinalState %s != one-at-a-time state %s | %s", c18Full(out.FinalState), c18Full(tr.states[to]), desc())
			}
			if err := c18Published(snap, "the state published after the batch"); err != nil {
				return mc.Violatef("C18:published-state-invalid", "%v | %s", err, desc())
			}
			from = to
		}
		if st.invalid != "" {
			return mc.Violatef("C18:saved-state-invalid", "a state handed to Store.Save does not pass state.Validate: %s | partition %s | log %s", st.invalid, c18PartString(ends), w.logString(log))
		}
	}
	return nil
}

// applyAPI runs the log through StateMachine.Apply (the single-command API).
func (w *c18World) applyAPI(log []int, tr *c18Trace, dir string) error {
	ctx := context.Background()
	sm, _, err := w.boot(w.baseImage, dir)
	if err != nil {
		return mc.Violatef("C18:boot-error", "cannot boot from the base image: %v", err)
	}
	for i := range log {
		e := tr.ents[i]
		r, err := sm.Apply(ctx, e.Index, e.Command)
		if err != nil {
			return mc.Violatef("C18:apply-error", "Apply(%d, %s) fails: %v | log %s", e.Index, w.labels[log[i]], err, w.logString(log))
		}
		// Apply carries no term and drops the transitions; everything else must agree.
		want := tr.results[i]
		want.TaskTransitions = nil
		if !c18SameResult(r, want) {
			return mc.Violatef("C18:apply-api-result-differs", "entry %d (%s): Apply returns %s, ApplyBatch of the same single entry %s | log %s", e.Index, w.labels[log[i]], c18JSON(r), c18JSON(want), w.logString(log))
		}
		if snap := sm.Snapshot(ctx); !c18SameState(snap, tr.states[i+1]) {
			return mc.Violatef("C18:apply-api-state-differs", "entry %d (%s): state after Apply %s != state after ApplyBatch %s | log %s", e.Index, w.labels[log[i]], c18Full(snap), c18Full(tr.states[i+1]), w.logString(log))
		}
	}
	return nil
}

// restarts: at every point k the node restarts from the persisted image and the whole log is
// applied again (raft re-delivers committed entries whose application it cannot prove), once
// as one batch and once entry by entry. In the quick tier the entry-by-entry mode runs only
// for k = n: for k < n the pure re-application of entries 1..k was executed when the prefix of
// length k was the explored log.
func (w *c18World) restarts(log []int, tr *c18Trace, dir string) error {
	ctx := context.Background()
	n := len(log)
	// k = 0 is not repeated here: booting from the base image and applying the whole log as
	// one batch / entry by entry are the single-batch partition and the reference run.
	for k := 1; k <= n; k++ {
		for mode := 0; mode < 2; mode++ { // 0: one batch, 1: entry by entry
			if mode == 1 && k < n && !w.allRestartModes {
				continue
			}
			w.nRestarts.Add(1)
			sm, st, err := w.boot(tr.images[k], dir)
			k, mode := k, mode
			desc := func() string {
				return fmt.Sprintf("restart after entry %d of %d (%s), whole log re-applied %s | log %s", k, n, map[bool]string{true: "from the persisted image", false: "no state file yet"}[tr.images[k] != nil],
					map[int]string{0: "as one batch", 1: "entry by entry"}[mode], w.logString(log))
			}
			if err != nil {
				return mc.Violatef("C18:persisted-image-does-not-load", "Load of the persisted image fails: %v | %s", err, desc())
			}
			loaded := sm.Snapshot(ctx)
			if !c18SameState(loaded, tr.states[k]) {
				return mc.Violatef("C18:loaded-differs-from-published", "state loaded from the persisted image %s != state that was published when it was saved %s | %s", c18Full(loaded), c18Full(tr.states[k]), desc())
			}
			persisted := loaded.Revision != 0
			if persisted {
				w.nRestartsPersisted.Add(1)
			}
			var results []fsm.ApplyResult
			if mode == 0 {
				if n > 0 {
					out, err := sm.ApplyBatch(ctx, tr.ents)
					if err != nil {
						return mc.Violatef("C18:apply-error", "ApplyBatch fails: %v | %s", err, desc())
					}
					results = out.Results
				}
			} else {
				for i := 0; i < n; i++ {
					out, err := sm.ApplyBatch(ctx, tr.ents[i:i+1])
					if err != nil {
						return mc.Violatef("C18:apply-error", "ApplyBatch fails: %v | %s", err, desc())
					}
					results = append(results, out.Results...)
					if persisted && i < k {
						if snap := sm.Snapshot(ctx); !c18SameState(snap, loaded) {
							return mc.Violatef("C18:reapply-changed-state", "re-applying the already applied entry %d (%s) changed the state: %s -> %s | %s", w.baseIndex+uint64(i)+1, w.labels[log[i]], c18Full(loaded), c18Full(snap), desc())
						}
					}
				}
			}
			if len(results) != n {
				return mc.Violatef("C18:result-count", "%d results for %d entries | %s", len(results), n, desc())
			}
			for i, r := range results {
				if persisted && i < k {
					w.nReapplied.Add(1)
					if !r.Noop || r.Changed || r.Updated || r.Rejected || r.Reason != fsm.ReasonAlreadyApplied {
						return mc.Violatef("C18:reapply-not-noop", "re-applied entry %d (%s), at or below the persisted applied index %d, is answered %s instead of Noop(%s) | %s",
							w.baseIndex+uint64(i)+1, w.labels[log[i]], loaded.AppliedRaftIndex, c18JSON(r), fsm.ReasonAlreadyApplied, desc())
					}
					w.nAlreadyApplied.Add(1)
					continue
				}
				if !c18SameResult(r, tr.results[i]) {
					return mc.Violatef("C18:restart-result-differs", "entry %d (%s): result after the restart %s != result without restart %s | %s", w.baseIndex+uint64(i)+1, w.labels[log[i]], c18JSON(r), c18JSON(tr.results[i]), desc())
				}
			}
			if snap := sm.Snapshot(ctx); !c18SameState(snap, tr.states[n]) {
				return mc.Violatef("C18:restart-state-differs", "final state after the restart %s != final state without restart %s | %s", c18Full(snap), c18Full(tr.states[n]), desc())
			}
			if st.invalid != "" {
				return mc.Violatef("C18:saved-state-invalid", "a state handed to Store.Save does not pass state.Validate: %s | %s", st.invalid, desc())
			}
		}
	}
	return nil
}

// ---------------------------------------------------------------- mc instance

type c18Inst struct {
	w   *c18World
	log []int
	tr  *c18Trace
	err error // violation found while building the reference run of the current log
}

func (in *c18Inst) Events() []string { return in.w.labels }

func (in *c18Inst) rebuild() {
	dir := in.w.borrowDir()
	defer in.w.returnDir(dir)
	in.tr, in.err = in.w.reference(in.log, dir)
	if in.err == nil {
		in.err = in.w.stepOracle(in.log, in.tr)
	}
}

func (in *c18Inst) Apply(event string, env *mc.Env) (string, error) {
	k, ok := in.w.byLabel[event]
	if !ok {
		return "", fmt.Errorf("unknown event %q", event)
	}
	in.log = append(append([]int(nil), in.log...), k)
	in.rebuild()
	if in.err != nil {
		return "violation", in.err
	}
	r := in.tr.results[len(in.log)-1]
	return string(in.w.menu[k].cmd.Kind) + ":" + c18Class(r) + ":" + r.Reason, nil
}

func (in *c18Inst) Canon() string { return "" }

func (in *c18Inst) Clone() mc.Instance {
	return &c18Inst{w: in.w, log: in.log, tr: in.tr, err: in.err}
}

func (in *c18Inst) Check() error {
	if in.err != nil {
		return in.err
	}
	w := in.w
	if in.tr == nil {
		in.rebuild()
		if in.err != nil {
			return in.err
		}
	}
	dir := w.borrowDir()
	defer w.returnDir(dir)
	w.nLogs.Add(1)
	if n := len(in.log); n > 0 {
		r := in.tr.results[n-1]
		kind := string(w.menu[in.log[n-1]].cmd.Kind)
		w.mu.Lock()
		w.outcomes[kind+":"+c18Class(r)+":"+r.Reason]++
		if r.Changed {
			w.changedBy[kind]++
		}
		w.mu.Unlock()
		if r.Updated {
			w.nUpdated.Add(1)
		}
		if r.Rejected && in.tr.states[n].Revision == 0 {
			w.nPreInitRejected.Add(1)
		}
	}
	if err := w.partitions(in.log, in.tr, dir); err != nil {
		return err
	}
	if err := w.applyAPI(in.log, in.tr, dir); err != nil {
		return err
	}
	return w.restarts(in.log, in.tr, dir)
}

// ---------------------------------------------------------------- setup

// c18Deep lists the commands of the "deep" menus (chosen for interplay: the complete replica
// move workflow, task failure / retry, bootstrap progress, revision-fenced variants).
var c18Deep = map[byte][]string{
	'E': {"init", "init-other-cluster", "node3-leaving", "node3-renamed/rev0", "node2-removed", "voters-1/rev0", "voters-13", "promote3", "hashslots-moved", "backup-empty",
		"mcp-on-owner1", "mcp-on-owner2", "boot1/rev1", "boot2", "xfer1", "boot1-unknown-peer", "move2", "commit2", "done-s1boot", "done-s1boot/rev+1", "fail-s1boot",
		"prog-n1-done", "health-n1-alive", "health-n2/rev+1", "health-n9-unknown", "unknown-kind"},
	'L': {"node3-leaving", "boot1/rev1", "boot2", "xfer1", "move2", "move2/rev+1", "move1", "adv-p1-remove", "adv-p1-promote", "adv-p2-remove", "adv-p2-commit", "adv-p3-commit",
		"adv-p1-remove/attempt1", "commit2", "commit2/attempt1", "done-s1boot", "done-s1boot/attempt1", "done-s2move", "fail-s1boot", "fail-s2move", "prog-n1-done", "prog-n2-failed",
		"prog-n2-done/pattempt0", "health-n1-alive"},
}

func c18NewWorld(r *ev.R, name string, world byte, file bool, menu string) (*c18World, error) {
	w := &c18World{name: name, file: file, allRestartModes: r.Thorough() && menu != "deep", byLabel: map[string]int{}, outcomes: map[string]int64{}, changedBy: map[string]int64{}}
	r0 := uint64(1)
	var pre []command.Command
	if world == 'L' {
		pre = c18Preamble()
		r0 = uint64(len(pre))
	}
	w.menu = c18Menu(world, r0, menu != "quick")
	if menu == "deep" {
		var sub []c18Cmd
		for _, l := range c18Deep[world] {
			found := false
			for _, c := range w.menu {
				if c.label == l {
					sub, found = append(sub, c), true
				}
			}
			if !found {
				return nil, fmt.Errorf("deep menu names unknown command %q", l)
			}
		}
		w.menu = sub
	}
	for i, c := range w.menu {
		if _, dup := w.byLabel[c.label]; dup {
			return nil, fmt.Errorf("duplicate menu label %q", c.label)
		}
		w.byLabel[c.label] = i
		w.labels = append(w.labels, c.label)
		b, err := command.Encode(c.cmd)
		if err != nil {
			return nil, fmt.Errorf("menu command %s does not encode: %v", c.label, err)
		}
		w.enc = append(w.enc, b)
	}
	if file {
		root, err := os.MkdirTemp("/dev/shm", "verif-c18-")
		if err != nil {
			return nil, err
		}
		const pool = 96
		w.dirs = make(chan string, pool)
		for i := 0; i < pool; i++ {
			d := filepath.Join(root, fmt.Sprint(i))
			if err := os.Mkdir(d, 0o700); err != nil {
				return nil, err
			}
			w.dirs <- d
		}
		c18Cleanup = append(c18Cleanup, root)
	}
	if len(pre) > 0 {
		// The setup log runs once through the real machine on the memory store; every
		// execution of this world boots from the resulting image.
		m := &c18Mem{}
		sm, err := fsm.New(m)
		if err != nil {
			return nil, err
		}
		for i, c := range pre {
			b, err := command.Encode(c)
			if err != nil {
				return nil, err
			}
			cmd, err := command.Decode(b)
			if err != nil {
				return nil, err
			}
			out, err := sm.ApplyBatch(context.Background(), []fsm.AppliedCommand{{Index: uint64(i) + 1, Term: 2, Command: cmd}})
			if err != nil {
				return nil, fmt.Errorf("preamble entry %d: %v", i+1, err)
			}
			if len(out.Results) != 1 || !out.Results[0].Changed {
				return nil, fmt.Errorf("preamble entry %d (%s) was not applied: %s", i+1, c.Kind, c18JSON(out.Results))
			}
		}
		snap := sm.Snapshot(context.Background())
		if snap.Revision != uint64(len(pre)) || snap.AppliedRaftIndex != uint64(len(pre)) || len(snap.Tasks) != 2 {
			return nil, fmt.Errorf("unexpected preamble state: %s", c18Full(snap))
		}
		w.baseImage = append([]byte(nil), m.data...)
		w.baseIndex = uint64(len(pre))
		if w.baseState, err = state.Decode(w.baseImage); err != nil {
			return nil, fmt.Errorf("preamble image does not decode: %v", err)
		}
	}
	return w, nil
}

var c18Cleanup []string

func (w *c18World) run(r *ev.R, depth int) mc.Result {
	kinds := map[string]bool{}
	for _, c := range w.menu {
		kinds[string(c.cmd.Kind)] = true
	}
	store := "memory store holding state.Encode bytes"
	if w.file {
		store = "real statefile.Store on /dev/shm"
	}
	res := mc.Run(r, mc.System{
		Name:     w.name,
		New:      func() mc.Instance { in := &c18Inst{w: w}; in.rebuild(); return in },
		MaxDepth: depth,
		Bounds: map[string]any{"menu_commands": len(w.menu), "command_kinds_in_menu": len(kinds), "log_length": depth, "nodes": 3, "slots": 2, "hash_slots": 4, "replica_count": 2,
			"setup_log_entries": w.baseIndex, "store": store, "batch_partitions_per_log": "all 2^(n-1)", "restart_points_per_log": "n+1, x {one batch, entry by entry}"},
		Note: "no state merging: every log over the menu up to the length bound is executed; states = logs",
	})
	return res
}

func (w *c18World) summary() (classes map[string]int64, reasons int, kindsChanged int) {
	classes = map[string]int64{}
	seenReason := map[string]bool{}
	w.mu.Lock()
	defer w.mu.Unlock()
	for k, n := range w.outcomes {
		parts := strings.SplitN(k, ":", 3)
		classes[parts[1]] += n
		seenReason[parts[1]+":"+parts[2]] = true
	}
	return classes, len(seenReason), len(w.changedBy)
}

func TestVerifC18(t *testing.T) {
	r := ev.Start(t, "C18")
	defer r.Finish()
	// The live heap is tiny and the allocation rate huge (every apply clones the state several
	// times): collect by memory limit instead of by growth ratio.
	// A pointer-free ballast makes the collector run once per ~ballast bytes allocated while the
	// spans stay mapped and are reused (no page-fault / madvise churn).
	ballast := make([]byte, 384<<20)
	defer runtime.KeepAlive(ballast)
	defer func() {
		for _, d := range c18Cleanup {
			os.RemoveAll(d)
		}
	}()

	// menu: "quick" = sub-menu, "full" = every command of the world, "deep" = the explicit
	// interplay sub-menu used for the longest logs.
	type plan struct {
		name  string
		world byte
		file  bool
		menu  string
		depth int
	}
	thoroughPlans := []plan{
		{"fsm-empty-start/mem", 'E', false, "full", 3},
		{"fsm-tasks-start/mem", 'L', false, "full", 3},
		{"fsm-empty-start/statefile", 'E', true, "quick", 3},
		{"fsm-tasks-start/statefile", 'L', true, "quick", 3},
		{"fsm-tasks-start/mem-deep", 'L', false, "deep", 4},
		{"fsm-empty-start/mem-deep", 'E', false, "deep", 4},
	}
	plans := []plan{
		{"fsm-empty-start/mem", 'E', false, "quick", 3},
		{"fsm-tasks-start/mem", 'L', false, "quick", 3},
	}
	if r.Thorough() {
		plans = thoroughPlans
	}
	if rf := r.Replay(); rf != nil {
		// the replay names its system and tier; only that world is built, with the same menu
		var pl struct {
			System string `json:"system"`
		}
		_ = json.Unmarshal(rf.Replay, &pl)
		cands := plans
		if rf.Tier == "thorough" {
			cands = thoroughPlans
		}
		plans = nil
		for _, p := range cands {
			if p.name == pl.System {
				p.depth = 6
				plans = append(plans, p)
			}
		}
		if len(plans) == 0 {
			r.HarnessError("replay: unknown system %q for tier %q", pl.System, rf.Tier)
			return
		}
	}

	var worlds []*c18World
	var results []mc.Result
	for _, p := range plans {
		w, err := c18NewWorld(r, p.name, p.world, p.file, p.menu)
		if err != nil {
			r.HarnessError("%s: %v", p.name, err)
			return
		}
		worlds = append(worlds, w)
		results = append(results, w.run(r, p.depth))
	}
	if r.Replay() != nil {
		return
	}

	// ---- vacuity guards (measured over the last entry of every explored log)
	tot := map[string]int64{}
	var partitions, restartsPersisted, already, twoChanged, rollback, updated, preInit, fileSaves, logs int64
	reasonsAll := map[string]bool{}
	kindsChanged := map[string]bool{}
	kindsSeen := map[string]bool{}
	for _, w := range worlds {
		cl, _, _ := w.summary()
		for k, v := range cl {
			tot[k] += v
		}
		w.mu.Lock()
		for k := range w.outcomes {
			parts := strings.SplitN(k, ":", 3)
			reasonsAll[parts[1]+":"+parts[2]] = true
			kindsSeen[parts[0]] = true
		}
		for k := range w.changedBy {
			kindsChanged[k] = true
		}
		w.mu.Unlock()
		partitions += w.nPartitions.Load()
		restartsPersisted += w.nRestartsPersisted.Load()
		already += w.nAlreadyApplied.Load()
		twoChanged += w.nBatchTwoChanged.Load()
		rollback += w.nBatchRollbackAfterChange.Load()
		updated += w.nUpdated.Load()
		preInit += w.nPreInitRejected.Load()
		fileSaves += w.nFileSaves.Load()
		logs += w.nLogs.Load()
	}
	var reasonList []string
	for k := range reasonsAll {
		reasonList = append(reasonList, k)
	}
	sort.Strings(reasonList)
	var missingChanged []string
	for _, k := range []command.Kind{command.KindInitClusterState, command.KindUpsertNode, command.KindUpdateControllerVoters, command.KindPromoteControllerVoter,
		command.KindUpsertSlotAssignmentAndTask, command.KindUpsertSlotReplicaMoveTask, command.KindAdvanceSlotReplicaMovePhase, command.KindCommitSlotReplicaMove,
		command.KindCompleteTask, command.KindFailTask, command.KindReportTaskProgress, command.KindReplaceHashSlotTable, command.KindReplaceScheduledBackupState, command.KindReplaceOpsMCPState} {
		if !kindsChanged[string(k)] {
			missingChanged = append(missingChanged, string(k))
		}
	}
	r.Guard("all-result-classes-seen", tot["changed"] >= 100 && tot["noop"] >= 100 && tot["rejected"] >= 100 && tot["updated"] >= 10,
		"last-entry results: changed=%d noop=%d rejected=%d updated=%d (all classes: %v)", tot["changed"], tot["noop"], tot["rejected"], tot["updated"], tot)
	r.Guard("every-kind-applied-and-changing", len(kindsSeen) >= 16 && len(missingChanged) == 0, "command kinds seen=%d (incl. the unknown kind); kinds that never produced a Changed result: %v", len(kindsSeen), missingChanged)
	r.Guard("reject-and-noop-reasons-diverse", len(reasonList) >= ev.Pick(r, 22, 25), "%d distinct (class,reason) pairs: %s", len(reasonList), strings.Join(reasonList, " "))
	r.Guard("batches-with-several-changes", twoChanged >= 100 && rollback >= 10, "batches containing >=2 Changed entries=%d, batches with an invalid_state rollback after a Changed entry=%d, partitions executed=%d", twoChanged, rollback, partitions)
	r.Guard("restarts-from-persisted-state", restartsPersisted >= 100 && already >= 100 && preInit >= 10, "restarts from a persisted image=%d, re-applied entries answered already_applied=%d, rejected entries before any state file exists=%d", restartsPersisted, already, preInit)
	if r.Thorough() {
		r.Guard("real-statefile-store-used", fileSaves >= 1000, "Store.Save calls on the real statefile.Store in reference runs=%d", fileSaves)
	}
	var states int64
	for _, x := range results {
		states += x.States
	}
	r.Guard("state-space-nontrivial", states >= 10000, "logs explored=%d (checked=%d)", states, logs)
	r.Count("logs_checked", logs)
	r.Count("batch_partitions_executed", partitions)
	r.Count("restarts_from_persisted_image", restartsPersisted)
	r.Count("reapplied_entries_already_applied", already)

	r.Assume("'state untouched' for rejected / no-op commands is compared modulo AppliedRaftIndex and Checksum, which the machine advances for every committed entry (DESIGN appendix D)")
	r.Assume("node health reports are not logical state: report_node_health answers Updated and stores the report without a revision step (ApplyResult.Updated doc); 'logical state' = everything except AppliedRaftIndex, Checksum, Revision, UpdatedAt, NodeHealthReports")
	r.Assume("before init nothing is persisted or published: the only admissible revision-0 state is the empty ClusterState, and re-applying pre-init entries after a restart must reproduce the original results instead of already_applied")
	r.Assume("log entries carry strictly increasing raft indexes (a committed raft log); states are compared in their durable JSON encoding")
}
