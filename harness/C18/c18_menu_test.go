package fsm_test

// Command menus of the C18 harness: 3 nodes, 2 physical slots, 4 hash slots, replica count 2
// (so that a replica move 2 -> 3 is possible). Every command kind appears with valid, stale
// (revision / attempt / epoch / phase) and invalid-payload variants; the identifiers collide
// on purpose (same task ids, same slots, same nodes).

import (
	"time"

	"github.com/WuKongIM/WuKongIM/pkg/controller/command"
	"github.com/WuKongIM/WuKongIM/pkg/controller/state"
)

type c18Cmd struct {
	label string
	cmd   command.Command
}

func c18T(min int) time.Time {
	return time.Date(2026, 5, 24, 10, 0, 0, 0, time.UTC).Add(time.Duration(min) * time.Minute)
}

func c18Rev(v uint64) *uint64 { return &v }

func c18Node(id uint64, join state.NodeJoinState, roles ...state.NodeRole) state.Node {
	return state.Node{NodeID: id, Name: "n" + string(rune('0'+id)), Addr: "a" + string(rune('0'+id)), Roles: roles, JoinState: join, Status: state.NodeStatusAlive, CapacityWeight: 10}
}

func c18Config() state.ClusterConfig {
	return state.ClusterConfig{SlotCount: 2, HashSlotCount: 4, ReplicaCount: 2, DefaultCapacityWeight: 10}
}

func c18Init(clusterID string, cfg state.ClusterConfig, at time.Time) command.Command {
	return command.Command{Kind: command.KindInitClusterState, IssuedAt: at, Init: &command.InitClusterState{
		ClusterID: clusterID, Config: cfg,
		Controllers: []state.ControllerVoter{{NodeID: 1, Addr: "a1", Role: state.ControllerRoleVoter}, {NodeID: 2, Addr: "a2", Role: state.ControllerRoleVoter}},
		Nodes: []state.Node{
			c18Node(1, state.NodeJoinStateActive, state.NodeRoleControllerVoter, state.NodeRoleData),
			c18Node(2, state.NodeJoinStateActive, state.NodeRoleControllerVoter, state.NodeRoleData),
			c18Node(3, state.NodeJoinStateActive, state.NodeRoleData),
		}}}
}

func c18Progress(peers ...uint64) []state.TaskParticipantProgress {
	out := make([]state.TaskParticipantProgress, 0, len(peers))
	for _, p := range peers {
		out = append(out, state.TaskParticipantProgress{NodeID: p, Status: state.TaskParticipantStatusPending})
	}
	return out
}

func c18Bootstrap(slot uint32, taskID string, peers []uint64, epoch uint64, exp *uint64, at time.Time) command.Command {
	a := state.SlotAssignment{SlotID: slot, DesiredPeers: append([]uint64(nil), peers...), ConfigEpoch: epoch, PreferredLeader: peers[0]}
	return command.Command{Kind: command.KindUpsertSlotAssignmentAndTask, IssuedAt: at, ExpectedRevision: exp, Assignment: &a, Task: &state.ReconcileTask{
		TaskID: taskID, SlotID: slot, Kind: state.TaskKindBootstrap, Step: state.TaskStepCreateSlot, TargetNode: peers[0], TargetPeers: append([]uint64(nil), peers...),
		CompletionPolicy: state.TaskCompletionPolicyAllTargetPeers, ParticipantProgress: c18Progress(peers...), ConfigEpoch: epoch, Status: state.TaskStatusPending}}
}

func c18Transfer(slot uint32, taskID string, exp *uint64, at time.Time) command.Command {
	a := state.SlotAssignment{SlotID: slot, DesiredPeers: []uint64{1, 2}, ConfigEpoch: 1, PreferredLeader: 2}
	return command.Command{Kind: command.KindUpsertSlotAssignmentAndTask, IssuedAt: at, ExpectedRevision: exp, Assignment: &a, Task: &state.ReconcileTask{
		TaskID: taskID, SlotID: slot, Kind: state.TaskKindLeaderTransfer, Step: state.TaskStepTransferLeader, SourceNode: 1, TargetNode: 2, TargetPeers: []uint64{1, 2},
		CompletionPolicy: state.TaskCompletionPolicySingleObserver, ConfigEpoch: 1, Status: state.TaskStatusPending}}
}

func c18MoveTask(slot uint32, taskID string, source, target uint64, targetPeers []uint64) state.ReconcileTask {
	return state.ReconcileTask{TaskID: taskID, SlotID: slot, Kind: state.TaskKindSlotReplicaMove, Step: state.TaskStepOpenLearner, SourceNode: source, TargetNode: target,
		TargetPeers: targetPeers, CompletionPolicy: state.TaskCompletionPolicySingleObserver, ConfigEpoch: 1, Status: state.TaskStatusPending}
}

func c18Move(task state.ReconcileTask, exp *uint64, at time.Time) command.Command {
	return command.Command{Kind: command.KindUpsertSlotReplicaMoveTask, IssuedAt: at, ExpectedRevision: exp, Task: &task}
}

func c18Adv(taskID string, epoch uint64, attempt, phase uint32, next state.TaskStep, idx uint64, voters, learners []uint64, at time.Time) command.Command {
	return command.Command{Kind: command.KindAdvanceSlotReplicaMovePhase, IssuedAt: at, SlotReplicaMovePhase: &command.SlotReplicaMovePhaseAdvance{
		TaskID: taskID, SlotID: 2, ConfigEpoch: epoch, Attempt: attempt, ExpectedPhaseIndex: phase, NextStep: next, ObservedConfigIndex: idx, ObservedVoters: voters, ObservedLearners: learners}}
}

func c18Commit(taskID string, slot uint32, epoch uint64, attempt uint32, idx uint64, voters []uint64, at time.Time) command.Command {
	return command.Command{Kind: command.KindCommitSlotReplicaMove, IssuedAt: at, SlotReplicaMoveCommit: &command.SlotReplicaMoveCommit{
		TaskID: taskID, SlotID: slot, ConfigEpoch: epoch, Attempt: attempt, ObservedConfigIndex: idx, ObservedVoters: voters}}
}

func c18Result(kind command.Kind, taskID string, slot uint32, tk state.TaskKind, epoch uint64, attempt uint32, errText string, exp *uint64, at time.Time) command.Command {
	return command.Command{Kind: kind, IssuedAt: at, ExpectedRevision: exp, TaskResult: &command.TaskResult{TaskID: taskID, SlotID: slot, TaskKind: tk, ConfigEpoch: epoch, Attempt: attempt, Err: errText, FinishedAt: at}}
}

func c18Prog(epoch uint64, taskAttempt uint32, node uint64, pAttempt uint32, st state.TaskParticipantStatus, errText string, exp *uint64, at time.Time) command.Command {
	return command.Command{Kind: command.KindReportTaskProgress, IssuedAt: at, ExpectedRevision: exp, TaskProgress: &command.TaskProgress{TaskID: "s1-boot", SlotID: 1, TaskKind: state.TaskKindBootstrap,
		ConfigEpoch: epoch, TaskAttempt: taskAttempt, ParticipantNodeID: node, ParticipantAttempt: pAttempt, Status: st, Err: errText, FinishedAt: at}}
}

func c18Health(node uint64, st state.NodeStatus, seq uint64, exp *uint64) command.Command {
	return command.Command{Kind: command.KindReportNodeHealth, IssuedAt: c18T(50), ExpectedRevision: exp, NodeHealth: &state.NodeHealthReport{NodeID: node, Status: st, RuntimeReady: st == state.NodeStatusAlive,
		ObservedControlRevision: 1, ReportSeq: seq, ReportedAtUnixMilli: 1780000000000 + int64(seq)}}
}

func c18BackupPlan() *state.BackupPlan {
	return &state.BackupPlan{Revision: 1, Enabled: true, Store: state.BackupStoreConfig{Kind: state.BackupStoreKindFile}, Cron: "0 3 * * *", TimeZone: "UTC", RetentionCount: 3,
		RateBytesPerSec: 1 << 20, WorkersPerNode: 1, MaxDurationMillis: 2 * 60 * 60 * 1000, ScheduleCursorUnixMillis: 1770000000000, CreatedUnixMillis: 1770000000000, UpdatedUnixMillis: 1770000000000}
}

func c18Cred(id string) state.OpsMCPCredential {
	return state.OpsMCPCredential{ID: id, DigestSHA256: "00112233445566778899aabbccddeeff00112233445566778899aabbccddeeff", CreatedAtUnixMillis: 1779000000000}
}

// c18Preamble is the fixed setup log of the "tasks" world: after it slot 1 carries an active
// bootstrap task (participants 1,2) and slot 2 a replica move 2->3 at step add_learner,
// phase 1. Revision 6, applied index 6.
func c18Preamble() []command.Command {
	return []command.Command{
		c18Init("wk-c18", c18Config(), c18T(0)),
		c18Bootstrap(1, "s1-boot", []uint64{1, 2}, 1, c18Rev(1), c18T(1)),
		c18Bootstrap(2, "s2-boot", []uint64{1, 2}, 1, nil, c18T(2)),
		c18Result(command.KindCompleteTask, "s2-boot", 2, state.TaskKindBootstrap, 1, 0, "", nil, c18T(3)),
		c18Move(c18MoveTask(2, "s2-move", 2, 3, []uint64{1, 3}), nil, c18T(4)),
		c18Adv("s2-move", 1, 0, 0, state.TaskStepAddLearner, 5, []uint64{1, 2}, nil, c18T(5)),
	}
}

// c18Menu returns the command alphabet of one world ('E' = starts from the empty machine,
// 'L' = starts after c18Preamble). r0 is the revision at which the "valid expected revision"
// variants match (1 = right after init; 6 = right after the preamble); ".../rev+1" variants
// expect r0+1: stale at the start, matching after exactly one change, stale again later. The quick tier uses a
// sub-menu (entries tagged with a lower-case world letter are thorough-only).
func c18Menu(world byte, r0 uint64, thorough bool) []c18Cmd {
	type ent struct {
		worlds string
		label  string
		cmd    command.Command
	}
	zone := time.FixedZone("UTC+8", 8*3600)
	n3 := c18Node(3, state.NodeJoinStateActive, state.NodeRoleData)
	n3leaving := c18Node(3, state.NodeJoinStateLeaving, state.NodeRoleData)
	n3renamed := n3
	n3renamed.Name = "n3x"
	n3renamed.CapacityWeight = 0 // normalises to 1
	n2removed := c18Node(2, state.NodeJoinStateRemoved, state.NodeRoleControllerVoter, state.NodeRoleData)
	badCfg := c18Config()
	badCfg.SlotCount = 5
	initTable, _ := state.BuildInitialHashSlotTable(2, 4)
	movedTable := state.HashSlotTable{Version: state.CurrentHashSlotTableVersion, SlotCount: 4, Ranges: []state.HashSlotRange{{From: 1, To: 3, SlotID: 2}, {From: 0, To: 0, SlotID: 1}}}
	badTable := state.HashSlotTable{Version: state.CurrentHashSlotTableVersion, SlotCount: 4, Ranges: []state.HashSlotRange{{From: 0, To: 2, SlotID: 1}}}
	mismatch := c18Bootstrap(1, "s1-boot", []uint64{1, 2}, 1, nil, c18T(23))
	mismatch.Task.SlotID = 2
	wrongKind := c18Move(c18MoveTask(2, "s2-move", 2, 3, []uint64{1, 3}), nil, c18T(27))
	wrongKind.Task.Kind = state.TaskKindBootstrap
	badStatus := c18Prog(1, 0, 1, 0, "weird", "", nil, c18T(46))
	all := []ent{
		// init_cluster_state
		{"El", "init", c18Init("wk-c18", c18Config(), c18T(0))},
		{"E", "init-other-cluster", c18Init("wk-c18-b", c18Config(), c18T(1))},
		{"e", "init-zero-time", c18Init("wk-c18", c18Config(), time.Time{})},
		{"E", "init-bad-config", c18Init("wk-c18", badCfg, c18T(0))},
		{"E", "init-nil", command.Command{Kind: command.KindInitClusterState, IssuedAt: c18T(0)}},
		// upsert_node
		{"EL", "node3-leaving", command.Command{Kind: command.KindUpsertNode, IssuedAt: c18T(11).In(zone), Node: &n3leaving}},
		{"e", "node3-same/rev+1", command.Command{Kind: command.KindUpsertNode, IssuedAt: c18T(12), ExpectedRevision: c18Rev(r0 + 1), Node: &n3}},
		{"E", "node3-renamed/rev0", command.Command{Kind: command.KindUpsertNode, ExpectedRevision: c18Rev(r0), Node: &n3renamed}},
		{"El", "node2-removed", command.Command{Kind: command.KindUpsertNode, IssuedAt: c18T(13), Node: &n2removed}},
		// update_controller_voters
		{"e", "voters-12", command.Command{Kind: command.KindUpdateControllerVoters, IssuedAt: c18T(14), Controllers: []state.ControllerVoter{{NodeID: 2, Addr: "a2", Role: state.ControllerRoleVoter}, {NodeID: 1, Addr: "a1", Role: state.ControllerRoleVoter}}}},
		{"El", "voters-1/rev0", command.Command{Kind: command.KindUpdateControllerVoters, IssuedAt: c18T(14), ExpectedRevision: c18Rev(r0), Controllers: []state.ControllerVoter{{NodeID: 1, Addr: "a1", Role: state.ControllerRoleVoter}}}},
		{"E", "voters-13", command.Command{Kind: command.KindUpdateControllerVoters, IssuedAt: c18T(15), Controllers: []state.ControllerVoter{{NodeID: 1, Addr: "a1", Role: state.ControllerRoleVoter}, {NodeID: 3, Addr: "a3", Role: state.ControllerRoleVoter}}}},
		{"e", "voters-empty", command.Command{Kind: command.KindUpdateControllerVoters, IssuedAt: c18T(15)}},
		// promote_controller_voter
		{"El", "promote3", command.Command{Kind: command.KindPromoteControllerVoter, IssuedAt: c18T(16), ControllerVoterPromotion: &command.ControllerVoterPromotion{TargetNodeID: 3, TargetAddr: "a3", ExpectedPreviousVoters: []uint64{1, 2}, ObservedConfigIndex: 42, ObservedVoters: []uint64{3, 1, 2}}}},
		{"E", "promote3-no-proof", command.Command{Kind: command.KindPromoteControllerVoter, IssuedAt: c18T(16), ControllerVoterPromotion: &command.ControllerVoterPromotion{TargetNodeID: 3, TargetAddr: "a3", ExpectedPreviousVoters: []uint64{1, 2}, ObservedVoters: []uint64{1, 2, 3}}}},
		{"e", "promote3-fence-voters-1", command.Command{Kind: command.KindPromoteControllerVoter, IssuedAt: c18T(16), ControllerVoterPromotion: &command.ControllerVoterPromotion{TargetNodeID: 3, TargetAddr: "a3", ExpectedPreviousVoters: []uint64{1}, ObservedConfigIndex: 43, ObservedVoters: []uint64{1, 3}}}},
		{"e", "promote-invalid", command.Command{Kind: command.KindPromoteControllerVoter, IssuedAt: c18T(16), ControllerVoterPromotion: &command.ControllerVoterPromotion{TargetAddr: "a3", ObservedConfigIndex: 42}}},
		// replace_hash_slot_table
		{"El", "hashslots-moved", command.Command{Kind: command.KindReplaceHashSlotTable, IssuedAt: c18T(17), HashSlots: &movedTable}},
		{"e", "hashslots-initial/rev+1", command.Command{Kind: command.KindReplaceHashSlotTable, IssuedAt: c18T(17), ExpectedRevision: c18Rev(r0 + 1), HashSlots: &initTable}},
		{"e", "hashslots-not-covering", command.Command{Kind: command.KindReplaceHashSlotTable, IssuedAt: c18T(17), HashSlots: &badTable}},
		// replace_scheduled_backup_state
		{"El", "backup-empty", command.Command{Kind: command.KindReplaceScheduledBackupState, IssuedAt: c18T(18), ScheduledBackup: &state.ScheduledBackupState{Revision: 1, ManagerSessionEpoch: 1}}},
		{"e", "backup-plan/rev0", command.Command{Kind: command.KindReplaceScheduledBackupState, IssuedAt: c18T(18), ExpectedRevision: c18Rev(r0), ScheduledBackup: &state.ScheduledBackupState{Revision: 2, ManagerSessionEpoch: 1, Plan: c18BackupPlan(),
			History: []state.BackupTaskRecord{{ID: "bk-1", Kind: "backup", Trigger: state.BackupTriggerManual, Status: "succeeded", StartedUnixMillis: 1771000000000, CompletedUnixMillis: 1771000300000}}}}},
		{"e", "backup-invalid", command.Command{Kind: command.KindReplaceScheduledBackupState, IssuedAt: c18T(18), ScheduledBackup: &state.ScheduledBackupState{Revision: 0}}},
		// replace_ops_mcp_state
		{"El", "mcp-on-owner1", command.Command{Kind: command.KindReplaceOpsMCPState, IssuedAt: c18T(19), OpsMCP: &state.OpsMCPState{Enabled: true, OwnerNodeID: 1, Credentials: []state.OpsMCPCredential{c18Cred("tok-b"), c18Cred("tok-a")}}}},
		{"E", "mcp-on-owner2", command.Command{Kind: command.KindReplaceOpsMCPState, IssuedAt: c18T(19), OpsMCP: &state.OpsMCPState{Enabled: true, OwnerNodeID: 2, Credentials: []state.OpsMCPCredential{c18Cred("tok-a")}}}},
		{"e", "mcp-off", command.Command{Kind: command.KindReplaceOpsMCPState, IssuedAt: c18T(19), OpsMCP: &state.OpsMCPState{}}},
		{"e", "mcp-enabled-without-credential", command.Command{Kind: command.KindReplaceOpsMCPState, IssuedAt: c18T(19), OpsMCP: &state.OpsMCPState{Enabled: true, OwnerNodeID: 3}}},
		// upsert_slot_assignment_and_task
		{"EL", "boot1/rev1", c18Bootstrap(1, "s1-boot", []uint64{1, 2}, 1, c18Rev(1), c18T(1))},
		{"EL", "boot2", c18Bootstrap(2, "s2-boot", []uint64{2, 1}, 1, nil, c18T(2))},
		{"el", "boot2/stale-rev", c18Bootstrap(2, "s2-boot", []uint64{1, 2}, 1, c18Rev(0), c18T(2))},
		{"EL", "xfer1", c18Transfer(1, "s1-xfer", nil, c18T(21))},
		{"l", "xfer1-other-id/rev+1", c18Transfer(1, "s1-xfer-b", c18Rev(r0+1), c18T(22))},
		{"e", "assignment-task-slot-mismatch", mismatch},
		{"El", "boot1-unknown-peer", c18Bootstrap(1, "s1-boot", []uint64{1, 9}, 2, nil, c18T(24))},
		// upsert_slot_replica_move_task
		{"EL", "move2", c18Move(c18MoveTask(2, "s2-move", 2, 3, []uint64{3, 1}), nil, c18T(4))},
		{"L", "move2/rev+1", c18Move(c18MoveTask(2, "s2-move", 2, 3, []uint64{1, 3}), c18Rev(r0+1), c18T(25))},
		{"l", "move1", c18Move(c18MoveTask(1, "s1-move", 1, 3, []uint64{2, 3}), nil, c18T(26))},
		{"el", "move-wrong-kind", wrongKind},
		// advance_slot_replica_move_phase
		{"l", "adv-p0-add", c18Adv("s2-move", 1, 0, 0, state.TaskStepAddLearner, 5, []uint64{1, 2}, nil, c18T(5))},
		{"eL", "adv-p1-remove", c18Adv("s2-move", 1, 0, 1, state.TaskStepRemoveVoter, 7, []uint64{2, 3, 1}, nil, c18T(30))},
		{"L", "adv-p1-promote", c18Adv("s2-move", 1, 0, 1, state.TaskStepPromoteLearner, 6, []uint64{1, 2}, []uint64{3}, c18T(31))},
		{"l", "adv-p1-promote/no-learner", c18Adv("s2-move", 1, 0, 1, state.TaskStepPromoteLearner, 6, []uint64{1, 2}, nil, c18T(31))},
		{"L", "adv-p2-remove", c18Adv("s2-move", 1, 0, 2, state.TaskStepRemoveVoter, 8, []uint64{1, 2, 3}, nil, c18T(32))},
		{"L", "adv-p2-commit", c18Adv("s2-move", 1, 0, 2, state.TaskStepCommitAssignment, 9, []uint64{3, 1}, nil, c18T(33))},
		{"l", "adv-p3-commit", c18Adv("s2-move", 1, 0, 3, state.TaskStepCommitAssignment, 9, []uint64{1, 3}, nil, c18T(33))},
		{"L", "adv-p1-remove/attempt1", c18Adv("s2-move", 1, 1, 1, state.TaskStepRemoveVoter, 7, []uint64{1, 2, 3}, nil, c18T(34))},
		{"l", "adv-p1-remove/epoch9", c18Adv("s2-move", 9, 0, 1, state.TaskStepRemoveVoter, 7, []uint64{1, 2, 3}, nil, c18T(34))},
		{"L", "adv-p1-remove/no-proof", c18Adv("s2-move", 1, 0, 1, state.TaskStepRemoveVoter, 0, []uint64{1, 2, 3}, nil, c18T(34))},
		{"l", "adv-invalid", c18Adv("", 1, 0, 1, state.TaskStepRemoveVoter, 7, []uint64{1, 2, 3}, nil, c18T(34))},
		// commit_slot_replica_move
		{"eL", "commit2", c18Commit("s2-move", 2, 1, 0, 10, []uint64{3, 1}, c18T(35))},
		{"L", "commit2/wrong-voters", c18Commit("s2-move", 2, 1, 0, 10, []uint64{1, 2}, c18T(35))},
		{"L", "commit2/epoch9", c18Commit("s2-move", 2, 9, 0, 10, []uint64{1, 3}, c18T(35))},
		{"L", "commit2/attempt1", c18Commit("s2-move", 2, 1, 1, 10, []uint64{1, 3}, c18T(35))},
		{"l", "commit-invalid", c18Commit("s2-move", 0, 1, 0, 10, []uint64{1, 3}, c18T(35))},
		// complete_task
		{"EL", "done-s1boot", c18Result(command.KindCompleteTask, "s1-boot", 1, state.TaskKindBootstrap, 1, 0, "", nil, c18T(36))},
		{"L", "done-s1boot/attempt1", c18Result(command.KindCompleteTask, "s1-boot", 1, state.TaskKindBootstrap, 1, 1, "", nil, c18T(36))},
		{"eL", "done-s1boot/rev+1", c18Result(command.KindCompleteTask, "s1-boot", 1, state.TaskKindBootstrap, 1, 0, "", c18Rev(r0+1), c18T(36))},
		{"L", "done-s2move", c18Result(command.KindCompleteTask, "s2-move", 2, state.TaskKindSlotReplicaMove, 1, 0, "", nil, c18T(37))},
		{"L", "done-s1boot/wrong-slot", c18Result(command.KindCompleteTask, "s1-boot", 2, state.TaskKindBootstrap, 1, 0, "", nil, c18T(37))},
		{"l", "done-invalid", c18Result(command.KindCompleteTask, "", 1, state.TaskKindBootstrap, 1, 0, "", nil, c18T(37))},
		// fail_task
		{"EL", "fail-s1boot", c18Result(command.KindFailTask, "s1-boot", 1, state.TaskKindBootstrap, 1, 0, "boom: \"é\" <slot 1>", nil, c18T(38))},
		{"L", "fail-s2move", c18Result(command.KindFailTask, "s2-move", 2, state.TaskKindSlotReplicaMove, 1, 0, "learner lagging", nil, c18T(39))},
		{"l", "fail-s1boot/rev+1", c18Result(command.KindFailTask, "s1-boot", 1, state.TaskKindBootstrap, 1, 0, "late", c18Rev(r0+1), c18T(39))},
		{"L", "fail-s1boot/wrong-kind", c18Result(command.KindFailTask, "s1-boot", 1, state.TaskKindLeaderTransfer, 1, 0, "x", nil, c18T(39))},
		// report_task_progress
		{"EL", "prog-n1-done", c18Prog(1, 0, 1, 0, state.TaskParticipantStatusDone, "", nil, c18T(40))},
		{"L", "prog-n2-failed", c18Prog(1, 0, 2, 0, state.TaskParticipantStatusFailed, "disk full", nil, c18T(41))},
		{"L", "prog-n2-done/pattempt0", c18Prog(1, 0, 2, 0, state.TaskParticipantStatusDone, "", nil, c18T(42))},
		{"L", "prog-n3-done", c18Prog(1, 0, 3, 0, state.TaskParticipantStatusDone, "", nil, c18T(43))},
		{"L", "prog-n1-done/attempt1", c18Prog(1, 1, 1, 0, state.TaskParticipantStatusDone, "", nil, c18T(44))},
		{"l", "prog-n1-done/epoch9", c18Prog(9, 0, 1, 0, state.TaskParticipantStatusDone, "", nil, c18T(45))},
		{"l", "prog-bad-status", badStatus},
		{"l", "prog-n2-done/rev+1", c18Prog(1, 0, 2, 0, state.TaskParticipantStatusDone, "", c18Rev(r0+1), c18T(47))},
		// report_node_health
		{"EL", "health-n1-alive", c18Health(1, state.NodeStatusAlive, 1, nil)},
		{"e", "health-n1-down", c18Health(1, state.NodeStatusDown, 2, nil)},
		{"el", "health-n9-unknown", c18Health(9, state.NodeStatusAlive, 1, nil)},
		{"E", "health-n2/rev+1", c18Health(2, state.NodeStatusSuspect, 1, c18Rev(r0+1))},
		{"e", "health-nil", command.Command{Kind: command.KindReportNodeHealth, IssuedAt: c18T(50)}},
		// a kind the state machine does not know
		{"El", "unknown-kind", command.Command{Kind: command.Kind("zz_unknown"), IssuedAt: c18T(51)}},
	}
	var out []c18Cmd
	for _, e := range all {
		for i := 0; i < len(e.worlds); i++ {
			// upper case: both tiers; lower case: thorough tier only
			if e.worlds[i] == world || (thorough && e.worlds[i] == world+('a'-'A')) {
				out = append(out, c18Cmd{label: e.label, cmd: e.cmd})
			}
		}
	}
	return out
}
