package conn

// C26 (part b) - each concurrent RPC call receives exactly its own response or an error.
//
// Engine E3 (controlled scheduler, delay bounding). Real code under test (rewritten for
// vsched by tools/vrewrite): pkg/transport/internal/conn (Conn.Call / Send / readLoop /
// writeLoop / shutdown / handleRPCResponse), pkg/transport/internal/rpc (PendingTable),
// pkg/transport/internal/sched (Scheduler: Enqueue / WaitBatchInto / NextBatchInto / Stop),
// pkg/transport/internal/buffer (slab pool: sync.Pool -> deterministic vsync.Pool), pkg/goroutine
// (spawns only). pkg/transport/wire (frame codec) and internal/core are
// the repository's unmodified code (no goroutines, no blocking).
//
// Harness side: an in-memory duplex net.Conn (c26End): Read parks in vsched.WaitUntil until
// bytes / EOF / reset are available, Write is a scheduling point that appends to the other
// direction's byte queue. A peer thread reads request frames with the real wire.ReadFrame and
// answers according to an enumerated script (ok / handler error / empty body / twice / not at
// all / late = only after the caller gave up / hang up / garbage; batch order fifo or lifo; a
// stray response for an id nobody waits for). Faults are virtual-time timers, i.e. scheduler
// decisions that can land at ANY scheduling point for one deviation: caller context cancel,
// caller deadline (vctx), connection reset, local Close.
//
// The harness reads one unexported identifier: Conn.pending (PendingTable.Len()).

import (
	"context"
	"errors"
	"fmt"
	"io"
	"net"
	"os"
	"runtime"
	"sort"
	"strings"
	"sync/atomic"
	"testing"
	"time"

	"github.com/WuKongIM/WuKongIM/pkg/transport/internal/core"
	"github.com/WuKongIM/WuKongIM/pkg/transport/wire"
	"github.com/WuKongIM/WuKongIM/pkg/zzverif/ev"
	"github.com/WuKongIM/WuKongIM/pkg/zzverif/vctx"
	"github.com/WuKongIM/WuKongIM/pkg/zzverif/vsched"
	"github.com/WuKongIM/WuKongIM/pkg/zzverif/vsync"
)

// ---------------------------------------------------------------- scenario description

type c26CallSpec struct {
	Tag string
	// Ctx: "bg" background; "cancel" cancelled by a timer At units after the call started;
	// "timeout" vctx deadline At units after the call started; "pre" cancelled before Call.
	Ctx string
	At  int
	// After: the call is issued only after the call with that tag has returned (a second
	// caller thread whose call starts behind a cancelled one).
	After string
}

type c26Spec struct {
	Name string
	// Callers: one thread per entry, each issuing its calls sequentially.
	Callers [][]c26CallSpec
	// Peer: answer per request tag (default "ok"):
	// ok | err | nf | empty | dup | never | late | atcancel | hangup | garbage
	// (late = answered only after the caller has returned from the call; atcancel = answered
	// as soon as the call's context is done, i.e. the response races with the caller giving up)
	Peer map[string]string
	// Order: "fifo" answer every request when read; "lifo" requests that are readable
	// together are answered in reverse order.
	Order string
	// Stray: before its first answer the peer sends a well-formed OK response for a request id
	// nobody waits for.
	Stray bool
	// ResetAt > 0: the connection is reset (both directions fail) by a timer due at that time.
	ResetAt int
	// CloseAt > 0: the harness calls Conn.Close when a timer due at that time has fired, whether
	// or not the calls have returned (otherwise: Close after every call returned).
	CloseAt int
	// ReadChunk > 0: a Read on the client side returns at most that many bytes.
	ReadChunk int
	// SplitWrite: the peer writes header and body of a response with two Write calls.
	SplitWrite bool
	// BatchFrames is Limits.MaxBatchFrames (default 8).
	BatchFrames int
	// QueueItems is Limits.MaxQueuedItemsPerConn (default 16).
	QueueItems int
	// BatchWait: Limits.WriteBatchMaxWait > 0 (the write loop sleeps on the virtual clock to
	// coalesce an isolated RPC frame with the next one).
	BatchWait bool
	// Sizes: total OK-response body length (status byte + payload) per request tag; the payload is
	// the usual "resp:req-<tag>" padded with "|<tag>" repetitions, so ownership stays checkable.
	// 0 = unpadded. Sizes around the 4096-byte slab class boundary of the read-buffer pool.
	Sizes map[string]int
	// MaxBody is Limits.MaxFrameBodyBytes (default 1024).
	MaxBody int
	// Atomics: atomic operations are scheduling points too.
	Atomics bool
	Bound   int
}

func (s c26Spec) bounds() map[string]any {
	var callers []string
	ncalls := 0
	for _, cs := range s.Callers {
		var parts []string
		for _, c := range cs {
			ncalls++
			p := c.Tag + ":" + c.Ctx
			if c.Ctx == "cancel" || c.Ctx == "timeout" {
				p += fmt.Sprintf("@%d", c.At)
			}
			if c.After != "" {
				p += ">" + c.After
			}
			p += "/" + s.action(c.Tag)
			parts = append(parts, p)
		}
		callers = append(callers, strings.Join(parts, ","))
	}
	return map[string]any{"caller_threads": len(s.Callers), "calls": ncalls, "calls_ctx_and_peer_answer": callers, "answer_order": s.Order,
		"stray_response": s.Stray, "reset_timer": s.ResetAt, "close_timer": s.CloseAt, "read_chunk": s.ReadChunk, "split_response_write": s.SplitWrite,
		"max_batch_frames": s.BatchFrames, "max_queued_items": s.QueueItems, "write_coalescing_wait": s.BatchWait, "response_body_bytes": s.sizeList(), "max_frame_body": s.MaxBody, "atomics_are_scheduling_points": s.Atomics}
}

func (s c26Spec) sizeList() []string {
	var out []string
	for _, cs := range s.Callers {
		for _, c := range cs {
			if n := s.Sizes[c.Tag]; n > 0 {
				out = append(out, fmt.Sprintf("%s=%d", c.Tag, n))
			}
		}
	}
	return out
}

// c26Pad pads base with "|<tag>" repetitions to exactly n bytes (n <= len(base): base itself).
func c26Pad(base, tag string, n int) string {
	if n <= len(base) {
		return base
	}
	var b strings.Builder
	b.Grow(n + len(tag) + 1)
	b.WriteString(base)
	for b.Len() < n {
		b.WriteString("|")
		b.WriteString(tag)
	}
	return b.String()[:n]
}

// okText is the OK-response payload the peer sends for a request with this tag and body.
func (s c26Spec) okText(tag, reqBody string) string {
	return c26Pad("resp:"+reqBody, tag, s.Sizes[tag]-1)
}

func (s c26Spec) action(tag string) string {
	if a, ok := s.Peer[tag]; ok {
		return a
	}
	return "ok"
}

func (s c26Spec) connFault() bool {
	if s.ResetAt > 0 || s.CloseAt > 0 {
		return true
	}
	for _, a := range s.Peer {
		if a == "hangup" || a == "garbage" {
			return true
		}
	}
	return false
}

func (s c26Spec) unmatchedResponses() bool {
	if s.Stray {
		return true
	}
	for _, a := range s.Peer {
		if a == "late" || a == "atcancel" || a == "dup" {
			return true
		}
	}
	return false
}

const (
	c26Unit      = 10 * time.Microsecond
	c26MaxBody   = 1024 // default Limits.MaxFrameBodyBytes
	c26StrayID   = 0x7777
	c26StrayBody = "resp:stray"
)

var (
	c26ErrReset  = errors.New("c26: connection reset by peer")
	c26ErrClosed = errors.New("c26: use of closed connection")
)

// ---------------------------------------------------------------- world (one execution)

type c26CallRec struct {
	spec     c26CallSpec
	ctx      context.Context
	started  bool
	returns  int
	payload  []byte // copy taken when Call returned
	kept     []byte // the very slice Call returned, kept by the caller until the end of the execution
	err      error
	peerGot  int // request frames carrying this tag seen by the peer
	peerSent int // responses for this call's request written by the peer
}

type c26World struct {
	spec c26Spec
	x    *vsched.Exec

	// duplex
	toPeer, toClient []byte
	clientClosed     bool
	peerClosed       bool
	reset            bool
	peerWriting      bool

	calls       map[string]*c26CallRec
	tags        []string
	callersLeft int
	closeDue    bool
	straySent   bool

	allDoneBeforeClose bool
	aliveBeforeClose   bool
	pendingBeforeClose int
	pendingAtEnd       int
	anomalies          []string // structural findings recorded by the fakes
	wg                 vsync.WaitGroup
}

func (w *c26World) dead() bool { return w.clientClosed || w.peerClosed || w.reset }

// c26End is one end of the duplex.
type c26End struct {
	w      *c26World
	client bool
}

type c26Addr struct{}

func (c26Addr) Network() string { return "c26" }
func (c26Addr) String() string  { return "c26-duplex" }

func (e *c26End) Read(p []byte) (int, error) {
	w := e.w
	if len(p) == 0 {
		return 0, nil
	}
	if e.client {
		vsched.WaitUntil("conn.Read", func() bool { return len(w.toClient) > 0 || w.dead() })
		switch {
		case w.clientClosed:
			return 0, c26ErrClosed
		case w.reset:
			return 0, c26ErrReset
		case len(w.toClient) > 0:
			n := len(p)
			if w.spec.ReadChunk > 0 && n > w.spec.ReadChunk {
				n = w.spec.ReadChunk
			}
			n = copy(p[:n], w.toClient)
			w.toClient = w.toClient[n:]
			return n, nil
		default:
			return 0, io.EOF
		}
	}
	vsched.WaitUntil("peer.Read", func() bool { return len(w.toPeer) > 0 || w.dead() })
	switch {
	case w.peerClosed:
		return 0, c26ErrClosed
	case w.reset:
		return 0, c26ErrReset
	case len(w.toPeer) > 0:
		n := copy(p, w.toPeer)
		w.toPeer = w.toPeer[n:]
		return n, nil
	default:
		return 0, io.EOF
	}
}

func (e *c26End) Write(p []byte) (int, error) {
	w := e.w
	if e.client {
		vsched.Point("conn.Write")
		switch {
		case w.clientClosed:
			return 0, c26ErrClosed
		case w.reset || w.peerClosed:
			return 0, c26ErrReset
		}
		w.toPeer = append(w.toPeer, p...)
		vsched.Progress()
		return len(p), nil
	}
	vsched.Point("peer.Write")
	switch {
	case w.peerClosed:
		return 0, c26ErrClosed
	case w.reset || w.clientClosed:
		return 0, c26ErrReset
	}
	w.toClient = append(w.toClient, p...)
	vsched.Progress()
	return len(p), nil
}

func (e *c26End) Close() error {
	if e.client {
		e.w.clientClosed = true
	} else {
		e.w.peerClosed = true
	}
	vsched.Progress()
	return nil
}

func (e *c26End) LocalAddr() net.Addr              { return c26Addr{} }
func (e *c26End) RemoteAddr() net.Addr             { return c26Addr{} }
func (e *c26End) SetDeadline(time.Time) error      { return nil }
func (e *c26End) SetReadDeadline(time.Time) error  { return nil }
func (e *c26End) SetWriteDeadline(time.Time) error { return nil }

// ---------------------------------------------------------------- peer

type c26Req struct {
	tag  string
	id   uint64
	body string
	pri  core.Priority
	svc  uint16
}

func c26EncodeResponse(req c26Req, id uint64, body []byte) (hdr, bod []byte) {
	h := wire.EncodeHeader(wire.Header{Kind: core.FrameKindRPCResponse, Priority: req.pri, ServiceID: req.svc, RequestID: id, BodyLen: uint32(len(body))})
	return append([]byte(nil), h[:]...), body
}

// send writes one response frame; frames of different peer threads never interleave.
func (w *c26World) peerSend(end *c26End, hdr, body []byte) bool {
	vsched.WaitUntil("peer-write-turn", func() bool { return !w.peerWriting })
	w.peerWriting = true
	defer func() { w.peerWriting = false; vsched.Progress() }()
	if w.spec.SplitWrite && len(body) > 0 {
		if _, err := end.Write(hdr); err != nil {
			return false
		}
		_, err := end.Write(body)
		return err == nil
	}
	_, err := end.Write(append(append([]byte(nil), hdr...), body...))
	return err == nil
}

func (w *c26World) respond(end *c26End, req c26Req, status uint8, text string) bool {
	var body []byte
	if status != 255 {
		body = append([]byte{status}, text...)
	}
	hdr, bod := c26EncodeResponse(req, req.id, body)
	ok := w.peerSend(end, hdr, bod)
	if ok {
		if rec := w.calls[req.tag]; rec != nil {
			rec.peerSent++
		}
		w.x.Log("peer answered %s status=%d", req.tag, status)
	}
	return ok
}

// answer handles one request according to the script; false = the peer stops.
func (w *c26World) answer(end *c26End, req c26Req) bool {
	act := w.spec.action(req.tag)
	if w.spec.Stray && !w.straySent && act != "never" && act != "late" && act != "atcancel" && act != "hangup" && act != "garbage" {
		w.straySent = true
		hdr, bod := c26EncodeResponse(req, c26StrayID, append([]byte{wire.ResponseOK}, c26StrayBody...))
		if !w.peerSend(end, hdr, bod) {
			return false
		}
		w.x.Log("peer sent stray response")
	}
	switch act {
	case "ok":
		return w.respond(end, req, wire.ResponseOK, w.spec.okText(req.tag, req.body))
	case "err":
		return w.respond(end, req, wire.ResponseErr, "err:"+req.body)
	case "nf":
		return w.respond(end, req, wire.ResponseServiceNotFound, "err:"+req.body)
	case "empty":
		return w.respond(end, req, 255, "")
	case "dup":
		if !w.respond(end, req, wire.ResponseOK, w.spec.okText(req.tag, req.body)) {
			return false
		}
		return w.respond(end, req, wire.ResponseOK, w.spec.okText(req.tag, req.body))
	case "never":
		return true
	case "late":
		// answered by its own thread, only after the caller has given up on the call
		w.wg.Add(1)
		vsched.GoNamed("late-"+req.tag, func() {
			defer w.wg.Done()
			rec := w.calls[req.tag]
			vsched.WaitUntil("late-responder", func() bool { return rec == nil || rec.returns > 0 || w.dead() })
			w.respond(end, req, wire.ResponseOK, w.spec.okText(req.tag, req.body))
		})
		return true
	case "atcancel":
		// answered by its own thread as soon as the call's context is done: the response is in
		// flight while the caller gives up
		w.wg.Add(1)
		vsched.GoNamed("atcancel-"+req.tag, func() {
			defer w.wg.Done()
			rec := w.calls[req.tag]
			vsched.WaitUntil("atcancel-responder", func() bool {
				return rec == nil || rec.returns > 0 || (rec.ctx != nil && rec.ctx.Err() != nil) || w.dead()
			})
			w.respond(end, req, wire.ResponseOK, w.spec.okText(req.tag, req.body))
		})
		return true
	case "hangup":
		w.x.Log("peer hangs up on %s", req.tag)
		_ = end.Close()
		return false
	case "garbage":
		w.x.Log("peer sends garbage on %s", req.tag)
		junk := make([]byte, wire.HeaderSize)
		for i := range junk {
			junk[i] = 0xEE
		}
		return w.peerSend(end, junk, nil)
	}
	panic("c26: unknown peer action " + act)
}

func (w *c26World) peerLoop() {
	defer w.wg.Done()
	end := &c26End{w: w}
	var held []c26Req
	for {
		fr, err := wire.ReadFrame(end, w.spec.MaxBody)
		if err != nil {
			w.x.Log("peer exit: %s", c26ErrName(err))
			return
		}
		req := c26Req{id: fr.Header.RequestID, body: string(fr.Body.Bytes()), pri: fr.Header.Priority, svc: fr.Header.ServiceID}
		fr.Body.Release()
		if fr.Header.Kind != core.FrameKindRPCRequest {
			w.anomalies = append(w.anomalies, fmt.Sprintf("non-request-frame|peer received a frame of kind %d", fr.Header.Kind))
			continue
		}
		req.tag = strings.TrimPrefix(req.body, "req-")
		rec := w.calls[req.tag]
		if rec == nil || !strings.HasPrefix(req.body, "req-") {
			w.anomalies = append(w.anomalies, fmt.Sprintf("request-corrupted-on-wire|peer received a request with payload %q (id %d) that no call sent", req.body, req.id))
		} else {
			rec.peerGot++
			if rec.peerGot > 1 {
				w.anomalies = append(w.anomalies, fmt.Sprintf("request-duplicated-on-wire|peer received the request of call %s %d times", req.tag, rec.peerGot))
			}
		}
		w.x.Log("peer got %s id=%d", req.tag, req.id)
		held = append(held, req)
		if w.spec.Order == "lifo" && len(w.toPeer) > 0 && !w.dead() {
			continue // more requests are readable: answer them together, last first
		}
		for i := len(held) - 1; i >= 0; i-- {
			if !w.answer(end, held[i]) {
				return
			}
		}
		held = held[:0]
	}
}

// ---------------------------------------------------------------- callers

func c26ErrName(err error) string {
	var re core.RemoteError
	switch {
	case err == nil:
		return "ok"
	case errors.As(err, &re):
		return "remote(" + re.Code + "):" + re.Message
	case errors.Is(err, core.ErrCanceled):
		return "canceled"
	case errors.Is(err, context.Canceled):
		return "context-canceled"
	case errors.Is(err, context.DeadlineExceeded):
		return "deadline"
	case errors.Is(err, core.ErrStopped):
		return "stopped"
	case errors.Is(err, c26ErrReset):
		return "reset"
	case errors.Is(err, c26ErrClosed):
		return "closed-pipe"
	case errors.Is(err, io.ErrUnexpectedEOF):
		return "unexpected-eof"
	case errors.Is(err, io.EOF):
		return "eof"
	case errors.Is(err, core.ErrInvalidFrame):
		return "invalid-frame"
	case errors.Is(err, core.ErrQueueFull):
		return "queue-full"
	default:
		return "other:" + err.Error()
	}
}

func (w *c26World) caller(c *Conn, calls []c26CallSpec) {
	defer func() { w.callersLeft--; vsched.Progress() }()
	for _, cs := range calls {
		rec := w.calls[cs.Tag]
		if cs.After != "" {
			prev := w.calls[cs.After]
			vsched.WaitUntil("caller: gated on "+cs.After, func() bool { return prev == nil || prev.returns > 0 })
		}
		ctx := context.Background()
		var cancel context.CancelFunc
		var th vsched.TimerHandle
		switch cs.Ctx {
		case "cancel":
			ctx, cancel = context.WithCancel(ctx)
			cc, tag := cancel, cs.Tag
			th = vsched.AddTimer(time.Duration(cs.At)*c26Unit, func() {
				w.x.Log("fault: cancel %s", tag)
				cc()
				vsched.Progress()
			})
		case "timeout":
			ctx, cancel = vctx.WithTimeout(ctx, time.Duration(cs.At)*c26Unit)
		case "pre":
			ctx, cancel = context.WithCancel(ctx)
			cancel()
		}
		rec.ctx = ctx
		rec.started = true
		resp, err := c.Call(ctx, Outbound{Priority: core.PriorityRPC, ServiceID: 7, Payload: core.CopyOwnedBuffer([]byte("req-" + cs.Tag))})
		rec.returns++
		rec.payload = append([]byte(nil), resp...)
		rec.kept = resp
		rec.err = err
		if err == nil {
			w.x.Log("call %s -> ok %s", cs.Tag, c26Short(string(resp)))
		} else {
			w.x.Log("call %s -> %s", cs.Tag, c26ErrName(err))
		}
		th.Stop()
		if cancel != nil {
			cancel()
		}
		vsched.Progress()
	}
}

// ---------------------------------------------------------------- scenario

func c26Scenario(s c26Spec) vsched.Scenario {
	if s.Order == "" {
		s.Order = "fifo"
	}
	if s.BatchFrames == 0 {
		s.BatchFrames = 8
	}
	if s.QueueItems == 0 {
		s.QueueItems = 16
	}
	if s.MaxBody == 0 {
		s.MaxBody = c26MaxBody
	}
	return vsched.Scenario{
		Name: s.Name, Property: "C26", Bound: s.Bound, Horizon: 6000, Delay: true, QuietAtomics: !s.Atomics,
		Bounds: s.bounds(),
		Note:   "caller threads x real Conn.Call over an in-memory duplex + scripted peer + fault timers; oracle per complete execution",
		Body: func(x *vsched.Exec) {
			c26Progress.Add(1)
			w := &c26World{spec: s, x: x, calls: map[string]*c26CallRec{}, pendingBeforeClose: -1, pendingAtEnd: -1}
			x.Data["w"] = w
			for _, cs := range s.Callers {
				for _, c := range cs {
					w.calls[c.Tag] = &c26CallRec{spec: c}
					w.tags = append(w.tags, c.Tag)
				}
			}
			limits := core.Limits{MaxFrameBodyBytes: s.MaxBody, MaxQueuedBytesPerConn: 1 << 16, MaxQueuedItemsPerConn: s.QueueItems,
				MaxBatchBytes: s.MaxBody, MaxBatchFrames: s.BatchFrames}
			if s.BatchWait {
				limits.WriteBatchMaxWait = c26Unit / 2
			}
			c := New(&c26End{w: w, client: true}, Config{Limits: limits, SourceID: 1}, nil)
			c.Start()
			if s.ResetAt > 0 {
				vsched.AddTimer(time.Duration(s.ResetAt)*c26Unit, func() {
					x.Log("fault: connection reset")
					w.reset = true
					vsched.Progress()
				})
			}
			if s.CloseAt > 0 {
				vsched.AddTimer(time.Duration(s.CloseAt)*c26Unit, func() {
					w.closeDue = true
					vsched.Progress()
				})
			}
			w.wg.Add(1)
			vsched.GoNamed("peer", w.peerLoop)
			for i, calls := range s.Callers {
				w.callersLeft++
				calls := calls
				vsched.GoNamed("caller-"+string(rune('A'+i)), func() { w.caller(c, calls) })
			}
			vsched.WaitUntil("main: calls returned or close timer", func() bool { return w.callersLeft == 0 || w.closeDue })
			w.allDoneBeforeClose = w.callersLeft == 0
			w.aliveBeforeClose = true
			select {
			case <-c.Done():
				w.aliveBeforeClose = false
			default:
			}
			if w.allDoneBeforeClose && w.aliveBeforeClose {
				w.pendingBeforeClose = c.pending.Len()
			}
			x.Log("main: close (all returned=%v alive=%v pending=%d)", w.allDoneBeforeClose, w.aliveBeforeClose, w.pendingBeforeClose)
			c.Close(core.ErrStopped)
			vsched.WaitUntil("main: calls returned after Close", func() bool { return w.callersLeft == 0 })
			w.wg.Wait()
			w.pendingAtEnd = c.pending.Len()
		},
		Check: func(x *vsched.Exec) error { return c26Judge(x.Data["w"].(*c26World)) },
	}
}

// ---------------------------------------------------------------- oracle

var c26Seen = map[string]int64{}

// c26Short renders a payload for messages (long padded payloads are abbreviated).
func c26Short(t string) string {
	if len(t) <= 48 {
		return fmt.Sprintf("%q", t)
	}
	return fmt.Sprintf("%q...%q (%d bytes)", t[:24], t[len(t)-12:], len(t))
}

func c26Note(k string) { c26Seen[k]++ }

func c26Judge(w *c26World) error {
	s := w.spec
	bad := func(fp, format string, args ...any) error {
		return vsched.Violatef("C26:rpc-"+fp, format, args...)
	}
	// whose response is this payload?
	owner := func(text, prefix string) string {
		for _, t := range w.tags {
			if text == prefix+"req-"+t || (prefix == "resp:" && text == s.okText(t, "req-"+t)) {
				return t
			}
		}
		if text == c26StrayBody {
			return "<stray>"
		}
		return ""
	}
	for _, a := range w.anomalies {
		parts := strings.SplitN(a, "|", 2)
		return bad(parts[0], "%s", parts[1])
	}
	for _, tag := range w.tags {
		rec := w.calls[tag]
		if rec.returns != 1 {
			return bad("call-did-not-return-exactly-once", "call %s returned %d times although the execution ended", tag, rec.returns)
		}
		act := s.action(tag)
		var re core.RemoteError
		switch {
		case rec.err == nil:
			// the caller kept the slice Call returned: it is judged as it reads at the END of the
			// execution, after every other call and frame
			got, changed := string(rec.kept), ""
			if got != string(rec.payload) {
				changed = fmt.Sprintf(" (when Call returned it read %s; the returned slice was overwritten afterwards)", c26Short(string(rec.payload)))
				c26Note("kept-payload-changed-after-return")
			}
			if len(got) > 4000 {
				c26Note("call-own-or-foreign-payload-over-4000-bytes")
			}
			switch o := owner(got, "resp:"); {
			case o == tag:
				if rec.peerSent == 0 {
					return bad("success-without-a-response-on-the-wire", "call %s returned its own payload %q but the peer never wrote a response for it", tag, got)
				}
				c26Note("call-own-payload")
			case o != "":
				return bad("foreign-response", "call %s returned nil error and payload %s, which is the response to %s%s", tag, c26Short(got), o, changed)
			case got == "" && act == "empty" && rec.peerSent > 0:
				c26Note("call-own-empty-response")
			case got == "":
				return bad("success-without-own-response", "call %s returned (empty payload, nil error) although the peer did not send it an empty response (peer action %s, responses written %d)", tag, act, rec.peerSent)
			default:
				return bad("corrupt-response", "call %s returned nil error and payload %s, which no response carried%s", tag, c26Short(got), changed)
			}
		case errors.As(rec.err, &re):
			switch o := owner(re.Message, "err:"); {
			case o == tag:
				if rec.peerSent == 0 || (act != "err" && act != "nf") {
					return bad("success-without-a-response-on-the-wire", "call %s returned its own remote error %q but the peer never wrote it", tag, re.Message)
				}
				if (act == "nf") != (re.Code == core.RemoteErrorCodeServiceNotFound) {
					return bad("corrupt-response", "call %s: remote error code %q does not match the status the peer sent (%s)", tag, re.Code, act)
				}
				c26Note("call-own-remote-error")
			case o != "":
				return bad("foreign-response", "call %s returned remote error %q, which is the error response to %s", tag, re.Message, o)
			default:
				if o2 := owner(re.Message, "resp:"); o2 != "" {
					return bad("foreign-response", "call %s returned remote error carrying %q, a payload of %s", tag, re.Message, o2)
				}
				return bad("corrupt-response", "call %s returned remote error %q, which no response carried", tag, re.Message)
			}
		default:
			// any other error is within the statement ("its own response or an error"); classify for the guards
			name := c26ErrName(rec.err)
			if strings.HasPrefix(name, "other:") {
				name = "other"
			}
			c26Note("call-error-" + name)
			if len(rec.payload) != 0 {
				if o := owner(string(rec.payload), "resp:"); o != "" && o != tag {
					return bad("foreign-response", "call %s returned error %v together with payload %q of %s", tag, rec.err, rec.payload, o)
				}
			}
		}
		if rec.spec.Ctx != "bg" && rec.peerSent > 0 && rec.err != nil && !errors.As(rec.err, &re) {
			c26Note("response-written-for-a-call-that-gave-up")
		}
	}
	if w.pendingAtEnd != 0 {
		return bad("pending-table-not-empty-at-end", "after every call returned and Close returned the pending table holds %d entries", w.pendingAtEnd)
	}
	if w.allDoneBeforeClose && w.aliveBeforeClose {
		c26Note("all-returned-on-live-connection")
		if w.pendingBeforeClose != 0 {
			return bad("pending-entry-left-after-calls-returned", "every call has returned and the connection is alive, but the pending table holds %d entries", w.pendingBeforeClose)
		}
	}
	if !s.connFault() && !w.aliveBeforeClose {
		if s.unmatchedResponses() {
			return bad("unmatched-response-had-effect", "the connection shut itself down although the only irregular input were responses for ids nobody waits for (stray / late / duplicate)")
		}
		return bad("connection-died-without-fault", "the connection shut itself down although no reset / hang-up / garbage / Close was injected")
	}
	if !w.aliveBeforeClose {
		c26Note("connection-lost-before-close")
	}
	if w.straySent {
		c26Note("stray-response-sent")
	}
	return nil
}

// ---------------------------------------------------------------- scripts

func c26Calls(cs ...c26CallSpec) []c26CallSpec { return cs }

func c26Bg(tag string) c26CallSpec                    { return c26CallSpec{Tag: tag, Ctx: "bg"} }
func c26Cancel(tag string, at int) c26CallSpec        { return c26CallSpec{Tag: tag, Ctx: "cancel", At: at} }
func c26Timeout(tag string, at int) c26CallSpec       { return c26CallSpec{Tag: tag, Ctx: "timeout", At: at} }
func c26Pre(tag string) c26CallSpec                   { return c26CallSpec{Tag: tag, Ctx: "pre"} }
func c26After(c c26CallSpec, prev string) c26CallSpec { c.After = prev; return c }

func c26Specs(r *ev.R) []c26Spec {
	b := ev.Pick(r, 2, 3)
	two := [][]c26CallSpec{c26Calls(c26Bg("a1")), c26Calls(c26Bg("b1"))}
	three := [][]c26CallSpec{c26Calls(c26Bg("a1")), c26Calls(c26Bg("b1")), c26Calls(c26Bg("c1"))}
	cancelLate := [][]c26CallSpec{c26Calls(c26Cancel("a1", 1), c26Bg("a2")), c26Calls(c26Bg("b1"))}
	// both tiers (delay bound 2 quick, 3 thorough)
	specs := []c26Spec{
		// all answered, requests that arrive together answered in reverse order, a stray response first
		{Name: "rpc-2calls-ok-lifo-stray", Callers: two, Order: "lifo", Stray: true, Bound: b},
		// handler error + duplicate answer
		{Name: "rpc-2calls-err-dup", Callers: two, Peer: map[string]string{"a1": "err", "b1": "dup"}, Bound: b},
		// a1 is cancelled and answered only after its caller gave up, while the same caller's next call is in flight
		{Name: "rpc-cancel-late-answer-next-call", Callers: cancelLate, Peer: map[string]string{"a1": "late"}, Bound: b},
		// deadline on a call that is never answered, then a reset
		{Name: "rpc-timeout-never-then-reset", Callers: [][]c26CallSpec{c26Calls(c26Timeout("a1", 1)), c26Calls(c26Bg("b1"), c26Bg("b2"))},
			Peer: map[string]string{"a1": "never", "b2": "never"}, ResetAt: 2, Bound: b},
		// local Close at any point, one call never answered
		{Name: "rpc-never-close-timer", Callers: two, Peer: map[string]string{"a1": "never"}, CloseAt: 1, Bound: b},
		// an already cancelled context; an empty response; the peer hangs up on a request
		{Name: "rpc-precancelled-empty-hangup", Callers: [][]c26CallSpec{c26Calls(c26Pre("a1"), c26Bg("a2")), c26Calls(c26Bg("b1"), c26Bg("b2"))},
			Peer: map[string]string{"a2": "empty", "b2": "hangup"}, Bound: b},
		// write queue of one item: admission failure of a call while another one is queued
		{Name: "rpc-queue-of-one", Callers: [][]c26CallSpec{c26Calls(c26Bg("a1")), c26Calls(c26Bg("b1"), c26Bg("b2"))}, QueueItems: 1, Order: "lifo", Bound: b},
		// the response of a cancelled / timed-out call is in flight (or already delivered) when the
		// caller gives up, and ANOTHER call starts after the cancelled one returned
		{Name: "rpc-cancel-answered-normally-next-call", Callers: [][]c26CallSpec{c26Calls(c26Cancel("a1", 1), c26Bg("a2")), c26Calls(c26Bg("b1"))}, Bound: b},
		{Name: "rpc-cancel-answer-at-cancel-next-call", Callers: [][]c26CallSpec{c26Calls(c26Cancel("a1", 1), c26Bg("a2"))},
			Peer: map[string]string{"a1": "atcancel"}, Bound: b},
		{Name: "rpc-deadline-answer-at-cancel-other-caller-never", Callers: [][]c26CallSpec{c26Calls(c26Timeout("a1", 1)), c26Calls(c26After(c26Bg("b1"), "a1"))},
			Peer: map[string]string{"a1": "atcancel", "b1": "never"}, CloseAt: 2, Bound: b},
		// response bodies around the 4096-byte slab class boundary of the read-buffer pool; every
		// caller keeps every payload until the end of the execution
		{Name: "rpc-big-1caller-3-sequential", Callers: [][]c26CallSpec{c26Calls(c26Bg("a1"), c26Bg("a2"), c26Bg("a3"))},
			Sizes: map[string]int{"a1": 4097, "a2": 4097, "a3": 8192}, MaxBody: 16384, Bound: b},
		{Name: "rpc-big-1caller-boundary-sizes", Callers: [][]c26CallSpec{c26Calls(c26Bg("a1"), c26Bg("a2"), c26Bg("a3"))},
			Sizes: map[string]int{"a1": 4096, "a2": 4095, "a3": 4096}, MaxBody: 16384, Bound: b},
		{Name: "rpc-big-2callers-concurrent", Callers: [][]c26CallSpec{c26Calls(c26Bg("a1")), c26Calls(c26Bg("b1"), c26Bg("b2"))},
			Sizes: map[string]int{"a1": 8192, "b1": 4097, "b2": 4096}, MaxBody: 16384, Order: "lifo", Bound: b},
		// three concurrent calls
		{Name: "rpc-3calls-ok-lifo-stray", Callers: three, Order: "lifo", Stray: true, Bound: b},
		{Name: "rpc-3callers-cancel-before-reset", Callers: [][]c26CallSpec{c26Calls(c26Cancel("a1", 1), c26Bg("a2")), c26Calls(c26Bg("b1")), c26Calls(c26Timeout("c1", 3))},
			Peer: map[string]string{"a1": "late", "c1": "never", "a2": "err"}, ResetAt: 2, Bound: b},
	}
	if r.Thorough() {
		specs = append(specs,
			c26Spec{Name: "rpc-3calls-err-nf-dup-fifo-chunked", Callers: three, Peer: map[string]string{"a1": "err", "b1": "nf", "c1": "dup"}, ReadChunk: 13, Bound: 3},
			c26Spec{Name: "rpc-3calls-split-write-frame-per-flush", Callers: three, Peer: map[string]string{"b1": "err"}, SplitWrite: true, BatchFrames: 1, Order: "lifo", Bound: 3},
			c26Spec{Name: "rpc-3calls-write-coalescing-wait", Callers: three, Peer: map[string]string{"c1": "dup"}, BatchWait: true, Order: "lifo", Stray: true, Bound: 3},
			c26Spec{Name: "rpc-3callers-cancel-late-timeout-late", Callers: [][]c26CallSpec{c26Calls(c26Cancel("a1", 1), c26Bg("a2")), c26Calls(c26Timeout("b1", 2), c26Bg("b2")), c26Calls(c26Bg("c1"))},
				Peer: map[string]string{"a1": "late", "b1": "late"}, Bound: 3},
			c26Spec{Name: "rpc-3callers-reset-before-cancel", Callers: [][]c26CallSpec{c26Calls(c26Cancel("a1", 2), c26Bg("a2")), c26Calls(c26Bg("b1")), c26Calls(c26Bg("c1"))},
				Peer: map[string]string{"a1": "never", "c1": "never"}, ResetAt: 1, Order: "lifo", Bound: 3},
			c26Spec{Name: "rpc-3callers-close-timer-late-dup", Callers: [][]c26CallSpec{c26Calls(c26Timeout("a1", 1), c26Bg("a2")), c26Calls(c26Bg("b1")), c26Calls(c26Bg("c1"))},
				Peer: map[string]string{"a1": "late", "b1": "dup", "c1": "never"}, CloseAt: 2, Bound: 3},
			c26Spec{Name: "rpc-3callers-garbage", Callers: [][]c26CallSpec{c26Calls(c26Bg("a1")), c26Calls(c26Bg("b1")), c26Calls(c26Pre("c1"), c26Bg("c2"))},
				Peer: map[string]string{"b1": "garbage", "c2": "empty"}, Order: "lifo", Bound: 3},
			c26Spec{Name: "rpc-3callers-answer-at-cancel-other-caller", Callers: [][]c26CallSpec{c26Calls(c26Cancel("a1", 1)), c26Calls(c26After(c26Bg("b1"), "a1")), c26Calls(c26Timeout("c1", 2), c26Bg("c2"))},
				Peer: map[string]string{"a1": "atcancel", "c1": "atcancel", "b1": "err"}, Bound: 3},
			c26Spec{Name: "rpc-big-3callers-concurrent", Callers: three, Sizes: map[string]int{"a1": 4097, "b1": 8192, "c1": 4097}, MaxBody: 16384, Order: "lifo", ReadChunk: 4096, Bound: 3},
			c26Spec{Name: "rpc-big-answer-at-cancel-next-call", Callers: [][]c26CallSpec{c26Calls(c26Cancel("a1", 1), c26Bg("a2")), c26Calls(c26Bg("b1"))},
				Peer: map[string]string{"a1": "atcancel"}, Sizes: map[string]int{"a1": 8192, "a2": 4097, "b1": 4097}, MaxBody: 16384, Bound: 3},
			// every atomic operation is a scheduling point too
			c26Spec{Name: "rpc-2calls-ok-lifo-stray-atomics", Callers: two, Order: "lifo", Stray: true, Atomics: true, Bound: 3},
			c26Spec{Name: "rpc-cancel-late-answer-next-call-atomics", Callers: cancelLate, Peer: map[string]string{"a1": "late"}, Atomics: true, Bound: 3},
			c26Spec{Name: "rpc-never-close-timer-atomics", Callers: two, Peer: map[string]string{"a1": "never"}, CloseAt: 1, Atomics: true, Bound: 3},
			// deeper bound on the smallest colliding script
			c26Spec{Name: "rpc-1caller-cancel-late-bound4", Callers: [][]c26CallSpec{c26Calls(c26Cancel("a1", 1), c26Bg("a2"))}, Peer: map[string]string{"a1": "late"}, Bound: 4},
		)
	}
	return specs
}

// ---------------------------------------------------------------- stall watchdog (harness-side helper)

var c26Progress atomic.Int64

const c26StallLimit = 240 * time.Second

func c26Watchdog(r *ev.R) (stop func()) {
	done := make(chan struct{})
	go func() {
		last, lastChange := c26Progress.Load(), time.Now()
		tick := time.NewTicker(5 * time.Second)
		defer tick.Stop()
		for {
			select {
			case <-done:
				return
			case <-tick.C:
			}
			if cur := c26Progress.Load(); cur != last {
				last, lastChange = cur, time.Now()
				continue
			}
			if time.Since(lastChange) < c26StallLimit {
				continue
			}
			buf := make([]byte, 1<<20)
			buf = buf[:runtime.Stack(buf, true)]
			fmt.Printf("c26 watchdog: no execution started for %s (after %d executions); goroutines:\n%s\n", c26StallLimit, last, buf)
			r.HarnessError("watchdog: the controlled scheduler made no progress for %s after %d executions (engine stall, see log); partial result written", c26StallLimit, last)
			r.Finish()
			os.Exit(3)
		}
	}()
	return func() { close(done) }
}

// ---------------------------------------------------------------- the check

func TestVerifC26RPC(t *testing.T) {
	r := ev.Start(t, "C26")
	defer r.Finish()
	defer c26Watchdog(r)()
	r.Assume("rpc half: the peer is a scripted harness thread speaking the real wire codec; Server.dispatchRPCRequest and Client.CallOwned (thin wrappers that copy inbound.RequestID / delegate to Conn.Call) are not part of the run")
	r.Assume("rpc half: cooperative scheduler - scheduling points are locks, condition variables, channel operations, selects, spawns, timers, connection reads/writes (and atomics where stated); data races are invisible")
	specs := c26Specs(r)
	order := make([]int, len(specs))
	for i := range order {
		order[i] = i
	}
	if n := len(order); n > 1 {
		rot := int(r.Seed() % int64(n))
		if rot < 0 {
			rot += n
		}
		order = append(order[rot:], order[:rot]...)
	}
	only := os.Getenv("C26_ONLY")
	var execs int64
	outcomes, explored := 0, 0
	for _, i := range order {
		if only != "" && !strings.Contains(specs[i].Name, only) {
			continue
		}
		t0 := time.Now()
		st := vsched.Explore(r, c26Scenario(specs[i]))
		fmt.Printf("c26: %-48s bound=%d executions=%d outcomes=%d maxpoints=%d exhaustive=%v %.1fs\n", specs[i].Name, specs[i].Bound, st.Executions, st.Outcomes, st.MaxPoints, st.Exhaustive, time.Since(t0).Seconds())
		execs += st.Executions
		outcomes += st.Outcomes
		explored++
	}
	if r.Replay() != nil {
		return
	}
	keys := make([]string, 0, len(c26Seen))
	for k := range c26Seen {
		keys = append(keys, k)
	}
	sort.Strings(keys)
	var parts []string
	for _, k := range keys {
		parts = append(parts, fmt.Sprintf("%s=%d", k, c26Seen[k]))
		r.Count("rpc_seen_"+k, c26Seen[k])
	}
	all := strings.Join(parts, " ")
	fmt.Println("c26: seen:", all)
	if only != "" {
		return
	}
	r.Guard("rpc-executions", execs >= 1000, "executions=%d over %d scenarios", execs, explored)
	r.Guard("rpc-outcomes", outcomes >= 3*explored, "sum of distinct observation vectors=%d over %d scenarios", outcomes, explored)
	for _, n := range []string{"call-own-payload", "call-own-remote-error", "call-own-empty-response", "call-error-canceled", "call-error-deadline",
		"call-error-stopped", "call-error-reset", "call-error-eof", "call-error-queue-full", "response-written-for-a-call-that-gave-up", "stray-response-sent",
		"all-returned-on-live-connection", "connection-lost-before-close", "call-own-or-foreign-payload-over-4000-bytes"} {
		r.Guard("rpc-seen-"+n, c26Seen[n] > 0, "executions/calls exhibiting %q: %d (all: %s)", n, c26Seen[n], all)
	}
}
