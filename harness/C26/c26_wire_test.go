package wire_test

// C26 half (a): node-transport frame header codec, pkg/transport/wire.
// "Every node-transport frame header round-trips, and malformed headers (bad magic, version,
// flags, reserved bits, kind, priority or oversize body) are rejected before the body is
// allocated."
//
// Black-box on the exported wire API (EncodeHeader, DecodeHeader, ReadFrame, WriteFrames).
// The validity rule used as the oracle is the one the property statement and the constants of
// wire/frame.go + internal/core/types.go declare; it is written out in c26Valid.

import (
	"bytes"
	"encoding/binary"
	"encoding/hex"
	"encoding/json"
	"fmt"
	"io"
	"math"
	"runtime"
	"testing"

	"github.com/WuKongIM/WuKongIM/pkg/transport/internal/core"
	"github.com/WuKongIM/WuKongIM/pkg/transport/wire"
	"github.com/WuKongIM/WuKongIM/pkg/zzverif/ev"
)

const (
	c26Magic = 0x574b
	// a rejected header may allocate its error value and nothing else
	c26RejectCeiling = 16 << 10
	// ReadFrame is only driven with bodies up to this size
	c26MaxDrivenBody = 1<<20 + 1
	c26Batch         = 24
)

type c26Fields struct {
	Magic    uint16
	Version  uint8
	Flags    uint8
	Kind     uint8
	Priority uint8
	Service  uint16
	Request  uint64
	BodyLen  uint32
	Reserved uint32
}

func (f c26Fields) bytes() [wire.HeaderSize]byte {
	var b [wire.HeaderSize]byte
	binary.BigEndian.PutUint16(b[0:], f.Magic)
	b[2], b[3], b[4], b[5] = f.Version, f.Flags, f.Kind, f.Priority
	binary.BigEndian.PutUint16(b[6:], f.Service)
	binary.BigEndian.PutUint64(b[8:], f.Request)
	binary.BigEndian.PutUint32(b[16:], f.BodyLen)
	binary.BigEndian.PutUint32(b[20:], f.Reserved)
	return b
}

func c26Parse(b []byte) c26Fields {
	return c26Fields{Magic: binary.BigEndian.Uint16(b[0:]), Version: b[2], Flags: b[3], Kind: b[4], Priority: b[5],
		Service: binary.BigEndian.Uint16(b[6:]), Request: binary.BigEndian.Uint64(b[8:]), BodyLen: binary.BigEndian.Uint32(b[16:]), Reserved: binary.BigEndian.Uint32(b[20:])}
}

// c26Valid is the declared header contract: magic "WK", version 1, no flags, reserved zero,
// kind in the closed set 1..5, priority in the closed set 1..4, body length within the limit.
func c26Valid(f c26Fields, maxBody int) (bool, string) {
	switch {
	case f.Magic != c26Magic:
		return false, "bad-magic"
	case f.Version != 1:
		return false, "bad-version"
	case f.Flags != 0:
		return false, "bad-flags"
	case f.Reserved != 0:
		return false, "bad-reserved"
	case f.Kind < 1 || f.Kind > 5:
		return false, "bad-kind"
	case f.Priority < 1 || f.Priority > 4:
		return false, "bad-priority"
	case maxBody < 0 || uint64(f.BodyLen) > uint64(maxBody):
		return false, "oversize-body"
	}
	return true, "valid"
}

// c26Reader hands out a header, then a patterned body, and records every request made after
// the header was consumed.
type c26Reader struct {
	header    []byte
	bodyAvail int
	bodySent  int
	bodyReads int
	bodyAsked int
}

func (r *c26Reader) Read(p []byte) (int, error) {
	if len(r.header) > 0 {
		n := copy(p, r.header)
		r.header = r.header[n:]
		return n, nil
	}
	r.bodyReads++
	r.bodyAsked += len(p)
	if r.bodySent >= r.bodyAvail {
		return 0, io.EOF
	}
	n := len(p)
	if n > r.bodyAvail-r.bodySent {
		n = r.bodyAvail - r.bodySent
	}
	for i := 0; i < n; i++ {
		p[i] = byte(r.bodySent + i + 1)
	}
	r.bodySent += n
	return n, nil
}

type c26Case struct {
	Section string `json:"section"`
	Header  string `json:"header_hex"`
	Max     int    `json:"max_body_bytes"`
	Avail   int    `json:"body_bytes_available"`
	hdr     [wire.HeaderSize]byte
	// results of the measured ReadFrame call
	frame  wire.Frame
	rerr   error
	rpan   any
	reader c26Reader
	drove  bool
	valid  bool
}

type c26Run struct {
	r        *ev.R
	e        *ev.Enum
	msA, msB runtime.MemStats
	batch    []*c26Case
	maxBatch uint64
	remeas   int64
	single   bool
	tripped  bool
	skipped  int64
}

func (k *c26Run) measure(f func()) uint64 {
	runtime.ReadMemStats(&k.msA)
	f()
	runtime.ReadMemStats(&k.msB)
	return k.msB.TotalAlloc - k.msA.TotalAlloc
}

func (k *c26Run) violate(c *c26Case, class, format string, args ...any) {
	k.r.Violation(ev.Violation{Fingerprint: "C26:" + class, System: "wire", Message: fmt.Sprintf("header %s max=%d avail=%d: ", c.Header, c.Max, c.Avail) + fmt.Sprintf(format, args...), Replay: c})
}

func c26ReadFrame(c *c26Case) {
	defer func() {
		if p := recover(); p != nil {
			c.rpan = p
		}
	}()
	c.frame, c.rerr = wire.ReadFrame(&c.reader, c.Max)
}

// add queues one (header, limit, available body) case; the ReadFrame calls on headers that
// must be rejected are measured in batches, the others run unmeasured (a well-formed frame
// legitimately allocates its body).
func (k *c26Run) add(section string, hdr [wire.HeaderSize]byte, maxBody, avail int) {
	c := &c26Case{Section: section, Header: hex.EncodeToString(hdr[:]), Max: maxBody, Avail: avail, hdr: hdr}
	f := c26Parse(hdr[:])
	c.valid, _ = c26Valid(f, maxBody)
	// never drive ReadFrame into a legitimately huge body allocation
	c.drove = !c.valid || int64(f.BodyLen) <= c26MaxDrivenBody
	if k.tripped && !c.valid && f.BodyLen > c26RejectCeiling {
		// an early body allocation is already reported: do not keep allocating gigabytes
		c.drove = false
		k.skipped++
	}
	k.batch = append(k.batch, c)
	if len(k.batch) >= c26Batch {
		k.flush()
	}
}

func (c *c26Case) reset() {
	c.reader = c26Reader{header: append([]byte(nil), c.hdr[:]...), bodyAvail: c.Avail}
	c.frame, c.rerr, c.rpan = wire.Frame{}, nil, nil
}

func (k *c26Run) flush() {
	if len(k.batch) == 0 {
		return
	}
	b := k.batch
	for _, c := range b {
		c.reset()
	}
	total := k.measure(func() {
		for _, c := range b {
			if c.drove && !c.valid {
				c26ReadFrame(c)
			}
		}
	})
	if total > k.maxBatch {
		k.maxBatch = total
	}
	if total > c26RejectCeiling || k.single {
		found := false
		var biggest *c26Case
		for _, c := range b {
			if !c.drove || c.valid {
				continue
			}
			if biggest == nil || c26Parse(c.hdr[:]).BodyLen > c26Parse(biggest.hdr[:]).BodyLen {
				biggest = c
			}
			k.remeas++
			c.reset()
			alloc := k.measure(func() { c26ReadFrame(c) })
			if alloc > c26RejectCeiling {
				k.tripped, found = true, true
				k.violate(c, "body-allocated-before-header-validation", "ReadFrame allocated %d bytes (> %d) for a header that must be rejected; err=%v", alloc, c26RejectCeiling, c.rerr)
			}
		}
		// the slab pool can serve the repeated call from the buffer the first call allocated:
		// the batch (only calls that must reject, ~150 bytes of error value each) still paid for it
		if !found && total > c26RejectCeiling && biggest != nil {
			k.tripped = true
			k.violate(biggest, "body-allocated-before-header-validation", "a batch of %d ReadFrame calls that must all reject allocated %d bytes (> %d); largest declared body in the batch is this header", len(b), total, c26RejectCeiling)
		}
	}
	for _, c := range b {
		if c.drove && c.valid {
			c26ReadFrame(c)
		}
		k.judge(c)
	}
	k.batch = k.batch[:0]
}

func (k *c26Run) judge(c *c26Case) {
	f := c26Parse(c.hdr[:])
	valid, why := c26Valid(f, c.Max)
	out := why
	// ---- DecodeHeader
	var h wire.Header
	var derr error
	if p := ev.Recover(func() { h, derr = wire.DecodeHeader(c.hdr[:], c.Max) }); p != nil {
		k.violate(c, "decode-panic", "DecodeHeader panicked: %v", p)
		out = "panic"
	} else if valid {
		want := wire.Header{Kind: core.FrameKind(f.Kind), Priority: core.Priority(f.Priority), ServiceID: f.Service, RequestID: f.Request, BodyLen: f.BodyLen}
		if derr != nil {
			k.violate(c, "valid-header-rejected", "DecodeHeader rejected a well-formed header: %v", derr)
			out = "valid-rejected"
		} else if h != want {
			k.violate(c, "header-roundtrip-mismatch", "DecodeHeader = %+v, wire bytes say %+v", h, want)
			out = "mismatch"
		} else if enc := wire.EncodeHeader(h); enc != c.hdr {
			k.violate(c, "header-roundtrip-mismatch", "EncodeHeader(DecodeHeader(b)) = %x, want the original bytes", enc)
			out = "mismatch"
		}
	} else if derr == nil {
		k.violate(c, "malformed-header-accepted", "DecodeHeader accepted a header that is malformed (%s): %+v", why, h)
		out = "malformed-accepted"
	}
	// ---- ReadFrame (measured in flush)
	if c.drove {
		switch {
		case c.rpan != nil:
			k.violate(c, "readframe-panic", "ReadFrame panicked: %v", c.rpan)
			out = "panic"
		case !valid:
			if c.rerr == nil {
				k.violate(c, "malformed-header-accepted", "ReadFrame accepted a header that is malformed (%s)", why)
				out = "malformed-accepted"
				c.frame.Body.Release()
			}
			if c.reader.bodyReads != 0 {
				k.violate(c, "body-read-before-header-validation", "ReadFrame asked the connection for body bytes %d time(s) (%d bytes) although the header is malformed (%s)", c.reader.bodyReads, c.reader.bodyAsked, why)
				out = "body-read"
			}
		case c.Avail >= int(f.BodyLen):
			if c.rerr != nil {
				k.violate(c, "valid-header-rejected", "ReadFrame failed on a well-formed frame with a complete body: %v", c.rerr)
				out = "valid-rejected"
				break
			}
			body := c.frame.Body.Bytes()
			okBody := len(body) == int(f.BodyLen)
			for i := 0; okBody && i < len(body); i++ {
				okBody = body[i] == byte(i+1)
			}
			if !okBody || c.frame.Header.BodyLen != f.BodyLen || c.frame.Header.RequestID != f.Request || c.frame.Header.ServiceID != f.Service ||
				uint8(c.frame.Header.Kind) != f.Kind || uint8(c.frame.Header.Priority) != f.Priority {
				k.violate(c, "frame-stream-roundtrip-mismatch", "ReadFrame returned header %+v body len %d for wire fields %+v", c.frame.Header, len(body), f)
				out = "mismatch"
			}
			if c.reader.bodySent != int(f.BodyLen) {
				k.violate(c, "frame-stream-roundtrip-mismatch", "ReadFrame consumed %d body bytes of a frame whose body is %d bytes", c.reader.bodySent, f.BodyLen)
				out = "mismatch"
			}
			c.frame.Body.Release()
		default: // truncated body
			if c.rerr == nil {
				k.violate(c, "truncated-body-accepted", "ReadFrame returned a frame although only %d of %d body bytes were available", c.Avail, f.BodyLen)
				out = "truncated-accepted"
				c.frame.Body.Release()
			} else {
				out = "valid-truncated-body"
			}
		}
	}
	k.e.Case(c.Section+"/"+c.Header+"/"+fmt.Sprint(c.Max, "/", c.Avail), true, out)
}

func c26U8All() []uint8 {
	out := make([]uint8, 256)
	for i := range out {
		out[i] = uint8(i)
	}
	return out
}

func c26BodyLens(maxBody int) []uint32 {
	set := map[uint32]bool{0: true, 1: true, 0x7fffffff: true, 0x80000000: true, 0xffffffff: true, 16<<10 + 1: true}
	if maxBody >= 0 && maxBody < math.MaxUint32 {
		m := uint32(maxBody)
		set[m] = true
		set[m+1] = true
		if m > 0 {
			set[m-1] = true
		}
		if uint64(m)*2 <= math.MaxUint32 {
			set[m*2] = true
		}
	}
	var out []uint32
	for _, v := range []uint32{0, 1, 16<<10 + 1, 0x7fffffff, 0x80000000, 0xffffffff} {
		out = append(out, v)
		delete(set, v)
	}
	// deterministic order for the limit-relative values
	for _, d := range []int64{-1, 0, 1} {
		if maxBody >= 0 && maxBody < math.MaxUint32 {
			v := int64(maxBody) + d
			if v >= 0 && set[uint32(v)] {
				out = append(out, uint32(v))
				delete(set, uint32(v))
			}
		}
	}
	if maxBody > 0 && uint64(maxBody)*2 <= math.MaxUint32 && set[uint32(maxBody)*2] {
		out = append(out, uint32(maxBody)*2)
	}
	return out
}

func TestVerifC26Wire(t *testing.T) {
	r := ev.Start(t, "C26")
	defer r.Finish()
	if runtime.GOMAXPROCS(0) != 1 {
		r.HarnessError("C26 wire allocation accounting needs GOMAXPROCS=1, got %d", runtime.GOMAXPROCS(0))
	}
	k := &c26Run{r: r}
	if rf := r.Replay(); rf != nil {
		var c c26Case
		if err := json.Unmarshal(rf.Replay, &c); err != nil {
			r.HarnessError("replay: %v", err)
			return
		}
		raw, _ := hex.DecodeString(c.Header)
		var hdr [wire.HeaderSize]byte
		copy(hdr[:], raw)
		k.e = r.NewEnum("replay")
		if c.Section == "truncated-header" {
			c26TruncatedHeader(k, raw)
		} else {
			k.single = true // call-by-call measurement
			k.add(c.Section, hdr, c.Max, c.Avail)
			k.flush()
		}
		if r.ViolationCount() > 0 {
			r.MarkReplayReproduced()
		}
		k.e.Done(true, nil, "replay")
		return
	}
	var sinkB []byte
	big := k.measure(func() { sinkB = make([]byte, 2<<20) })
	_ = sinkB
	none := k.measure(func() {})
	r.Guard("alloc-meter-self-test", big >= 2<<20 && none < 4096, "2MiB allocation measured as %d bytes, empty call as %d", big, none)
	th := r.Thorough()

	// ---- 0. early-allocation probe: malformed headers declaring bodies of escalating slab
	// classes, each call measured on its own while the slab pool is still cold. A reader that
	// allocates the body before validating is reported here with a MiB-sized allocation, and
	// the later sections then stop driving it with GiB-sized declared lengths.
	k.e = r.NewEnum("early-allocation-probe")
	k.single = true
	for _, bl := range []uint32{16<<10 + 1, 64<<10 + 1, 1<<20 + 1} {
		for _, f := range []c26Fields{
			{c26Magic, 1, 0, 1, 1, 7, 11, bl, 0}, // oversize for the 1024 limit
			{c26Magic, 1, 0, 9, 1, 7, 11, bl, 0}, // bad kind
			{c26Magic, 1, 0, 1, 9, 7, 11, bl, 0}, // bad priority
			{c26Magic, 1, 0, 1, 1, 7, 11, bl, 1}, // reserved bit
			{c26Magic, 1, 1, 1, 1, 7, 11, bl, 0}, // flag bit
			{c26Magic, 2, 0, 1, 1, 7, 11, bl, 0}, // version
			{0x4b57, 1, 0, 1, 1, 7, 11, bl, 0},   // magic
		} {
			k.add("probe", f.bytes(), 1024, 0)
			k.flush()
		}
	}
	k.single = false
	k.e.Done(true, map[string]any{"declared_body": "16KiB+1, 64KiB+1, 1MiB+1", "malformed_classes": 7}, "one measured ReadFrame per malformed class and slab class, cold pool")

	// ---- 1. product of per-field menus over all 24 header bytes
	k.e = r.NewEnum("header-field-product")
	magics := []uint16{c26Magic, 0x0000, 0x4b57, 0x574a, 0x564b, 0xffff}
	versions := []uint8{1, 0, 2, 255}
	flags := []uint8{0, 1, 0x80, 0xff}
	kinds := []uint8{1, 2, 3, 4, 5, 0, 6, 7, 127, 128, 255}
	prios := []uint8{1, 2, 3, 4, 0, 5, 6, 255}
	services := ev.Pick(r, []uint16{0, 0xffff}, []uint16{0, 1, 0xffff})
	requests := ev.Pick(r, []uint64{0, math.MaxUint64}, []uint64{0, 1, 1 << 63, math.MaxUint64})
	reserved := []uint32{0, 1, 0x01000000, 0xffffffff}
	maxes := ev.Pick(r, []int{1024}, []int{1024, 0, 1 << 20})
	for _, mx := range maxes {
		for _, mg := range magics {
			for _, ve := range versions {
				for _, fl := range flags {
					for _, ki := range kinds {
						for _, pr := range prios {
							for _, sv := range services {
								for _, rq := range requests {
									for _, bl := range c26BodyLens(mx) {
										for _, rs := range reserved {
											f := c26Fields{mg, ve, fl, ki, pr, sv, rq, bl, rs}
											k.add("product", f.bytes(), mx, int(min(uint64(bl), 2048)))
										}
									}
								}
							}
						}
					}
				}
			}
		}
	}
	k.flush()
	prod := k.e
	prod.Done(!k.tripped, map[string]any{"magic": len(magics), "version": len(versions), "flags": len(flags), "kind": len(kinds), "priority": len(prios), "service": len(services),
		"request": len(requests), "reserved": len(reserved), "max_body": maxes, "body_len": "0,1,16KiB+1,max-1,max,max+1,2max,2^31-1,2^31,2^32-1"},
		"full cross product of the per-field menus; each case: DecodeHeader + ReadFrame over a recording reader")

	// ---- 2. every kind x every priority x body length around every limit
	k.e = r.NewEnum("kind-priority-square")
	limits := []int{-1, 0, 1, 1024, 65536, 1 << 20, math.MaxInt32, math.MaxInt64}
	for _, mx := range limits {
		for _, ki := range c26U8All() {
			for _, pr := range c26U8All() {
				lens := c26BodyLens(mx)
				if !th {
					lens = []uint32{0, uint32(min(uint64(max(mx, 0)), math.MaxUint32)), uint32(min(uint64(max(mx, 0))+1, math.MaxUint32))}
				}
				for _, bl := range lens {
					f := c26Fields{c26Magic, 1, 0, ki, pr, 7, 11, bl, 0}
					avail := int(min(uint64(bl), 600))
					k.add("square", f.bytes(), mx, avail)
				}
			}
		}
	}
	k.flush()
	sq := k.e
	sq.Done(!k.tripped, map[string]any{"kind": 256, "priority": 256, "max_body": limits}, "all 65536 kind/priority pairs x body lengths around each limit, other fields valid")

	// ---- 3. every single-byte mutation of valid headers (each flag / reserved / magic bit pattern)
	k.e = r.NewEnum("single-byte-mutation")
	bases := []c26Fields{
		{c26Magic, 1, 0, 1, 1, 0, 0, 0, 0},
		{c26Magic, 1, 0, 3, 3, 42, 99, 5, 0},
		{c26Magic, 1, 0, 5, 4, 0xffff, math.MaxUint64, 1024, 0},
		{c26Magic, 1, 0, 4, 2, 7, 1 << 63, 600, 0},
	}
	for _, base := range bases {
		for pos := 0; pos < wire.HeaderSize; pos++ {
			for v := 0; v < 256; v++ {
				h := base.bytes()
				h[pos] = byte(v)
				bl := c26Parse(h[:]).BodyLen
				for _, avail := range []int{int(min(uint64(bl), 2048)), int(min(uint64(bl), 2048)) / 2} {
					k.add("mutation", h, 1024, avail)
				}
			}
		}
	}
	k.flush()
	mu := k.e
	mu.Done(!k.tripped, map[string]any{"base_headers": len(bases), "positions": wire.HeaderSize, "values": 256, "body_available": "complete, half"}, "every position x every byte value of valid headers")

	// ---- 4. truncated headers: the reader ends before 24 bytes
	k.e = r.NewEnum("truncated-header")
	for _, base := range bases {
		h := base.bytes()
		for n := 0; n < wire.HeaderSize; n++ {
			c26TruncatedHeader(k, h[:n])
		}
	}
	tr := k.e
	tr.Done(!k.tripped, map[string]any{"prefix_lengths": "0..23"}, "every strict prefix of valid headers: DecodeHeader and ReadFrame must fail")

	// ---- 5. struct -> bytes -> struct and frame streams through the real writer and reader
	k.e = r.NewEnum("frame-stream")
	c26Streams(k, th)
	st := k.e
	st.Done(!k.tripped, map[string]any{"kinds": "0..7,255", "priorities": "0..6,255", "body_lens": "0,1,511,512,513,4096,4097,65537"}, "Header struct menu through EncodeHeader/DecodeHeader; every ordered pair of frames through WriteFrames + 2 x ReadFrame")

	r.Count("max_batch_alloc_bytes", int64(k.maxBatch))
	r.Count("rejected_calls_remeasured_individually", k.remeas)
	r.Count("readframe_calls_skipped_after_early_allocation_was_reported", k.skipped)
	r.Guard("product-has-valid-and-every-malformed-class", prod.Outcome("valid") >= 1 && prod.Outcome("bad-magic") >= 1 && prod.Outcome("bad-version") >= 1 && prod.Outcome("bad-flags") >= 1 &&
		prod.Outcome("bad-reserved") >= 1 && prod.Outcome("bad-kind") >= 1 && prod.Outcome("bad-priority") >= 1 && prod.Outcome("oversize-body") >= 1,
		"valid=%d magic=%d version=%d flags=%d reserved=%d kind=%d priority=%d oversize=%d", prod.Outcome("valid"), prod.Outcome("bad-magic"), prod.Outcome("bad-version"), prod.Outcome("bad-flags"),
		prod.Outcome("bad-reserved"), prod.Outcome("bad-kind"), prod.Outcome("bad-priority"), prod.Outcome("oversize-body"))
	r.Guard("square-valid-pairs", sq.Outcome("valid")+sq.Outcome("valid-truncated-body") >= 20, "valid kind/priority cases=%d", sq.Outcome("valid")+sq.Outcome("valid-truncated-body"))
	r.Guard("truncated-bodies-seen", mu.Outcome("valid-truncated-body") >= 1 && mu.Outcome("valid") >= 1, "mutation section: valid=%d truncated-body=%d", mu.Outcome("valid"), mu.Outcome("valid-truncated-body"))
	r.Guard("streams", st.Outcome("roundtrip") >= 20 && st.Outcome("write-rejected") >= 1, "stream roundtrips=%d write-rejected=%d", st.Outcome("roundtrip"), st.Outcome("write-rejected"))
	r.Sample(map[string]any{"section": "product", "header_hex": hex.EncodeToString(func() []byte {
		b := (c26Fields{c26Magic, 1, 0, 3, 3, 0xffff, math.MaxUint64, 1025, 0}).bytes()
		return b[:]
	}()), "max_body_bytes": 1024, "expected": "oversize-body: error, zero body reads, <16KiB allocated"})
	r.Sample(map[string]any{"section": "mutation", "header_hex": hex.EncodeToString(func() []byte { b := bases[1].bytes(); b[23] = 1; return b[:] }()), "max_body_bytes": 1024, "expected": "bad-reserved"})
	r.Assume("ReadFrame is driven only with bodies <= 1 MiB + 1; larger well-formed bodies are checked through DecodeHeader alone")
	r.Assume("allocation of a rejecting ReadFrame call = runtime.MemStats.TotalAlloc delta with GOMAXPROCS=1 (batches of 24 calls under 16 KiB clear all their calls; otherwise call-by-call)")
}

func c26TruncatedHeader(k *c26Run, prefix []byte) {
	c := &c26Case{Section: "truncated-header", Header: hex.EncodeToString(prefix), Max: 1024}
	out := "reject"
	if _, err := wire.DecodeHeader(prefix, 1024); err == nil {
		k.violate(c, "malformed-header-accepted", "DecodeHeader accepted a %d-byte header", len(prefix))
		out = "accepted"
	}
	rd := &c26Reader{header: append([]byte(nil), prefix...)}
	var err error
	var fr wire.Frame
	if p := ev.Recover(func() { fr, err = wire.ReadFrame(rd, 1024) }); p != nil {
		k.violate(c, "readframe-panic", "ReadFrame panicked on a truncated header: %v", p)
		out = "panic"
	} else if err == nil {
		k.violate(c, "malformed-header-accepted", "ReadFrame accepted a %d-byte header: %+v", len(prefix), fr.Header)
		out = "accepted"
	}
	k.e.Case("trunc/"+c.Header, true, out)
}

func c26Streams(k *c26Run, thorough bool) {
	kinds := []uint8{1, 2, 3, 4, 5, 0, 6, 7, 255}
	prios := []uint8{1, 2, 3, 4, 0, 5, 6, 255}
	// struct menu through EncodeHeader / DecodeHeader
	for _, ki := range kinds {
		for _, pr := range prios {
			for _, sv := range []uint16{0, 1, 0xffff} {
				for _, rq := range []uint64{0, 1, 1 << 63, math.MaxUint64} {
					for _, bl := range []uint32{0, 1, 1024, 1025, math.MaxUint32} {
						h := wire.Header{Kind: core.FrameKind(ki), Priority: core.Priority(pr), ServiceID: sv, RequestID: rq, BodyLen: bl}
						enc := wire.EncodeHeader(h)
						c := &c26Case{Section: "struct", Header: hex.EncodeToString(enc[:]), Max: 1024}
						got, err := wire.DecodeHeader(enc[:], 1024)
						valid := ki >= 1 && ki <= 5 && pr >= 1 && pr <= 4 && bl <= 1024
						out := "struct-roundtrip"
						switch {
						case valid && err != nil:
							k.violate(c, "valid-header-rejected", "DecodeHeader(EncodeHeader(%+v)) failed: %v", h, err)
							out = "valid-rejected"
						case valid && got != h:
							k.violate(c, "header-roundtrip-mismatch", "DecodeHeader(EncodeHeader(%+v)) = %+v", h, got)
							out = "mismatch"
						case !valid && err == nil:
							k.violate(c, "malformed-header-accepted", "DecodeHeader accepted the encoding of the out-of-contract header %+v", h)
							out = "malformed-accepted"
						case !valid:
							out = "struct-rejected"
						}
						k.e.Case("struct/"+c.Header, true, out)
					}
				}
			}
		}
	}
	// frames through the real writer and reader, every ordered pair
	type fr struct {
		h    wire.Header
		body int
	}
	var frames []fr
	lens := []int{0, 1, 511, 512, 513, 4096, 4097}
	if thorough {
		lens = append(lens, 65537)
	}
	i := 0
	for _, ki := range []uint8{1, 2, 3, 4, 5, 0, 6} {
		for _, pr := range []uint8{1, 4, 0, 5} {
			frames = append(frames, fr{wire.Header{Kind: core.FrameKind(ki), Priority: core.Priority(pr), ServiceID: uint16(i * 257), RequestID: uint64(i) << 56, BodyLen: 999}, lens[i%len(lens)]})
			i++
		}
	}
	const maxBody = 1 << 17
	mk := func(f fr, salt byte) wire.Frame {
		b := make([]byte, f.body)
		for j := range b {
			b[j] = byte(j) ^ salt
		}
		return wire.Frame{Header: f.h, Body: core.NewOwnedBuffer(b, nil)}
	}
	for ai, a := range frames {
		for bi, b := range frames {
			fa, fb := mk(a, 0x11), mk(b, 0xee)
			var buf bytes.Buffer
			c := &c26Case{Section: "stream", Header: fmt.Sprintf("%+v|%+v", a.h, b.h), Max: maxBody}
			key := fmt.Sprintf("stream/%d/%d", ai, bi)
			werr := wire.WriteFrames(&buf, []wire.Frame{fa, fb}, maxBody)
			okA := a.h.Kind >= 1 && a.h.Kind <= 5 && a.h.Priority >= 1 && a.h.Priority <= 4
			okB := b.h.Kind >= 1 && b.h.Kind <= 5 && b.h.Priority >= 1 && b.h.Priority <= 4
			if werr != nil {
				if okA && okB {
					k.violate(c, "valid-header-rejected", "WriteFrames rejected two well-formed frames: %v", werr)
					k.e.Case(key, true, "valid-rejected")
				} else {
					k.e.Case(key, true, "write-rejected")
				}
				continue
			}
			out := "roundtrip"
			rd := bytes.NewReader(buf.Bytes())
			for n, want := range []wire.Frame{fa, fb} {
				got, err := wire.ReadFrame(rd, maxBody)
				wh := want.Header
				wh.BodyLen = uint32(want.Body.Len())
				if err != nil {
					k.violate(c, "frame-stream-roundtrip-mismatch", "frame %d written by WriteFrames is rejected by ReadFrame: %v", n, err)
					out = "mismatch"
					break
				}
				if got.Header != wh || !bytes.Equal(got.Body.Bytes(), want.Body.Bytes()) {
					k.violate(c, "frame-stream-roundtrip-mismatch", "frame %d: read header %+v (body %d bytes), written %+v (body %d bytes)", n, got.Header, got.Body.Len(), wh, want.Body.Len())
					out = "mismatch"
				}
				got.Body.Release()
			}
			if out == "roundtrip" && rd.Len() != 0 {
				k.violate(c, "frame-stream-roundtrip-mismatch", "%d bytes left after reading both frames", rd.Len())
				out = "mismatch"
			}
			k.e.Case(key, true, out)
		}
	}
}
