package wkprotoenc_test

// C25 retention section (crypto package level): short call SEQUENCES whose results are kept.
//
// The single-call sections consume every result immediately (seal -> decrypt, encrypt ->
// decrypt) on a state that only saw successful calls. A breakage of the BUFFER-LIFETIME /
// HISTORY class - a result that is still a view of a pooled buffer which the next caller gets,
// scratch memory that a failing call hands back dirty - needs a second user of the pooled
// memory between "the call returned" and "the consumer reads the result" (in production: a
// delivery goroutine of another session). The deterministic form of that interleaving is a
// sequence on one goroutine: call A, call B (, call C), THEN read A.
//
// Enumerated exhaustively: every ordered pair of calls of the full menu (call kind x session x
// payload length) and every triple of a reduced menu. The menu holds every exported call of the
// package that computes on caller data - SealRecvPacket(+WithCrypto), EncryptPayload(+WithCrypto),
// DecryptPayload(+WithCrypto), SendMsgKey(+WithCrypto), ValidateSendPacket(+WithCrypto) of a
// genuine and of a tampered packet, frame.RecvPacket.VerityString (the other user of the shared
// bytebufferpool) - and every failing form (nil crypto, nil packet, short keys, undecodable
// ciphertext, wrong key). Oracle, evaluated AFTER the whole sequence (and a fixed drain call) ran:
//   - every result is what the identical call returned on the fresh process state (no dependence
//     on history) - checked when the call returns;
//   - every result is still byte-identical to what it was when it was returned (no later call
//     may change it), sealed / encrypted payloads still decrypt to the original plaintext with the
//     peer's keys, the sealed MsgKey is still the one that belongs to the payload;
//   - a tampered SEND is rejected and a genuine one accepted whatever ran before;
//   - the callers' inputs are unchanged.
// Determinism: one goroutine, GOMAXPROCS pinned to 1 for the section (sync.Pool and
// bytebufferpool hand an object back to the next Get on the same P). The oracle does not depend
// on it: without recycled state every call is a pure function of its arguments.

import (
	"bytes"
	"fmt"
	"reflect"
	"runtime"
	"strings"

	"github.com/WuKongIM/WuKongIM/pkg/protocol/frame"
	"github.com/WuKongIM/WuKongIM/pkg/protocol/wkprotoenc"
	"github.com/WuKongIM/WuKongIM/pkg/zzverif/ev"
)

type c25Call struct {
	Kind string `json:"kind"`
	Sess int    `json:"session"` // index into the two retention sessions
	Len  int    `json:"plain_len"`
}

func (c c25Call) String() string { return fmt.Sprintf("%s(session %d, %d bytes)", c.Kind, c.Sess, c.Len) }

// c25Res is what one call handed back. b / s / pkt are the returned values themselves (never
// copies): looking at them again later is what a consumer does.
type c25Res struct {
	class string
	b     []byte
	s     string
	pkt   *frame.RecvPacket
	// snapshot taken when the call returned
	snapB   []byte
	snapS   string
	snapKey string
	// the call wrote into its caller's data, or its result is a view of it
	inputViol *c25Viol
}

// c25RetKinds: judged kinds first (results compared and retained), then the failing forms.
var c25RetKinds = []string{
	"seal-crypto", "seal-keys", "encrypt-crypto", "encrypt-keys", "decrypt-crypto", "decrypt-keys",
	"sendkey-crypto", "sendkey-keys", "verity", "validate-crypto", "validate-keys", "validate-tampered-crypto", "validate-tampered-keys", "validate-tampered-payload-crypto", "validate-tampered-payload-keys",
	// history only
	"seal-nil-crypto", "seal-nil-packet", "seal-short-keys", "sendkey-nil-crypto", "encrypt-nil-crypto", "decrypt-not-base64", "decrypt-wrong-key", "decrypt-nil-crypto", "validate-nil-packet",
}

// c25Fam is the API family of a call kind ("seal", "encrypt", "decrypt", "sendkey", "verity", "validate").
func c25Fam(kind string) string {
	if i := strings.IndexByte(kind, '-'); i > 0 {
		return kind[:i]
	}
	return kind
}

func c25RetJudged(kind string) bool {
	for _, k := range c25RetKinds[:15] {
		if k == kind {
			return true
		}
	}
	return false
}

var c25RetLens = []int{0, 15, 16, 33, 200}

type c25RetInput struct {
	plain, plain0   []byte // plaintext and its pristine copy
	cipher, cipher0 []byte // client-encrypted plaintext (what a SEND carries)
	recv, recv0     *frame.RecvPacket
	sealed          *frame.RecvPacket // harness-owned sealed packet (VerityString input)
	sealedPayload0  []byte
	send, send0     *frame.SendPacket // genuine client SEND
	bad, bad0       *frame.SendPacket // same with one message-key bit flipped
}

type c25Retain struct {
	r     *ev.R
	e     *ev.Enum
	sess  [2]*c25Session
	in    map[[2]int]*c25RetInput // (session, length)
	refs  map[c25Call]c25Res
	stop  bool
	first map[string]int64
	// the caller-side buffers every call's inputs are placed in (overwritten between calls)
	bufPlain, bufCipher, bufSealed []byte
}

func c25CopyRecv(p *frame.RecvPacket) *frame.RecvPacket {
	c := *p
	c.Payload = append([]byte(nil), p.Payload...)
	return &c
}

func c25CopySend(p *frame.SendPacket) *frame.SendPacket {
	c := *p
	c.Payload = append([]byte(nil), p.Payload...)
	return &c
}

func c25RecvEqual(a, b *frame.RecvPacket) bool {
	x, y := *a, *b
	x.Payload, y.Payload = nil, nil
	return reflect.DeepEqual(x, y) && bytes.Equal(a.Payload, b.Payload)
}

func c25SendEqual(a, b *frame.SendPacket) bool {
	x, y := *a, *b
	x.Payload, y.Payload = nil, nil
	return reflect.DeepEqual(x, y) && bytes.Equal(a.Payload, b.Payload)
}

// prepare builds all inputs with successful calls only (the process state stays "fresh").
func (h *c25Retain) prepare() error {
	h.in = map[[2]int]*c25RetInput{}
	for si, sess := range h.sess {
		for li, l := range c25RetLens {
			in := &c25RetInput{}
			in.plain = c25Payload(l, (li+3*si+2)%c25Patterns)
			in.plain0 = append([]byte(nil), in.plain...)
			var err error
			if in.cipher, err = wkprotoenc.EncryptPayloadWithCrypto(in.plain, sess.client); err != nil {
				return err
			}
			in.cipher = append([]byte(nil), in.cipher...)
			in.cipher0 = append([]byte(nil), in.cipher...)
			in.recv = &frame.RecvPacket{Setting: 0, MessageID: int64(1000*si + l), MessageSeq: uint64(7 + li), ClientMsgNo: fmt.Sprintf("cmn-%d-%d", si, l), Timestamp: int32(1700000000 + l), FromUID: fmt.Sprintf("u%d", si),
				ChannelID: fmt.Sprintf("g%d", li), ChannelType: uint8(1 + si), Payload: in.plain}
			in.recv0 = c25CopyRecv(in.recv)
			sealed, err := wkprotoenc.SealRecvPacketWithCrypto(in.recv, sess.server)
			if err != nil {
				return err
			}
			in.sealed = c25CopyRecv(sealed)
			in.sealed.MsgKey = strings.Clone(sealed.MsgKey)
			in.sealedPayload0 = append([]byte(nil), in.sealed.Payload...)
			in.send = &frame.SendPacket{ClientSeq: uint64(10*si + li), ClientMsgNo: fmt.Sprintf("s-%d-%d", si, l), ChannelID: fmt.Sprintf("ch%d", li), ChannelType: uint8(2 - si), Expire: 60, Payload: in.cipher}
			key, err := wkprotoenc.SendMsgKeyWithCrypto(in.send, sess.client)
			if err != nil {
				return err
			}
			in.send.MsgKey = strings.Clone(key)
			in.send0 = c25CopySend(in.send)
			in.bad = c25CopySend(in.send)
			kb := []byte(in.bad.MsgKey)
			kb[len(kb)-1] ^= 0x01
			in.bad.MsgKey = string(kb)
			in.bad0 = c25CopySend(in.bad)
			h.in[[2]int{si, l}] = in
		}
	}
	return nil
}

func c25ErrClass(err error) string {
	if err == nil {
		return "ok"
	}
	return "err"
}

// run executes one call on the real package and snapshots what it returned.
func (h *c25Retain) run(c c25Call) (res c25Res) {
	sess := h.sess[c.Sess]
	other := h.sess[1-c.Sess]
	pristine := h.in[[2]int{c.Sess, c.Len}]
	// The caller's data lives in ONE set of buffers that every call of the sequence reuses and
	// that is overwritten in place as soon as the call has returned (a connection's scratch).
	var in c25RetInput
	in.plain = h.bufPlain[:len(pristine.plain0)]
	copy(in.plain, pristine.plain0)
	in.cipher = h.bufCipher[:len(pristine.cipher0)]
	copy(in.cipher, pristine.cipher0)
	sealedPayload := h.bufSealed[:len(pristine.sealedPayload0)]
	copy(sealedPayload, pristine.sealedPayload0)
	recv, send, bad, sealed := *pristine.recv0, *pristine.send0, *pristine.bad0, *pristine.sealed
	recv.Payload, send.Payload, bad.Payload, sealed.Payload = in.plain, in.cipher, in.cipher, sealedPayload
	in.recv, in.send, in.bad, in.sealed = &recv, &send, &bad, &sealed
	defer func() {
		// inputs untouched by the call?
		switch {
		case !bytes.Equal(in.plain, pristine.plain0):
			res.inputViol = &c25Viol{"C25:call-modified-input-plaintext", fmt.Sprintf("%v modified the caller's plaintext", c)}
		case !bytes.Equal(in.cipher, pristine.cipher0) || !bytes.Equal(sealedPayload, pristine.sealedPayload0):
			res.inputViol = &c25Viol{"C25:call-modified-input-ciphertext", fmt.Sprintf("%v modified the caller's ciphertext", c)}
		case !c25RecvEqual(&recv, pristine.recv0):
			res.inputViol = &c25Viol{"C25:seal-recv-modified-input", fmt.Sprintf("%v modified the caller's RECV packet", c)}
		case !c25SendEqual(&send, pristine.send0) || !c25SendEqual(&bad, pristine.bad0):
			res.inputViol = &c25Viol{"C25:call-modified-input-send-packet", fmt.Sprintf("%v modified the caller's SEND packet", c)}
		}
		// the caller reuses its buffers
		for _, b := range [][]byte{h.bufPlain, h.bufCipher, h.bufSealed} {
			for i := range b {
				b[i] = 0xEE
			}
		}
		now := res.b
		if res.pkt != nil {
			now = res.pkt.Payload
		}
		if res.inputViol == nil && c25RetJudged(c.Kind) && (!bytes.Equal(now, res.snapB) || res.s != res.snapS) {
			res.inputViol = &c25Viol{"C25:result-aliases-caller-input", fmt.Sprintf("the result of %v changed when the caller overwrote its own input buffers after the call returned: was %q / %q, now %q / %q", c, c25Clip(res.snapB), res.snapS, c25Clip(now), res.s)}
		}
	}()
	var err error
	if p := ev.Recover(func() {
		switch c.Kind {
		case "seal-crypto":
			res.pkt, err = wkprotoenc.SealRecvPacketWithCrypto(in.recv, sess.server)
		case "seal-keys":
			res.pkt, err = wkprotoenc.SealRecvPacket(in.recv, sess.serverKeys)
		case "encrypt-crypto":
			res.b, err = wkprotoenc.EncryptPayloadWithCrypto(in.plain, sess.client)
		case "encrypt-keys":
			res.b, err = wkprotoenc.EncryptPayload(in.plain, sess.clientKeys)
		case "decrypt-crypto":
			res.b, err = wkprotoenc.DecryptPayloadWithCrypto(in.cipher, sess.server)
		case "decrypt-keys":
			res.b, err = wkprotoenc.DecryptPayload(in.cipher, sess.serverKeys)
		case "sendkey-crypto":
			res.s, err = wkprotoenc.SendMsgKeyWithCrypto(in.send, sess.server)
		case "sendkey-keys":
			res.s, err = wkprotoenc.SendMsgKey(in.send, sess.serverKeys)
		case "verity":
			res.s = in.sealed.VerityString()
		case "validate-crypto":
			err = wkprotoenc.ValidateSendPacketWithCrypto(in.send, sess.server)
		case "validate-keys":
			err = wkprotoenc.ValidateSendPacket(in.send, sess.serverKeys)
		case "validate-tampered-crypto":
			err = wkprotoenc.ValidateSendPacketWithCrypto(in.bad, sess.server)
		case "validate-tampered-keys":
			err = wkprotoenc.ValidateSendPacket(in.bad, sess.serverKeys)
		case "validate-tampered-payload-crypto", "validate-tampered-payload-keys":
			// same header, same message key, same caller buffer: one ciphertext bit differs
			if len(in.cipher) > 0 {
				in.cipher[len(in.cipher)/2] ^= 0x04
			}
			if c.Kind == "validate-tampered-payload-crypto" {
				err = wkprotoenc.ValidateSendPacketWithCrypto(in.send, sess.server)
			} else {
				err = wkprotoenc.ValidateSendPacket(in.send, sess.serverKeys)
			}
			if len(in.cipher) > 0 {
				in.cipher[len(in.cipher)/2] ^= 0x04
			}
		case "seal-nil-crypto":
			res.pkt, err = wkprotoenc.SealRecvPacketWithCrypto(in.recv, nil)
		case "seal-nil-packet":
			res.pkt, err = wkprotoenc.SealRecvPacketWithCrypto(nil, sess.server)
		case "seal-short-keys":
			res.pkt, err = wkprotoenc.SealRecvPacket(in.recv, wkprotoenc.SessionKeys{AESKey: sess.serverKeys.AESKey[:8], AESIV: sess.serverKeys.AESIV})
		case "sendkey-nil-crypto":
			res.s, err = wkprotoenc.SendMsgKeyWithCrypto(in.send, nil)
		case "encrypt-nil-crypto":
			res.b, err = wkprotoenc.EncryptPayloadWithCrypto(in.plain, nil)
		case "decrypt-not-base64":
			res.b, err = wkprotoenc.DecryptPayloadWithCrypto([]byte("@@not base64@@"), sess.server)
		case "decrypt-wrong-key":
			res.b, err = wkprotoenc.DecryptPayloadWithCrypto(in.cipher, other.server)
		case "decrypt-nil-crypto":
			res.b, err = wkprotoenc.DecryptPayloadWithCrypto(in.cipher, nil)
		case "validate-nil-packet":
			err = wkprotoenc.ValidateSendPacketWithCrypto(nil, sess.server)
		default:
			panic("harness: unknown call kind " + c.Kind)
		}
	}); p != nil {
		res = c25Res{class: "panic:" + p.Error()}
		return res
	}
	res.class = c25ErrClass(err)
	res.snapB = append([]byte(nil), res.b...)
	res.snapS = strings.Clone(res.s)
	if res.pkt != nil {
		res.snapB = append([]byte(nil), res.pkt.Payload...)
		res.snapKey = strings.Clone(res.pkt.MsgKey)
	}
	return res
}

// wantClass: the outcome the property demands for the judged kinds.
func c25RetWantClass(kind string) string {
	if strings.HasPrefix(kind, "validate-tampered") {
		return "err"
	}
	return "ok"
}

// atReturn judges a result the moment it is returned (dependence on history).
func (h *c25Retain) atReturn(c c25Call, res c25Res, hist string) *c25Viol {
	if !c25RetJudged(c.Kind) {
		return nil
	}
	fam := c25Fam(c.Kind)
	if res.class != c25RetWantClass(c.Kind) {
		if strings.HasPrefix(c.Kind, "validate-tampered") {
			return &c25Viol{"C25:history:tampered-send-accepted", fmt.Sprintf("%v after [%s]: a SEND with a flipped message-key / ciphertext bit validates", c, hist)}
		}
		return &c25Viol{"C25:history:" + fam + "-fails-after-other-calls", fmt.Sprintf("%v after [%s]: %s; on the fresh state it succeeds", c, hist, res.class)}
	}
	ref, ok := h.refs[c]
	if !ok {
		return nil
	}
	if !bytes.Equal(res.snapB, ref.snapB) || res.snapS != ref.snapS || res.snapKey != ref.snapKey {
		return &c25Viol{"C25:history:" + fam + "-result-depends-on-earlier-calls", fmt.Sprintf("%v after [%s] returned payload/bytes %q string %q msgkey %q; on the fresh state the identical call returned %q %q %q",
			c, hist, c25Clip(res.snapB), c25Clip([]byte(res.snapS)), res.snapKey, c25Clip(ref.snapB), c25Clip([]byte(ref.snapS)), ref.snapKey)}
	}
	return nil
}

func c25Clip(b []byte) string {
	if len(b) > 96 {
		return string(b[:96]) + fmt.Sprintf("...(%d bytes)", len(b))
	}
	return string(b)
}

// later judges a retained result after the rest of the sequence ran: a consumer reads it now.
func (h *c25Retain) later(c c25Call, res c25Res, after string) *c25Viol {
	if !c25RetJudged(c.Kind) || res.class != "ok" {
		return nil
	}
	fam := c25Fam(c.Kind)
	sess := h.sess[c.Sess]
	in := h.in[[2]int{c.Sess, c.Len}]
	now := res.b
	if res.pkt != nil {
		now = res.pkt.Payload
	}
	if !bytes.Equal(now, res.snapB) {
		// say what the consumer gets instead
		what := "it no longer decrypts"
		if fam == "seal" || fam == "encrypt" {
			keys := sess.clientKeys
			if fam == "encrypt" {
				keys = sess.serverKeys
			}
			if got, err := wkprotoenc.DecryptPayload(append([]byte(nil), now...), keys); err == nil {
				what = fmt.Sprintf("it now decrypts to %q instead of %q", c25Clip(got), c25Clip(in.plain0))
			} else {
				what = "decrypting it now fails: " + err.Error()
			}
		}
		return &c25Viol{"C25:retained-" + fam + "-result-overwritten-by-later-call", fmt.Sprintf("the bytes returned by %v were %q; after the later calls [%s] the same slice holds %q (%s)", c, c25Clip(res.snapB), after, c25Clip(now), what)}
	}
	if res.s != res.snapS {
		return &c25Viol{"C25:retained-" + fam + "-string-overwritten-by-later-call", fmt.Sprintf("the string returned by %v was %q; after the later calls [%s] it reads %q", c, res.snapS, after, res.s)}
	}
	if res.pkt != nil {
		if res.pkt.MsgKey != res.snapKey {
			return &c25Viol{"C25:retained-seal-msgkey-overwritten-by-later-call", fmt.Sprintf("the MsgKey returned by %v was %q; after the later calls [%s] it reads %q", c, res.snapKey, after, res.pkt.MsgKey)}
		}
		want := *in.recv0
		got := *res.pkt
		want.Payload, got.Payload, want.MsgKey, got.MsgKey = nil, nil, "", ""
		if !reflect.DeepEqual(want, got) {
			return &c25Viol{"C25:retained-seal-header-changed", fmt.Sprintf("%v: sealed packet header fields differ from the input's after [%s]: %+v vs %+v", c, after, got, want)}
		}
	}
	// semantic read: the peer opens what it received
	switch fam {
	case "seal":
		got, err := wkprotoenc.DecryptPayload(append([]byte(nil), res.pkt.Payload...), sess.clientKeys)
		if err != nil || !c25Same(got, in.plain0) {
			return &c25Viol{"C25:retained-seal-does-not-decrypt", fmt.Sprintf("%v: read after [%s], the sealed payload decrypts to %q, err %v; want %q", c, after, c25Clip(got), err, c25Clip(in.plain0))}
		}
	case "encrypt":
		got, err := wkprotoenc.DecryptPayload(append([]byte(nil), res.b...), sess.serverKeys)
		if err != nil || !c25Same(got, in.plain0) {
			return &c25Viol{"C25:retained-encrypt-does-not-decrypt", fmt.Sprintf("%v: read after [%s], the ciphertext decrypts to %q, err %v; want %q", c, after, c25Clip(got), err, c25Clip(in.plain0))}
		}
	case "decrypt":
		if !c25Same(res.b, in.plain0) {
			return &c25Viol{"C25:retained-decrypt-not-the-plaintext", fmt.Sprintf("%v: read after [%s], the plaintext is %q; want %q", c, after, c25Clip(res.b), c25Clip(in.plain0))}
		}
	case "sendkey":
		if res.s != in.send0.MsgKey {
			return &c25Viol{"C25:retained-sendkey-differs-from-client-key", fmt.Sprintf("%v: read after [%s], the server-side key is %q, the client computed %q", c, after, res.s, in.send0.MsgKey)}
		}
	}
	return nil
}

// one successful call of every API family: recycled state of any family surfaces in the
// sequence that left it behind
var c25RetDrain = []c25Call{{"seal-crypto", 1, 33}, {"verity", 0, 15}, {"sendkey-crypto", 0, 16}, {"encrypt-crypto", 1, 15}, {"decrypt-crypto", 0, 33}, {"validate-crypto", 1, 16}}

// sequence runs the calls, then the drain, then reads every retained result.
func (h *c25Retain) sequence(seq []c25Call, count bool) *c25Viol {
	var resv [3]c25Res
	var viol *c25Viol
	var names []string
	failed := false
	for i, c := range seq {
		res := h.run(c)
		resv[i] = res
		if viol == nil {
			viol = h.atReturn(c, res, strings.Join(names, ", "))
		}
		if viol == nil {
			viol = res.inputViol
		}
		if i < len(seq)-1 && res.class != "ok" {
			failed = true
		}
		names = append(names, c.Kind+":"+res.class)
	}
	// the fixed drain calls are further users of the recycled memory, and are judged themselves
	for _, d := range c25RetDrain {
		dres := h.run(d)
		if viol == nil {
			if v := h.atReturn(d, dres, strings.Join(names, ", ")); v != nil {
				v.msg = "drain call " + v.msg
				viol = v
			}
		}
		if viol == nil {
			viol = dres.inputViol
		}
		if viol == nil {
			viol = h.later(d, dres, "nothing")
		}
	}
	for i, c := range seq {
		if viol != nil {
			break
		}
		rest := append(append([]string(nil), names[i+1:]...), "drain(seal, verity, sendkey, encrypt, decrypt, validate)")
		viol = h.later(c, resv[i], strings.Join(rest, ", "))
	}
	if count {
		last := seq[len(seq)-1]
		label := c25Fam(last.Kind) + ":" + strings.SplitN(resv[len(seq)-1].class, ":", 2)[0]
		if failed {
			label += " after failed call(s)"
		} else {
			label += " after clean history"
		}
		if viol != nil {
			label = "VIOLATION"
		}
		nontrivial := false
		for _, c := range seq {
			nontrivial = nontrivial || c25RetJudged(c.Kind)
		}
		h.e.CaseByConstruction(nontrivial, label)
		h.first[seq[0].Kind]++
	}
	if viol != nil {
		var ss []string
		for _, c := range seq {
			ss = append(ss, c.String())
		}
		viol.msg = "sequence [" + strings.Join(ss, "; ") + "] then drain, then read the results: " + viol.msg
		h.r.Violation(ev.Violation{Fingerprint: viol.fp, Message: viol.msg[:min(len(viol.msg), 1800)], System: "retention", Replay: c25Replay{Kind: "retention", Calls: append([]c25Call(nil), seq...)}})
		h.stop = true // recycled state is broken: later sequences would re-report the same defect
	}
	return viol
}

func c25RetainNew(r *ev.R) *c25Retain {
	h := &c25Retain{r: r, first: map[string]int64{}, refs: map[c25Call]c25Res{}, bufPlain: make([]byte, 512), bufCipher: make([]byte, 1024), bufSealed: make([]byte, 1024)}
	for i, cs := range [][2]int{{0, 3}, {4, 15}} {
		sess, _, v := c25Handshake(cs[0], cs[1])
		if v != nil {
			r.HarnessError("retention: handshake %v failed: %s", cs, v.msg)
			return nil
		}
		h.sess[i] = sess
	}
	if err := h.prepare(); err != nil {
		r.HarnessError("retention: cannot prepare inputs: %v", err)
		return nil
	}
	// fresh-state references: judged calls only, every one of them succeeds by specification
	for _, k := range c25RetKinds {
		if !c25RetJudged(k) || strings.HasPrefix(k, "validate-tampered") {
			continue
		}
		for s := 0; s < 2; s++ {
			for _, l := range c25RetLens {
				c := c25Call{k, s, l}
				res := h.run(c)
				if res.class != "ok" {
					r.Violation(ev.Violation{Fingerprint: "C25:history:" + k + "-fails-on-fresh-state", Message: fmt.Sprintf("%v on the fresh state: %s", c, res.class), System: "retention", Replay: c25Replay{Kind: "retention", Calls: []c25Call{c}}})
					return nil
				}
				if v := h.later(c, res, "nothing"); v != nil {
					r.Violation(ev.Violation{Fingerprint: v.fp, Message: "fresh state: " + v.msg, System: "retention", Replay: c25Replay{Kind: "retention", Calls: []c25Call{c}}})
					return nil
				}
				h.refs[c] = c25Res{class: res.class, snapB: res.snapB, snapS: res.snapS, snapKey: res.snapKey}
			}
		}
	}
	return h
}

func c25RetainReplay(r *ev.R, rp c25Replay) {
	prev := runtime.GOMAXPROCS(1)
	defer runtime.GOMAXPROCS(prev)
	h := c25RetainNew(r)
	if h == nil {
		if r.ViolationCount() > 0 {
			r.MarkReplayReproduced()
		}
		return
	}
	h.e = r.NewEnum("retention")
	ok := len(rp.Calls) >= 1 && len(rp.Calls) <= 3
	for _, c := range rp.Calls {
		if _, known := h.in[[2]int{c.Sess, c.Len}]; !known {
			ok = false
		}
	}
	if !ok {
		r.HarnessError("replay: bad call sequence %+v", rp.Calls)
		return
	}
	if v := h.sequence(rp.Calls, true); v != nil {
		fmt.Printf("replay: VIOLATES [%s] %s\n", v.fp, v.msg)
		r.MarkReplayReproduced()
	} else {
		fmt.Printf("replay: sequence %v holds\n", rp.Calls)
	}
	h.e.Done(true, nil, "replay")
}

func c25RetainSection(r *ev.R) {
	prev := runtime.GOMAXPROCS(1)
	defer runtime.GOMAXPROCS(prev)
	h := c25RetainNew(r)
	if h == nil {
		return
	}
	h.e = r.NewEnum("retention")
	th := r.Thorough()
	var menu, small []c25Call
	for _, k := range c25RetKinds {
		for s := 0; s < 2; s++ {
			for _, l := range c25RetLens {
				menu = append(menu, c25Call{k, s, l})
				if l == 33 || th && (l == 16 || l == 0) {
					small = append(small, c25Call{k, s, l})
				}
			}
		}
	}
	rot := int(uint64(r.Seed()) * 7919 % uint64(len(menu)))
	order := append(append([]c25Call(nil), menu[rot:]...), menu[:rot]...)
	var pairs, triples int64
	for _, a := range order {
		for _, b := range menu {
			if h.stop {
				break
			}
			h.sequence([]c25Call{a, b}, true)
			pairs++
		}
	}
	for _, a := range small {
		for _, b := range small {
			for _, c := range small {
				if h.stop {
					break
				}
				h.sequence([]c25Call{a, b, c}, true)
				triples++
			}
		}
	}
	complete := !h.stop
	h.e.Done(complete, map[string]any{"call_kinds": c25RetKinds, "sessions": 2, "plain_lengths": c25RetLens, "calls": len(menu), "pairs": pairs, "triple_calls": len(small), "triples": triples, "drain": c25RetDrain, "gomaxprocs": 1},
		"every ordered pair of calls of the menu (kind x session x payload length) and every triple of the reduced menu; all results are kept while the later calls and a fixed drain (one successful call of every API family) run and are read afterwards: equal to the fresh-state result, unchanged since returned, still decrypting to the original plaintext, inputs untouched")
	var missing []string
	for _, k := range c25RetKinds {
		if h.first[k] == 0 {
			missing = append(missing, k)
		}
	}
	r.Guard("retention/all-call-kinds-first", len(missing) == 0 || !complete, "call kinds never first in a sequence: %v", missing)
	r.Guard("retention/seal-then-pool-user", !complete || h.first["seal-crypto"] >= int64(len(menu))*10, "sequences starting with SealRecvPacketWithCrypto: %d", h.first["seal-crypto"])
	r.Guard("retention/outcomes", !complete || h.e.Outcome("seal:ok after failed call(s)") > 0 && h.e.Outcome("validate:err after clean history") > 0 && h.e.Outcome("seal:err after clean history") > 0,
		"seal after failed calls %d, rejected validations %d, failing seals %d", h.e.Outcome("seal:ok after failed call(s)"), h.e.Outcome("validate:err after clean history"), h.e.Outcome("seal:err after clean history"))
	r.Sample(map[string]any{"case": "retention", "sequence": []string{"seal-crypto(session 0, 33 bytes)", "seal-crypto(session 1, 200 bytes)"}, "drain": c25RetDrain,
		"outcome": "read afterwards, the first sealed payload is byte-identical to what was returned and decrypts to the 33 original bytes; MsgKey unchanged"})
	r.Assume("retention section: results are read after later calls on ONE goroutine with GOMAXPROCS=1 (sync.Pool / bytebufferpool hand a buffer to the next Get on the same P), the deterministic replay of a second delivery goroutine using the shared pools between a call's return and its consumer; failing calls are history only")
}
