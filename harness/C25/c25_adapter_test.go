package wkproto_test

// C25 - End-to-end payload encryption is correct and tamper-evident (gateway adapter level).
//
// The server's real inbound path: wire bytes -> wkproto.Adapter.Decode on a session that carries
// the negotiated keys (exactly the session values gateway/auth.go stores) -> ValidateSendPacket +
// DecryptPayload inside the adapter. Enumerated exhaustively over a SEND menu x key sets x the two
// session modes (cached SessionCrypto / raw key+IV values):
//
//   genuine   the client-sealed packet decodes to one SEND whose payload is the original plaintext;
//   tamper    every single bit of the transmitted ciphertext (base64 text and raw), every single bit
//             of the message key, other payload / message-key shapes and every covered header field
//             (ClientSeq, ClientMsgNo, ChannelID, ChannelType) changed to another value: Decode
//             returns an error and no frame - also when the tampered frame follows a genuine one
//             in the same read;
//   recv      a RECV written through Adapter.Encode on the same session decrypts, with the client's
//             keys, to the original payload.

import (
	"bytes"
	"encoding/base64"
	"encoding/json"
	"fmt"
	"sort"
	"strings"
	"testing"

	"github.com/WuKongIM/WuKongIM/pkg/gateway"
	adapterpkg "github.com/WuKongIM/WuKongIM/pkg/gateway/protocol/wkproto"
	"github.com/WuKongIM/WuKongIM/pkg/gateway/session"
	codec "github.com/WuKongIM/WuKongIM/pkg/protocol/codec"
	"github.com/WuKongIM/WuKongIM/pkg/protocol/frame"
	"github.com/WuKongIM/WuKongIM/pkg/protocol/wkprotoenc"
	"github.com/WuKongIM/WuKongIM/pkg/zzverif/ev"
)

type c25aViol struct{ fp, msg string }

type c25aKeys struct {
	Key string `json:"aes_key"`
	IV  string `json:"aes_iv"`
}

// key sets as NegotiateServerSession produces them: 16 lower-case hex characters, 16 alphanumerics
var c25aKeySets = []c25aKeys{{"1234567890abcdef", "abcdef1234567890"}, {"0000000000000000", "aaaaaaaaaaaaaaaa"}, {"ffffffffffffffff", "Zz9Zz9Zz9Zz9Zz9Z"}}

type c25aSend struct {
	ClientSeq   uint64 `json:"client_seq"`
	ClientMsgNo string `json:"client_msg_no"`
	ChannelID   string `json:"channel_id"`
	ChannelType uint8  `json:"channel_type"`
	PlainLen    int    `json:"plain_len"`
}

func c25aPlain(n int) []byte {
	p := make([]byte, n)
	for i := range p {
		p[i] = byte(0x10 + i%3) // padding-looking bytes
	}
	return p
}

var c25aSeqs = []uint64{0, 1, 12, 4294967295}
var c25aMsgNos = []string{"", "m1", "2"}
var c25aChannels = []string{"g1", "1"}
var c25aTypes = []uint8{1, 2, 12}

func c25aMenu(thorough bool) []c25aSend {
	lens := []int{0, 16, 33}
	if thorough {
		lens = []int{0, 1, 15, 16, 17, 33}
	}
	var out []c25aSend
	for _, q := range c25aSeqs {
		for _, m := range c25aMsgNos {
			for _, c := range c25aChannels {
				for _, t := range c25aTypes {
					for _, l := range lens {
						out = append(out, c25aSend{q, m, c, t, l})
					}
				}
			}
		}
	}
	return out
}

// c25aSession builds the session the gateway builds after a successful encrypted CONNECT.
func c25aSession(k c25aKeys, mode string) (session.Session, *wkprotoenc.SessionCrypto, error) {
	keys := wkprotoenc.SessionKeys{AESKey: []byte(k.Key), AESIV: []byte(k.IV)}
	sc, err := wkprotoenc.NewSessionCrypto(keys)
	if err != nil {
		return nil, nil, err
	}
	sess := session.New(session.Config{ID: 1, Listener: "verif", RemoteAddr: "r", LocalAddr: "l"})
	sess.SetValue(gateway.SessionValueProtocolVersion, uint8(frame.LatestVersion))
	sess.SetValue(gateway.SessionValueEncryptionEnabled, true)
	sess.SetValue(gateway.SessionValueAESKey, keys.AESKey)
	sess.SetValue(gateway.SessionValueAESIV, keys.AESIV)
	if mode == "crypto" {
		sess.SetValue(gateway.SessionValueCrypto, sc)
	}
	return sess, sc, nil
}

func c25aSeal(sc *wkprotoenc.SessionCrypto, m c25aSend) (*frame.SendPacket, error) {
	pkt := &frame.SendPacket{ClientSeq: m.ClientSeq, ClientMsgNo: m.ClientMsgNo, ChannelID: m.ChannelID, ChannelType: m.ChannelType, Expire: 30}
	enc, err := wkprotoenc.EncryptPayloadWithCrypto(c25aPlain(m.PlainLen), sc)
	if err != nil {
		return nil, err
	}
	pkt.Payload = enc
	pkt.MsgKey, err = wkprotoenc.SendMsgKeyWithCrypto(pkt, sc)
	return pkt, err
}

type c25aTamper struct {
	Kind  string `json:"kind"`
	Index int    `json:"index"`
	Value string `json:"value,omitempty"`
}

// With edge set only the bits of the first 2 / last 4 base64 bytes and first 2 / last 2 raw bytes are flipped.
func c25aTampers(pkt, other *frame.SendPacket, edge bool, emit func(t c25aTamper, tampered *frame.SendPacket)) {
	clone := func() *frame.SendPacket {
		c := *pkt
		c.Payload = append([]byte(nil), pkt.Payload...)
		return &c
	}
	atEdge := func(i, n, head, tail int) bool { return !edge || i < head || i >= n-tail }
	for bit := 0; bit < len(pkt.Payload)*8; bit++ {
		if !atEdge(bit/8, len(pkt.Payload), 2, 4) {
			continue
		}
		c := clone()
		c.Payload[bit/8] ^= 1 << (bit % 8)
		emit(c25aTamper{Kind: "ciphertext-text-bit", Index: bit}, c)
	}
	raw, _ := base64.StdEncoding.DecodeString(string(pkt.Payload))
	for bit := 0; bit < len(raw)*8; bit++ {
		if !atEdge(bit/8, len(raw), 2, 2) {
			continue
		}
		r := append([]byte(nil), raw...)
		r[bit/8] ^= 1 << (bit % 8)
		c := clone()
		c.Payload = []byte(base64.StdEncoding.EncodeToString(r))
		emit(c25aTamper{Kind: "ciphertext-raw-bit", Index: bit}, c)
	}
	if edge {
		return
	}
	block := raw
	if len(block) > 16 {
		block = raw[:16]
	}
	shapes := [][]byte{{}, []byte(base64.StdEncoding.EncodeToString(raw[:max(len(raw)-16, 0)])), []byte(base64.StdEncoding.EncodeToString(append(append([]byte(nil), raw...), block...))),
		other.Payload, []byte("plain"), append(append([]byte(nil), pkt.Payload...), '\n')}
	seenShape := map[string]bool{string(pkt.Payload): true}
	for i, s := range shapes {
		if seenShape[string(s)] {
			continue
		}
		seenShape[string(s)] = true
		c := clone()
		c.Payload = s
		emit(c25aTamper{Kind: "payload-shape", Index: i}, c)
	}
	for bit := 0; bit < len(pkt.MsgKey)*8; bit++ {
		k := []byte(pkt.MsgKey)
		k[bit/8] ^= 1 << (bit % 8)
		c := clone()
		c.MsgKey = string(k)
		emit(c25aTamper{Kind: "msgkey-bit", Index: bit}, c)
	}
	seenKey := map[string]bool{pkt.MsgKey: true}
	for i, k := range []string{"", strings.ToUpper(pkt.MsgKey), pkt.MsgKey[:max(len(pkt.MsgKey)-1, 0)], pkt.MsgKey + "0", other.MsgKey, strings.Repeat("0", 32)} {
		if seenKey[k] {
			continue
		}
		seenKey[k] = true
		c := clone()
		c.MsgKey = k
		emit(c25aTamper{Kind: "msgkey-shape", Index: i, Value: k}, c)
	}
	// covered header fields; ClientSeq is 32 bits on the wire, so only 32-bit values are real changes
	seenSeq := map[uint64]bool{pkt.ClientSeq: true}
	for i, q := range append([]uint64{(pkt.ClientSeq + 1) & 0xFFFFFFFF, (pkt.ClientSeq - 1) & 0xFFFFFFFF, (pkt.ClientSeq * 10) & 0xFFFFFFFF}, c25aSeqs...) {
		if seenSeq[q] {
			continue
		}
		seenSeq[q] = true
		c := clone()
		c.ClientSeq = q
		emit(c25aTamper{Kind: "header-ClientSeq", Index: i, Value: fmt.Sprint(q)}, c)
	}
	strField := func(kind, cur string, menu []string, set func(*frame.SendPacket, string)) {
		vals := append([]string{cur + "0", "0" + cur}, menu...)
		if len(cur) > 0 {
			vals = append(vals, cur[:len(cur)-1], cur[1:])
		}
		seen := map[string]bool{cur: true}
		for i, v := range vals {
			if seen[v] {
				continue
			}
			seen[v] = true
			c := clone()
			set(c, v)
			emit(c25aTamper{Kind: kind, Index: i, Value: v}, c)
		}
		for bit := 0; bit < len(cur)*8; bit++ {
			b := []byte(cur)
			b[bit/8] ^= 1 << (bit % 8)
			c := clone()
			set(c, string(b))
			emit(c25aTamper{Kind: kind + "-bit", Index: bit}, c)
		}
	}
	strField("header-ClientMsgNo", pkt.ClientMsgNo, c25aMsgNos, func(p *frame.SendPacket, v string) { p.ClientMsgNo = v })
	strField("header-ChannelID", pkt.ChannelID, c25aChannels, func(p *frame.SendPacket, v string) { p.ChannelID = v })
	for t := 0; t < 256; t++ {
		if uint8(t) == pkt.ChannelType {
			continue
		}
		c := clone()
		c.ChannelType = uint8(t)
		emit(c25aTamper{Kind: "header-ChannelType", Index: t}, c)
	}
}

type c25aReplay struct {
	Kind   string      `json:"kind"` // "genuine" | "tamper" | "recv"
	Keys   c25aKeys    `json:"keys"`
	Mode   string      `json:"mode"`
	Send   c25aSend    `json:"send"`
	Other  c25aSend    `json:"other_send"`
	Tamper *c25aTamper `json:"tamper,omitempty"`
	Edge   bool        `json:"edge_bits_only,omitempty"`
	Calls  []c25aCall  `json:"calls,omitempty"` // kind "retention" (c25_adapter_retain_test.go)
}

// c25aDecode feeds wire bytes to a fresh adapter on a fresh encrypted session.
func c25aDecode(k c25aKeys, mode string, wire []byte) (frames []frame.Frame, consumed int, err error, panicked error) {
	sess, _, serr := c25aSession(k, mode)
	if serr != nil {
		return nil, 0, serr, nil
	}
	ad := adapterpkg.New()
	panicked = ev.Recover(func() { frames, consumed, err = ad.Decode(sess, wire) })
	return
}

func c25aCheckPacket(r *ev.R, e *ev.Enum, system string, edge bool, k c25aKeys, mode string, m, other c25aSend, only *c25aTamper, kinds map[string]int64) {
	_, sc, err := c25aSession(k, mode)
	if err != nil {
		r.HarnessError("session for %+v: %v", k, err)
		return
	}
	pkt, err1 := c25aSeal(sc, m)
	otherPkt, err2 := c25aSeal(sc, other)
	if err1 != nil || err2 != nil {
		r.HarnessError("sealing %+v: %v %v", m, err1, err2)
		return
	}
	cd := codec.New()
	genuineWire, err := cd.EncodeFrame(pkt, frame.LatestVersion)
	if err != nil {
		r.HarnessError("EncodeFrame: %v", err)
		return
	}
	genuineWire = append([]byte(nil), genuineWire...)
	report := func(v *c25aViol, t *c25aTamper) {
		if only != nil {
			fmt.Printf("replay: VIOLATES [%s] %s\n", v.fp, v.msg)
			r.MarkReplayReproduced()
		}
		kind := "tamper"
		if t == nil {
			kind = "genuine"
		}
		r.Violation(ev.Violation{Fingerprint: v.fp, Message: v.msg, System: system, Replay: c25aReplay{Kind: kind, Keys: k, Mode: mode, Send: m, Other: other, Tamper: t, Edge: edge}})
	}
	if only == nil {
		frames, consumed, derr, p := c25aDecode(k, mode, genuineWire)
		var v *c25aViol
		switch {
		case p != nil:
			v = &c25aViol{"C25:adapter-panic", fmt.Sprintf("Decode of the genuine packet %+v: %v", m, p)}
		case derr != nil || len(frames) != 1 || consumed != len(genuineWire):
			v = &c25aViol{"C25:adapter-genuine-send-rejected", fmt.Sprintf("keys %+v mode %s: genuine packet %+v: %d frames, consumed %d of %d, err %v", k, mode, m, len(frames), consumed, len(genuineWire), derr)}
		default:
			got, ok := frames[0].(*frame.SendPacket)
			if !ok || !bytes.Equal(got.Payload, c25aPlain(m.PlainLen)) || got.ClientSeq != m.ClientSeq || got.ClientMsgNo != m.ClientMsgNo || got.ChannelID != m.ChannelID || got.ChannelType != m.ChannelType {
				v = &c25aViol{"C25:adapter-genuine-send-altered", fmt.Sprintf("keys %+v mode %s: genuine packet %+v decodes to %+v", k, mode, m, frames[0])}
			}
		}
		e.CaseByConstruction(true, "genuine-accepted")
		if v != nil {
			report(v, nil)
		}
	}
	c25aTampers(pkt, otherPkt, edge, func(t c25aTamper, tampered *frame.SendPacket) {
		if only != nil && (only.Kind != t.Kind || only.Index != t.Index) {
			return
		}
		wire, err := cd.EncodeFrame(tampered, frame.LatestVersion)
		if err != nil {
			r.HarnessError("EncodeFrame(tampered): %v", err)
			return
		}
		wire = append([]byte(nil), wire...)
		if bytes.Equal(wire, genuineWire) {
			r.HarnessError("tamper %s #%d does not change the wire bytes", t.Kind, t.Index)
			return
		}
		for variant := 0; variant < 2; variant++ {
			in := wire
			label := t.Kind
			if variant == 1 {
				// the tampered frame arrives in the same read, right after a genuine one
				in = append(append([]byte(nil), genuineWire...), wire...)
				label += "(after-genuine)"
			}
			frames, consumed, derr, p := c25aDecode(k, mode, in)
			out := "rejected"
			var v *c25aViol
			switch {
			case p != nil:
				out = "panic"
				v = &c25aViol{"C25:adapter-panic", fmt.Sprintf("Decode after tamper %s #%d of %+v: %v", t.Kind, t.Index, m, p)}
			case derr == nil || len(frames) != 0 || consumed != 0:
				out = "ACCEPTED"
				v = &c25aViol{"C25:adapter-tampered-" + t.Kind + "-accepted", fmt.Sprintf("keys %+v mode %s, SEND %+v, tamper %s #%d %q (%s): Decode returned %d frames, consumed %d, err %v", k, mode, m, t.Kind, t.Index, t.Value, label, len(frames), consumed, derr)}
			}
			if kinds != nil {
				kinds[t.Kind]++
			}
			e.CaseByConstruction(true, label+":"+out)
			if v != nil {
				tt := t
				report(v, &tt)
			}
		}
	})
}

// c25aCheckRecv: server writes a RECV through the adapter, the client opens it.
func c25aCheckRecv(k c25aKeys, mode string, n int) (string, *c25aViol) {
	sess, sc, err := c25aSession(k, mode)
	if err != nil {
		return "harness", &c25aViol{"C25:harness-session", err.Error()}
	}
	plain := c25aPlain(n)
	recv := &frame.RecvPacket{MessageID: 9, MessageSeq: 4, ClientMsgNo: "m", Timestamp: 1700000000, FromUID: "u1", ChannelID: "g1", ChannelType: 2, Payload: append([]byte(nil), plain...)}
	var wire []byte
	if p := ev.Recover(func() { wire, err = adapterpkg.New().Encode(sess, recv, session.OutboundMeta{}) }); p != nil {
		return "panic", &c25aViol{"C25:adapter-panic", fmt.Sprintf("Encode(RECV, payload length %d): %v", n, p)}
	}
	if err != nil {
		return "error", &c25aViol{"C25:adapter-recv-encode-error", err.Error()}
	}
	if !bytes.Equal(recv.Payload, plain) {
		return "mutated", &c25aViol{"C25:adapter-recv-modified-input", fmt.Sprintf("Encode modified the caller's RECV payload (length %d)", n)}
	}
	f, _, err := codec.New().DecodeFrame(wire, frame.LatestVersion)
	got, ok := f.(*frame.RecvPacket)
	if err != nil || !ok {
		return "undecodable", &c25aViol{"C25:adapter-recv-undecodable", fmt.Sprintf("client cannot decode the RECV frame: %v", err)}
	}
	if n > 0 && bytes.Equal(got.Payload, plain) {
		return "plaintext", &c25aViol{"C25:adapter-recv-not-encrypted", fmt.Sprintf("RECV payload of length %d left the adapter unencrypted on an encrypted session", n)}
	}
	dec, err := wkprotoenc.DecryptPayloadWithCrypto(got.Payload, sc)
	if err != nil || !bytes.Equal(dec, plain) {
		return "mismatch", &c25aViol{"C25:adapter-recv-roundtrip", fmt.Sprintf("keys %+v mode %s: RECV payload length %d decrypts to %q, err %v", k, mode, n, dec, err)}
	}
	return "recv-roundtrip-ok", nil
}

func TestVerifC25Adapter(t *testing.T) {
	r := ev.Start(t, "C25")
	defer r.Finish()
	th := r.Thorough()

	if rf := r.Replay(); rf != nil {
		var rp c25aReplay
		if err := json.Unmarshal(rf.Replay, &rp); err != nil {
			r.HarnessError("replay: %v", err)
			return
		}
		if rp.Kind == "retention" {
			c25aRetainReplay(r, rp)
			r.Sample(rp)
			return
		}
		e := r.NewEnum("replay")
		switch rp.Kind {
		case "recv":
			out, v := c25aCheckRecv(rp.Keys, rp.Mode, rp.Send.PlainLen)
			e.CaseByConstruction(true, out)
			if v != nil {
				r.MarkReplayReproduced()
				r.Violation(ev.Violation{Fingerprint: v.fp, Message: v.msg, System: rf.System, Replay: rp})
			}
		case "genuine":
			c25aCheckPacket(r, e, rf.System, rp.Edge, rp.Keys, rp.Mode, rp.Send, rp.Other, nil, nil)
			if r.ViolationCount() > 0 {
				r.MarkReplayReproduced()
			}
		default:
			c25aCheckPacket(r, e, rf.System, rp.Edge, rp.Keys, rp.Mode, rp.Send, rp.Other, rp.Tamper, nil)
		}
		e.Done(true, nil, "replay")
		r.Sample(rp)
		return
	}

	// call sequences on one adapter with retained results: first, on the fresh process state
	c25aRetainSection(r)

	keySets := c25aKeySets[:ev.Pick(r, 2, 3)]
	menu := c25aMenu(th)
	e1 := r.NewEnum("adapter-send")
	kinds := map[string]int64{}
	n := 0
	for ki, k := range keySets {
		for _, mode := range []string{"crypto", "keys"} {
			for i, m := range menu {
				if !th && (i+ki)%2 == 1 {
					continue // quick: every other packet per key set (the two key sets together cover the menu)
				}
				other := menu[(i+1)%len(menu)]
				if other.PlainLen == m.PlainLen {
					other.PlainLen += 16
				}
				c25aCheckPacket(r, e1, "adapter-send", false, k, mode, m, other, nil, kinds)
				n++
			}
		}
	}
	b := map[string]any{"key_sets": len(keySets), "session_modes": []string{"crypto", "keys"}, "send_packets": len(menu), "packets_x_sessions": n}
	for k, c := range kinds {
		b["tampers_"+k] = c
	}
	e1.Done(true, b, "every sealed SEND x {every bit of the base64 / raw ciphertext, payload shapes, every bit of the message key, message-key shapes, every covered header field changed} x {alone, right after a genuine frame}, encoded with the real codec and decoded by the real adapter on an encrypted session")
	r.Guard("adapter-genuine-accepted", e1.Outcome("genuine-accepted") == int64(n) && n >= 100, "genuine packets accepted: %d of %d", e1.Outcome("genuine-accepted"), n)
	r.Guard("adapter-tamper-kinds", len(kinds) >= 10 && e1.Outcome("ciphertext-raw-bit:rejected") > 1000 && e1.Outcome("msgkey-bit(after-genuine):rejected") > 1000,
		"tamper kinds %d, raw ciphertext bits rejected %d, message-key bits (after genuine) rejected %d", len(kinds), e1.Outcome("ciphertext-raw-bit:rejected"), e1.Outcome("msgkey-bit(after-genuine):rejected"))
	r.Sample(map[string]any{"case": "adapter tamper", "keys": keySets[0], "mode": "crypto", "send": menu[1], "tamper": "msgkey-bit #0", "outcome": "Decode error, no frame"})

	// ---- decimal-length boundaries of the signed ClientSeq / ChannelType (32-bit ClientSeq on the wire)
	e1b := r.NewEnum("adapter-send-decimal-boundaries")
	seqSet := map[uint64]bool{0: true, 1: true, 9: true, 1<<31 - 1: true, 1 << 31: true, 1<<32 - 1: true, 1<<32 - 2: true}
	for p := uint64(10); p < 1<<32; p *= 10 {
		for _, v := range []uint64{p - 1, p, p + 1, p + p/10 - 1, p + p/10, p + 9, p + 10} {
			if v < 1<<32 {
				seqSet[v] = true
			}
		}
	}
	typeEdges := []uint8{0, 1, 2, 9, 10, 11, 19, 20, 99, 100, 101, 109, 110, 199, 200, 255}
	bkinds := map[string]int64{}
	bn := 0
	var bseqs []uint64
	for q := range seqSet {
		bseqs = append(bseqs, q)
	}
	sort.Slice(bseqs, func(i, j int) bool { return bseqs[i] < bseqs[j] })
	for _, q := range bseqs {
		for ti := 0; ti < 256; ti++ {
			isEdge := false
			for _, t := range typeEdges {
				isEdge = isEdge || int(t) == ti
			}
			if !th && !isEdge {
				continue
			}
			for _, mode := range []string{"crypto", "keys"} {
				// 33 plaintext bytes -> 48 cipher bytes -> 64 base64 characters without '=' padding
				for _, l := range []int{33, 17} {
					if mode == "keys" && (l != 33 || !isEdge) {
						continue
					}
					m := c25aSend{q, "m1", "g1", uint8(ti), l}
					other := m
					other.PlainLen += 16
					c25aCheckPacket(r, e1b, "adapter-send-decimal-boundaries", true, keySets[0], mode, m, other, nil, bkinds)
					bn++
				}
			}
		}
	}
	bb := map[string]any{"client_seqs": len(seqSet), "channel_types": ev.Pick(r, len(typeEdges), 256), "packets_x_sessions": bn, "plain_lengths": []int{33, 17}}
	for k, c := range bkinds {
		bb["tampers_"+k] = c
	}
	e1b.Done(true, bb, "every boundary ClientSeq below 2^32 (10^k and neighbours, x09/x10 range ends, 2^31, 2^32-1) x boundary ChannelType values (thorough: all 256): every bit of the first 2 / last 4 base64 bytes and first 2 / last 2 raw ciphertext bytes, alone and right after a genuine frame")
	r.Guard("adapter-decimal-boundaries", e1b.Outcome("genuine-accepted") == int64(bn) && bn >= 1000 && e1b.Outcome("ciphertext-text-bit:rejected") >= int64(bn)*48,
		"genuine accepted %d of %d, edge text bits rejected %d", e1b.Outcome("genuine-accepted"), bn, e1b.Outcome("ciphertext-text-bit:rejected"))

	e2 := r.NewEnum("adapter-recv")
	for _, k := range keySets {
		for _, mode := range []string{"crypto", "keys"} {
			for l := 0; l <= ev.Pick(r, 48, 80); l++ {
				out, v := c25aCheckRecv(k, mode, l)
				e2.CaseByConstruction(true, out)
				if v != nil {
					r.Violation(ev.Violation{Fingerprint: v.fp, Message: v.msg, System: "adapter-recv", Replay: c25aReplay{Kind: "recv", Keys: k, Mode: mode, Send: c25aSend{PlainLen: l}}})
				}
			}
		}
	}
	e2.Done(true, map[string]any{"key_sets": len(keySets), "lengths": fmt.Sprintf("0..%d", ev.Pick(r, 48, 80))}, "RECV written by Adapter.Encode on an encrypted session, opened with the client's keys")
	r.Assume("the session values are the ones gateway/auth.go stores after NegotiateServerSession (EncryptionEnabled, AESKey, AESIV, Crypto); key agreement itself is decided in the crypto run")
	r.Assume("a SEND with SettingNoEncrypt is passed through without validation by design; Setting is not a signed field and is outside C25")
}
