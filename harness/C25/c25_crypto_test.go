package wkprotoenc_test

// C25 - End-to-end payload encryption is correct and tamper-evident (crypto package level).
//
// Black-box, bounded-exhaustive enumeration against the real pkg/protocol/wkprotoenc. Everything
// is deterministic: client private scalars are derived from seeds 0..15 and the server side runs
// the *real* NegotiateServerSession with crypto/rand.Reader replaced, for the duration of the
// call, by a seeded deterministic byte stream (seeds 0..15), so the server's "random" X25519 key
// and IV are functions of the seed. No randomness is drawn anywhere.
//
//   key-agreement   16 x 16 (client seed, server seed): the keys the server stores and the keys the
//                   client derives from (its private key, CONNACK.ServerKey, CONNACK.Salt) are equal
//                   and usable (NewSessionCrypto succeeds on both sides);
//   payload         sessions x payload lengths around the AES block boundaries x content patterns:
//                   client-encrypt/server-decrypt, server-encrypt/client-decrypt and SealRecvPacket/
//                   client-decrypt return the original bytes (both API variants);
//   send-tamper     sessions x SEND menu: the sealed packet validates and decrypts; every single bit
//                   of the transmitted ciphertext (base64 text and raw bytes), every single bit of
//                   the message key, every other payload / message-key shape and every covered header
//                   field changed to another value makes ValidateSendPacket(+WithCrypto) fail.
//
// "Covered header fields" are the ones SendMsgKey signs: ClientSeq, ClientMsgNo, ChannelID,
// ChannelType (and Payload). One field is changed at a time, as the property's quantifier says.

import (
	"bytes"
	"crypto/rand"
	"crypto/sha256"
	"encoding/base64"
	"encoding/json"
	"fmt"
	"io"
	"sort"
	"strings"
	"testing"

	"github.com/WuKongIM/WuKongIM/pkg/protocol/frame"
	"github.com/WuKongIM/WuKongIM/pkg/protocol/wkprotoenc"
	"github.com/WuKongIM/WuKongIM/pkg/zzverif/ev"
	"golang.org/x/crypto/curve25519"
)

type c25Viol struct{ fp, msg string }

// ------------------------------------------------------------------ deterministic keys

// c25Scalar is the client's X25519 private scalar for a seed (X25519 clamps any 32 bytes).
func c25Scalar(seed int) [32]byte {
	var k [32]byte
	switch seed {
	case 0: // all zero
	case 1:
		for i := range k {
			k[i] = 0xFF
		}
	case 2: // smallest scalar that survives clamping besides the forced top bit
		k[0] = 8
	case 3:
		k[31] = 0x41
	default:
		k = sha256.Sum256([]byte(fmt.Sprintf("C25-client-scalar-%d", seed)))
	}
	return k
}

// c25Stream is the deterministic byte stream that stands in for crypto/rand.Reader.
type c25Stream struct {
	seed int
	ctr  int
	buf  []byte
	read int
}

func (s *c25Stream) Read(p []byte) (int, error) {
	for i := range p {
		switch s.seed {
		case 0:
			p[i] = 0
		case 1:
			p[i] = 0xFF
		default:
			if len(s.buf) == 0 {
				h := sha256.Sum256([]byte(fmt.Sprintf("C25-server-stream-%d-%d", s.seed, s.ctr)))
				s.ctr++
				s.buf = h[:]
			}
			p[i] = s.buf[0]
			s.buf = s.buf[1:]
		}
	}
	s.read += len(p)
	return len(p), nil
}

// c25Negotiate runs the real server-side negotiation with the seeded stream as randomness.
func c25Negotiate(serverSeed int, clientKey string) (keys wkprotoenc.SessionKeys, serverKey string, consumed int, err error) {
	old := rand.Reader
	st := &c25Stream{seed: serverSeed}
	rand.Reader = io.Reader(st)
	defer func() { rand.Reader = old }()
	keys, serverKey, err = wkprotoenc.NegotiateServerSession(clientKey)
	return keys, serverKey, st.read, err
}

type c25Session struct {
	C, S       int
	clientKeys wkprotoenc.SessionKeys
	serverKeys wkprotoenc.SessionKeys
	client     *wkprotoenc.SessionCrypto
	server     *wkprotoenc.SessionCrypto
}

// c25Handshake performs one complete negotiation and returns both sides, or a violation.
func c25Handshake(c, s int) (*c25Session, string, *c25Viol) {
	priv := c25Scalar(c)
	pubBytes, err := curve25519.X25519(priv[:], curve25519.Basepoint)
	if err != nil {
		return nil, "harness", &c25Viol{"C25:harness-client-public-key", err.Error()}
	}
	var pub [32]byte
	copy(pub[:], pubBytes)
	clientKey := wkprotoenc.EncodePublicKey(pub)
	var (
		sess             = &c25Session{C: c, S: s}
		serverKey        string
		serverKey2       string
		keys2            wkprotoenc.SessionKeys
		consumed         int
		nerr, nerr2, der error
	)
	if p := ev.Recover(func() {
		sess.serverKeys, serverKey, consumed, nerr = c25Negotiate(s, clientKey)
		keys2, serverKey2, _, nerr2 = c25Negotiate(s, clientKey)
	}); p != nil {
		return nil, "panic", &c25Viol{"C25:negotiate-panic", fmt.Sprintf("client seed %d server seed %d: %v", c, s, p)}
	}
	if nerr != nil || nerr2 != nil {
		return nil, "server-error", &c25Viol{"C25:negotiate-server-error", fmt.Sprintf("client seed %d server seed %d: NegotiateServerSession(%s): %v", c, s, clientKey, nerr)}
	}
	if consumed == 0 || serverKey != serverKey2 || !bytes.Equal(sess.serverKeys.AESKey, keys2.AESKey) || !bytes.Equal(sess.serverKeys.AESIV, keys2.AESIV) {
		return nil, "harness", &c25Viol{"C25:harness-randomness-not-controlled", fmt.Sprintf("NegotiateServerSession is not a function of the seeded stream (read %d bytes)", consumed)}
	}
	// what the client does with CONNACK{ServerKey, Salt}
	if p := ev.Recover(func() { sess.clientKeys, der = wkprotoenc.DeriveClientSession(priv, serverKey, string(sess.serverKeys.AESIV)) }); p != nil {
		return nil, "panic", &c25Viol{"C25:derive-panic", fmt.Sprintf("client seed %d server seed %d: %v", c, s, p)}
	}
	if der != nil {
		return nil, "client-error", &c25Viol{"C25:derive-client-error", fmt.Sprintf("client seed %d server seed %d: DeriveClientSession: %v", c, s, der)}
	}
	if !bytes.Equal(sess.clientKeys.AESKey, sess.serverKeys.AESKey) {
		return nil, "key-mismatch", &c25Viol{"C25:session-aes-key-differs", fmt.Sprintf("client seed %d server seed %d: client AES key %q, server AES key %q", c, s, sess.clientKeys.AESKey, sess.serverKeys.AESKey)}
	}
	if !bytes.Equal(sess.clientKeys.AESIV, sess.serverKeys.AESIV) {
		return nil, "iv-mismatch", &c25Viol{"C25:session-aes-iv-differs", fmt.Sprintf("client seed %d server seed %d: client IV %q, server IV %q", c, s, sess.clientKeys.AESIV, sess.serverKeys.AESIV)}
	}
	var e1, e2 error
	sess.client, e1 = wkprotoenc.NewSessionCrypto(sess.clientKeys)
	sess.server, e2 = wkprotoenc.NewSessionCrypto(sess.serverKeys)
	if e1 != nil || e2 != nil {
		return nil, "unusable", &c25Viol{"C25:negotiated-keys-unusable", fmt.Sprintf("client seed %d server seed %d: key %q iv %q: client %v server %v", c, s, sess.serverKeys.AESKey, sess.serverKeys.AESIV, e1, e2)}
	}
	return sess, "agree", nil
}

// ------------------------------------------------------------------ payload round trip

func c25Payload(length, pattern int) []byte {
	p := make([]byte, length)
	for i := range p {
		switch pattern {
		case 0: // zeros
		case 1:
			p[i] = 0xFF
		case 2:
			p[i] = byte(i)
		case 3: // looks like PKCS7 padding of one byte
			p[i] = 0x01
		case 4: // looks like a full padding block
			p[i] = 0x10
		case 5: // ends with a value one above the block size, preceded by a valid-looking pad
			p[i] = byte(17 - (i % 17))
		case 6:
			p[i] = "wukong-IM/\n"[i%11]
		}
	}
	return p
}

const c25Patterns = 7

func c25Same(a, b []byte) bool { return bytes.Equal(a, b) } // nil == empty

func c25CheckPayload(sess *c25Session, length, pattern int) (string, *c25Viol) {
	plain := c25Payload(length, pattern)
	pristine := append([]byte(nil), plain...)
	where := fmt.Sprintf("session (client seed %d, server seed %d), payload length %d pattern %d", sess.C, sess.S, length, pattern)
	var v *c25Viol
	if p := ev.Recover(func() {
		// client -> server, both API variants
		enc, err := wkprotoenc.EncryptPayload(plain, sess.clientKeys)
		if err != nil {
			v = &c25Viol{"C25:encrypt-error", where + ": " + err.Error()}
			return
		}
		if !bytes.Equal(plain, pristine) {
			v = &c25Viol{"C25:encrypt-modified-input", where}
			return
		}
		raw, derr := base64.StdEncoding.DecodeString(string(enc))
		if derr != nil || len(raw) != (length/16+1)*16 {
			v = &c25Viol{"C25:ciphertext-shape", fmt.Sprintf("%s: ciphertext %q is not base64 of %d bytes", where, enc, (length/16+1)*16)}
			return
		}
		encCopy := append([]byte(nil), enc...)
		got, err := wkprotoenc.DecryptPayloadWithCrypto(enc, sess.server)
		if err != nil || !c25Same(got, pristine) {
			v = &c25Viol{"C25:client-to-server-roundtrip", fmt.Sprintf("%s: server decrypts %q to %q, err %v", where, enc, got, err)}
			return
		}
		got, err = wkprotoenc.DecryptPayload(enc, sess.serverKeys)
		if err != nil || !c25Same(got, pristine) || !bytes.Equal(enc, encCopy) {
			v = &c25Viol{"C25:client-to-server-roundtrip", fmt.Sprintf("%s: server (keys API) decrypts %q to %q, err %v", where, encCopy, got, err)}
			return
		}
		// server -> client
		enc2, err := wkprotoenc.EncryptPayloadWithCrypto(plain, sess.server)
		if err != nil {
			v = &c25Viol{"C25:encrypt-error", where + ": " + err.Error()}
			return
		}
		if !bytes.Equal(enc2, encCopy) {
			v = &c25Viol{"C25:encrypt-variants-disagree", fmt.Sprintf("%s: EncryptPayload gives %q, EncryptPayloadWithCrypto %q", where, encCopy, enc2)}
			return
		}
		got, err = wkprotoenc.DecryptPayloadWithCrypto(enc2, sess.client)
		if err != nil || !c25Same(got, pristine) {
			v = &c25Viol{"C25:server-to-client-roundtrip", fmt.Sprintf("%s: client decrypts %q to %q, err %v", where, enc2, got, err)}
			return
		}
		// server seals a RECV, client opens it
		recv := &frame.RecvPacket{MessageID: 77, MessageSeq: 5, ClientMsgNo: "m", Timestamp: 1700000000, FromUID: "u1", ChannelID: "g1", ChannelType: 2, Payload: plain}
		sealed, err := wkprotoenc.SealRecvPacketWithCrypto(recv, sess.server)
		if err != nil {
			v = &c25Viol{"C25:seal-recv-error", where + ": " + err.Error()}
			return
		}
		if !bytes.Equal(recv.Payload, pristine) || recv.MsgKey != "" {
			v = &c25Viol{"C25:seal-recv-modified-input", where}
			return
		}
		got, err = wkprotoenc.DecryptPayload(sealed.Payload, sess.clientKeys)
		if err != nil || !c25Same(got, pristine) {
			v = &c25Viol{"C25:recv-roundtrip", fmt.Sprintf("%s: client decrypts sealed RECV payload %q to %q, err %v", where, sealed.Payload, got, err)}
			return
		}
		if len(sealed.MsgKey) != 32 {
			v = &c25Viol{"C25:recv-msgkey-shape", fmt.Sprintf("%s: sealed RECV MsgKey %q", where, sealed.MsgKey)}
		}
	}); p != nil {
		return "panic", &c25Viol{"C25:payload-panic", fmt.Sprintf("%s: %v", where, p)}
	}
	if v != nil {
		return "violation", v
	}
	return fmt.Sprintf("roundtrip-ok/blocks=%d", length/16+1), nil
}

// ------------------------------------------------------------------ SEND tamper

type c25Send struct {
	ClientSeq   uint64 `json:"client_seq"`
	ClientMsgNo string `json:"client_msg_no"`
	ChannelID   string `json:"channel_id"`
	ChannelType uint8  `json:"channel_type"`
	PlainLen    int    `json:"plain_len"`
	Pattern     int    `json:"pattern"`
}

var c25Seqs = []uint64{0, 1, 12, 4294967295}
var c25MsgNos = []string{"", "m1", "2", "0c9d2f0e-uuid"}
var c25Channels = []string{"g1", "1", "u1@u2"}
var c25Types = []uint8{1, 2, 12, 0, 255}
var c25PlainLens = []int{0, 1, 15, 16, 17, 33}

func c25SendMenu(thorough bool) []c25Send {
	var out []c25Send
	lens := c25PlainLens
	if !thorough {
		lens = []int{0, 15, 16, 33}
	}
	for _, q := range c25Seqs {
		for _, m := range c25MsgNos {
			for _, c := range c25Channels {
				for ti, t := range c25Types {
					if !thorough && ti >= 3 {
						continue
					}
					for li, l := range lens {
						out = append(out, c25Send{q, m, c, t, l, (li + ti) % c25Patterns})
					}
				}
			}
		}
	}
	return out
}

func c25Seal(sess *c25Session, m c25Send) (*frame.SendPacket, error) {
	pkt := &frame.SendPacket{ClientSeq: m.ClientSeq, ClientMsgNo: m.ClientMsgNo, ChannelID: m.ChannelID, ChannelType: m.ChannelType,
		Expire: 60, Topic: "", Payload: c25Payload(m.PlainLen, m.Pattern)}
	enc, err := wkprotoenc.EncryptPayloadWithCrypto(pkt.Payload, sess.client)
	if err != nil {
		return nil, err
	}
	pkt.Payload = enc
	pkt.MsgKey, err = wkprotoenc.SendMsgKeyWithCrypto(pkt, sess.client)
	return pkt, err
}

// c25Accepts reports whether the server accepts the packet (both API variants must agree).
func c25Accepts(sess *c25Session, pkt *frame.SendPacket) (accepted bool, v *c25Viol) {
	var e1, e2 error
	if p := ev.Recover(func() {
		e1 = wkprotoenc.ValidateSendPacketWithCrypto(pkt, sess.server)
		e2 = wkprotoenc.ValidateSendPacket(pkt, sess.serverKeys)
	}); p != nil {
		return false, &c25Viol{"C25:validate-panic", fmt.Sprintf("ValidateSendPacket(%+v): %v", *pkt, p)}
	}
	if (e1 == nil) != (e2 == nil) {
		return false, &c25Viol{"C25:validate-variants-disagree", fmt.Sprintf("ValidateSendPacketWithCrypto: %v, ValidateSendPacket: %v for %+v", e1, e2, *pkt)}
	}
	return e1 == nil, nil
}

type c25Tamper struct {
	Kind   string `json:"kind"`
	Index  int    `json:"index"`            // bit / variant index
	Value  string `json:"value,omitempty"`  // replacement value (base64 for byte fields)
	Detail string `json:"detail,omitempty"` // human readable
}

// c25Tampers enumerates every tamper of one sealed packet. apply returns the tampered copy.
// With edge set only the bits of the first 2 / last 4 bytes of the base64 text and of the first 2 / last 2
// bytes of the raw ciphertext are flipped (same Kind / Index as in the full neighbourhood).
func c25Tampers(pkt *frame.SendPacket, other *frame.SendPacket, edge bool, emit func(t c25Tamper, tampered *frame.SendPacket)) {
	clone := func() *frame.SendPacket {
		c := *pkt
		c.Payload = append([]byte(nil), pkt.Payload...)
		return &c
	}
	atEdge := func(i, n, head, tail int) bool { return !edge || i < head || i >= n-tail }
	// (1) every bit of the transmitted (base64) ciphertext
	for bit := 0; bit < len(pkt.Payload)*8; bit++ {
		if !atEdge(bit/8, len(pkt.Payload), 2, 4) {
			continue
		}
		c := clone()
		c.Payload[bit/8] ^= 1 << (bit % 8)
		emit(c25Tamper{Kind: "ciphertext-text-bit", Index: bit}, c)
	}
	// (2) every bit of the raw ciphertext (re-encoded as valid base64)
	raw, _ := base64.StdEncoding.DecodeString(string(pkt.Payload))
	for bit := 0; bit < len(raw)*8; bit++ {
		if !atEdge(bit/8, len(raw), 2, 2) {
			continue
		}
		r := append([]byte(nil), raw...)
		r[bit/8] ^= 1 << (bit % 8)
		c := clone()
		c.Payload = []byte(base64.StdEncoding.EncodeToString(r))
		emit(c25Tamper{Kind: "ciphertext-raw-bit", Index: bit}, c)
	}
	if edge {
		return
	}
	// (3) other payload shapes
	block := raw
	if len(block) > 16 {
		block = raw[:16]
	}
	shapes := map[string][]byte{
		"empty":            {},
		"nil":              nil,
		"drop-last-block":  []byte(base64.StdEncoding.EncodeToString(raw[:max(len(raw)-16, 0)])),
		"drop-first-block": []byte(base64.StdEncoding.EncodeToString(raw[min(16, len(raw)):])),
		"append-block":     []byte(base64.StdEncoding.EncodeToString(append(append([]byte(nil), raw...), block...))),
		"other-packet":     other.Payload,
		"plaintext":        []byte("plain"),
		"trailing-newline": append(append([]byte(nil), pkt.Payload...), '\n'),
		"unpadded-base64":  bytes.TrimRight(pkt.Payload, "="),
		"urlsafe-base64":   []byte(strings.NewReplacer("+", "-", "/", "_").Replace(string(pkt.Payload))),
	}
	names := make([]string, 0, len(shapes))
	for k := range shapes {
		names = append(names, k)
	}
	sort.Strings(names)
	seenShape := map[string]bool{string(pkt.Payload): true} // a shape equal to the genuine payload is not a change
	for i, k := range names {
		if seenShape[string(shapes[k])] {
			continue
		}
		seenShape[string(shapes[k])] = true
		c := clone()
		c.Payload = shapes[k]
		emit(c25Tamper{Kind: "payload-" + k, Index: i}, c)
	}
	// (4) every bit of the message key, and other message-key shapes
	for bit := 0; bit < len(pkt.MsgKey)*8; bit++ {
		k := []byte(pkt.MsgKey)
		k[bit/8] ^= 1 << (bit % 8)
		c := clone()
		c.MsgKey = string(k)
		emit(c25Tamper{Kind: "msgkey-bit", Index: bit}, c)
	}
	keyShapes := []string{"", strings.ToUpper(pkt.MsgKey), pkt.MsgKey[:max(len(pkt.MsgKey)-1, 0)], pkt.MsgKey + "0", pkt.MsgKey + " ", " " + pkt.MsgKey, other.MsgKey,
		strings.Repeat("0", 32), pkt.MsgKey[min(1, len(pkt.MsgKey)):] + pkt.MsgKey[:min(1, len(pkt.MsgKey))], pkt.MsgKey + "\x00"}
	seenKey := map[string]bool{pkt.MsgKey: true}
	for i, k := range keyShapes {
		if seenKey[k] {
			continue
		}
		seenKey[k] = true
		c := clone()
		c.MsgKey = k
		emit(c25Tamper{Kind: "msgkey-shape", Index: i, Value: k}, c)
	}
	// (5) covered header fields, one at a time
	seqs := append([]uint64{pkt.ClientSeq + 1, pkt.ClientSeq - 1, pkt.ClientSeq * 10, pkt.ClientSeq ^ (1 << 32)}, c25Seqs...)
	seenSeq := map[uint64]bool{pkt.ClientSeq: true}
	for i, q := range seqs {
		if seenSeq[q] {
			continue
		}
		seenSeq[q] = true
		c := clone()
		c.ClientSeq = q
		emit(c25Tamper{Kind: "header-ClientSeq", Index: i, Value: fmt.Sprint(q)}, c)
	}
	strField := func(kind, cur string, menu []string, set func(*frame.SendPacket, string)) {
		vals := append([]string{cur + "0", "0" + cur, cur + cur}, menu...)
		if len(cur) > 0 {
			vals = append(vals, cur[:len(cur)-1], cur[1:], strings.ToUpper(cur))
		}
		seen := map[string]bool{cur: true}
		for i, v := range vals {
			if seen[v] {
				continue
			}
			seen[v] = true
			c := clone()
			set(c, v)
			emit(c25Tamper{Kind: kind, Index: i, Value: v}, c)
		}
		for bit := 0; bit < len(cur)*8; bit++ {
			b := []byte(cur)
			b[bit/8] ^= 1 << (bit % 8)
			c := clone()
			set(c, string(b))
			emit(c25Tamper{Kind: kind + "-bit", Index: bit}, c)
		}
	}
	strField("header-ClientMsgNo", pkt.ClientMsgNo, c25MsgNos, func(p *frame.SendPacket, v string) { p.ClientMsgNo = v })
	strField("header-ChannelID", pkt.ChannelID, c25Channels, func(p *frame.SendPacket, v string) { p.ChannelID = v })
	for t := 0; t < 256; t++ {
		if uint8(t) == pkt.ChannelType {
			continue
		}
		c := clone()
		c.ChannelType = uint8(t)
		emit(c25Tamper{Kind: "header-ChannelType", Index: t}, c)
	}
}

type c25Replay struct {
	Kind       string     `json:"kind"` // "handshake" | "payload" | "tamper"
	ClientSeed int        `json:"client_seed"`
	ServerSeed int        `json:"server_seed"`
	Length     int        `json:"length,omitempty"`
	Pattern    int        `json:"pattern,omitempty"`
	Send       *c25Send   `json:"send,omitempty"`
	Other      *c25Send   `json:"other_send,omitempty"`
	Tamper     *c25Tamper `json:"tamper,omitempty"`
	Thorough   bool       `json:"thorough,omitempty"`
	Edge       bool       `json:"edge_bits_only,omitempty"`
	System     string     `json:"section,omitempty"`
	Calls      []c25Call  `json:"calls,omitempty"` // kind "retention": the call sequence (c25_retain_test.go)
}

// c25CheckTampers runs the whole tamper neighbourhood of one packet; only != nil restricts it to one tamper (replay).
func c25CheckTampers(r *ev.R, e *ev.Enum, system string, edge bool, sess *c25Session, m c25Send, other c25Send, thorough bool, only *c25Tamper, kinds map[string]int64) {
	pkt, err := c25Seal(sess, m)
	otherPkt, err2 := c25Seal(sess, other)
	rp := func(t *c25Tamper) c25Replay {
		return c25Replay{Kind: "tamper", ClientSeed: sess.C, ServerSeed: sess.S, Send: &m, Other: &other, Tamper: t, Thorough: thorough, Edge: edge, System: system}
	}
	if err != nil || err2 != nil {
		r.Violation(ev.Violation{Fingerprint: "C25:client-seal-error", Message: fmt.Sprintf("sealing %+v: %v %v", m, err, err2), System: system, Replay: rp(nil)})
		return
	}
	// the untampered packet must be accepted and decrypt to the plaintext
	if only == nil || only.Kind == "none" {
		ok, v := c25Accepts(sess, pkt)
		if v == nil && !ok {
			v = &c25Viol{"C25:genuine-send-rejected", fmt.Sprintf("the untampered packet %+v (session %d/%d) fails validation", m, sess.C, sess.S)}
		}
		if v == nil {
			got, derr := wkprotoenc.DecryptPayloadWithCrypto(pkt.Payload, sess.server)
			if derr != nil || !c25Same(got, c25Payload(m.PlainLen, m.Pattern)) {
				v = &c25Viol{"C25:genuine-send-decrypt", fmt.Sprintf("the untampered packet %+v decrypts to %q, err %v", m, got, derr)}
			}
		}
		e.CaseByConstruction(true, "genuine-accepted")
		if v != nil {
			if only != nil {
				r.MarkReplayReproduced()
			}
			r.Violation(ev.Violation{Fingerprint: v.fp, Message: v.msg, System: system, Replay: rp(&c25Tamper{Kind: "none"})})
		}
	}
	c25Tampers(pkt, otherPkt, edge, func(t c25Tamper, tampered *frame.SendPacket) {
		if only != nil && (only.Kind != t.Kind || only.Index != t.Index) {
			return
		}
		ok, v := c25Accepts(sess, tampered)
		out := "rejected"
		if v == nil && ok {
			out = "ACCEPTED"
			v = &c25Viol{"C25:tampered-" + t.Kind + "-accepted", fmt.Sprintf("session %d/%d, SEND %+v: after tamper %s #%d %s the packet {ClientSeq:%d ClientMsgNo:%q ChannelID:%q ChannelType:%d MsgKey:%q Payload:%q} still validates (genuine MsgKey %q, Payload %q)",
				sess.C, sess.S, m, t.Kind, t.Index, t.Value, tampered.ClientSeq, tampered.ClientMsgNo, tampered.ChannelID, tampered.ChannelType, tampered.MsgKey, tampered.Payload, pkt.MsgKey, pkt.Payload)}
		}
		if kinds != nil {
			kinds[t.Kind]++
		}
		e.CaseByConstruction(true, t.Kind+":"+out)
		if v != nil {
			if only != nil {
				fmt.Printf("replay: VIOLATES [%s] %s\n", v.fp, v.msg)
				r.MarkReplayReproduced()
			}
			tt := t
			r.Violation(ev.Violation{Fingerprint: v.fp, Message: v.msg, System: system, Replay: rp(&tt)})
		}
	})
}

// c25BoundaryShifts: informational. SendMsgKey concatenates the signed fields without separators,
// so moving bytes across a field boundary (two fields change together) keeps the signature valid.
// This is outside C25's quantifier (single-field perturbations; payload / message key altered) and
// is only counted.
func c25BoundaryShifts(r *ev.R, sess *c25Session) {
	e := r.NewEnum("send-field-boundary-shift(informational)")
	type pair struct{ a, b frame.SendPacket }
	pairs := []pair{
		{frame.SendPacket{ClientSeq: 1, ClientMsgNo: "2x", ChannelID: "g1", ChannelType: 2}, frame.SendPacket{ClientSeq: 12, ClientMsgNo: "x", ChannelID: "g1", ChannelType: 2}},
		{frame.SendPacket{ClientSeq: 7, ClientMsgNo: "ab", ChannelID: "cd", ChannelType: 2}, frame.SendPacket{ClientSeq: 7, ClientMsgNo: "a", ChannelID: "bcd", ChannelType: 2}},
		{frame.SendPacket{ClientSeq: 7, ClientMsgNo: "m", ChannelID: "u1", ChannelType: 2}, frame.SendPacket{ClientSeq: 7, ClientMsgNo: "m", ChannelID: "u", ChannelType: 12}},
	}
	accepted := int64(0)
	for _, p := range pairs {
		a := p.a
		a.Payload, _ = wkprotoenc.EncryptPayloadWithCrypto([]byte("hello"), sess.client)
		a.MsgKey, _ = wkprotoenc.SendMsgKeyWithCrypto(&a, sess.client)
		b := p.b
		b.Payload, b.MsgKey = a.Payload, a.MsgKey
		ok, _ := c25Accepts(sess, &b)
		out := "rejected"
		if ok {
			out = "accepted(two-field shift keeps the signed string)"
			accepted++
		}
		e.CaseByConstruction(true, out)
	}
	e.Done(true, map[string]any{"pairs": len(pairs)}, "NOT an oracle: two-field boundary shifts of the separator-less signed string; recorded as a limit of the scheme")
	r.Count("boundary_shift_pairs_accepted_informational", accepted)
}

// c25BoundarySeqs: every power of ten with its neighbours, the ends of the x00..x09 ranges
// (109/110, 1099/1100, ...) and the binary limits, up to the type's maximum.
func c25BoundarySeqs() []uint64 {
	set := map[uint64]bool{0: true, 1: true, 9: true, 1<<31 - 1: true, 1 << 31: true, 1<<32 - 1: true, 1 << 32: true, 1<<63 - 1: true, 1 << 63: true, 1<<64 - 1: true, 1<<64 - 2: true}
	p := uint64(1)
	for k := 1; k <= 19; k++ {
		p *= 10
		for _, v := range []uint64{p - 1, p, p + 1, p + p/10 - 1, p + p/10, p + 9, p + 10} {
			set[v] = true
		}
	}
	var out []uint64
	for v := range set {
		out = append(out, v)
	}
	sort.Slice(out, func(i, j int) bool { return out[i] < out[j] })
	return out
}

// c25DecimalBoundaries: the signed string contains ClientSeq and ChannelType in decimal, so their
// decimal lengths decide where the payload starts and ends inside it. Every boundary ClientSeq x
// every ChannelType (and every boundary length of the two string fields): flipping any bit of the
// first / last bytes of the ciphertext must still be detected.
func c25DecimalBoundaries(r *ev.R, sessions []*c25Session, th bool) {
	const system = "send-tamper-decimal-boundaries"
	e := r.NewEnum(system)
	seqs := c25BoundarySeqs()
	typeEdges := []uint8{0, 1, 2, 9, 10, 11, 19, 20, 99, 100, 101, 109, 110, 199, 200, 255}
	kinds := map[string]int64{}
	packets := 0
	run := func(sess *c25Session, m c25Send, edge bool) {
		other := m
		other.PlainLen += 16
		c25CheckTampers(r, e, system, edge, sess, m, other, th, nil, kinds)
		packets++
	}
	for si, sess := range sessions {
		// (A) ClientSeq x ChannelType
		for _, q := range seqs {
			if !th && q > 1<<32 {
				// quick: sequence numbers beyond the 32-bit wire field only with the boundary channel types
				for _, t := range typeEdges {
					run(sess, c25Send{q, "m1", "g1", t, 17, 2}, true)
				}
				continue
			}
			for t := 0; t < 256; t++ {
				run(sess, c25Send{q, "m1", "g1", uint8(t), 17, 2}, true)
			}
		}
		// (B) boundary lengths of the string fields (incl. signed strings around the 256-byte scratch size)
		for _, ml := range []int{0, 1, 9, 10, 99, 100, 180, 200, 220, 255, 256, 1000} {
			for _, cl := range []int{1, 10, 100} {
				for _, q := range []uint64{0, 10, 100} {
					for _, t := range []uint8{2, 10, 100} {
						run(sess, c25Send{q, strings.Repeat("n", ml), strings.Repeat("c", cl), t, 17, 2}, true)
					}
				}
			}
		}
		// (C) the complete tamper neighbourhood on the boundary x boundary menu with three payload sizes
		if th || si == 0 {
			for _, q := range seqs {
				if !th && q > 11000 && q != 1<<32-1 {
					continue
				}
				for _, t := range typeEdges {
					if !th && t != 2 && t != 10 && t != 100 {
						continue
					}
					for li, l := range []int{0, 16, 33} {
						run(sess, c25Send{q, "m1", "g1", t, l, li}, false)
					}
				}
			}
		}
	}
	b := map[string]any{"sessions": len(sessions), "client_seqs": len(seqs), "client_seq_max": seqs[len(seqs)-1], "channel_types": 256, "channel_type_edges": typeEdges, "packets": packets}
	for k, n := range kinds {
		b["tampers_"+k] = n
	}
	e.Done(true, b, "(A) every boundary ClientSeq (10^k and neighbours, x09/x10 range ends, 2^31, 2^32, 2^63, 2^64-1) x all 256 ChannelType values, (B) boundary lengths of ClientMsgNo / ChannelID: every bit of the first 2 / last 4 base64 bytes and first 2 / last 2 raw ciphertext bytes; (C) boundary x boundary menu x 3 payload sizes: the complete tamper neighbourhood")
	r.Guard("decimal-boundaries-genuine-accepted", e.Outcome("genuine-accepted") == int64(packets) && packets >= 10000, "genuine packets accepted: %d of %d", e.Outcome("genuine-accepted"), packets)
	r.Guard("decimal-boundaries-last-bytes", e.Outcome("ciphertext-text-bit:rejected") >= int64(packets)*48 && e.Outcome("ciphertext-raw-bit:rejected") >= int64(packets)*32,
		"edge ciphertext bits rejected: text %d raw %d for %d packets", e.Outcome("ciphertext-text-bit:rejected"), e.Outcome("ciphertext-raw-bit:rejected"), packets)
	r.Sample(map[string]any{"case": "decimal boundary tamper", "send": c25Send{100, "m1", "g1", 10, 17, 2}, "tamper": "last bit of the last base64 byte", "outcome": "rejected"})
}

func TestVerifC25(t *testing.T) {
	r := ev.Start(t, "C25")
	defer r.Finish()
	th := r.Thorough()

	if rf := r.Replay(); rf != nil {
		var rp c25Replay
		if err := json.Unmarshal(rf.Replay, &rp); err != nil {
			r.HarnessError("replay: %v", err)
			return
		}
		if rp.Kind == "retention" {
			c25RetainReplay(r, rp)
			r.Sample(rp)
			return
		}
		e := r.NewEnum("replay")
		sess, out, v := c25Handshake(rp.ClientSeed, rp.ServerSeed)
		fmt.Printf("replay handshake %d/%d -> %s\n", rp.ClientSeed, rp.ServerSeed, out)
		switch {
		case v != nil:
			e.CaseByConstruction(true, out)
		case rp.Kind == "payload":
			out, v = c25CheckPayload(sess, rp.Length, rp.Pattern)
			fmt.Printf("replay payload length %d pattern %d -> %s\n", rp.Length, rp.Pattern, out)
			e.CaseByConstruction(true, out)
		case rp.Kind == "tamper" && rp.Send != nil:
			other := *rp.Send
			other.PlainLen, other.Pattern = rp.Send.PlainLen+16, rp.Send.Pattern+1
			if rp.Other != nil {
				other = *rp.Other
			}
			c25CheckTampers(r, e, rf.System, rp.Edge, sess, *rp.Send, other, rp.Thorough, rp.Tamper, nil)
		default:
			e.CaseByConstruction(true, out)
		}
		e.Done(true, nil, "replay")
		r.Sample(rp)
		if v != nil {
			fmt.Printf("replay: VIOLATES [%s] %s\n", v.fp, v.msg)
			r.MarkReplayReproduced()
			r.Violation(ev.Violation{Fingerprint: v.fp, Message: v.msg, System: rf.System, Replay: rp})
		}
		return
	}

	// ---- call sequences with retained results: first, while the process state is fresh
	c25RetainSection(r)

	// ---- key agreement: 16 x 16 seeds
	e1 := r.NewEnum("key-agreement")
	sessions := map[[2]int]*c25Session{}
	distinctKeys := map[string]bool{}
	distinctIVs := map[string]bool{}
	for c := 0; c < 16; c++ {
		for s := 0; s < 16; s++ {
			sess, out, v := c25Handshake(c, s)
			e1.CaseByConstruction(true, out)
			if v != nil {
				r.Violation(ev.Violation{Fingerprint: v.fp, Message: v.msg, System: "key-agreement", Replay: c25Replay{Kind: "handshake", ClientSeed: c, ServerSeed: s}})
				continue
			}
			sessions[[2]int{c, s}] = sess
			distinctKeys[string(sess.serverKeys.AESKey)] = true
			distinctIVs[string(sess.serverKeys.AESIV)] = true
			if c == 5 && s == 9 {
				r.Sample(map[string]any{"case": "handshake", "client_seed": c, "server_seed": s, "aes_key": string(sess.serverKeys.AESKey), "aes_iv": string(sess.serverKeys.AESIV), "outcome": out})
			}
		}
	}
	e1.Done(true, map[string]any{"client_seeds": 16, "server_seeds": 16}, "every (client scalar seed, server randomness seed) pair through the real NegotiateServerSession / DeriveClientSession")
	r.Guard("key-agreement-distinct-keys", len(distinctKeys) >= 200 && len(distinctIVs) == 16, "distinct AES keys %d (of 256 pairs), distinct IVs %d (of 16 server seeds)", len(distinctKeys), len(distinctIVs))

	// malformed client keys: no panic, keys xor error
	e1b := r.NewEnum("key-agreement-malformed-client-key")
	zero32 := base64.StdEncoding.EncodeToString(make([]byte, 32))
	one32 := base64.StdEncoding.EncodeToString(append([]byte{1}, make([]byte, 31)...))
	for i, ck := range []string{"", "not base64!", base64.StdEncoding.EncodeToString(make([]byte, 31)), base64.StdEncoding.EncodeToString(make([]byte, 33)), zero32, one32,
		base64.RawStdEncoding.EncodeToString(bytes.Repeat([]byte{7}, 32)), base64.URLEncoding.EncodeToString(bytes.Repeat([]byte{0xFB}, 32))} {
		var keys wkprotoenc.SessionKeys
		var sk string
		var err error
		if p := ev.Recover(func() { keys, sk, _, err = c25Negotiate(4, ck) }); p != nil {
			r.Violation(ev.Violation{Fingerprint: "C25:negotiate-panic", Message: fmt.Sprintf("NegotiateServerSession(%q): %v", ck, p), System: "key-agreement-malformed-client-key", Replay: c25Replay{Kind: "handshake", ClientSeed: -1 - i, ServerSeed: 4}})
			continue
		}
		out := "error"
		if err == nil {
			out = "keys"
			if len(keys.AESKey) < 16 || len(keys.AESIV) < 16 || sk == "" {
				r.Violation(ev.Violation{Fingerprint: "C25:negotiated-keys-unusable", Message: fmt.Sprintf("NegotiateServerSession(%q) = %+v, %q without error", ck, keys, sk), System: "key-agreement-malformed-client-key", Replay: c25Replay{Kind: "handshake", ClientSeed: -1 - i, ServerSeed: 4}})
			}
		}
		e1b.CaseByConstruction(true, out)
	}
	e1b.Done(true, nil, "malformed / low-order client public keys: no panic, usable keys or an error")
	r.Guard("malformed-client-keys-rejected", e1b.Outcome("error") >= 5, "malformed client keys rejected: %d", e1b.Outcome("error"))

	// the sessions used further on
	var use []*c25Session
	for c := 0; c < 16; c++ {
		for s := 0; s < 16; s++ {
			if sess := sessions[[2]int{c, s}]; sess != nil && (th || (c+s)%16 == 3 && c%4 == 0) {
				use = append(use, sess)
			}
		}
	}

	// ---- payload round trip
	e2 := r.NewEnum("payload-roundtrip")
	lengths := []int{}
	for l := 0; l <= ev.Pick(r, 48, 80); l++ {
		lengths = append(lengths, l)
	}
	lengths = append(lengths, 255, 256, 257, 1023, 1024, 1025)
	if th {
		lengths = append(lengths, 4095, 4096, 65535, 65536, 65537)
	}
	for _, sess := range use {
		for _, l := range lengths {
			for p := 0; p < c25Patterns; p++ {
				if th && l > 4096 && sess.C != sess.S {
					continue // the long payloads only on the 16 diagonal sessions
				}
				out, v := c25CheckPayload(sess, l, p)
				e2.CaseByConstruction(true, out)
				if v != nil {
					r.Violation(ev.Violation{Fingerprint: v.fp, Message: v.msg[:min(len(v.msg), 1500)], System: "payload-roundtrip", Replay: c25Replay{Kind: "payload", ClientSeed: sess.C, ServerSeed: sess.S, Length: l, Pattern: p}})
				}
			}
		}
	}
	e2.Done(true, map[string]any{"sessions": len(use), "lengths": fmt.Sprintf("0..%d + %v", ev.Pick(r, 48, 80), lengths[ev.Pick(r, 49, 81):]), "patterns": c25Patterns},
		"every session x payload length x content pattern; client->server, server->client, SealRecvPacket->client; keys and cached-crypto API variants")
	r.Sample(map[string]any{"case": "payload", "session": fmt.Sprintf("%d/%d", use[0].C, use[0].S), "length": 16, "pattern": 4, "note": "16 bytes of 0x10 (looks like a padding block) round-trips through a 32-byte ciphertext"})
	r.Guard("payload-block-boundaries", e2.Outcome("roundtrip-ok/blocks=1") > 0 && e2.Outcome("roundtrip-ok/blocks=2") > 0 && e2.Outcome("roundtrip-ok/blocks=3") > 0 && e2.Outcome("roundtrip-ok/blocks=4") > 0,
		"round trips with 1/2/3/4 cipher blocks: %d/%d/%d/%d", e2.Outcome("roundtrip-ok/blocks=1"), e2.Outcome("roundtrip-ok/blocks=2"), e2.Outcome("roundtrip-ok/blocks=3"), e2.Outcome("roundtrip-ok/blocks=4"))

	// ---- SEND tamper
	e3 := r.NewEnum("send-tamper")
	menu := c25SendMenu(th)
	tamperSessions := use
	if len(tamperSessions) > ev.Pick(r, 2, 8) {
		// thorough: 8 sessions spread over the seed square
		step := len(tamperSessions) / ev.Pick(r, 2, 8)
		var pick []*c25Session
		for i := 0; i < len(tamperSessions) && len(pick) < ev.Pick(r, 2, 8); i += step {
			pick = append(pick, tamperSessions[i])
		}
		tamperSessions = pick
	}
	kinds := map[string]int64{}
	for _, sess := range tamperSessions {
		for i, m := range menu {
			other := menu[(i+1)%len(menu)]
			if other.PlainLen == m.PlainLen && other.Pattern == m.Pattern {
				other.PlainLen += 16
			}
			c25CheckTampers(r, e3, "send-tamper", false, sess, m, other, th, nil, kinds)
		}
	}
	b3 := map[string]any{"sessions": len(tamperSessions), "send_packets": len(menu), "client_seqs": c25Seqs, "client_msg_nos": c25MsgNos, "channel_ids": c25Channels}
	for k, n := range kinds {
		b3["tampers_"+k] = n
	}
	e3.Done(true, b3, "every sealed SEND of the menu x {every bit of the base64 ciphertext, every bit of the raw ciphertext, payload shapes, every bit of the message key, message-key shapes, every covered header field changed to another value (incl. every bit of the string fields and all 255 other channel types)}; oracle: ValidateSendPacket and ValidateSendPacketWithCrypto fail")
	r.Guard("send-tamper-genuine-accepted", e3.Outcome("genuine-accepted") == int64(len(menu)*len(tamperSessions)), "genuine packets accepted: %d of %d", e3.Outcome("genuine-accepted"), len(menu)*len(tamperSessions))
	r.Guard("send-tamper-kinds", len(kinds) >= 18 && e3.Outcome("ciphertext-text-bit:rejected") > 1000 && e3.Outcome("msgkey-bit:rejected") > 1000, "tamper kinds %d, ciphertext bits rejected %d, message-key bits rejected %d",
		len(kinds), e3.Outcome("ciphertext-text-bit:rejected"), e3.Outcome("msgkey-bit:rejected"))
	sm := menu[len(menu)/2]
	r.Sample(map[string]any{"case": "tamper", "session": fmt.Sprintf("%d/%d", tamperSessions[0].C, tamperSessions[0].S), "send": sm, "tamper": "ciphertext-raw-bit #0", "outcome": "rejected (ErrMsgKeyMismatch)"})

	c25DecimalBoundaries(r, tamperSessions[:ev.Pick(r, 1, 2)], th)

	c25BoundaryShifts(r, use[0])

	r.Assume("crypto/rand.Reader is replaced by a seeded deterministic stream while NegotiateServerSession runs, so the server key pair and IV are functions of the seed (no randomness is drawn by the harness)")
	r.Assume("tamper evidence is decided by ValidateSendPacket / ValidateSendPacketWithCrypto on one changed field at a time; MD5 collisions are outside the menus")
	r.Assume("functional correctness and tamper evidence on the menus only - no claim about cryptographic strength (AES-CBC with a per-session fixed IV, MD5 message key, separator-less signed string)")
}
