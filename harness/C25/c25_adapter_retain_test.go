package wkproto_test

// C25 retention section (gateway adapter level): ONE adapter, long-lived sessions of two key
// sets, short call sequences whose results are kept and read afterwards.
//
// The other adapter sections use a fresh adapter and session per case and consume the result at
// once. Here every ordered pair (and every triple of a reduced menu) of adapter calls is run on
// one goroutine - RECV written through Adapter.Encode on an encrypted session (cached-crypto and
// raw-key session modes, with and without SettingNoEncrypt), a SENDACK written through Encode,
// a genuine and a tampered client SEND read through Adapter.Decode, and the failing forms
// (encrypted session without keys, RECV whose MessageSeq does not fit the legacy wire format on a
// version-5 session - the frame encoder fails after the payload was sealed and part of the frame
// written -, undecodable SEND body). After the whole sequence and a fixed drain:
//   - every written frame is byte-identical to what the identical call wrote on the fresh state
//     and to what it was when returned; decoded by the client codec and opened with the client's
//     keys it yields the original payload;
//   - every decoded SEND still carries the original plaintext; a tampered SEND is rejected.
// GOMAXPROCS is pinned to 1 for the section (pool hand-over on one P is deterministic).

import (
	"bytes"
	"fmt"
	"runtime"
	"strings"

	"github.com/WuKongIM/WuKongIM/pkg/gateway"
	adapterpkg "github.com/WuKongIM/WuKongIM/pkg/gateway/protocol/wkproto"
	"github.com/WuKongIM/WuKongIM/pkg/gateway/session"
	codec "github.com/WuKongIM/WuKongIM/pkg/protocol/codec"
	"github.com/WuKongIM/WuKongIM/pkg/protocol/frame"
	"github.com/WuKongIM/WuKongIM/pkg/protocol/wkprotoenc"
	"github.com/WuKongIM/WuKongIM/pkg/zzverif/ev"
)

type c25aCall struct {
	Kind string `json:"kind"`
	Key  int    `json:"key_set"`
	Mode string `json:"mode"`
	Len  int    `json:"plain_len"`
}

func (c c25aCall) String() string {
	return fmt.Sprintf("%s(key set %d, %s session, %d bytes)", c.Kind, c.Key, c.Mode, c.Len)
}

var c25aRetJudgedKinds = []string{"encode-recv", "encode-recv-noencrypt", "encode-sendack", "decode-send", "decode-send-tampered"}
var c25aRetOtherKinds = []string{"encode-recv-nokeys", "encode-recv-seq-overflow-v5", "decode-send-garbage"}
var c25aRetLens = []int{0, 16, 33}

func c25aRetJudged(k string) bool {
	for _, x := range c25aRetJudgedKinds {
		if x == k {
			return true
		}
	}
	return false
}

type c25aRes struct {
	class  string
	wire   []byte // Encode result (the returned slice itself)
	snap   []byte
	frames []frame.Frame
	n      int
}

type c25aRetIn struct {
	plain    []byte
	recv     *frame.RecvPacket
	recvNoE  *frame.RecvPacket
	recvBig  *frame.RecvPacket
	sendWire []byte
	badWire  []byte
	garbage  []byte
	send     *frame.SendPacket
}

type c25aRetain struct {
	r      *ev.R
	e      *ev.Enum
	ad     *adapterpkg.Adapter
	sess   map[[2]string]session.Session // (key index, mode) ; modes "crypto" "keys" "nokeys" "v5"
	sc     [2]*wkprotoenc.SessionCrypto
	in     map[[2]int]*c25aRetIn // (key index, length)
	refs   map[c25aCall][]byte
	stop   bool
	first  map[string]int64
	client *codec.WKProto
	// the connection's read buffer: every Decode input is placed here and the buffer is
	// overwritten as soon as Decode returned (the adapter declares OwnsDecodedFrames: "decoded
	// frames and payload bytes stay valid and immutable after Decode returns")
	readBuf []byte
}

func c25aRetSession(k c25aKeys, mode string) (session.Session, *wkprotoenc.SessionCrypto, error) {
	keys := wkprotoenc.SessionKeys{AESKey: []byte(k.Key), AESIV: []byte(k.IV)}
	sc, err := wkprotoenc.NewSessionCrypto(keys)
	if err != nil {
		return nil, nil, err
	}
	sess := session.New(session.Config{ID: 7, Listener: "verif", RemoteAddr: "r", LocalAddr: "l"})
	version := uint8(frame.LatestVersion)
	if mode == "v5" {
		version = uint8(frame.LegacyMessageSeqVersion)
	}
	sess.SetValue(gateway.SessionValueProtocolVersion, version)
	sess.SetValue(gateway.SessionValueEncryptionEnabled, true)
	if mode != "nokeys" {
		sess.SetValue(gateway.SessionValueAESKey, keys.AESKey)
		sess.SetValue(gateway.SessionValueAESIV, keys.AESIV)
	}
	if mode == "crypto" || mode == "v5" {
		sess.SetValue(gateway.SessionValueCrypto, sc)
	}
	return sess, sc, nil
}

func c25aRetainNew(r *ev.R) *c25aRetain {
	h := &c25aRetain{r: r, ad: adapterpkg.New(), sess: map[[2]string]session.Session{}, in: map[[2]int]*c25aRetIn{}, refs: map[c25aCall][]byte{}, first: map[string]int64{}, client: codec.New(), readBuf: make([]byte, 4096)}
	for ki := 0; ki < 2; ki++ {
		k := c25aKeySets[ki]
		for _, mode := range []string{"crypto", "keys", "nokeys", "v5"} {
			sess, sc, err := c25aRetSession(k, mode)
			if err != nil {
				r.HarnessError("retention: session: %v", err)
				return nil
			}
			h.sess[[2]string{fmt.Sprint(ki), mode}] = sess
			h.sc[ki] = sc
		}
		for li, l := range c25aRetLens {
			in := &c25aRetIn{plain: c25aPlain(l)}
			if ki == 1 { // other content for the other key set
				in.plain = bytes.ToUpper(append([]byte(nil), in.plain...))
			}
			base := frame.RecvPacket{MessageID: int64(100*ki + l), MessageSeq: uint64(3 + li), ClientMsgNo: fmt.Sprintf("m%d-%d", ki, l), Timestamp: 1700000000, FromUID: fmt.Sprintf("u%d", ki), ChannelID: fmt.Sprintf("g%d", li), ChannelType: 2}
			r1, r2, r3 := base, base, base
			r1.Payload = append([]byte(nil), in.plain...)
			r2.Payload = append([]byte(nil), in.plain...)
			r2.Setting = r2.Setting.Set(frame.SettingNoEncrypt)
			r3.Payload = append([]byte(nil), in.plain...)
			r3.MessageSeq = 1 << 32
			in.recv, in.recvNoE, in.recvBig = &r1, &r2, &r3
			pkt, err := c25aSeal(h.sc[ki], c25aSend{ClientSeq: uint64(5 + li), ClientMsgNo: fmt.Sprintf("s%d", l), ChannelID: "g1", ChannelType: uint8(1 + ki), PlainLen: 0})
			if err == nil {
				// c25aSeal encrypts c25aPlain(PlainLen); seal this section's plaintext instead
				var enc []byte
				enc, err = wkprotoenc.EncryptPayloadWithCrypto(in.plain, h.sc[ki])
				pkt.Payload = append([]byte(nil), enc...)
				if err == nil {
					var key string
					key, err = wkprotoenc.SendMsgKeyWithCrypto(pkt, h.sc[ki])
					pkt.MsgKey = strings.Clone(key)
				}
			}
			if err != nil {
				r.HarnessError("retention: sealing SEND: %v", err)
				return nil
			}
			in.send = pkt
			w, err := h.client.EncodeFrame(pkt, frame.LatestVersion)
			if err != nil {
				r.HarnessError("retention: encoding SEND: %v", err)
				return nil
			}
			in.sendWire = append(make([]byte, 0, len(w)), w...)
			bad := *pkt
			kb := []byte(bad.MsgKey)
			kb[0] ^= 0x01
			bad.MsgKey = string(kb)
			w, err = h.client.EncodeFrame(&bad, frame.LatestVersion)
			if err != nil {
				r.HarnessError("retention: encoding SEND: %v", err)
				return nil
			}
			in.badWire = append(make([]byte, 0, len(w)), w...)
			in.garbage = []byte{byte(frame.SEND) << 4, 0x03, 0x00, 0x00, 0x00}
			h.in[[2]int{ki, l}] = in
		}
	}
	// fresh-state references of the writing calls (successful calls only)
	for _, kind := range []string{"encode-recv", "encode-recv-noencrypt", "encode-sendack"} {
		for ki := 0; ki < 2; ki++ {
			for _, mode := range []string{"crypto", "keys"} {
				for _, l := range c25aRetLens {
					c := c25aCall{kind, ki, mode, l}
					res := h.run(c)
					if res.class != "ok" {
						r.Violation(ev.Violation{Fingerprint: "C25:adapter-history:" + kind + "-fails-on-fresh-state", Message: fmt.Sprintf("%v on the fresh state: %s", c, res.class), System: "adapter-retention", Replay: c25aReplay{Kind: "retention", Calls: []c25aCall{c}}})
						return nil
					}
					h.refs[c] = res.snap
				}
			}
		}
	}
	return h
}

func (h *c25aRetain) run(c c25aCall) (res c25aRes) {
	in := h.in[[2]int{c.Key, c.Len}]
	sess := h.sess[[2]string{fmt.Sprint(c.Key), c.Mode}]
	var err error
	if p := ev.Recover(func() {
		switch c.Kind {
		case "encode-recv":
			res.wire, err = h.ad.Encode(sess, in.recv, session.OutboundMeta{})
		case "encode-recv-noencrypt":
			res.wire, err = h.ad.Encode(sess, in.recvNoE, session.OutboundMeta{})
		case "encode-sendack":
			res.wire, err = h.ad.Encode(sess, &frame.SendackPacket{MessageID: int64(9000 + c.Len), MessageSeq: uint64(c.Len), ClientSeq: uint64(c.Key), ClientMsgNo: fmt.Sprintf("ack-%d", c.Len), ReasonCode: frame.ReasonSuccess}, session.OutboundMeta{})
		case "decode-send":
			res.frames, res.n, err = h.ad.Decode(sess, h.read(in.sendWire))
		case "decode-send-tampered":
			res.frames, res.n, err = h.ad.Decode(sess, h.read(in.badWire))
		case "encode-recv-nokeys":
			res.wire, err = h.ad.Encode(h.sess[[2]string{fmt.Sprint(c.Key), "nokeys"}], in.recv, session.OutboundMeta{})
		case "encode-recv-seq-overflow-v5":
			res.wire, err = h.ad.Encode(h.sess[[2]string{fmt.Sprint(c.Key), "v5"}], in.recvBig, session.OutboundMeta{})
		case "decode-send-garbage":
			res.frames, res.n, err = h.ad.Decode(sess, h.read(in.garbage))
		default:
			panic("harness: unknown call kind " + c.Kind)
		}
	}); p != nil {
		return c25aRes{class: "panic:" + p.Error()}
	}
	res.class = "ok"
	if err != nil {
		res.class = "err"
	}
	res.snap = append([]byte(nil), res.wire...)
	if h.ad.OwnsDecodedFrames() {
		for i := range h.readBuf {
			h.readBuf[i] = 0xEE // the connection reads the next bytes into the same buffer
		}
	}
	return res
}

// read places wire bytes into the shared read buffer.
func (h *c25aRetain) read(wire []byte) []byte {
	b := h.readBuf[:len(wire):len(wire)]
	copy(b, wire)
	return b
}

func (h *c25aRetain) atReturn(c c25aCall, res c25aRes, hist string) *c25aViol {
	if !c25aRetJudged(c.Kind) {
		return nil
	}
	if c.Kind == "decode-send-tampered" {
		if res.class == "ok" && len(res.frames) > 0 {
			return &c25aViol{"C25:adapter-history:tampered-send-accepted", fmt.Sprintf("%v after [%s]: Decode returned %d frame(s) for a SEND with a flipped message-key bit", c, hist, len(res.frames))}
		}
		return nil
	}
	if res.class != "ok" {
		return &c25aViol{"C25:adapter-history:" + c.Kind + "-fails-after-other-calls", fmt.Sprintf("%v after [%s]: %s; on the fresh state it succeeds", c, hist, res.class)}
	}
	if ref, ok := h.refs[c]; ok && !bytes.Equal(res.snap, ref) {
		return &c25aViol{"C25:adapter-history:" + c.Kind + "-result-depends-on-earlier-calls", fmt.Sprintf("%v after [%s] wrote %d bytes %x; on the fresh state the identical call wrote %d bytes %x", c, hist, len(res.snap), res.snap[:min(len(res.snap), 80)], len(ref), ref[:min(len(ref), 80)])}
	}
	return nil
}

func (h *c25aRetain) later(c c25aCall, res c25aRes, after string) *c25aViol {
	if !c25aRetJudged(c.Kind) || res.class != "ok" {
		return nil
	}
	in := h.in[[2]int{c.Key, c.Len}]
	switch c.Kind {
	case "encode-recv", "encode-recv-noencrypt", "encode-sendack":
		if !bytes.Equal(res.wire, res.snap) {
			return &c25aViol{"C25:adapter-retained-frame-overwritten-by-later-call", fmt.Sprintf("the frame written by %v was %x...; after the later calls [%s] the same slice holds %x...", c, res.snap[:min(len(res.snap), 64)], after, res.wire[:min(len(res.wire), 64)])}
		}
		if c.Kind == "encode-sendack" {
			return nil
		}
		f, n, err := h.client.DecodeFrame(append([]byte(nil), res.wire...), frame.LatestVersion)
		got, ok := f.(*frame.RecvPacket)
		if err != nil || !ok || n != len(res.wire) {
			return &c25aViol{"C25:adapter-recv-undecodable", fmt.Sprintf("%v read after [%s]: the client cannot decode the RECV frame (n=%d of %d, err %v)", c, after, n, len(res.wire), err)}
		}
		plain := got.Payload
		if c.Kind == "encode-recv" {
			if plain, err = wkprotoenc.DecryptPayloadWithCrypto(got.Payload, h.sc[c.Key]); err != nil {
				return &c25aViol{"C25:adapter-recv-roundtrip", fmt.Sprintf("%v read after [%s]: the client cannot decrypt the RECV payload %q: %v", c, after, got.Payload, err)}
			}
		}
		if !bytes.Equal(plain, in.plain) || got.MessageID != in.recv.MessageID || got.ChannelID != in.recv.ChannelID || got.FromUID != in.recv.FromUID {
			return &c25aViol{"C25:adapter-recv-roundtrip", fmt.Sprintf("%v read after [%s]: the client obtains message %d payload %q, want message %d payload %q", c, after, got.MessageID, plain, in.recv.MessageID, in.plain)}
		}
	case "decode-send":
		if len(res.frames) != 1 || res.n != len(in.sendWire) {
			return &c25aViol{"C25:adapter-genuine-send-rejected", fmt.Sprintf("%v: %d frames, consumed %d of %d", c, len(res.frames), res.n, len(in.sendWire))}
		}
		sp, ok := res.frames[0].(*frame.SendPacket)
		if !ok || !bytes.Equal(sp.Payload, in.plain) || sp.ClientMsgNo != in.send.ClientMsgNo || sp.ChannelID != in.send.ChannelID || sp.ClientSeq != in.send.ClientSeq {
			return &c25aViol{"C25:adapter-retained-send-plaintext-changed", fmt.Sprintf("%v read after [%s]: the decoded SEND carries payload %q (ClientMsgNo %q), want %q (%q)", c, after, sp.Payload, sp.ClientMsgNo, in.plain, in.send.ClientMsgNo)}
		}
	}
	return nil
}

var c25aRetDrain = []c25aCall{{"encode-recv", 1, "crypto", 33}, {"decode-send", 0, "keys", 16}, {"encode-sendack", 0, "crypto", 0}}

func (h *c25aRetain) sequence(seq []c25aCall) *c25aViol {
	var resv [3]c25aRes
	var viol *c25aViol
	var names []string
	failed := false
	for i, c := range seq {
		res := h.run(c)
		resv[i] = res
		if viol == nil {
			viol = h.atReturn(c, res, strings.Join(names, ", "))
		}
		if i < len(seq)-1 && res.class != "ok" {
			failed = true
		}
		names = append(names, c.Kind+":"+strings.SplitN(res.class, ":", 2)[0])
	}
	for _, d := range c25aRetDrain {
		dres := h.run(d)
		if viol == nil {
			if v := h.atReturn(d, dres, strings.Join(names, ", ")); v != nil {
				v.msg = "drain call " + v.msg
				viol = v
			}
		}
		if viol == nil {
			viol = h.later(d, dres, "nothing")
		}
	}
	for i, c := range seq {
		if viol != nil {
			break
		}
		rest := append(append([]string(nil), names[i+1:]...), "drain(encode-recv, decode-send, encode-sendack)")
		viol = h.later(c, resv[i], strings.Join(rest, ", "))
	}
	last := seq[len(seq)-1]
	label := last.Kind + ":" + strings.SplitN(resv[len(seq)-1].class, ":", 2)[0]
	if failed {
		label += " after failed call(s)"
	} else {
		label += " after clean history"
	}
	if viol != nil {
		label = "VIOLATION"
	}
	nontrivial := false
	for _, c := range seq {
		nontrivial = nontrivial || c25aRetJudged(c.Kind)
	}
	h.e.CaseByConstruction(nontrivial, label)
	h.first[seq[0].Kind]++
	if viol != nil {
		var ss []string
		for _, c := range seq {
			ss = append(ss, c.String())
		}
		viol.msg = "one adapter, sequence [" + strings.Join(ss, "; ") + "] then drain, then read the results: " + viol.msg
		h.r.Violation(ev.Violation{Fingerprint: viol.fp, Message: viol.msg[:min(len(viol.msg), 1800)], System: "adapter-retention", Replay: c25aReplay{Kind: "retention", Calls: append([]c25aCall(nil), seq...)}})
		h.stop = true
	}
	return viol
}

func c25aRetainReplay(r *ev.R, rp c25aReplay) {
	prev := runtime.GOMAXPROCS(1)
	defer runtime.GOMAXPROCS(prev)
	h := c25aRetainNew(r)
	if h == nil {
		if r.ViolationCount() > 0 {
			r.MarkReplayReproduced()
		}
		return
	}
	h.e = r.NewEnum("adapter-retention")
	ok := len(rp.Calls) >= 1 && len(rp.Calls) <= 3
	for _, c := range rp.Calls {
		if _, known := h.in[[2]int{c.Key, c.Len}]; !known || c.Mode != "crypto" && c.Mode != "keys" {
			ok = false
		}
	}
	if !ok {
		r.HarnessError("replay: bad call sequence %+v", rp.Calls)
		return
	}
	if v := h.sequence(rp.Calls); v != nil {
		fmt.Printf("replay: VIOLATES [%s] %s\n", v.fp, v.msg)
		r.MarkReplayReproduced()
	} else {
		fmt.Printf("replay: sequence %v holds\n", rp.Calls)
	}
	h.e.Done(true, nil, "replay")
}

func c25aRetainSection(r *ev.R) {
	prev := runtime.GOMAXPROCS(1)
	defer runtime.GOMAXPROCS(prev)
	h := c25aRetainNew(r)
	if h == nil {
		return
	}
	h.e = r.NewEnum("adapter-retention")
	th := r.Thorough()
	var menu, small []c25aCall
	for _, k := range append(append([]string(nil), c25aRetJudgedKinds...), c25aRetOtherKinds...) {
		for ki := 0; ki < 2; ki++ {
			for _, mode := range []string{"crypto", "keys"} {
				for _, l := range c25aRetLens {
					if !c25aRetJudged(k) && mode != "crypto" {
						continue // the failing forms pick their own session; no mode dimension
					}
					c := c25aCall{k, ki, mode, l}
					menu = append(menu, c)
					if l == 33 && (th || mode == "crypto") {
						small = append(small, c)
					}
				}
			}
		}
	}
	rot := int(uint64(r.Seed()) * 7919 % uint64(len(menu)))
	order := append(append([]c25aCall(nil), menu[rot:]...), menu[:rot]...)
	var pairs, triples int64
	for _, a := range order {
		for _, b := range menu {
			if h.stop {
				break
			}
			h.sequence([]c25aCall{a, b})
			pairs++
		}
	}
	for _, a := range small {
		for _, b := range small {
			for _, c := range small {
				if h.stop {
					break
				}
				h.sequence([]c25aCall{a, b, c})
				triples++
			}
		}
	}
	complete := !h.stop
	h.e.Done(complete, map[string]any{"call_kinds": append(append([]string(nil), c25aRetJudgedKinds...), c25aRetOtherKinds...), "key_sets": 2, "session_modes": []string{"crypto", "keys"}, "plain_lengths": c25aRetLens,
		"calls": len(menu), "pairs": pairs, "triple_calls": len(small), "triples": triples, "drain": c25aRetDrain, "gomaxprocs": 1},
		"one adapter and long-lived sessions: every ordered pair of calls of the menu and every triple of the reduced menu; written frames and decoded SENDs are kept while the later calls and a fixed drain run and are read afterwards (unchanged, equal to the fresh-state result, opening to the original plaintext with the client's keys)")
	var missing []string
	for _, k := range append(append([]string(nil), c25aRetJudgedKinds...), c25aRetOtherKinds...) {
		if h.first[k] == 0 {
			missing = append(missing, k)
		}
	}
	r.Guard("adapter-retention/all-call-kinds-first", len(missing) == 0 || !complete, "call kinds never first in a sequence: %v", missing)
	r.Guard("adapter-retention/outcomes", !complete || h.e.Outcome("encode-recv:ok after failed call(s)") > 0 && h.e.Outcome("decode-send-tampered:err after clean history") > 0 && h.e.Outcome("encode-recv-seq-overflow-v5:err after clean history") > 0 && h.e.Outcome("encode-recv-nokeys:err after clean history") > 0,
		"encode after failed calls %d, tampered rejected %d, legacy seq overflow fails %d, missing keys fail %d", h.e.Outcome("encode-recv:ok after failed call(s)"), h.e.Outcome("decode-send-tampered:err after clean history"), h.e.Outcome("encode-recv-seq-overflow-v5:err after clean history"), h.e.Outcome("encode-recv-nokeys:err after clean history"))
	r.Assume("adapter retention section: one adapter instance, sessions reused across calls, one goroutine with GOMAXPROCS=1; failing calls are history only")
}
