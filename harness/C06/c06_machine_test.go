package machine_test

// C06 - Channel runtime state machine keeps watermark and reply invariants.
//
// Black-box explicit-state exploration of the real machine.ChannelState: every sequence
// of metadata applies, append proposals (single/batched, local/quorum), stored results
// (matching and stale fences, errors), quorum receipts, follower acks and waiter
// cancellations up to the depth bound, with merging on the full exported state + oracle
// bookkeeping. Every transition calls the real step function.

import (
	"encoding/json"
	"errors"
	"fmt"
	"sort"
	"strconv"
	"strings"
	"testing"

	ch "github.com/WuKongIM/WuKongIM/pkg/channel"
	"github.com/WuKongIM/WuKongIM/pkg/channel/machine"
	"github.com/WuKongIM/WuKongIM/pkg/zzverif/ev"
	"github.com/WuKongIM/WuKongIM/pkg/zzverif/mc"
)

const c06Key = ch.ChannelKey("c/1")

var c06ID = ch.ChannelID{ID: "c", Type: 1}

type c06Meta struct {
	label string
	meta  ch.Meta
}

func c06Metas(thorough bool) []c06Meta {
	mk := func(epoch, le uint64, leader ch.NodeID, isr []ch.NodeID, minISR int, st ch.Status) ch.Meta {
		return ch.Meta{Key: c06Key, ID: c06ID, Epoch: epoch, LeaderEpoch: le, Leader: leader, Replicas: []ch.NodeID{1, 2, 3}, ISR: isr, MinISR: minISR, Status: st}
	}
	all := []ch.NodeID{1, 2, 3}
	ms := []c06Meta{
		{"e1l1-L1-isr3-min2", mk(1, 1, 1, all, 2, ch.StatusActive)},
		{"e1l2-L1-isr3-min2", mk(1, 2, 1, all, 2, ch.StatusActive)},
		{"e1l2-L2-isr3-min2", mk(1, 2, 2, all, 2, ch.StatusActive)},
		{"e2l1-L1-isr12-min1", mk(2, 1, 1, []ch.NodeID{1, 2}, 1, ch.StatusActive)},
		{"e1l1-L2-isr3-min2", mk(1, 1, 2, all, 2, ch.StatusActive)}, // same-epoch leader switch / older fence
		{"e1l1-L1-isr3-min3", mk(1, 1, 1, all, 3, ch.StatusActive)},
		{"e1l1-L1-isr1-min2-invalid", mk(1, 1, 1, []ch.NodeID{1}, 2, ch.StatusActive)},
	}
	if thorough {
		ms = append(ms,
			c06Meta{"e2l2-L1-isr3-min2", mk(2, 2, 1, all, 2, ch.StatusActive)},
			c06Meta{"e1l1-L1-deleting", mk(1, 1, 1, all, 2, ch.StatusDeleting)},
			c06Meta{"e2l1-L3-isr3-min2", mk(2, 1, 3, all, 2, ch.StatusActive)},
		)
	}
	return ms
}

type c06Out struct {
	Mode    ch.CommitMode
	Records int
}

type c06Inst struct {
	s        *machine.ChannelState
	metas    []c06Meta
	thorough bool
	// oracle bookkeeping (part of Canon)
	outstanding map[ch.OpID]c06Out // proposals accepted and not yet answered / cancelled
	nextMsgID   uint64
}

func (in *c06Inst) Events() []string {
	evs := []string{}
	for _, m := range in.metas {
		evs = append(evs, "meta:"+m.label)
	}
	ops := []int{1, 2, 3}
	for _, op := range ops {
		for _, mode := range []string{"Q", "L"} {
			evs = append(evs, fmt.Sprintf("propose:%d:%s:1", op, mode))
		}
	}
	evs = append(evs, "propose:1:Q:2", "propose:2:L:2", "batch:9:1L1,2Q2", "batch:8:3Q1,1Q1")
	evs = append(evs, "stored:ok", "stored:err", "stored:stale-gen", "stored:stale-epoch", "stored:stale-leaderepoch", "stored:stale-op")
	evs = append(evs, "quorum:ok", "quorum:err", "quorum:bad-range", "quorum:hw-below-last", "quorum:stale-leaderepoch", "quorum:stale-op")
	for _, f := range []int{2, 3, 9} {
		for off := uint64(1); off <= in.s.LEO; off++ {
			evs = append(evs, fmt.Sprintf("ack:%d:%d", f, off))
		}
	}
	for _, op := range ops {
		evs = append(evs, fmt.Sprintf("cancel:%d", op))
	}
	evs = append(evs, "checkpoint", "abort-batch")
	return evs
}

func (in *c06Inst) snapshot() string {
	b, err := json.Marshal(in.s)
	if err != nil {
		panic(err)
	}
	return string(b)
}

func (in *c06Inst) records(n int) []ch.Record {
	out := make([]ch.Record, n)
	for i := range out {
		in.nextMsgID++
		out[i] = ch.Record{ID: 100 + in.nextMsgID, FromUID: "u", ClientMsgNo: "n" + strconv.FormatUint(in.nextMsgID, 10), Payload: []byte{byte(in.nextMsgID)}, SizeBytes: 1}
	}
	return out
}

func (in *c06Inst) fence() ch.Fence {
	f := ch.Fence{ChannelKey: in.s.Key, Generation: in.s.Generation, Epoch: in.s.Epoch, LeaderEpoch: in.s.LeaderEpoch}
	if in.s.InflightAppend != nil {
		f.OpID = in.s.InflightAppend.OpID
	}
	return f
}

func modeOf(s string) ch.CommitMode {
	if s == "L" {
		return ch.CommitModeLocal
	}
	return ch.CommitModeQuorum
}

// checkReplies applies the reply oracle: at most one reply per accepted proposal, a
// quorum-mode success only when HW covers its last sequence.
func (in *c06Inst) checkReplies(d machine.Decision, evl string) error {
	seen := map[ch.OpID]bool{}
	for _, rep := range d.Replies {
		if seen[rep.OpID] {
			return mc.Violatef("C06:double-reply-in-one-decision", "%s: op %d replied twice in one decision", evl, rep.OpID)
		}
		seen[rep.OpID] = true
		out, ok := in.outstanding[rep.OpID]
		if !ok {
			return mc.Violatef("C06:reply-without-outstanding-proposal", "%s: op %d replied but it has no outstanding proposal (already answered, cancelled or never proposed)", evl, rep.OpID)
		}
		delete(in.outstanding, rep.OpID)
		if rep.Err != nil {
			continue
		}
		if len(rep.AppendItems) != out.Records {
			return mc.Violatef("C06:reply-item-count", "%s: op %d success reply carries %d items for %d records", evl, rep.OpID, len(rep.AppendItems), out.Records)
		}
		last := uint64(0)
		for i, it := range rep.AppendItems {
			if it.MessageSeq == 0 || (i > 0 && it.MessageSeq != last+1) {
				return mc.Violatef("C06:reply-seq-not-contiguous", "%s: op %d success reply has non-contiguous/zero sequences", evl, rep.OpID)
			}
			last = it.MessageSeq
		}
		if last > in.s.LEO {
			return mc.Violatef("C06:reply-above-leo", "%s: op %d success reply last seq %d above LEO %d", evl, rep.OpID, last, in.s.LEO)
		}
		if out.Mode == ch.CommitModeQuorum && in.s.HW < last {
			return mc.Violatef("C06:quorum-reply-before-commit", "%s: quorum-mode op %d answered successfully at last seq %d while HW=%d", evl, rep.OpID, last, in.s.HW)
		}
	}
	return nil
}

func (in *c06Inst) Apply(evl string, _ *mc.Env) (string, error) {
	s := in.s
	parts := strings.Split(evl, ":")
	before := in.snapshot()
	prevHW, prevE, prevLE := s.HW, s.Epoch, s.LeaderEpoch
	var d machine.Decision
	obs := ""
	mustBeNoop := false
	switch parts[0] {
	case "meta":
		var m ch.Meta
		for _, c := range in.metas {
			if c.label == parts[1] {
				m = c.meta
			}
		}
		mustReject := s.Epoch > m.Epoch || (s.Epoch == m.Epoch && s.LeaderEpoch > m.LeaderEpoch) ||
			(s.Epoch == m.Epoch && s.LeaderEpoch == m.LeaderEpoch && s.Epoch != 0 && s.Leader != m.Leader)
		d = s.ApplyMeta(m)
		if mustReject && d.Err == nil {
			return "", mc.Violatef("C06:regressing-meta-accepted", "%s accepted over state epoch=%d leaderEpoch=%d leader=%d", evl, prevE, prevLE, s.Leader)
		}
		if d.Err != nil {
			mustBeNoop = true
			obs = "meta-rejected:" + d.Err.Error()
		} else {
			obs = "meta-accepted"
			// an accepted fence change silently drops waiters: they are no longer answered
			if len(s.PendingAppends) == 0 {
				in.outstanding = map[ch.OpID]c06Out{}
			}
		}
	case "propose":
		op, _ := strconv.Atoi(parts[1])
		n, _ := strconv.Atoi(parts[3])
		mode := modeOf(parts[2])
		d = s.ProposeAppend(machine.AppendCommand{OpID: ch.OpID(op), CommitMode: mode, Records: in.records(n)})
		if d.Err != nil {
			mustBeNoop = true
			obs = "propose-rejected:" + d.Err.Error()
		} else {
			if len(d.Tasks) != 1 || d.Tasks[0].Kind != machine.TaskKindStoreAppend {
				return "", mc.Violatef("C06:propose-no-store-task", "%s accepted without exactly one store-append task", evl)
			}
			in.outstanding[ch.OpID(op)] = c06Out{Mode: mode, Records: n}
			obs = "propose-accepted"
		}
	case "batch":
		bop, _ := strconv.Atoi(parts[1])
		var ws []machine.AppendBatchWaiter
		type wm struct {
			op   ch.OpID
			mode ch.CommitMode
			n    int
		}
		var wms []wm
		for _, w := range strings.Split(parts[2], ",") {
			op := int(w[0] - '0')
			n := int(w[2] - '0')
			mode := modeOf(string(w[1]))
			ws = append(ws, machine.AppendBatchWaiter{OpID: ch.OpID(op), CommitMode: mode, Records: in.records(n)})
			wms = append(wms, wm{ch.OpID(op), mode, n})
		}
		d = s.ProposeAppendBatch(machine.AppendBatchCommand{BatchOpID: ch.OpID(bop), Waiters: ws})
		if d.Err != nil {
			// ProposeAppendBatch validates waiters one by one before registering any
			mustBeNoop = true
			obs = "batch-rejected:" + d.Err.Error()
		} else {
			for _, w := range wms {
				in.outstanding[w.op] = c06Out{Mode: w.mode, Records: w.n}
			}
			obs = "batch-accepted"
		}
	case "stored":
		f := in.fence()
		n := uint64(0)
		if s.InflightAppend != nil {
			n = uint64(len(s.InflightAppend.Records))
		}
		res := machine.AppendStoredResult{Fence: f, BaseOffset: s.LEO + 1, LastOffset: s.LEO + n}
		switch parts[1] {
		case "ok":
			mustBeNoop = s.InflightAppend == nil
		case "err":
			res.Err = errors.New("store failed")
			mustBeNoop = s.InflightAppend == nil
		case "stale-gen":
			res.Fence.Generation++
			mustBeNoop = true
		case "stale-epoch":
			res.Fence.Epoch++
			mustBeNoop = true
		case "stale-leaderepoch":
			if res.Fence.LeaderEpoch == 0 {
				res.Fence.LeaderEpoch = 7
			} else {
				res.Fence.LeaderEpoch--
			}
			mustBeNoop = true
		case "stale-op":
			res.Fence.OpID += 100
			mustBeNoop = true
		}
		d = s.ApplyAppendStored(res)
		obs = fmt.Sprintf("stored-%s:replies=%d", parts[1], len(d.Replies))
	case "quorum":
		f := in.fence()
		n := uint64(0)
		if s.InflightAppend != nil {
			n = uint64(len(s.InflightAppend.Records))
		}
		res := machine.QuorumCommittedResult{Fence: f, First: s.LEO + 1, Last: s.LEO + n, HW: s.LEO + n}
		switch parts[1] {
		case "ok":
			mustBeNoop = s.InflightAppend == nil
		case "err":
			res.Err = errors.New("quorum failed")
			mustBeNoop = s.InflightAppend == nil
		case "bad-range":
			res.Last++
			res.HW++
			mustBeNoop = s.InflightAppend == nil
		case "hw-below-last":
			if res.HW > 0 {
				res.HW--
			}
			mustBeNoop = s.InflightAppend == nil
		case "stale-leaderepoch":
			res.Fence.LeaderEpoch++
			mustBeNoop = true
		case "stale-op":
			res.Fence.OpID += 100
			mustBeNoop = true
		}
		leo0, hw0 := s.LEO, s.HW
		d = s.ApplyQuorumCommitted(res)
		if (parts[1] == "bad-range" || parts[1] == "hw-below-last" || parts[1] == "err") && (s.LEO != leo0 || s.HW != hw0) {
			return "", mc.Violatef("C06:rejected-receipt-moved-watermarks", "%s moved LEO/HW %d/%d -> %d/%d", evl, leo0, hw0, s.LEO, s.HW)
		}
		if parts[1] != "ok" {
			for _, rep := range d.Replies {
				if rep.Err == nil {
					return "", mc.Violatef("C06:success-reply-from-rejected-receipt", "%s produced a success reply for op %d", evl, rep.OpID)
				}
			}
		}
		obs = fmt.Sprintf("quorum-%s:replies=%d", parts[1], len(d.Replies))
	case "ack":
		fo, _ := strconv.Atoi(parts[1])
		off, _ := strconv.ParseUint(parts[2], 10, 64)
		// reactor guard (applyLeaderProgressAck): offsets above LEO never reach the machine
		if off > s.LEO {
			return "ack-guarded", nil
		}
		d = s.ApplyFollowerAck(machine.FollowerAck{Follower: ch.NodeID(fo), MatchOffset: off})
		if fo == 9 && s.HW != prevHW {
			return "", mc.Violatef("C06:non-replica-ack-moved-hw", "%s: ack from a non-replica moved HW %d -> %d", evl, prevHW, s.HW)
		}
		obs = fmt.Sprintf("ack:hw=%d:replies=%d", s.HW, len(d.Replies))
	case "cancel":
		op, _ := strconv.Atoi(parts[1])
		ok := s.CancelAppendWaiter(ch.OpID(op))
		if ok {
			delete(in.outstanding, ch.OpID(op))
		} else {
			mustBeNoop = true
		}
		obs = fmt.Sprintf("cancel:%v", ok)
	case "checkpoint":
		// mirrors the reactor: a store checkpoint result publishes the committed frontier
		s.CheckpointHW = s.HW
		obs = "checkpoint"
	case "abort-batch":
		if s.InflightAppend != nil {
			for _, op := range s.InflightAppend.WaiterOpIDs {
				delete(in.outstanding, op)
			}
			s.AbortAppendBatchProposal(s.InflightAppend.OpID)
			obs = "abort"
		} else {
			s.AbortAppendBatchProposal(77)
			mustBeNoop = true
			obs = "abort-none"
		}
	default:
		panic("unknown event " + evl)
	}
	if mustBeNoop {
		if len(d.Replies) != 0 {
			return "", mc.Violatef("C06:stale-or-rejected-input-replied", "%s must change nothing but produced %d replies", evl, len(d.Replies))
		}
		if after := in.snapshot(); after != before {
			return "", mc.Violatef("C06:stale-or-rejected-input-changed-state", "%s must change nothing but state changed:\n before %s\n after  %s", evl, before, after)
		}
	}
	if err := in.checkReplies(d, evl); err != nil {
		return "", err
	}
	if s.Epoch == prevE && s.LeaderEpoch == prevLE && s.HW < prevHW {
		return "", mc.Violatef("C06:hw-decreased-within-fence", "%s: HW %d -> %d within fence (%d,%d)", evl, prevHW, s.HW, prevE, prevLE)
	}
	return obs, nil
}

func (in *c06Inst) Canon() string {
	ops := make([]int, 0, len(in.outstanding))
	for op := range in.outstanding {
		ops = append(ops, int(op))
	}
	sort.Ints(ops)
	var b strings.Builder
	// message ids are fresh per record and never compared: normalise them out of the key
	st := in.snapshot()
	b.WriteString(c06StripIDs(st))
	for _, op := range ops {
		o := in.outstanding[ch.OpID(op)]
		fmt.Fprintf(&b, "|%d:%d:%d", op, o.Mode, o.Records)
	}
	return b.String()
}

// c06StripIDs removes the per-record fresh identifiers (ID, ClientMsgNo, Payload) from the
// JSON state so that states differing only in which fresh message ids were drawn merge.
// The machine never branches on them (it only copies them into replies).
func c06StripIDs(s string) string {
	var v any
	if err := json.Unmarshal([]byte(s), &v); err != nil {
		return s
	}
	var walk func(x any)
	walk = func(x any) {
		switch t := x.(type) {
		case map[string]any:
			if _, ok := t["ClientMsgNo"]; ok {
				delete(t, "ID")
				delete(t, "ClientMsgNo")
				delete(t, "Payload")
			}
			for _, c := range t {
				walk(c)
			}
		case []any:
			for _, c := range t {
				walk(c)
			}
		}
	}
	walk(v)
	b, _ := json.Marshal(v)
	return string(b)
}

func (in *c06Inst) Check() error {
	s := in.s
	if s.CheckpointHW > s.HW || s.HW > s.LEO {
		return mc.Violatef("C06:watermark-order", "CheckpointHW=%d HW=%d LEO=%d violates checkpoint <= committed <= log end", s.CheckpointHW, s.HW, s.LEO)
	}
	if err := s.CheckInvariants(); err != nil {
		return mc.Violatef("C06:CheckInvariants", "CheckInvariants: %v", err)
	}
	// every waiter the machine still tracks must be an outstanding proposal
	for op := range s.PendingAppends {
		if _, ok := in.outstanding[op]; !ok {
			return mc.Violatef("C06:waiter-without-proposal", "machine tracks waiter %d that is not outstanding", op)
		}
	}
	return nil
}

func TestVerifC06(t *testing.T) {
	r := ev.Start(t, "C06")
	defer r.Finish()
	th := r.Thorough()
	metas := c06Metas(th)
	res := mc.Run(r, mc.System{
		Name: "channel-machine",
		New: func() mc.Instance {
			return &c06Inst{s: machine.NewChannelState(c06Key, 1, 5), metas: metas, thorough: th, outstanding: map[ch.OpID]c06Out{}}
		},
		MaxDepth:  ev.Pick(r, 6, 8),
		MaxStates: ev.Pick(r, int64(400000), int64(6000000)),
		Bounds:    map[string]any{"metas": len(metas), "op_ids": 3, "followers": []int{2, 3, 9}},
		Note:      "merging on the full exported ChannelState (JSON, fresh message ids normalised) + outstanding-proposal oracle state",
	})
	if r.Replay() != nil {
		return
	}
	r.Guard("replies-observed", res.Outcomes >= 8, "distinct observations=%d (need >=8: accepted/rejected metas, proposals, stored/quorum results with replies)", res.Outcomes)
	r.Guard("state-space-nontrivial", res.States >= 1000, "states=%d", res.States)
	r.Assume("follower acks above LEO are rejected by the reactor guard applyLeaderProgressAck before they reach the machine; the harness mirrors that guard")
	r.Assume("CheckpointHW is only ever published as the current HW (reactor store-checkpoint path)")
}
