package machine_test

// C06 - Channel runtime state machine keeps watermark and reply invariants.
//
// Black-box explicit-state exploration of the real machine.ChannelState: every sequence
// of metadata applies, append proposals (single/batched, local/quorum), stored results
// (matching and stale fences, errors), quorum receipts, follower acks and waiter
// cancellations up to the depth bound, with merging on the full exported state + oracle
// bookkeeping. Every transition calls the real step function.
//
// Fence coverage (strengthened): every store/quorum result shape - success AND error - is
// delivered with the matching fence and with each single-field deviation of the fence
// (generation, epoch, leader epoch: older and newer; batch op id; channel key), and the
// fences of store-append tasks the machine REALLY emitted earlier are delivered late
// (after an abort / re-proposal / metadata change superseded them) with success and with
// an error. A result whose fence differs from the current in-flight fence must change
// nothing, whatever it carries.

import (
	"encoding/json"
	"errors"
	"fmt"
	"reflect"
	"sort"
	"strconv"
	"strings"
	"sync/atomic"
	"testing"

	ch "github.com/WuKongIM/WuKongIM/pkg/channel"
	"github.com/WuKongIM/WuKongIM/pkg/channel/machine"
	"github.com/WuKongIM/WuKongIM/pkg/zzverif/ev"
	"github.com/WuKongIM/WuKongIM/pkg/zzverif/mc"
)

const c06Key = ch.ChannelKey("c/1")

var c06ID = ch.ChannelID{ID: "c", Type: 1}

type c06Meta struct {
	label string
	meta  ch.Meta
}

func c06Metas(thorough bool) []c06Meta {
	mk := func(epoch, le uint64, leader ch.NodeID, isr []ch.NodeID, minISR int, st ch.Status) ch.Meta {
		return ch.Meta{Key: c06Key, ID: c06ID, Epoch: epoch, LeaderEpoch: le, Leader: leader, Replicas: []ch.NodeID{1, 2, 3}, ISR: isr, MinISR: minISR, Status: st}
	}
	all := []ch.NodeID{1, 2, 3}
	ms := []c06Meta{
		{"e1l1-L1-isr3-min2", mk(1, 1, 1, all, 2, ch.StatusActive)},
		{"e1l2-L1-isr3-min2", mk(1, 2, 1, all, 2, ch.StatusActive)},
		{"e1l2-L2-isr3-min2", mk(1, 2, 2, all, 2, ch.StatusActive)},
		{"e2l1-L1-isr12-min1", mk(2, 1, 1, []ch.NodeID{1, 2}, 1, ch.StatusActive)},
		{"e1l1-L2-isr3-min2", mk(1, 1, 2, all, 2, ch.StatusActive)}, // same-epoch leader switch / older fence
		{"e1l1-L1-isr3-min3", mk(1, 1, 1, all, 3, ch.StatusActive)},
		{"e1l1-L1-isr1-min2-invalid", mk(1, 1, 1, []ch.NodeID{1}, 2, ch.StatusActive)},
	}
	if thorough {
		ms = append(ms,
			c06Meta{"e2l2-L1-isr3-min2", mk(2, 2, 1, all, 2, ch.StatusActive)},
			c06Meta{"e1l1-L1-deleting", mk(1, 1, 1, all, 2, ch.StatusDeleting)},
			c06Meta{"e2l1-L3-isr3-min2", mk(2, 1, 3, all, 2, ch.StatusActive)},
		)
	}
	return ms
}

type c06Out struct {
	Mode    ch.CommitMode
	Records int
}

// c06StaleKinds are the single-field deviations of the current fence. Each one alone must
// make a result stale (matchesInflightFence compares every field for equality).
var c06StaleKinds = []string{"gen-newer", "gen-older", "epoch-newer", "epoch-older", "leaderepoch-newer", "leaderepoch-older", "op", "key"}

func c06StaleFence(kind string, f ch.Fence) ch.Fence {
	older := func(v uint64) uint64 {
		if v == 0 {
			return 7
		}
		return v - 1
	}
	switch kind {
	case "gen-newer":
		f.Generation++
	case "gen-older":
		f.Generation = older(f.Generation)
	case "epoch-newer":
		f.Epoch++
	case "epoch-older":
		f.Epoch = older(f.Epoch)
	case "leaderepoch-newer":
		f.LeaderEpoch++
	case "leaderepoch-older":
		f.LeaderEpoch = older(f.LeaderEpoch)
	case "op":
		f.OpID += 100
	case "key":
		f.ChannelKey = "c/2"
	default:
		panic("unknown stale kind " + kind)
	}
	return f
}

// c06Stats are vacuity counters (replays count too: only ">= 1" is ever asserted).
type c06Stats struct {
	staleErrInflight  atomic.Int64 // error result with a deviating fence while a batch is in flight
	staleOkInflight   atomic.Int64 // success result with a deviating fence while a batch is in flight
	lateErrInflight   atomic.Int64 // really emitted, superseded task fence + error while another batch is in flight
	lateOkInflight    atomic.Int64
	lateAfterMetaBump atomic.Int64 // ... where the superseded task belongs to an older (epoch, leader epoch)
	lateAfterAbort    atomic.Int64 // ... where the superseded task belongs to the same (epoch, leader epoch), other op id
	currentErrReplied atomic.Int64 // matching-fence error answered the in-flight waiters
}

type c06Inst struct {
	s        *machine.ChannelState
	metas    []c06Meta
	thorough bool
	stats    *c06Stats
	// oracle bookkeeping (part of Canon)
	outstanding map[ch.OpID]c06Out // proposals accepted and not yet answered / cancelled
	// fence of the store-append task the machine emitted for the batch now in flight, and the
	// fence of the most recent task that was SUPERSEDED before its result arrived (its batch
	// was aborted or dropped by a metadata change): that worker result is still to come, late
	inflightTask ch.Fence
	olderTask    ch.Fence
	// memoised snapshot()/Canon() of the CURRENT state; dropped at the start of every Apply
	// and restored only when the event was verified to have changed nothing
	snap, canon string
}

// Clone deep-copies the instance (mc.Cloner): the machine is a plain struct, so a successor
// is the copied state plus one event instead of a replay of the whole path. The copy is
// generic (reflection over every exported field, pointers/slices/maps duplicated), so a
// field added to ChannelState later is copied as well.
func (in *c06Inst) Clone() mc.Instance {
	in.Canon() // memoise on the base: every clone starts from the same state
	cp := *in
	ns := new(machine.ChannelState)
	*ns = *in.s
	c06DeepCopy(reflect.ValueOf(ns).Elem(), reflect.ValueOf(in.s).Elem())
	cp.s = ns
	cp.outstanding = make(map[ch.OpID]c06Out, len(in.outstanding))
	for k, v := range in.outstanding {
		cp.outstanding[k] = v
	}
	return &cp
}

// c06DeepCopy replaces every reference reachable from dst (pre-filled with a shallow copy
// of src) by a private duplicate. Unexported fields (time.Time internals) stay shallow:
// they are immutable values.
func c06DeepCopy(dst, src reflect.Value) {
	switch src.Kind() {
	case reflect.Ptr:
		if src.IsNil() {
			return
		}
		n := reflect.New(src.Type().Elem())
		n.Elem().Set(src.Elem())
		c06DeepCopy(n.Elem(), src.Elem())
		dst.Set(n)
	case reflect.Slice:
		if src.IsNil() {
			return
		}
		n := reflect.MakeSlice(src.Type(), src.Len(), src.Len())
		reflect.Copy(n, src)
		if c06HasRefs(src.Type().Elem()) {
			for i := 0; i < src.Len(); i++ {
				c06DeepCopy(n.Index(i), src.Index(i))
			}
		}
		dst.Set(n)
	case reflect.Map:
		if src.IsNil() {
			return
		}
		n := reflect.MakeMapWithSize(src.Type(), src.Len())
		it := src.MapRange()
		for it.Next() {
			v := reflect.New(src.Type().Elem()).Elem()
			v.Set(it.Value())
			c06DeepCopy(v, it.Value())
			n.SetMapIndex(it.Key(), v)
		}
		dst.Set(n)
	case reflect.Struct:
		for i := 0; i < src.NumField(); i++ {
			if dst.Field(i).CanSet() && c06HasRefs(src.Field(i).Type()) {
				c06DeepCopy(dst.Field(i), src.Field(i))
			}
		}
	case reflect.Interface, reflect.Chan, reflect.Func:
		if !src.IsNil() {
			panic("harness: ChannelState contains a " + src.Kind().String() + " value; extend c06DeepCopy")
		}
	}
}

func c06HasRefs(t reflect.Type) bool {
	switch t.Kind() {
	case reflect.Ptr, reflect.Slice, reflect.Map, reflect.Interface, reflect.Chan, reflect.Func:
		return true
	case reflect.Struct:
		for i := 0; i < t.NumField(); i++ {
			if t.Field(i).IsExported() && c06HasRefs(t.Field(i).Type) {
				return true
			}
		}
	case reflect.Array:
		return c06HasRefs(t.Elem())
	}
	return false
}

func (in *c06Inst) noteTask(d machine.Decision) {
	for _, t := range d.Tasks {
		if t.Kind == machine.TaskKindStoreAppend {
			in.inflightTask = t.Fence
		}
	}
}

// noteInflightGone is called after every event: when the batch in flight disappeared without
// a result having been delivered for its task, that task is superseded and its result late.
func (in *c06Inst) noteInflightGone(resultDelivered bool) {
	if in.s.InflightAppend != nil || in.inflightTask == (ch.Fence{}) {
		return
	}
	if !resultDelivered {
		in.olderTask = in.inflightTask
	}
	in.inflightTask = ch.Fence{}
}

func (in *c06Inst) Events() []string {
	evs := []string{}
	for _, m := range in.metas {
		evs = append(evs, "meta:"+m.label)
	}
	ops := []int{1, 2, 3}
	for _, op := range ops {
		for _, mode := range []string{"Q", "L"} {
			evs = append(evs, fmt.Sprintf("propose:%d:%s:1", op, mode))
		}
	}
	evs = append(evs, "propose:1:Q:2", "propose:2:L:2", "batch:9:1L1,2Q2", "batch:8:3Q1,1Q1")
	evs = append(evs, "stored:ok", "stored:err")
	evs = append(evs, "quorum:ok", "quorum:err", "quorum:bad-range", "quorum:hw-below-last")
	for _, k := range []string{"stored", "quorum"} {
		for _, sk := range c06StaleKinds {
			evs = append(evs, k+":ok:"+sk, k+":err:"+sk)
		}
	}
	// a superseded task whose fence is IDENTICAL to the current batch's (the small op-id pool
	// re-used an id inside one fence) is indistinguishable by design and not delivered: the
	// reactor allocates a fresh batch op id per flush (nextBatchOpID)
	if in.olderTask != (ch.Fence{}) && in.olderTask != in.fence() {
		evs = append(evs, "stored-late:ok", "stored-late:err", "quorum-late:ok", "quorum-late:err")
	}
	for _, f := range []int{2, 3, 9} {
		for off := uint64(1); off <= in.s.LEO; off++ {
			evs = append(evs, fmt.Sprintf("ack:%d:%d", f, off))
		}
	}
	for _, op := range ops {
		evs = append(evs, fmt.Sprintf("cancel:%d", op))
	}
	evs = append(evs, "checkpoint", "abort-batch")
	return evs
}

func (in *c06Inst) snapshot() string {
	if in.snap != "" {
		return in.snap
	}
	b, err := json.Marshal(in.s)
	if err != nil {
		panic(err)
	}
	in.snap = string(b)
	return in.snap
}

// records builds the n records waiter op contributes. Their identifiers are a function of
// (op, position) only - the machine never branches on them, it copies them into replies -
// so states that differ only in WHEN a proposal was made have the same canonical form.
func (in *c06Inst) records(op, n int) []ch.Record {
	out := make([]ch.Record, n)
	for i := range out {
		id := uint64(op*10 + i)
		out[i] = ch.Record{ID: 100 + id, FromUID: "u", ClientMsgNo: "n" + strconv.FormatUint(id, 10), Payload: []byte{byte(id)}, SizeBytes: 1}
	}
	return out
}

func (in *c06Inst) fence() ch.Fence {
	f := ch.Fence{ChannelKey: in.s.Key, Generation: in.s.Generation, Epoch: in.s.Epoch, LeaderEpoch: in.s.LeaderEpoch}
	if in.s.InflightAppend != nil {
		f.OpID = in.s.InflightAppend.OpID
	}
	return f
}

// resultFence picks the fence a store/quorum result event carries and decides whether the
// result is stale. "x:kind" carries the current fence, "x:kind:<stale>" a single-field
// deviation of it, "x-late:kind" the fence of a really emitted, superseded store task.
// Stale = the carried fence differs from the current in-flight fence in any field, or
// nothing is in flight: such a result must change nothing (property: "results with a stale
// fence change nothing"), whether it reports success or an error.
func (in *c06Inst) resultFence(parts []string, cur ch.Fence) (ch.Fence, bool) {
	s := in.s
	carried := cur
	late := strings.HasSuffix(parts[0], "-late")
	switch {
	case late:
		carried = in.olderTask
	case len(parts) >= 3:
		carried = c06StaleFence(parts[2], cur)
	}
	stale := s.InflightAppend == nil || carried != cur
	if !late && len(parts) >= 3 && carried == cur {
		panic("harness: stale kind " + parts[2] + " did not change the fence")
	}
	if stale && s.InflightAppend != nil {
		isErr := parts[1] == "err"
		switch {
		case late && isErr:
			in.stats.lateErrInflight.Add(1)
		case late:
			in.stats.lateOkInflight.Add(1)
		case isErr:
			in.stats.staleErrInflight.Add(1)
		default:
			in.stats.staleOkInflight.Add(1)
		}
		if late {
			if carried.Epoch != cur.Epoch || carried.LeaderEpoch != cur.LeaderEpoch {
				in.stats.lateAfterMetaBump.Add(1)
			} else if carried.OpID != cur.OpID {
				in.stats.lateAfterAbort.Add(1)
			}
		}
	}
	return carried, stale
}

func modeOf(s string) ch.CommitMode {
	if s == "L" {
		return ch.CommitModeLocal
	}
	return ch.CommitModeQuorum
}

// checkReplies applies the reply oracle: at most one reply per accepted proposal, a
// quorum-mode success only when HW covers its last sequence.
func (in *c06Inst) checkReplies(d machine.Decision, evl string) error {
	seen := map[ch.OpID]bool{}
	for _, rep := range d.Replies {
		if seen[rep.OpID] {
			return mc.Violatef("C06:double-reply-in-one-decision", "%s: op %d replied twice in one decision", evl, rep.OpID)
		}
		seen[rep.OpID] = true
		out, ok := in.outstanding[rep.OpID]
		if !ok {
			return mc.Violatef("C06:reply-without-outstanding-proposal", "%s: op %d replied but it has no outstanding proposal (already answered, cancelled or never proposed)", evl, rep.OpID)
		}
		delete(in.outstanding, rep.OpID)
		if rep.Err != nil {
			continue
		}
		if len(rep.AppendItems) != out.Records {
			return mc.Violatef("C06:reply-item-count", "%s: op %d success reply carries %d items for %d records", evl, rep.OpID, len(rep.AppendItems), out.Records)
		}
		last := uint64(0)
		for i, it := range rep.AppendItems {
			if it.MessageSeq == 0 || (i > 0 && it.MessageSeq != last+1) {
				return mc.Violatef("C06:reply-seq-not-contiguous", "%s: op %d success reply has non-contiguous/zero sequences", evl, rep.OpID)
			}
			last = it.MessageSeq
		}
		if last > in.s.LEO {
			return mc.Violatef("C06:reply-above-leo", "%s: op %d success reply last seq %d above LEO %d", evl, rep.OpID, last, in.s.LEO)
		}
		if out.Mode == ch.CommitModeQuorum && in.s.HW < last {
			return mc.Violatef("C06:quorum-reply-before-commit", "%s: quorum-mode op %d answered successfully at last seq %d while HW=%d", evl, rep.OpID, last, in.s.HW)
		}
	}
	return nil
}

func (in *c06Inst) Apply(evl string, _ *mc.Env) (string, error) {
	s := in.s
	parts := strings.Split(evl, ":")
	before := in.snapshot()
	canonBefore := in.canon
	in.snap, in.canon = "", ""
	prevHW, prevE, prevLE := s.HW, s.Epoch, s.LeaderEpoch
	var d machine.Decision
	obs := ""
	mustBeNoop := false
	switch parts[0] {
	case "meta":
		var m ch.Meta
		for _, c := range in.metas {
			if c.label == parts[1] {
				m = c.meta
			}
		}
		mustReject := s.Epoch > m.Epoch || (s.Epoch == m.Epoch && s.LeaderEpoch > m.LeaderEpoch) ||
			(s.Epoch == m.Epoch && s.LeaderEpoch == m.LeaderEpoch && s.Epoch != 0 && s.Leader != m.Leader)
		d = s.ApplyMeta(m)
		if mustReject && d.Err == nil {
			return "", mc.Violatef("C06:regressing-meta-accepted", "%s accepted over state epoch=%d leaderEpoch=%d leader=%d", evl, prevE, prevLE, s.Leader)
		}
		if d.Err != nil {
			mustBeNoop = true
			obs = "meta-rejected:" + d.Err.Error()
		} else {
			obs = "meta-accepted"
			// an accepted fence change silently drops waiters: they are no longer answered
			if len(s.PendingAppends) == 0 {
				in.outstanding = map[ch.OpID]c06Out{}
			}
		}
	case "propose":
		op, _ := strconv.Atoi(parts[1])
		n, _ := strconv.Atoi(parts[3])
		mode := modeOf(parts[2])
		d = s.ProposeAppend(machine.AppendCommand{OpID: ch.OpID(op), CommitMode: mode, Records: in.records(op, n)})
		if d.Err != nil {
			mustBeNoop = true
			obs = "propose-rejected:" + d.Err.Error()
		} else {
			if len(d.Tasks) != 1 || d.Tasks[0].Kind != machine.TaskKindStoreAppend {
				return "", mc.Violatef("C06:propose-no-store-task", "%s accepted without exactly one store-append task", evl)
			}
			in.outstanding[ch.OpID(op)] = c06Out{Mode: mode, Records: n}
			in.noteTask(d)
			obs = "propose-accepted"
		}
	case "batch":
		bop, _ := strconv.Atoi(parts[1])
		var ws []machine.AppendBatchWaiter
		type wm struct {
			op   ch.OpID
			mode ch.CommitMode
			n    int
		}
		var wms []wm
		for _, w := range strings.Split(parts[2], ",") {
			op := int(w[0] - '0')
			n := int(w[2] - '0')
			mode := modeOf(string(w[1]))
			ws = append(ws, machine.AppendBatchWaiter{OpID: ch.OpID(op), CommitMode: mode, Records: in.records(op, n)})
			wms = append(wms, wm{ch.OpID(op), mode, n})
		}
		d = s.ProposeAppendBatch(machine.AppendBatchCommand{BatchOpID: ch.OpID(bop), Waiters: ws})
		if d.Err != nil {
			// ProposeAppendBatch validates waiters one by one before registering any
			mustBeNoop = true
			obs = "batch-rejected:" + d.Err.Error()
		} else {
			if len(d.Tasks) != 1 || d.Tasks[0].Kind != machine.TaskKindStoreAppend {
				return "", mc.Violatef("C06:propose-no-store-task", "%s accepted without exactly one store-append task", evl)
			}
			for _, w := range wms {
				in.outstanding[w.op] = c06Out{Mode: w.mode, Records: w.n}
			}
			in.noteTask(d)
			obs = "batch-accepted"
		}
	case "stored", "stored-late":
		f := in.fence()
		n := uint64(0)
		if s.InflightAppend != nil {
			n = uint64(len(s.InflightAppend.Records))
		}
		res := machine.AppendStoredResult{Fence: f, BaseOffset: s.LEO + 1, LastOffset: s.LEO + n}
		if parts[1] == "err" {
			res.Err = errors.New("store failed")
		}
		res.Fence, mustBeNoop = in.resultFence(parts, f)
		if parts[0] == "stored-late" {
			res.LastOffset = s.LEO + 1
		}
		d = s.ApplyAppendStored(res)
		if res.Err != nil && !mustBeNoop && len(d.Replies) > 0 {
			in.stats.currentErrReplied.Add(1)
		}
		obs = fmt.Sprintf("%s:replies=%d", strings.Join(parts, "-"), len(d.Replies))
	case "quorum", "quorum-late":
		f := in.fence()
		n := uint64(0)
		if s.InflightAppend != nil {
			n = uint64(len(s.InflightAppend.Records))
		}
		res := machine.QuorumCommittedResult{Fence: f, First: s.LEO + 1, Last: s.LEO + n, HW: s.LEO + n}
		switch parts[1] {
		case "ok":
		case "err":
			res.Err = errors.New("quorum failed")
		case "bad-range":
			res.Last++
			res.HW++
		case "hw-below-last":
			if res.HW > 0 {
				res.HW--
			}
		default:
			panic("unknown event " + evl)
		}
		res.Fence, mustBeNoop = in.resultFence(parts, f)
		if parts[0] == "quorum-late" {
			res.Last, res.HW = s.LEO+1, s.LEO+1
		}
		leo0, hw0 := s.LEO, s.HW
		d = s.ApplyQuorumCommitted(res)
		if (parts[1] == "bad-range" || parts[1] == "hw-below-last" || parts[1] == "err") && (s.LEO != leo0 || s.HW != hw0) {
			return "", mc.Violatef("C06:rejected-receipt-moved-watermarks", "%s moved LEO/HW %d/%d -> %d/%d", evl, leo0, hw0, s.LEO, s.HW)
		}
		if parts[1] != "ok" {
			for _, rep := range d.Replies {
				if rep.Err == nil {
					return "", mc.Violatef("C06:success-reply-from-rejected-receipt", "%s produced a success reply for op %d", evl, rep.OpID)
				}
			}
		}
		obs = fmt.Sprintf("%s:replies=%d", strings.Join(parts, "-"), len(d.Replies))
	case "ack":
		fo, _ := strconv.Atoi(parts[1])
		off, _ := strconv.ParseUint(parts[2], 10, 64)
		// reactor guard (applyLeaderProgressAck): offsets above LEO never reach the machine
		if off > s.LEO {
			return "ack-guarded", nil
		}
		d = s.ApplyFollowerAck(machine.FollowerAck{Follower: ch.NodeID(fo), MatchOffset: off})
		if fo == 9 && s.HW != prevHW {
			return "", mc.Violatef("C06:non-replica-ack-moved-hw", "%s: ack from a non-replica moved HW %d -> %d", evl, prevHW, s.HW)
		}
		obs = fmt.Sprintf("ack:hw=%d:replies=%d", s.HW, len(d.Replies))
	case "cancel":
		op, _ := strconv.Atoi(parts[1])
		ok := s.CancelAppendWaiter(ch.OpID(op))
		if ok {
			delete(in.outstanding, ch.OpID(op))
		} else {
			mustBeNoop = true
		}
		obs = fmt.Sprintf("cancel:%v", ok)
	case "checkpoint":
		// mirrors the reactor: a store checkpoint result publishes the committed frontier
		s.CheckpointHW = s.HW
		obs = "checkpoint"
	case "abort-batch":
		if s.InflightAppend != nil {
			for _, op := range s.InflightAppend.WaiterOpIDs {
				delete(in.outstanding, op)
			}
			s.AbortAppendBatchProposal(s.InflightAppend.OpID)
			obs = "abort"
		} else {
			s.AbortAppendBatchProposal(77)
			mustBeNoop = true
			obs = "abort-none"
		}
	default:
		panic("unknown event " + evl)
	}
	in.noteInflightGone(parts[0] == "stored" || parts[0] == "quorum")
	if mustBeNoop {
		if len(d.Replies) != 0 {
			return "", mc.Violatef("C06:stale-or-rejected-input-replied", "%s must change nothing but produced %d replies", evl, len(d.Replies))
		}
		if after := in.snapshot(); after != before {
			return "", mc.Violatef("C06:stale-or-rejected-input-changed-state", "%s must change nothing but state changed:\n before %s\n after  %s", evl, before, after)
		}
		// nothing changed (state re-read and compared, no reply, bookkeeping untouched)
		in.canon = canonBefore
	}
	if err := in.checkReplies(d, evl); err != nil {
		return "", err
	}
	if s.Epoch == prevE && s.LeaderEpoch == prevLE && s.HW < prevHW {
		return "", mc.Violatef("C06:hw-decreased-within-fence", "%s: HW %d -> %d within fence (%d,%d)", evl, prevHW, s.HW, prevE, prevLE)
	}
	return obs, nil
}

func (in *c06Inst) Canon() string {
	if in.canon != "" {
		return in.canon
	}
	ops := make([]int, 0, len(in.outstanding))
	for op := range in.outstanding {
		ops = append(ops, int(op))
	}
	sort.Ints(ops)
	var b strings.Builder
	b.WriteString(in.snapshot())
	for _, op := range ops {
		o := in.outstanding[ch.OpID(op)]
		fmt.Fprintf(&b, "|%d:%d:%d", op, o.Mode, o.Records)
	}
	fmt.Fprintf(&b, "|task=%v|older=%v", in.inflightTask, in.olderTask)
	in.canon = b.String()
	return in.canon
}

func (in *c06Inst) Check() error {
	s := in.s
	if s.CheckpointHW > s.HW || s.HW > s.LEO {
		return mc.Violatef("C06:watermark-order", "CheckpointHW=%d HW=%d LEO=%d violates checkpoint <= committed <= log end", s.CheckpointHW, s.HW, s.LEO)
	}
	if err := s.CheckInvariants(); err != nil {
		return mc.Violatef("C06:CheckInvariants", "CheckInvariants: %v", err)
	}
	// every waiter the machine still tracks must be an outstanding proposal
	for op := range s.PendingAppends {
		if _, ok := in.outstanding[op]; !ok {
			return mc.Violatef("C06:waiter-without-proposal", "machine tracks waiter %d that is not outstanding", op)
		}
	}
	return nil
}

func TestVerifC06(t *testing.T) {
	r := ev.Start(t, "C06")
	defer r.Finish()
	th := r.Thorough()
	metas := c06Metas(th)
	stats := &c06Stats{}
	res := mc.Run(r, mc.System{
		Name: "channel-machine",
		New: func() mc.Instance {
			return &c06Inst{s: machine.NewChannelState(c06Key, 1, 5), metas: metas, thorough: th, stats: stats, outstanding: map[ch.OpID]c06Out{}}
		},
		MaxDepth:  ev.Pick(r, 6, 8),
		MaxStates: ev.Pick(r, int64(400000), int64(6000000)),
		Bounds:    map[string]any{"metas": len(metas), "op_ids": 3, "followers": []int{2, 3, 9}, "stale_fence_kinds": c06StaleKinds, "result_shapes": "stored/quorum x ok/err x {current fence, each stale kind, superseded real task fence}", "late_task_slots": 1},
		Note:      "merging on the full exported ChannelState (JSON; record ids are a function of op id and position) + outstanding-proposal and task-fence oracle state; successors by deep copy (mc.Cloner)",
	})
	if r.Replay() != nil {
		return
	}
	r.Guard("replies-observed", res.Outcomes >= 8, "distinct observations=%d (need >=8: accepted/rejected metas, proposals, stored/quorum results with replies)", res.Outcomes)
	r.Guard("state-space-nontrivial", res.States >= 1000, "states=%d", res.States)
	r.Guard("stale-error-with-batch-in-flight", stats.staleErrInflight.Load() >= 1 && stats.staleOkInflight.Load() >= 1,
		"stale-fence results delivered while a batch is in flight: err=%d ok=%d (need >=1 each)", stats.staleErrInflight.Load(), stats.staleOkInflight.Load())
	r.Guard("late-task-result-with-other-batch-in-flight", stats.lateErrInflight.Load() >= 1 && stats.lateOkInflight.Load() >= 1,
		"superseded real task fences delivered while another batch is in flight: err=%d ok=%d (need >=1 each)", stats.lateErrInflight.Load(), stats.lateOkInflight.Load())
	r.Guard("late-task-both-origins", stats.lateAfterMetaBump.Load() >= 1 && stats.lateAfterAbort.Load() >= 1,
		"late results of a task from an older (epoch,leaderEpoch)=%d, from an aborted batch of the same fence=%d (need >=1 each)", stats.lateAfterMetaBump.Load(), stats.lateAfterAbort.Load())
	r.Guard("current-error-answers-waiters", stats.currentErrReplied.Load() >= 1, "matching-fence error results that answered waiters=%d", stats.currentErrReplied.Load())
	r.Assume("follower acks above LEO are rejected by the reactor guard applyLeaderProgressAck before they reach the machine; the harness mirrors that guard")
	r.Assume("batch op ids are not re-used inside one (generation, epoch, leader epoch): the reactor allocates a fresh id per flush (nextBatchOpID), so the late result of a superseded task is only delivered when its fence differs from the current batch's")
	r.Assume("CheckpointHW is only ever published as the current HW (reactor store-checkpoint path)")
}
