package replication

// C02 - Replica logs agree on every committed offset.
// Entry point of the shared replication world (../C01/world_test.go) with the C02 oracle.

import (
	"fmt"
	"os"
	"testing"

	"github.com/WuKongIM/WuKongIM/pkg/zzverif/ev"
	"github.com/WuKongIM/WuKongIM/pkg/zzverif/mc"
)

func vw2Run(r *ev.R, name string, o vwOpts, st *vwStats, pool *vwCrashPool, xs *vw2Counters, depth, devs int, note string) mc.Result {
	depth, devs = vwDebugBounds(depth, devs)
	o.noPrune = os.Getenv("VERIF_DEBUG_NOPRUNE") == "1"
	o.backend = func() *vwBackendLease { return nil } // replaced per instance by newVW2; marks the store backend in the bounds
	b := vwBounds(o)
	b["power_loss_images"] = "after every recovery page reported durable by Replace; after every event, for every node whose log changed"
	return mc.Run(r, mc.System{
		Name: name, New: func() mc.Instance { return newVW2(o, st, pool, xs, true) },
		MaxDepth: depth, MaxDeviations: devs, Bounds: b, Note: note,
	})
}

func TestVerifC02(t *testing.T) {
	r := ev.Start(t, "C02")
	defer r.Finish()
	o := vwOpts{
		prop: "C02", cmds: ev.Pick(r, 2, 3), maxInstalls: ev.Pick(r, 2, 3), maxCrashes: 1, maxOutages: 1, retained: 2,
		evSame: true, evTrailing: true, evRepair: true, evCrashReplace: true, evHedge: true, evLocalLost: true, evOrder: r.Thorough(),
		oC02: true, reportKF: false,
	}
	st := &vwStats{}
	note := "N=3 voters, Q=2, one channel; initial state: node 1 installed under authority (1,1,1) on empty logs; |down| <= N-Q; a path ends (silently, counted) at a transition that matches the known C01 defect KF-C01-1"
	res := vwRun(r, "replication-world/C02/deep", o, st, ev.Pick(r, 4, 5), ev.Pick(r, 1, 1), note)
	res2 := vwRun(r, "replication-world/C02/faulty", o, st, ev.Pick(r, 3, 4), ev.Pick(r, 2, 2), note)
	res.States += res2.States
	// seeded stale-donor boxes (c02_donor_test.go): one remote donor answer per Install may be a
	// self-consistent page forked at the proposal that holds the certified committed offset.
	vw3Box(r, o, st, note)
	// MessageDB-backed boxes: every node's durable log is a real channelstore.MessageDBFactory
	// store (pkg/db/message exact-base append incl. its sequenced fast path for
	// ServerAllocatedMessageIDs, ReplaceRecoverySuffix) on its own crash-capturing volume;
	// vw2 (c02_crash_test.go) reopens a power-loss image after every recovery page that was
	// reported durable and at the end of every event that changed a log.
	pool := newVWCrashPool()
	xs := &vw2Counters{}
	if err := pool.selfTest(); err != nil {
		r.HarnessError("MessageDB-backed world unavailable: %v", err)
	} else {
		om := o
		om.evOrder = false
		om.cmds = 3
		mnote := note + "; every node's durable log is a real MessageDB (pkg/db/message on Pebble) channel store on a private crash-capturing in-memory volume; c1, c2 are proposed with ServerAllocatedMessageIDs, c3 without; a power-loss image (only fsynced bytes) of the node's volume is reopened after every recovery page reported durable and after every event that changed a log, and must not be behind the frontier the live store reported"
		mdb := vw2Run(r, "replication-world/C02/messagedb", om, st, pool, xs, 3, ev.Pick(r, 0, 1), mnote)
		// seeded box: the old leader (node 1) is cut off holding an unreplicated
		// one-entry tail above the acknowledged prefix that nodes 2 and 3 hold.
		os2 := om
		os2.prefix = []string{"commit:1:c1", "deliver:1>2:c1@0/t1.1.1", "down:1", "commit:1:c3"}
		os2.maxOutages = 1
		if !r.Thorough() { // quick: commits, next-term / same installs, trailing delivery, up
			os2.maxCrashes, os2.maxInstalls, os2.evRepair, os2.evCrashReplace = 0, 2, false, false
		}
		seeded := vw2Run(r, "replication-world/C02/messagedb-deposed-tail", os2, st, pool, xs, 4, ev.Pick(r, 0, 1),
			mnote+"; initial state = after "+fmt.Sprint(os2.prefix)+" (deposed leader cut off with an unreplicated tail of the length of a barrier)")
		// seeded box: node 3 missed three proposals (c1, c2 = two records, c3) that nodes 1
		// and 2 hold, so that an Install at node 3 repairs its EMPTY log in three recovery
		// pages, none of which truncates anything.
		os3 := om
		os3.prefix = []string{"down:3", "commit:1:c1", "commit:1:c2", "commit:1:c3", "up:3"}
		os3.maxOutages = 1
		if !r.Thorough() {
			os3.maxCrashes, os3.maxInstalls, os3.evRepair, os3.evTrailing = 0, 1, false, false
		}
		multi := vw2Run(r, "replication-world/C02/messagedb-multi-page-repair", os3, st, pool, xs, ev.Pick(r, 2, 3), ev.Pick(r, 1, 1),
			mnote+"; initial state = after "+fmt.Sprint(os3.prefix)+" (node 3 lags by three proposals = three recovery pages)")
		r.Guard("messagedb-world-states", mdb.States >= 50 && seeded.States >= 50 && multi.States >= 10, "%d + %d + %d states explored over MessageDB-backed stores", mdb.States, seeded.States, multi.States)
		r.Guard("messagedb-sequenced-fast-path", st.saAtFrontier.Load() >= 10 && st.saAtFrontierDivergentTail.Load() >= 1,
			"%d ServerAllocatedMessageIDs proposals reached a follower exactly at its LEO, %d of them a follower whose equal-length tail is not the proposal's predecessor",
			st.saAtFrontier.Load(), st.saAtFrontierDivergentTail.Load())
		if r.Replay() == nil {
			r.Guard("power-loss-images-after-recovery-pages", xs.imagesAfterPage.Load() >= 10 && xs.imagesAfterNonTruncatingPage.Load() >= 5 && xs.imagesAfterLaterPage.Load() >= 2,
				"%d power-loss images reopened right after a recovery page reported durable (%d after a page that truncated nothing, %d after the second or a later page of one Install)",
				xs.imagesAfterPage.Load(), xs.imagesAfterNonTruncatingPage.Load(), xs.imagesAfterLaterPage.Load())
			r.Guard("power-loss-images-at-event-end", xs.imagesAtEventEnd.Load() >= 100, "%d power-loss images reopened after an event changed a replica log", xs.imagesAtEventEnd.Load())
		}
	}
	pool.close()
	for k, v := range map[string]int64{
		"power_loss_images_reopened": xs.images.Load(), "power_loss_images_after_recovery_page": xs.imagesAfterPage.Load(),
		"power_loss_images_after_non_truncating_recovery_page": xs.imagesAfterNonTruncatingPage.Load(),
		"power_loss_images_after_second_or_later_page_of_one_install": xs.imagesAfterLaterPage.Load(),
		"power_loss_images_at_event_end": xs.imagesAtEventEnd.Load(), "power_loss_images_not_behind_reported_frontier": xs.imagesBehindNothing.Load(),
		"observation_power_loss_lost_uncommitted_tail_reported_durable": xs.uncommittedTailLost.Load(),
	} {
		r.Count(k, v)
	}
	vwAssumptions(r)
	vwCounters(r, st)
	if r.Replay() != nil {
		return
	}
	r.Guard("committed-offsets-compared", st.committedPairsCompared.Load() >= 100, "%d (pair, committed offset) comparisons", st.committedPairsCompared.Load())
	r.Guard("entry-digests-verified", st.chainEntriesVerified.Load() >= 100, "%d stored rows re-hashed against their entry identity", st.chainEntriesVerified.Load())
	r.Guard("recovery-replacements", st.replaceCalls.Load() >= 1, "%d Replace calls", st.replaceCalls.Load())
	r.Guard("need-from-and-repair", st.needFrom.Load() >= 1 && st.repairsDone.Load() >= 1, "%d NeedFrom answers, %d completed follower repairs", st.needFrom.Load(), st.repairsDone.Load())
	r.Guard("crash-at-recovery-page", st.crashAtReplace.Load() >= 1, "%d crashes before/after a recovery page", st.crashAtReplace.Load())
	r.Guard("installs-with-barrier", st.installBarrier.Load() >= 1, "%d installs wrote a barrier", st.installBarrier.Load())
	r.Guard("states", res.States >= 100, "%d states", res.States)
}
