package replication

// C02 - Replica logs agree on every committed offset.
// Entry point of the shared replication world (../C01/world_test.go) with the C02 oracle.

import (
	"os"
	"testing"

	"github.com/WuKongIM/WuKongIM/pkg/zzverif/ev"
)

func TestVerifC02(t *testing.T) {
	r := ev.Start(t, "C02")
	defer r.Finish()
	o := vwOpts{
		prop: "C02", cmds: ev.Pick(r, 2, 3), maxInstalls: ev.Pick(r, 2, 3), maxCrashes: 1, maxOutages: 1, retained: 2,
		evSame: true, evTrailing: true, evRepair: true, evCrashReplace: true, evHedge: true, evLocalLost: true, evOrder: r.Thorough(),
		oC02: true, reportKF: false,
	}
	st := &vwStats{}
	note := "N=3 voters, Q=2, one channel; initial state: node 1 installed under authority (1,1,1) on empty logs; |down| <= N-Q; a path ends (silently, counted) at a transition that matches the known C01 defect KF-C01-1"
	res := vwRun(r, "replication-world/C02/deep", o, st, ev.Pick(r, 4, 5), ev.Pick(r, 1, 1), note)
	res2 := vwRun(r, "replication-world/C02/faulty", o, st, ev.Pick(r, 3, 4), ev.Pick(r, 2, 2), note)
	res.States += res2.States
	if r.Thorough() || os.Getenv("VERIF_DEBUG_MDB") == "1" {
		pool, err := newVWMDBPool()
		if err == nil {
			err = pool.selfTest()
		}
		if err != nil {
			r.HarnessError("MessageDB-backed world unavailable: %v", err)
		} else {
			om := o
			om.backend = pool.lease
			om.evOrder = false
			mdb := vwRunWorkers(r, "replication-world/C02/messagedb", om, st, 3, 1, 8, note+"; every node's durable log is a real MessageDB (pkg/db/message on Pebble, tmpfs) channel store")
			r.Guard("messagedb-world-states", mdb.States >= 100, "%d states explored over MessageDB-backed stores", mdb.States)
		}
		if pool != nil {
			pool.close()
		}
	}
	vwAssumptions(r)
	vwCounters(r, st)
	if r.Replay() != nil {
		return
	}
	r.Guard("committed-offsets-compared", st.committedPairsCompared.Load() >= 100, "%d (pair, committed offset) comparisons", st.committedPairsCompared.Load())
	r.Guard("entry-digests-verified", st.chainEntriesVerified.Load() >= 100, "%d stored rows re-hashed against their entry identity", st.chainEntriesVerified.Load())
	r.Guard("recovery-replacements", st.replaceCalls.Load() >= 1, "%d Replace calls", st.replaceCalls.Load())
	r.Guard("need-from-and-repair", st.needFrom.Load() >= 1 && st.repairsDone.Load() >= 1, "%d NeedFrom answers, %d completed follower repairs", st.needFrom.Load(), st.repairsDone.Load())
	r.Guard("crash-at-recovery-page", st.crashAtReplace.Load() >= 1, "%d crashes before/after a recovery page", st.crashAtReplace.Load())
	r.Guard("installs-with-barrier", st.installBarrier.Load() >= 1, "%d installs wrote a barrier", st.installBarrier.Load())
	r.Guard("states", res.States >= 100, "%d states", res.States)
}
