package replication

// C02 - Replica logs agree on every committed offset.
// Entry point of the shared replication world (../C01/world_test.go) with the C02 oracle.

import (
	"fmt"
	"testing"

	"github.com/WuKongIM/WuKongIM/pkg/zzverif/ev"
)

func TestVerifC02(t *testing.T) {
	r := ev.Start(t, "C02")
	defer r.Finish()
	o := vwOpts{
		prop: "C02", cmds: ev.Pick(r, 2, 3), maxInstalls: ev.Pick(r, 2, 3), maxCrashes: 1, maxOutages: 1, retained: 2,
		evSame: true, evTrailing: true, evRepair: true, evCrashReplace: true, evHedge: true, evLocalLost: true, evOrder: r.Thorough(),
		oC02: true, reportKF: false,
	}
	st := &vwStats{}
	note := "N=3 voters, Q=2, one channel; initial state: node 1 installed under authority (1,1,1) on empty logs; |down| <= N-Q; a path ends (silently, counted) at a transition that matches the known C01 defect KF-C01-1"
	res := vwRun(r, "replication-world/C02/deep", o, st, ev.Pick(r, 4, 5), ev.Pick(r, 1, 1), note)
	res2 := vwRun(r, "replication-world/C02/faulty", o, st, ev.Pick(r, 3, 4), ev.Pick(r, 2, 2), note)
	res.States += res2.States
	// MessageDB-backed boxes: every node's durable log is a real channelstore.MessageDBFactory
	// store (pkg/db/message exact-base append incl. its sequenced fast path for
	// ServerAllocatedMessageIDs, ReplaceRecoverySuffix) on an in-memory vfs.
	pool, err := newVWMDBPool()
	if err == nil {
		err = pool.selfTest()
	}
	if err != nil {
		r.HarnessError("MessageDB-backed world unavailable: %v", err)
	} else {
		om := o
		om.backend = pool.lease
		om.evOrder = false
		om.cmds = 3
		mnote := note + "; every node's durable log is a real MessageDB (pkg/db/message on Pebble, in-memory vfs) channel store; c1, c2 are proposed with ServerAllocatedMessageIDs, c3 without"
		mdb := vwRun(r, "replication-world/C02/messagedb", om, st, 3, ev.Pick(r, 0, 1), mnote)
		// seeded box: the old leader (node 1) is cut off holding an unreplicated
		// one-entry tail above the acknowledged prefix that nodes 2 and 3 hold.
		os2 := om
		os2.prefix = []string{"commit:1:c1", "deliver:1>2:c1@0/t1.1.1", "down:1", "commit:1:c3"}
		os2.maxOutages = 1
		if !r.Thorough() { // quick: commits, next-term / same installs, trailing delivery, up
			os2.maxCrashes, os2.maxInstalls, os2.evRepair, os2.evCrashReplace = 0, 2, false, false
		}
		seeded := vwRun(r, "replication-world/C02/messagedb-deposed-tail", os2, st, 4, ev.Pick(r, 0, 1),
			mnote+"; initial state = after "+fmt.Sprint(os2.prefix)+" (deposed leader cut off with an unreplicated tail of the length of a barrier)")
		r.Guard("messagedb-world-states", mdb.States >= 50 && seeded.States >= 50, "%d + %d states explored over MessageDB-backed stores", mdb.States, seeded.States)
		r.Guard("messagedb-sequenced-fast-path", st.saAtFrontier.Load() >= 10 && st.saAtFrontierDivergentTail.Load() >= 1,
			"%d ServerAllocatedMessageIDs proposals reached a follower exactly at its LEO, %d of them a follower whose equal-length tail is not the proposal's predecessor",
			st.saAtFrontier.Load(), st.saAtFrontierDivergentTail.Load())
	}
	if pool != nil {
		pool.close()
	}
	vwAssumptions(r)
	vwCounters(r, st)
	if r.Replay() != nil {
		return
	}
	r.Guard("committed-offsets-compared", st.committedPairsCompared.Load() >= 100, "%d (pair, committed offset) comparisons", st.committedPairsCompared.Load())
	r.Guard("entry-digests-verified", st.chainEntriesVerified.Load() >= 100, "%d stored rows re-hashed against their entry identity", st.chainEntriesVerified.Load())
	r.Guard("recovery-replacements", st.replaceCalls.Load() >= 1, "%d Replace calls", st.replaceCalls.Load())
	r.Guard("need-from-and-repair", st.needFrom.Load() >= 1 && st.repairsDone.Load() >= 1, "%d NeedFrom answers, %d completed follower repairs", st.needFrom.Load(), st.repairsDone.Load())
	r.Guard("crash-at-recovery-page", st.crashAtReplace.Load() >= 1, "%d crashes before/after a recovery page", st.crashAtReplace.Load())
	r.Guard("installs-with-barrier", st.installBarrier.Load() >= 1, "%d installs wrote a barrier", st.installBarrier.Load())
	r.Guard("states", res.States >= 100, "%d states", res.States)
}
