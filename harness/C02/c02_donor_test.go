package replication

// C02 strengthening round 3 (seed C02-3 class: the recovery owner installs - and commits - a
// donor page without comparing it with the quorum-certified committed identity).
//
// repairQuorumPrefix commits every recovery page it installs (Committed := last offset of the
// page). What binds those pages to the log a quorum certified is (a) the comparison of the
// page that contains selection.CertifiedCommitted with selection.CertifiedIdentity BEFORE the
// page is installed and (b) the tail comparison after the last page. Between honest stores
// the hash chain makes (a) redundant, so it is exercised here through the donor seam: the
// environment may answer ONE recovery fetch of a remote donor with a stale page = the honest
// page in which every proposal from the one that contains the certified committed offset
// onwards carries other content (re-sealed, so the page is a self-consistent chain from the
// requested predecessor and passes validPeerFetchResult; it is what a donor whose log forked
// at that proposal - a deposed leader's tail - would serve). The certified committed offset
// is taken from the probe answers the recovery owner really received in that Install
// (quorumFrontier of the reported committed watermarks), never from the selection itself.
// Only a page that contains the certified offset is ever replaced, so the code under test
// always has the certified identity at hand to refuse it; the oracle is the unchanged C02
// state invariant of the shared world (pairwise identical entries at committed offsets).

import (
	"context"
	"fmt"
	"sync/atomic"

	ch "github.com/WuKongIM/WuKongIM/pkg/channel"
	"github.com/WuKongIM/WuKongIM/pkg/zzverif/ev"
	"github.com/WuKongIM/WuKongIM/pkg/zzverif/mc"
)

type vw3Counters struct {
	stalePages, staleEndingAtCertified, staleCrossingCertified, staleLaterPage atomic.Int64
	staleRefusedLogUnchanged                                                  atomic.Int64
}

type vw3 struct {
	*vw
	xs *vw3Counters
	// per event
	probeCommitted map[ch.NodeID]uint64
	staleUsed      bool
	staleNode      int
	staleCommitted uint64
}

type vw3Disp struct {
	x     *vw3
	n     *vwNode
	inner recoveryDispatcher
}

func (d *vw3Disp) submitRecoveryProbe(ctx context.Context, query recoveryProbeQuery, complete func(ProbeResult, error)) error {
	return d.inner.submitRecoveryProbe(ctx, query, func(result ProbeResult, err error) {
		if err == nil {
			d.x.probeCommitted[query.Voter] = result.State.Committed
		}
		complete(result, err)
	})
}

// certified is the quorum-certified committed offset of the probe answers received so far.
func (x *vw3) certified() uint64 {
	if len(x.probeCommitted) < vwQ {
		return 0
	}
	values := make([]uint64, 0, len(x.probeCommitted))
	for _, c := range x.probeCommitted {
		values = append(values, c)
	}
	return quorumFrontier(values, vwQ)
}

func (d *vw3Disp) submitRecoveryFetch(ctx context.Context, query recoveryFetchQuery, complete func(FetchResult, error)) error {
	return d.inner.submitRecoveryFetch(ctx, query, func(result FetchResult, err error) {
		cc := d.x.certified()
		if err != nil || query.Donor == d.n.id || d.x.staleUsed || cc == 0 || len(result.Proposals) == 0 ||
			query.From > cc || result.Proposals[len(result.Proposals)-1].Manifest.LastOffset < cc {
			complete(result, err)
			return
		}
		if d.x.choose("stale-donor-page", 2) == 0 {
			complete(result, err)
			return
		}
		stale, ok := stalePage(query, result, cc)
		if !ok {
			panic("verif: cannot build the stale donor page")
		}
		last := stale.Proposals[len(stale.Proposals)-1].Manifest.LastOffset
		d.x.staleUsed, d.x.staleNode = true, int(d.n.id)-1
		d.x.staleCommitted = d.x.readStore(d.n).committed
		d.x.xs.stalePages.Add(1)
		if last == cc {
			d.x.xs.staleEndingAtCertified.Add(1)
		} else {
			d.x.xs.staleCrossingCertified.Add(1)
		}
		if query.From > 1 && d.x.staleCommitted+1 == query.From && d.x.obs.replaces > 0 {
			d.x.xs.staleLaterPage.Add(1)
		}
		complete(stale, nil)
	})
}

// stalePage re-seals the honest page with other content from the proposal that contains the
// certified committed offset cc onwards.
func stalePage(query recoveryFetchQuery, honest FetchResult, cc uint64) (FetchResult, bool) {
	out := honest
	out.Proposals = cloneRecoveryProposals(honest.Proposals)
	previous := query.Previous
	forked := false
	for i := range out.Proposals {
		p := &out.Proposals[i]
		if p.Manifest.LastOffset >= cc {
			forked = true
		}
		if forked {
			for j := range p.Records {
				if len(p.Records[j].Payload) == 0 {
					return FetchResult{}, false
				}
				p.Records[j].Payload[0] = 's' // neither variant 'a' nor 'x'
			}
			p.Manifest.PreviousIndex, p.Manifest.PreviousTerm, p.Manifest.PreviousDigest = previous.Index, previous.LeaderTerm, previous.Digest
		}
		sealed, entries, ok := ch.SealProposalManifest(p.Manifest, p.Records)
		if !ok {
			return FetchResult{}, false
		}
		p.Manifest = sealed
		previous = entries[len(entries)-1]
	}
	request := FetchRequest{
		ChannelKey: query.ChannelKey, ChannelID: query.ChannelID, Leader: query.Leader, Follower: query.Donor, Expected: query.Expected,
		From: query.From, Through: query.Through, Previous: query.Previous, MaxBytes: query.MaxBytes,
	}
	return out, forked && validPeerFetchResult(request, out)
}

func newVW3(o vwOpts, st *vwStats, xs *vw3Counters) *vw3 {
	x := &vw3{xs: xs, probeCommitted: map[ch.NodeID]uint64{}}
	x.vw = newVW(o, st)
	x.wrapDispatchers()
	return x
}

func (x *vw3) wrapDispatchers() {
	for _, n := range x.nodes {
		if _, ok := n.log.cfg.Recovery.(*vw3Disp); !ok {
			n.log.cfg.Recovery = &vw3Disp{x: x, n: n, inner: n.log.cfg.Recovery}
		}
	}
}

func (x *vw3) Apply(event string, env *mc.Env) (string, error) {
	x.probeCommitted = map[ch.NodeID]uint64{}
	x.staleUsed = false
	obs, err := x.vw.Apply(event, env)
	x.wrapDispatchers()
	if err == nil && x.staleUsed && !x.dead {
		if after := x.readStore(x.nodes[x.staleNode]); after.err == nil && after.committed == x.staleCommitted {
			x.xs.staleRefusedLogUnchanged.Add(1)
		}
		obs += "/stale-donor-page"
	}
	return obs, err
}

// vw3Box runs the seeded stale-donor boxes (memory stores, quick and thorough alike).
func vw3Box(r *ev.R, o vwOpts, st *vwStats, note string) {
	xs := &vw3Counters{}
	states := int64(0)
	for _, prefix := range [][]string{
		// node 3 lags by c1, c2 (two records), c3: pages [1] [2,3] [4]
		{"down:3", "commit:1:c1", "commit:1:c2", "commit:1:c3", "up:3"},
		// pages [1] [2] [3,4]
		{"down:3", "commit:1:c1", "commit:1:c3", "commit:1:c2", "up:3"},
		// pages [1,2] [3] [4]
		{"down:3", "commit:1:c2", "commit:1:c1", "commit:1:c3", "up:3"},
	} {
		ob := o
		ob.cmds, ob.evOrder, ob.prefix, ob.maxOutages = 3, false, prefix, 1
		ob.maxCrashes, ob.maxInstalls, ob.evRepair, ob.evTrailing, ob.evCrashReplace = 0, 1, false, false, false
		depth, devs := vwDebugBounds(ev.Pick(r, 2, 3), 1)
		b := vwBounds(ob)
		b["env_questions"].(map[string]bool)["stale-donor-page{honest,forked-at-the-proposal-holding-the-certified-committed-offset}"] = true
		res := mc.Run(r, mc.System{
			Name: "replication-world/C02/stale-donor-page/" + fmt.Sprint(prefix[1:4]), New: func() mc.Instance { return newVW3(ob, st, xs) },
			MaxDepth: depth, MaxDeviations: devs, Bounds: b,
			Note: note + "; initial state = after " + fmt.Sprint(prefix) + " (node 3 lags by three proposals = three recovery pages); one remote donor answer per Install may be a stale page: self-consistent from the requested predecessor, forked at the proposal that holds the quorum-certified committed offset (costs one deviation)",
		})
		states += res.States
	}
	for k, v := range map[string]int64{
		"stale_donor_pages_served": xs.stalePages.Load(), "stale_donor_pages_ending_exactly_at_certified_committed_offset": xs.staleEndingAtCertified.Load(),
		"stale_donor_pages_strictly_crossing_certified_committed_offset": xs.staleCrossingCertified.Load(),
		"stale_donor_pages_as_second_or_later_page_of_one_install":       xs.staleLaterPage.Load(),
		"stale_donor_page_refused_committed_watermark_unchanged":         xs.staleRefusedLogUnchanged.Load(),
	} {
		r.Count(k+"_executions_incl_replays", v)
	}
	if r.Replay() != nil {
		return
	}
	r.Guard("stale-donor-pages", states >= 10 && xs.stalePages.Load() >= 2 && xs.staleEndingAtCertified.Load() >= 1 && xs.staleLaterPage.Load() >= 1,
		"%d states; %d stale donor pages served (%d ending exactly at the certified committed offset, %d strictly crossing it, %d as the second or a later page of one Install)",
		states, xs.stalePages.Load(), xs.staleEndingAtCertified.Load(), xs.staleCrossingCertified.Load(), xs.staleLaterPage.Load())
}
