// Package zzverifmdb is a /verif helper (injected by go build -overlay, never part of the
// repository): it points the `verif` build-tag seam of pkg/db/internal/engine at one
// in-memory filesystem so that a harness outside pkg/db can open many short-lived
// MessageDB engines cheaply. Options that do not change store semantics (memtable and
// block-cache size) are shrunk for the same reason.
package zzverifmdb

import (
	"github.com/cockroachdb/pebble/v2"
	"github.com/cockroachdb/pebble/v2/vfs"

	"github.com/WuKongIM/WuKongIM/pkg/db/internal/engine"
)

var mem = vfs.NewMem()

// Enable routes every engine opened afterwards to the in-memory filesystem.
func Enable() {
	engine.VerifFS = mem
	engine.VerifTweak = func(opts *pebble.Options) {
		opts.MemTableSize = 256 << 10
		opts.CacheSize = 1 << 20
	}
}

// EnableFS routes every engine opened afterwards to the given filesystem (a crashfs.Router
// with one crash-capturing volume per database), with the same option tweaks as Enable.
func EnableFS(fs vfs.FS) {
	Enable()
	engine.VerifFS = fs
}

// Disable restores the real filesystem for engines opened afterwards.
func Disable() {
	engine.VerifFS = nil
	engine.VerifTweak = nil
}

// MkdirAll creates a directory in the in-memory filesystem.
func MkdirAll(path string) error { return mem.MkdirAll(path, 0o755) }

// RemoveAll deletes a tree from the in-memory filesystem.
func RemoveAll(path string) error { return mem.RemoveAll(path) }
