package replication

// C02 strengthening (engine E4 inside the E1 world): power loss after a store mutation that
// was reported durable.
//
// In the MessageDB-backed boxes every node's durable log is a real channelstore.MessageDBFactory
// (pkg/db/message on Pebble) on its OWN crash-capturing volume (crashfs.Volume behind a
// crashfs.Router installed through the `verif` build-tag seam engine.VerifFS). vw2 wraps the
// shared world (../C01/world_test.go) without changing it and interposes on the ReplicaStore
// handed to every quorumLog:
//
//   - after EVERY recovery page that Replace reported AppendOutcomeDurable (i.e. strictly
//     inside repairQuorumPrefix, before the next page / the barrier / any other commit of that
//     node's database), and
//   - at the end of every top-level event for every node whose log changed in it,
//
// the node's volume is cloned as a POWER-LOSS image (CrashClone with 0% of the un-synced
// data: only fsynced bytes survive), the image is reopened with the real open / recovery
// path of pkg/db/message, and the recovered frontier is compared with the frontier the
// live store reported (Load / probe / Fetch see exactly that) at that instant: the log end,
// the committed watermark and every entry identity. ReplicaStore's contract ("returning with
// a durable outcome proves physical durability") and C02 ("a replica's committed watermark
// never moves backwards", quantified over crash points and "recovery page replacement
// interrupted at any page") forbid a recovered frontier behind the reported one. Only the
// deterministic extreme "none of the un-synced data" is used (the other extreme, a process
// kill, is the state the world continues with anyway).

import (
	"context"
	"fmt"
	"io"
	"log"
	"strings"
	"sync/atomic"
	"time"

	"github.com/cockroachdb/pebble/v2/vfs"

	ch "github.com/WuKongIM/WuKongIM/pkg/channel"
	channelstore "github.com/WuKongIM/WuKongIM/pkg/channel/store"
	"github.com/WuKongIM/WuKongIM/pkg/db/zzverifmdb"
	"github.com/WuKongIM/WuKongIM/pkg/zzverif/crashfs"
	"github.com/WuKongIM/WuKongIM/pkg/zzverif/mc"
)

type vw2Counters struct {
	images, imagesAfterPage, imagesAfterNonTruncatingPage, imagesAfterLaterPage, imagesAtEventEnd atomic.Int64
	imagesBehindNothing, uncommittedTailLost                                                  atomic.Int64
}

// vwCrashPool hands out, per instance, three MessageDB stores on three private crash volumes.
type vwCrashPool struct {
	router *crashfs.Router
	seq    atomic.Uint64
	imgSeq atomic.Uint64
}

type vwCrashLease struct {
	prefix [vwN]string
	vols   [vwN]*crashfs.Volume
}

func newVWCrashPool() *vwCrashPool {
	p := &vwCrashPool{router: crashfs.NewRouter()}
	zzverifmdb.EnableFS(p.router)
	log.SetOutput(io.Discard) // Pebble's per-open WAL replay lines
	return p
}

func (p *vwCrashPool) close() { zzverifmdb.Disable() }

func mdbFactory(path string) *channelstore.MessageDBFactory {
	return channelstore.NewMessageDBFactoryWithOptions(path, channelstore.MessageDBFactoryOptions{CommitFlushWindow: time.Microsecond})
}

// lease returns the world backend lease plus the crash volumes behind it.
func (p *vwCrashPool) lease() (*vwBackendLease, *vwCrashLease) {
	k := p.seq.Add(1)
	lease := &vwBackendLease{key: vwBaseKey, id: vwBaseID}
	cl := &vwCrashLease{}
	opened := make([]*channelstore.MessageDBFactory, 0, vwN)
	for i := 0; i < vwN; i++ {
		cl.prefix[i] = fmt.Sprintf("/vc%dn%d", k, i+1)
		cl.vols[i] = crashfs.NewVolume()
		p.router.Mount(cl.prefix[i], cl.vols[i])
		if err := cl.vols[i].MkdirAllSynced(cl.prefix[i] + "/db"); err != nil {
			panic(err)
		}
		f := mdbFactory(cl.prefix[i] + "/db")
		opened = append(opened, f)
		lease.factories[i] = f
	}
	lease.release = func() {
		for i, f := range opened {
			_ = f.Close()
			p.router.Unmount(cl.prefix[i])
		}
	}
	return lease, cl
}

func (p *vwCrashPool) selfTest() error {
	l, _ := p.lease()
	defer l.release()
	for i, f := range l.factories {
		cs, err := f.ChannelStore(l.key, l.id)
		if err != nil {
			return fmt.Errorf("node %d: %v", i+1, err)
		}
		_, ok := cs.(channelstore.ExactRecoveryStateLoader)
		_, err = cs.Load(context.Background())
		_ = cs.Close()
		if !ok || err != nil {
			return fmt.Errorf("node %d: store unusable (%v, recovery loader %v)", i+1, err, ok)
		}
	}
	return nil
}

// vw2 is the world over crash volumes with the power-loss oracle.
type vw2 struct {
	*vw
	pool     *vwCrashPool
	cl       *vwCrashLease
	xs       *vw2Counters
	atEvents bool // also check at the end of every event
	pageNo   int  // recovery pages reported durable in the current event
	images   []vw2Image // power-loss images of the current (last) event, judged by Check
}

type vw2Store struct {
	x     *vw2
	n     *vwNode
	inner ReplicaStore
}

func (s *vw2Store) Load(ctx context.Context, b LoadBatch) (LoadBatchResult, error) {
	return s.inner.Load(ctx, b)
}
func (s *vw2Store) Sync(ctx context.Context, m []Mutation) []MutationResult { return s.inner.Sync(ctx, m) }
func (s *vw2Store) Fetch(ctx context.Context, r []FetchRange) []FetchRangeResult {
	return s.inner.Fetch(ctx, r)
}
func (s *vw2Store) LookupCommands(ctx context.Context, l []CommandLookup) []CommandLookupResult {
	return s.inner.(commandStore).LookupCommands(ctx, l)
}
func (s *vw2Store) Replace(ctx context.Context, r []RecoveryReplacement) []RecoveryReplacementResult {
	out := s.inner.Replace(ctx, r)
	if s.n.crashing || len(r) != 1 || len(out) != 1 || !out[0].Outcome.Durable() || out[0].Err != nil {
		return out
	}
	s.x.pageNo++
	what := fmt.Sprintf("recovery page %d of this Install (KeepThrough %d, local LEO %d before, last offset %d, committed %d) was reported durable by Replace",
		s.x.pageNo, r[0].KeepThrough, r[0].Expected.LEO, out[0].LastOffset, r[0].Committed)
	before := len(s.x.images)
	s.x.checkPowerLoss(s.n, "recovery-page", what)
	if len(s.x.images) > before {
		s.x.images[before].page = s.x.pageNo
		s.x.images[before].nonTruncating = r[0].KeepThrough == r[0].Expected.LEO
	}
	return out
}

func newVW2(o vwOpts, st *vwStats, pool *vwCrashPool, xs *vw2Counters, atEvents bool) *vw2 {
	x := &vw2{pool: pool, xs: xs, atEvents: atEvents}
	o.backend = func() *vwBackendLease {
		l, cl := pool.lease()
		x.cl = cl
		return l
	}
	x.vw = newVW(o, st)
	x.wrapStores()
	return x
}

func (x *vw2) wrapStores() {
	for _, n := range x.nodes {
		if _, ok := n.log.cfg.Store.(*vw2Store); !ok {
			n.log.cfg.Store = &vw2Store{x: x, n: n, inner: n.log.cfg.Store}
		}
	}
}

// readImage opens a filesystem image of one node's database with the real open path and
// reads the channel's durable frontier back.
func (x *vw2) readImage(ni int, img *vfs.MemFS) vwLog {
	mount := fmt.Sprintf("/vi%d", x.pool.imgSeq.Add(1))
	if err := img.Rename(x.cl.prefix[ni], mount); err != nil {
		return vwLog{err: fmt.Errorf("image rename: %v", err)}
	}
	x.pool.router.Mount(mount, img)
	defer x.pool.router.Unmount(mount)
	f := mdbFactory(mount + "/db")
	defer f.Close()
	probe := &vw{key: x.key, id: x.id}
	return probe.readStore(&vwNode{factory: f})
}

type vw2Image struct {
	ni         int
	live       vwLog
	img        *vfs.MemFS
	kind, what string
	// recovery pages only
	page          int
	nonTruncating bool
}

// checkPowerLoss takes the power-loss image of node n's volume now, together with the
// frontier its live store reports now. The (expensive) reopening of the image is deferred to
// Check(): the explorer calls Check only after the LAST event of a path, i.e. exactly once
// per explored transition, and not for the replayed prefix that rebuilds the state (whose
// images were judged when those transitions were explored).
func (x *vw2) checkPowerLoss(n *vwNode, kind, what string) {
	ni := int(n.id) - 1
	live := x.readStore(n)
	if live.err != nil {
		return // reported by the world's own store-frontier-unreadable oracle
	}
	img := x.cl.vols[ni].Mem().CrashClone(vfs.CrashCloneCfg{UnsyncedDataPercent: 0})
	x.images = append(x.images, vw2Image{ni: ni, live: live, img: img, kind: kind, what: what})
}

// judge reopens one power-loss image and compares it with the frontier reported live.
func (x *vw2) judge(im vw2Image) error {
	x.xs.images.Add(1)
	switch im.kind {
	case "recovery-page":
		x.xs.imagesAfterPage.Add(1)
		if im.nonTruncating {
			x.xs.imagesAfterNonTruncatingPage.Add(1)
		}
		if im.page > 1 {
			x.xs.imagesAfterLaterPage.Add(1)
		}
	default:
		x.xs.imagesAtEventEnd.Add(1)
	}
	live, kind, what, node := im.live, im.kind, im.what, im.ni+1
	rec := x.readImage(im.ni, im.img)
	switch {
	case rec.err != nil:
		return mc.Violatef("C02:power-loss-image-unreadable-after-"+kind, "node %d: %s; the power-loss image taken at that instant cannot be reopened / read back: %v", node, what, rec.err)
	case rec.committed < live.committed:
		return mc.Violatef("C02:committed-watermark-decreased-by-power-loss-after-"+kind,
			"node %d: %s and the store reported LEO %d / committed %d (visible to Load, recovery probes and donor Fetch); after a power loss at that instant the reopened database reports LEO %d / committed %d: the committed watermark moved backwards and a mutation reported durable vanished",
			node, what, live.leo, live.committed, rec.leo, rec.committed)
	}
	// C02 speaks about the committed prefix: every entry at or below the reported committed
	// watermark must survive unchanged. (An un-committed tail that was reported durable and
	// is lost is a matter of C01 / C09; counted as an observation here.)
	for s := uint64(1); s <= live.committed; s++ {
		a, _ := live.at(s)
		b, ok := rec.at(s)
		if !ok || a != b {
			return mc.Violatef("C02:committed-entry-changed-by-power-loss-after-"+kind, "node %d: %s and the store reported LEO %d / committed %d; after a power loss at that instant the entry at the committed offset %d is missing or differs from the one the live store reported", node, what, live.leo, live.committed, s)
		}
	}
	if rec.leo < live.leo {
		x.xs.uncommittedTailLost.Add(1)
		return nil
	}
	x.xs.imagesBehindNothing.Add(1)
	return nil
}

// Check = the world's state invariants, then every power-loss image of the last event.
func (x *vw2) Check() error {
	if err := x.vw.Check(); err != nil {
		return err
	}
	imgs := x.images
	x.images = nil
	for _, im := range imgs {
		if err := x.judge(im); err != nil {
			return err
		}
	}
	return nil
}

func (x *vw2) Apply(event string, env *mc.Env) (string, error) {
	x.pageNo = 0
	x.images = nil
	before := x.snapshot()
	obs, err := x.vw.Apply(event, env)
	x.wrapStores()
	if err != nil || x.dead {
		x.images = nil
		return obs, err
	}
	if x.atEvents && !strings.HasPrefix(event, "down:") && !strings.HasPrefix(event, "up:") {
		after := x.snapshot()
		for i, n := range x.nodes {
			if sameLogs(before[i:i+1], after[i:i+1]) {
				continue
			}
			x.checkPowerLoss(n, "event", fmt.Sprintf("event %s changed its log (LEO %d -> %d, committed %d -> %d) through store calls that reported durable outcomes", event, before[i].leo, after[i].leo, before[i].committed, after[i].committed))
		}
	}
	return obs, nil
}

var _ = ch.NodeID(0)
