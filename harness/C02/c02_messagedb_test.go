package replication

// MessageDB-backed variant of the replication world (thorough tier of C02): every node's
// durable log is a real channelstore.MessageDBFactory (pkg/db/message on Pebble, tmpfs),
// so the exact-base append mode and ReplaceRecoverySuffix of pkg/db/message are in the loop.
// Every instance opens three fresh databases (closed and removed when the instance is
// closed), so instances share nothing and the channel identity stays "1:w". The engines
// run on one in-memory vfs through the repository's `verif` build-tag seam
// (pkg/db/internal/engine.VerifFS, set by the overlay-injected helper pkg/db/zzverifmdb).

import (
	"context"
	"fmt"
	"io"
	"log"
	"sync/atomic"
	"time"

	channelstore "github.com/WuKongIM/WuKongIM/pkg/channel/store"
	"github.com/WuKongIM/WuKongIM/pkg/db/zzverifmdb"
)

type vwMDBPool struct {
	dir string
	seq atomic.Uint64
}

func newVWMDBPool() (*vwMDBPool, error) {
	zzverifmdb.Enable()
	log.SetOutput(io.Discard) // Pebble's per-open "Found 0 WALs" lines
	dir := "/vmdb"
	if err := zzverifmdb.MkdirAll(dir); err != nil {
		return nil, err
	}
	return &vwMDBPool{dir: dir}, nil
}

func (p *vwMDBPool) lease() *vwBackendLease {
	base := fmt.Sprintf("%s/i%d", p.dir, p.seq.Add(1))
	lease := &vwBackendLease{key: vwBaseKey, id: vwBaseID}
	opened := make([]*channelstore.MessageDBFactory, 0, vwN)
	for i := 0; i < vwN; i++ {
		path := fmt.Sprintf("%s/node%d", base, i+1)
		if err := zzverifmdb.MkdirAll(path); err != nil {
			panic(err)
		}
		f := channelstore.NewMessageDBFactoryWithOptions(path, channelstore.MessageDBFactoryOptions{CommitFlushWindow: time.Microsecond})
		opened = append(opened, f)
		lease.factories[i] = f
	}
	lease.release = func() {
		for _, f := range opened {
			_ = f.Close()
		}
		_ = zzverifmdb.RemoveAll(base)
	}
	return lease
}

// selfTest proves that a leased store is a working MessageDB store.
func (p *vwMDBPool) selfTest() error {
	l := p.lease()
	defer l.release()
	for i, f := range l.factories {
		cs, err := f.ChannelStore(l.key, l.id)
		if err != nil {
			return fmt.Errorf("node %d: %v", i+1, err)
		}
		_, ok := cs.(channelstore.ExactRecoveryStateLoader)
		_, err = cs.Load(context.Background())
		_ = cs.Close()
		if !ok || err != nil {
			return fmt.Errorf("node %d: store unusable (%v, recovery loader %v)", i+1, err, ok)
		}
	}
	return nil
}

func (p *vwMDBPool) close() {
	_ = zzverifmdb.RemoveAll(p.dir)
	zzverifmdb.Disable()
}
