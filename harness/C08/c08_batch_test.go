package store_test

// C08 (second run) - "a message id is stored at most once across all channels of a node"
// and "(sender, number) identifies at most one message per channel" through the production
// multi-channel batch path: channelstore.MessageDBFactory.AppendLeaderBatch ->
// messagedb.StoreAppendBatch (one physical commit for several channels), mixed with single
// AppendLeader calls and lease re-acquisition. The duplicate may sit in the SAME batch but
// in ANOTHER channel's item, which no single-channel append can express.

import (
	"context"
	"errors"
	"fmt"
	"io"
	"log"
	"os"
	"path/filepath"
	"strconv"
	"strings"
	"sync"
	"sync/atomic"
	"testing"
	"time"

	ch "github.com/WuKongIM/WuKongIM/pkg/channel"
	"github.com/WuKongIM/WuKongIM/pkg/channel/store"
	"github.com/WuKongIM/WuKongIM/pkg/zzverif/ev"
	"github.com/WuKongIM/WuKongIM/pkg/zzverif/mc"
)

type b08Key struct{ sender, no string }

var b08Keys = map[string]b08Key{"k1": {"u", "n1"}, "k2": {"u", "n1x"}}
var b08KeyNames = []string{"k1", "k2"}

const b08TS = int64(1700000000000)

type b08Backend struct {
	dir  string
	f    *store.MessageDBFactory
	uses int
}

var (
	b08PoolMu   sync.Mutex
	b08PoolFree []*b08Backend
	b08DirSeq   atomic.Uint64
	b08NS       atomic.Uint64
)

const b08DirPrefix = "verif-C08b-"

func b08GetBackend() (*b08Backend, error) {
	b08PoolMu.Lock()
	if n := len(b08PoolFree); n > 0 {
		b := b08PoolFree[n-1]
		b08PoolFree = b08PoolFree[:n-1]
		b08PoolMu.Unlock()
		return b, nil
	}
	b08PoolMu.Unlock()
	dir := filepath.Join("/dev/shm", fmt.Sprintf("%s%d-%d", b08DirPrefix, os.Getpid(), b08DirSeq.Add(1)))
	f := store.NewMessageDBFactoryWithOptions(dir, store.MessageDBFactoryOptions{CommitFlushWindow: time.Nanosecond})
	if _, _, _, err := f.ListChannelsPage(context.Background(), "", 1); err != nil {
		return nil, fmt.Errorf("open %s: %v", dir, err)
	}
	return &b08Backend{dir: dir, f: f}, nil
}

func b08PutBackend(b *b08Backend) {
	b.uses++
	if b.uses >= 4000 {
		_ = b.f.Close()
		_ = os.RemoveAll(b.dir)
		return
	}
	b08PoolMu.Lock()
	b08PoolFree = append(b08PoolFree, b)
	b08PoolMu.Unlock()
}

func b08DrainPool() {
	b08PoolMu.Lock()
	defer b08PoolMu.Unlock()
	for _, b := range b08PoolFree {
		_ = b.f.Close()
		_ = os.RemoveAll(b.dir)
	}
	b08PoolFree = nil
}

func b08SweepStale() {
	ents, err := os.ReadDir("/dev/shm")
	if err != nil {
		return
	}
	for _, e := range ents {
		name := e.Name()
		if !strings.HasPrefix(name, b08DirPrefix) {
			continue
		}
		pid, _, _ := strings.Cut(strings.TrimPrefix(name, b08DirPrefix), "-")
		if _, err := os.Stat("/proc/" + pid); err != nil {
			_ = os.RemoveAll(filepath.Join("/dev/shm", name))
		}
	}
}

type b08Row struct {
	seq uint64
	id  uint64
	key b08Key
}

type b08Chan struct {
	name string
	key  ch.ChannelKey
	cid  ch.ChannelID
	st   store.ChannelStore
	rows []b08Row
	leo  uint64
}

type b08Inst struct {
	be      *b08Backend
	ns      uint64
	ch      [2]*b08Chan
	ids     map[uint64]int // message id -> channel index
	fresh   uint64
	lastEv  string
	initErr error
}

var b08Ctx = context.Background()

var (
	b08nAccepted, b08nBatchBothOK, b08nBatchOneRefusedStored, b08nBatchCrossDup, b08nBatchCrossDupRefused atomic.Int64
	b08nSingleDupID, b08nSingleDupKey, b08nSameChannelItemsRefused, b08nSameKeyTwoChannels               atomic.Int64
)

func b08NewInst() *b08Inst {
	in := &b08Inst{ids: map[uint64]int{}, ns: b08NS.Add(1)}
	be, err := b08GetBackend()
	if err != nil {
		in.initErr = err
		return in
	}
	in.be = be
	for i, n := range []string{"A", "B"} {
		k := fmt.Sprintf("y%d%s", in.ns, strings.ToLower(n))
		in.ch[i] = &b08Chan{name: n, key: ch.ChannelKey(k), cid: ch.ChannelID{ID: k, Type: 2}}
	}
	in.acquire()
	return in
}

func (in *b08Inst) acquire() {
	for _, c := range in.ch {
		if c.st != nil {
			continue
		}
		st, err := in.be.f.ChannelStore(c.key, c.cid)
		if err != nil {
			in.initErr = err
			return
		}
		c.st = st
	}
}

func (in *b08Inst) Close() {
	if in.be == nil {
		return
	}
	for _, c := range in.ch {
		if c != nil && c.st != nil {
			_ = c.st.Close()
			c.st = nil
		}
	}
	b08PutBackend(in.be)
	in.be = nil
}

func (in *b08Inst) Events() []string {
	if in.initErr != nil {
		return nil
	}
	evs := []string{
		"s:A:k1i1", "s:A:k2i2", "s:B:k1i1", "s:B:k2i3",
		"x:k1i1|k1i1", // the same message id in both channels' items of ONE batch
		"x:k1i3|k2i3", // the same id under different keys
		"x:k1i1|k2i2", // distinct ids
		"x:k2i2|k1i1",
		"xa:k1f|k1f", // allocator-issued ids, same key in two channels (must both be accepted)
		"xs:k1i1|k2i2", // two items for the SAME channel (documented: refused before any write)
	}
	if in.ch[0].leo > 0 && in.lastEv != "lease:A" {
		evs = append(evs, "lease:A")
	}
	if in.ch[1].leo > 0 && in.lastEv != "lease:B" {
		evs = append(evs, "lease:B")
	}
	return evs
}

type b08Tok struct {
	key   b08Key
	id    uint64
	fresh bool
}

func (in *b08Inst) tok(s string) b08Tok {
	k := b08Keys[s[:2]]
	if s[2] == 'f' {
		in.fresh++
		return b08Tok{key: k, id: in.ns*4096 + 16 + in.fresh, fresh: true}
	}
	n, _ := strconv.Atoi(s[3:])
	return b08Tok{key: k, id: in.ns*4096 + uint64(n)}
}

func (t b08Tok) record() ch.Record {
	return ch.Record{ID: t.id, FromUID: t.key.sender, ClientMsgNo: t.key.no, Payload: []byte{'p', byte(t.id)}, ServerTimestampMS: b08TS}
}

func (c *b08Chan) hasKey(k b08Key) bool {
	for _, r := range c.rows {
		if r.key == k {
			return true
		}
	}
	return false
}

// want: "" accepted, else reason (reference decision for ONE item against stored rows).
func (in *b08Inst) want(ci int, t b08Tok, allocated bool) string {
	if !allocated {
		if _, ok := in.ids[t.id]; ok {
			return "id"
		}
	}
	if in.ch[ci].hasKey(t.key) {
		return "key"
	}
	return ""
}

func (in *b08Inst) store(ci int, t b08Tok) {
	c := in.ch[ci]
	c.leo++
	c.rows = append(c.rows, b08Row{seq: c.leo, id: t.id, key: t.key})
	in.ids[t.id] = ci
	b08nAccepted.Add(1)
	if in.ch[1-ci].hasKey(t.key) {
		b08nSameKeyTwoChannels.Add(1)
	}
}

func b08Refused(err error) bool { return errors.Is(err, ch.ErrLogConflict) }

func (in *b08Inst) Apply(evl string, _ *mc.Env) (string, error) {
	if in.initErr != nil {
		return "", mc.Violatef("C08:harness-init", "cannot initialise instance: %v", in.initErr)
	}
	in.lastEv = evl
	p := strings.Split(evl, ":")
	switch p[0] {
	case "lease":
		c := in.ch[0]
		if p[1] == "B" {
			c = in.ch[1]
		}
		_ = c.st.Close()
		c.st = nil
		in.acquire()
		if in.initErr != nil {
			return "", mc.Violatef("C08:reacquire-error", "%s: %v", evl, in.initErr)
		}
		return "lease", nil
	case "s":
		ci := 0
		if p[1] == "B" {
			ci = 1
		}
		t := in.tok(p[2])
		w := in.want(ci, t, false)
		res, err := in.ch[ci].st.AppendLeader(b08Ctx, store.AppendLeaderRequest{Records: []ch.Record{t.record()}})
		if w != "" {
			if err == nil {
				return "", mc.Violatef("C08:adapter-duplicate-"+w+"-accepted:single-append", "%s: accepted (%+v) although the %s is already stored", evl, res, w)
			}
			if !b08Refused(err) {
				return "", mc.Violatef("C08:adapter-duplicate-wrong-error", "%s: %v", evl, err)
			}
			if w == "id" {
				b08nSingleDupID.Add(1)
			} else {
				b08nSingleDupKey.Add(1)
			}
			return "refused:" + w, nil
		}
		if err != nil {
			return "", mc.Violatef("C08:adapter-valid-append-refused", "%s: %v", evl, err)
		}
		in.store(ci, t)
		return "accepted", nil
	case "xs":
		parts := strings.Split(p[1], "|")
		c := in.ch[0]
		items := []store.AppendLeaderBatchItem{
			{ChannelKey: c.key, ChannelID: c.cid, Request: store.AppendLeaderRequest{Records: []ch.Record{in.tok(parts[0]).record()}}},
			{ChannelKey: c.key, ChannelID: c.cid, Request: store.AppendLeaderRequest{Records: []ch.Record{in.tok(parts[1]).record()}}},
		}
		out := in.be.f.AppendLeaderBatch(b08Ctx, items)
		for i, o := range out {
			if o.Err == nil {
				return "", mc.Violatef("C08:adapter-same-channel-items-accepted", "%s: item %d accepted (%+v); two non-exact items for one channel must be refused before any write", evl, i, o)
			}
		}
		b08nSameChannelItemsRefused.Add(1)
		return "same-channel-items-refused", nil
	case "x", "xa":
		allocated := p[0] == "xa"
		parts := strings.Split(p[1], "|")
		toks := [2]b08Tok{in.tok(parts[0]), in.tok(parts[1])}
		items := make([]store.AppendLeaderBatchItem, 2)
		wants := [2]string{}
		for ci := 0; ci < 2; ci++ {
			c := in.ch[ci]
			items[ci] = store.AppendLeaderBatchItem{ChannelKey: c.key, ChannelID: c.cid,
				Request: store.AppendLeaderRequest{Records: []ch.Record{toks[ci].record()}, ServerAllocatedMessageIDs: allocated}}
			wants[ci] = in.want(ci, toks[ci], allocated)
		}
		// the same id in both items of one strict batch: refusing either item (even one whose
		// sibling is refused for another reason) is within the property; storing both is not
		crossDup := !allocated && toks[0].id == toks[1].id
		out := in.be.f.AppendLeaderBatch(b08Ctx, items)
		if len(out) != 2 {
			return "", mc.Violatef("C08:adapter-batch-result-count", "%s: %d results", evl, len(out))
		}
		okCount := 0
		for ci := 0; ci < 2; ci++ {
			if wants[ci] != "" {
				if out[ci].Err == nil {
					return "", mc.Violatef("C08:adapter-duplicate-"+wants[ci]+"-accepted:batch-item-vs-stored-row", "%s: item %s accepted (%+v) although the %s is already stored", evl, in.ch[ci].name, out[ci], wants[ci])
				}
				if !b08Refused(out[ci].Err) {
					return "", mc.Violatef("C08:adapter-duplicate-wrong-error", "%s: item %s: %v", evl, in.ch[ci].name, out[ci].Err)
				}
				continue
			}
			if out[ci].Err == nil {
				okCount++
			} else if !crossDup || !b08Refused(out[ci].Err) {
				return "", mc.Violatef("C08:adapter-valid-append-refused", "%s: item %s refused with %v", evl, in.ch[ci].name, out[ci].Err)
			}
		}
		if crossDup && wants[0] == "" && wants[1] == "" {
			b08nBatchCrossDup.Add(1)
			if okCount == 2 {
				return "", mc.Violatef("C08:message-id-stored-twice:same-batch-other-channel",
					"%s: one AppendLeaderBatch carried message id %d in the items of channel A and channel B (strict mode); both items were accepted (%+v / %+v), so the id is now stored in two channels of this node", evl, toks[0].id%4096, out[0], out[1])
			}
			b08nBatchCrossDupRefused.Add(1)
		}
		for ci := 0; ci < 2; ci++ {
			if wants[ci] == "" && out[ci].Err == nil {
				in.store(ci, toks[ci])
			}
		}
		switch {
		case okCount == 2:
			b08nBatchBothOK.Add(1)
		case okCount == 1:
			b08nBatchOneRefusedStored.Add(1)
		}
		return fmt.Sprintf("batch:%d-accepted", okCount), nil
	}
	panic("unknown event " + evl)
}

func (in *b08Inst) Canon() string { return "" }

func (in *b08Inst) Check() error {
	if in.initErr != nil {
		return mc.Violatef("C08:harness-init", "cannot initialise instance: %v", in.initErr)
	}
	idSeen := map[uint64]string{}
	for ci, c := range in.ch {
		where := fmt.Sprintf("channel %s (reference: leo=%d)", c.name, c.leo)
		got, err := c.st.ReadCommitted(b08Ctx, store.ReadCommittedRequest{FromSeq: 1})
		if err != nil {
			return mc.Violatef("C08:adapter-read-error", "%s: %v", where, err)
		}
		keySeen := map[b08Key]bool{}
		for _, m := range got.Messages {
			if prev, dup := idSeen[m.MessageID]; dup {
				return mc.Violatef("C08:adapter-message-id-stored-twice", "%s: message id %d is stored here and in channel %s", where, m.MessageID%4096, prev)
			}
			idSeen[m.MessageID] = c.name
			k := b08Key{m.FromUID, m.ClientMsgNo}
			if keySeen[k] {
				return mc.Violatef("C08:adapter-key-stored-at-two-sequences", "%s: (%s,%s) stored twice", where, k.sender, k.no)
			}
			keySeen[k] = true
		}
		if len(got.Messages) != len(c.rows) {
			return mc.Violatef("C08:adapter-rows-differ-from-reference", "%s: %d rows stored, reference %d", where, len(got.Messages), len(c.rows))
		}
		for i, m := range got.Messages {
			w := c.rows[i]
			if m.MessageSeq != w.seq || m.MessageID != w.id || m.FromUID != w.key.sender || m.ClientMsgNo != w.key.no {
				return mc.Violatef("C08:adapter-rows-differ-from-reference", "%s: row %d = seq %d id %d (%s,%s), reference seq %d id %d (%s,%s)", where, i, m.MessageSeq, m.MessageID%4096, m.FromUID, m.ClientMsgNo, w.seq, w.id%4096, w.key.sender, w.key.no)
			}
		}
		for _, kn := range b08KeyNames {
			k := b08Keys[kn]
			hit, ok, err := c.st.(store.IdempotencyLookup).LookupIdempotency(b08Ctx, k.sender, k.no)
			if err != nil {
				return mc.Violatef("C08:adapter-LookupIdempotency-error", "%s: %s: %v", where, kn, err)
			}
			var w *b08Row
			for i := range c.rows {
				if c.rows[i].key == k {
					w = &c.rows[i]
				}
			}
			if ok != (w != nil) || (ok && (hit.Message.MessageSeq != w.seq || hit.Message.MessageID != w.id)) {
				return mc.Violatef("C08:adapter-LookupIdempotency-disagrees-with-rows", "%s: %s: found=%v seq=%d", where, kn, ok, hit.Message.MessageSeq)
			}
		}
		for i := uint64(1); i <= 3; i++ {
			id := in.ns*4096 + i
			m, ok, err := c.st.(store.MessageLookup).LookupMessageByID(b08Ctx, id)
			if err != nil {
				return mc.Violatef("C08:adapter-LookupMessageByID-error", "%s: id %d: %v", where, i, err)
			}
			owner, stored := in.ids[id]
			if ok != (stored && owner == ci) {
				return mc.Violatef("C08:adapter-LookupMessageByID-disagrees-with-rows", "%s: id %d found=%v (seq %d), reference stored-here=%v", where, i, ok, m.MessageSeq, stored && owner == ci)
			}
		}
	}
	return nil
}

func TestVerifC08Batch(t *testing.T) {
	log.SetOutput(io.Discard)
	r := ev.Start(t, "C08")
	defer r.Finish()
	b08SweepStale()
	defer b08DrainPool()
	res := mc.Run(r, mc.System{
		Name:       "adapter-multi-channel-batch",
		New:        func() mc.Instance { return b08NewInst() },
		MaxDepth:   ev.Pick(r, 3, 4),
		ShardDepth: 2,
		Bounds:     map[string]any{"channels": 2, "keys": b08KeyNames, "menu_ids": 3, "events_per_state": "<=12"},
		Note:       "no state merging; every sequence of single appends, two-channel batches (same id / same key / distinct), same-channel item pairs and lease re-acquisitions",
	})
	if r.Replay() != nil {
		return
	}
	g := func(name string, v *atomic.Int64, min int64) {
		r.Guard(name, v.Load() >= min, "%s=%d (need >=%d)", name, v.Load(), min)
		r.Count(name, v.Load())
	}
	g("batch-appends-accepted", &b08nAccepted, 100)
	g("batch-both-items-accepted", &b08nBatchBothOK, 10)
	g("batch-one-item-refused-other-stored", &b08nBatchOneRefusedStored, 10)
	g("batch-same-id-in-both-items-presented", &b08nBatchCrossDup, 1)
	g("batch-single-duplicate-id-refused", &b08nSingleDupID, 10)
	g("batch-single-duplicate-key-refused", &b08nSingleDupKey, 10)
	g("batch-same-channel-item-pairs-refused", &b08nSameChannelItemsRefused, 10)
	g("batch-same-key-stored-in-two-channels", &b08nSameKeyTwoChannels, 10)
	r.Count("batch-same-id-in-both-items-refused", b08nBatchCrossDupRefused.Load())
	r.Guard("batch-state-space-nontrivial", res.States >= 300, "states=%d", res.States)
	r.Assume("multi-channel batch: when one batch carries the same message id for two channels, refusing either item (or both) satisfies the property; only storing both violates it")
}
