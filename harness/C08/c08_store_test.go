package message_test

// C08 - A sender's client message number maps to at most one message.
//
// Black-box explicit-state exploration of the real pebble-backed message.ChannelLog with an
// alphabet biased to collisions: appends in strict, server-allocated-id and
// trusted-contiguous mode, duplicates in the same batch / a later batch / after a warm or
// cold lease re-acquisition / after reopen / after truncation or trim of the first copy,
// over two channels of one engine, and a second system whose negative membership filter is
// saturated (400 distinct keys pre-loaded, capacity constant 384). Oracle: a reference map
// (sender, number) -> seq per channel and message id -> (channel, seq) per node: an append
// must fail with ErrConflict iff the reference says it would store a pair (or, in strict
// mode, an id) a second time; after every step the real rows of both channels are read back
// and every pair / id must occur at most once, and the lookups must agree with the rows.

import (
	"context"
	"errors"
	"fmt"
	"io"
	"log"
	"os"
	"path/filepath"
	"strconv"
	"strings"
	"sync"
	"sync/atomic"
	"testing"

	"github.com/WuKongIM/WuKongIM/pkg/db/internal/dberrors"
	"github.com/WuKongIM/WuKongIM/pkg/db/internal/engine"
	"github.com/WuKongIM/WuKongIM/pkg/db/message"
	"github.com/WuKongIM/WuKongIM/pkg/zzverif/ev"
	"github.com/WuKongIM/WuKongIM/pkg/zzverif/mc"
)

// ---------------------------------------------------------------- menus

type c08Key struct{ sender, no string }

// 3 keys over 2 senders x 2 client numbers (prefix-colliding strings), 3 menu ids.
var c08Keys = map[string]c08Key{"k1": {"u", "n1"}, "k2": {"u", "n1x"}, "k3": {"ux", "n1"}}
var c08KeyNames = []string{"k1", "k2", "k3"}

const (
	c08TS       = int64(1700000000000)
	c08BulkN    = 400 // > idempotencyMembershipPrimaryCapacity (384): later keys land in the overflow layer
	c08IDStride = 4096
)

// ---------------------------------------------------------------- engine pool

type c08Backend struct {
	dir  string
	eng  *engine.DB
	uses int
}

var (
	c08PoolMu   sync.Mutex
	c08PoolFree []*c08Backend
	c08DirSeq   atomic.Uint64
	c08NS       atomic.Uint64
)

const c08DirPrefix = "verif-C08-"

func c08EngineOptions() engine.Options {
	return engine.Options{CacheSize: 8 << 20, MemTableSize: 16 << 20} // tuning only
}

func c08GetBackend() (*c08Backend, error) {
	c08PoolMu.Lock()
	if n := len(c08PoolFree); n > 0 {
		b := c08PoolFree[n-1]
		c08PoolFree = c08PoolFree[:n-1]
		c08PoolMu.Unlock()
		return b, nil
	}
	c08PoolMu.Unlock()
	dir := filepath.Join("/dev/shm", fmt.Sprintf("%s%d-%d", c08DirPrefix, os.Getpid(), c08DirSeq.Add(1)))
	eng, err := engine.Open(dir, c08EngineOptions())
	if err != nil {
		return nil, err
	}
	return &c08Backend{dir: dir, eng: eng}, nil
}

func c08PutBackend(b *c08Backend, weight int) {
	b.uses += weight
	if b.uses >= 1200 {
		_ = b.eng.Close()
		_ = os.RemoveAll(b.dir)
		return
	}
	c08PoolMu.Lock()
	c08PoolFree = append(c08PoolFree, b)
	c08PoolMu.Unlock()
}

func c08DrainPool() {
	c08PoolMu.Lock()
	defer c08PoolMu.Unlock()
	for _, b := range c08PoolFree {
		_ = b.eng.Close()
		_ = os.RemoveAll(b.dir)
	}
	c08PoolFree = nil
}

func c08SweepStale() {
	ents, err := os.ReadDir("/dev/shm")
	if err != nil {
		return
	}
	for _, e := range ents {
		name := e.Name()
		if !strings.HasPrefix(name, c08DirPrefix) {
			continue
		}
		pid, _, _ := strings.Cut(strings.TrimPrefix(name, c08DirPrefix), "-")
		if _, err := os.Stat("/proc/" + pid); err != nil {
			_ = os.RemoveAll(filepath.Join("/dev/shm", name))
		}
	}
}

// ---------------------------------------------------------------- model

type c08Row struct {
	seq    uint64
	id     uint64
	sender string
	no     string
}

type c08Loc struct {
	ch  int
	seq uint64
}

type c08Chan struct {
	name string
	key  message.ChannelKey
	cid  message.ChannelID
	log  *message.ChannelLog

	rows    []c08Row
	leo     uint64
	adopted uint64
	// how the first copy of each menu key got in / the last thing that happened to the
	// channel's in-memory state since (fingerprints and vacuity counters only)
	since map[c08Key]c08Since
}

type c08Since struct{ mode, last string }

func (s c08Since) String() string {
	if s.last == "" {
		return s.mode
	}
	return s.mode + "/" + s.last
}

type c08Cfg struct {
	name      string
	saturated bool
	alphabet  func(in *c08Inst) []string
}

type c08Inst struct {
	cfg     *c08Cfg
	be      *c08Backend
	db      *message.MessageDB
	ns      uint64
	ch      [2]*c08Chan
	ids     map[uint64]c08Loc
	fresh   uint64 // next allocator-issued id offset
	lastEv  string
	initErr error
}

var c08Ctx = context.Background()

var (
	c08nAccepted, c08nDupKeySameBatch, c08nDupKeyLater, c08nDupKeyAfterReopen, c08nDupKeyAfterCold atomic.Int64
	c08nDupKeyAfterWarm, c08nDupKeyViaAlloc, c08nDupKeyOfTrusted, c08nDupID, c08nDupIDCross            atomic.Int64
	c08nReappendAfterRemoval, c08nSameKeyOtherChannel, c08nTrusted, c08nTrustedBatchDup, c08nSaturated atomic.Int64
	c08nChecks                                                                                         atomic.Int64
)

func c08NewInst(cfg *c08Cfg) *c08Inst {
	in := &c08Inst{cfg: cfg, ids: map[uint64]c08Loc{}, ns: c08NS.Add(1)}
	be, err := c08GetBackend()
	if err != nil {
		in.initErr = err
		return in
	}
	in.be = be
	in.db = message.NewDB(be.eng)
	for i, n := range []string{"A", "B"} {
		k := fmt.Sprintf("w%d%s", in.ns, strings.ToLower(n))
		in.ch[i] = &c08Chan{name: n, key: message.ChannelKey(k), cid: message.ChannelID{ID: k, Type: 2}, since: map[c08Key]c08Since{}}
	}
	in.acquire()
	if in.initErr == nil && cfg.saturated {
		in.preload()
	}
	return in
}

// preload stores c08BulkN distinct keys in channel A through the server-allocated-id path
// (the path that consults and fills the membership filter), so that every key of the menu
// added afterwards lands in the filter's overflow layer.
func (in *c08Inst) preload() {
	c := in.ch[0]
	recs := make([]message.Record, c08BulkN)
	for i := range recs {
		in.fresh++
		recs[i] = message.Record{ID: in.ns*c08IDStride + 16 + in.fresh, FromUID: "bulk", ClientMsgNo: "b" + strconv.Itoa(i), Payload: []byte("p"), ServerTimestampMS: c08TS}
	}
	res, err := c.log.Append(c08Ctx, recs, message.AppendOptions{Mode: message.AppendServerAllocatedMessageID})
	if err != nil || res.Count != c08BulkN {
		in.initErr = fmt.Errorf("bulk preload: %+v %v", res, err)
		return
	}
	for i, r := range recs {
		c.leo++
		c.rows = append(c.rows, c08Row{seq: c.leo, id: r.ID, sender: "bulk", no: "b" + strconv.Itoa(i)})
		in.ids[r.ID] = c08Loc{0, c.leo}
	}
	c08nSaturated.Add(1)
}

func (in *c08Inst) acquire() {
	for _, c := range in.ch {
		if c.log != nil {
			continue
		}
		l, err := in.db.Channel(c.key, c.cid)
		if err != nil {
			in.initErr = err
			return
		}
		c.log = l
	}
}

func (in *c08Inst) releaseLeases() {
	for _, c := range in.ch {
		if c != nil && c.log != nil {
			_ = c.log.Close()
			c.log = nil
		}
	}
}

func (in *c08Inst) Close() {
	if in.be == nil {
		return
	}
	in.releaseLeases()
	w := 1
	if in.cfg.saturated {
		w = 60 // a saturated instance writes ~1600 keys
	}
	c08PutBackend(in.be, w)
	in.be = nil
}

type c08Tok struct {
	key  string // k1..k3
	kind byte   // 'i' menu id, 'f' fresh id, 'g' one shared fresh id per batch
	idx  int
}

func c08ParseToks(s string) []c08Tok {
	var out []c08Tok
	for _, t := range strings.Split(s, "+") {
		tok := c08Tok{key: t[:2], kind: t[2]}
		if tok.kind == 'i' {
			tok.idx, _ = strconv.Atoi(t[3:])
		}
		if _, ok := c08Keys[tok.key]; !ok {
			panic("bad token " + t)
		}
		out = append(out, tok)
	}
	return out
}

// ---------------------------------------------------------------- events

func (in *c08Inst) Events() []string {
	if in.initErr != nil {
		return nil
	}
	return in.cfg.alphabet(in)
}

// trusted lists trusted-contiguous appends whose keys do not collide with the reference
// log (the leader validated them); in-batch duplicates are still presented.
func (in *c08Inst) trusted(ci int, labels ...string) []string {
	c := in.ch[ci]
	var out []string
	for _, l := range labels {
		ok := true
		for _, t := range c08ParseToks(strings.Split(l, ":")[2]) {
			k := c08Keys[t.key]
			for _, r := range c.rows {
				if r.sender == k.sender && r.no == k.no {
					ok = false
				}
			}
		}
		if ok {
			out = append(out, l)
		}
	}
	return out
}

func (in *c08Inst) maintenance(wide bool) []string {
	a, b := in.ch[0], in.ch[1]
	var evs []string
	menuRows := len(a.rows)
	if in.cfg.saturated {
		menuRows -= c08BulkN
	}
	// no suffix truncation once a prefix trim happened: that combination is C07's business
	// (and its known finding), C08 only needs "first copy removed, key appended again"
	if a.leo >= 1 && a.adopted == 0 && menuRows > 0 {
		evs = append(evs, "tr:A:1")
	}
	if menuRows > 0 && !in.cfg.saturated {
		evs = append(evs, "trim:A:1")
	}
	if a.leo > 0 {
		if in.lastEv != "lease:A" {
			evs = append(evs, "lease:A")
		}
		if in.lastEv != "reclaim:A" {
			evs = append(evs, "reclaim:A")
		}
	}
	if wide && b.leo > 0 && in.lastEv != "reclaim:B" {
		evs = append(evs, "reclaim:B")
	}
	if (a.leo > 0 || b.leo > 0) && in.lastEv != "reopen" {
		evs = append(evs, "reopen")
	}
	return evs
}

func c08AlphabetQuick(in *c08Inst) []string {
	evs := []string{"s:A:k1i1", "s:A:k1i2", "s:A:k2i1", "a:A:k1f", "a:A:k2f", "a:A:k1f+k1f", "s:A:k3i3+k1i2", "a:A:k2g+k3g"}
	evs = append(evs, in.trusted(0, "t:A:k1f", "t:A:k2f+k2f")...)
	evs = append(evs, "s:B:k1i1", "s:B:k2i3")
	return append(evs, in.maintenance(false)...)
}

func c08AlphabetWide(in *c08Inst) []string {
	evs := []string{"s:A:k1i1", "s:A:k1i2", "s:A:k2i1", "s:A:k2i2", "s:A:k3i3",
		"s:A:k1i1+k1i2", "s:A:k3i3+k1i2", "s:A:k2i2+k3i2",
		"a:A:k1f", "a:A:k2f", "a:A:k1f+k1f", "a:A:k2f+k3f", "a:A:k2g+k3g"}
	evs = append(evs, in.trusted(0, "t:A:k1f", "t:A:k2f", "t:A:k3f+k3f", "t:A:k2g+k3g")...)
	evs = append(evs, "s:B:k1i1", "s:B:k1i3", "s:B:k2i1", "a:B:k1f")
	evs = append(evs, in.trusted(1, "t:B:k1f")...)
	return append(evs, in.maintenance(true)...)
}

func c08AlphabetSaturated(in *c08Inst) []string {
	evs := []string{"s:A:k1i1", "s:A:k1i2", "a:A:k1f", "a:A:k2f", "a:A:k1f+k1f", "s:A:k3i3+k1i2"}
	evs = append(evs, in.trusted(0, "t:A:k1f")...)
	evs = append(evs, "s:B:k1i1")
	return append(evs, in.maintenance(false)...)
}

// ---------------------------------------------------------------- apply

func (in *c08Inst) Apply(evl string, _ *mc.Env) (string, error) {
	if in.initErr != nil {
		return "", mc.Violatef("C08:harness-init", "cannot initialise instance: %v", in.initErr)
	}
	in.lastEv = evl
	p := strings.Split(evl, ":")
	switch p[0] {
	case "s", "a", "t":
		return in.applyAppend(p)
	case "tr", "trim":
		c := in.ch[c08ChanIndex(p[1])]
		var removed []c08Row
		if p[0] == "tr" {
			from := c.leo
			if err := c.log.TruncateFrom(c08Ctx, from); err != nil {
				return "", mc.Violatef("C08:truncate-error", "%s: %v", evl, err)
			}
			removed = in.remove(c08ChanIndex(p[1]), func(r c08Row) bool { return r.seq < from })
			c.leo = from - 1
		} else {
			through := c.rows[0].seq
			if _, err := c.log.TrimPrefixThrough(c08Ctx, through); err != nil {
				return "", mc.Violatef("C08:trim-error", "%s: %v", evl, err)
			}
			removed = in.remove(c08ChanIndex(p[1]), func(r c08Row) bool { return r.seq > through })
			if through > c.adopted {
				c.adopted = through
			}
		}
		for _, r := range removed {
			delete(c.since, c08Key{r.sender, r.no})
		}
		return p[0], nil
	case "lease", "reclaim":
		c := in.ch[c08ChanIndex(p[1])]
		if p[0] == "reclaim" {
			old := message.VerifSetWarmCapacity(in.db, 0)
			_ = c.log.Close()
			message.VerifSetWarmCapacity(in.db, old)
			c.mark("cold-reacquire")
		} else {
			_ = c.log.Close()
			c.mark("warm-reacquire")
		}
		c.log = nil
		in.acquire()
		if in.initErr != nil {
			return "", mc.Violatef("C08:reacquire-error", "%s: %v", evl, in.initErr)
		}
		return p[0], nil
	case "reopen":
		// logical reopen: a new MessageDB over the still-open engine drops every in-memory
		// structure of the message layer (registry, filters, LEO caches, warm cache)
		in.releaseLeases()
		in.db = message.NewDB(in.be.eng)
		in.acquire()
		if in.initErr != nil {
			return "", mc.Violatef("C08:reacquire-error", "%s: %v", evl, in.initErr)
		}
		in.ch[0].mark("reopen")
		in.ch[1].mark("reopen")
		return "reopen", nil
	}
	panic("unknown event " + evl)
}

func (c *c08Chan) mark(what string) {
	for k, v := range c.since {
		v.last = what
		c.since[k] = v
	}
}

func c08ChanIndex(s string) int {
	if s == "B" {
		return 1
	}
	return 0
}

func (in *c08Inst) remove(ci int, keep func(c08Row) bool) []c08Row {
	c := in.ch[ci]
	var kept, gone []c08Row
	for _, r := range c.rows {
		if keep(r) {
			kept = append(kept, r)
		} else {
			gone = append(gone, r)
			delete(in.ids, r.id)
		}
	}
	c.rows = kept
	return gone
}

// c08WhereClass reduces "later-batch:first-copy-<mode>/<last event>" to the structural
// part used in fingerprints: where the duplicate sits and what happened to the channel's
// in-memory state between the two copies.
func c08WhereClass(where string) string {
	head, tail, ok := strings.Cut(where, ":")
	if !ok {
		return head
	}
	if _, last, ok := strings.Cut(tail, "/"); ok {
		return head + "-after-" + last
	}
	return head
}

var c08ModeName = map[string]string{"s": "strict", "a": "server-allocated-id", "t": "trusted-contiguous"}

func (in *c08Inst) applyAppend(p []string) (string, error) {
	evl := strings.Join(p, ":")
	ci := c08ChanIndex(p[1])
	c := in.ch[ci]
	toks := c08ParseToks(p[2])
	mode := message.AppendStrict
	switch p[0] {
	case "a":
		mode = message.AppendServerAllocatedMessageID
	case "t":
		mode = message.AppendTrustedContiguous
	}
	// concrete records
	var shared uint64
	recs := make([]message.Record, len(toks))
	for i, t := range toks {
		var id uint64
		switch t.kind {
		case 'i':
			id = in.ns*c08IDStride + uint64(t.idx)
		case 'f':
			in.fresh++
			id = in.ns*c08IDStride + 16 + in.fresh
		case 'g':
			if shared == 0 {
				in.fresh++
				shared = in.ns*c08IDStride + 16 + in.fresh
			}
			id = shared
		}
		k := c08Keys[t.key]
		recs[i] = message.Record{ID: id, FromUID: k.sender, ClientMsgNo: k.no, Payload: []byte{byte('a' + i), byte(t.idx)}, ServerTimestampMS: c08TS}
	}
	// reference decision
	want, wantWhere := "", ""
	seenID := map[uint64]bool{}
	seenKey := map[c08Key]bool{}
	for _, r := range recs {
		k := c08Key{r.FromUID, r.ClientMsgNo}
		switch {
		case seenID[r.ID]:
			want, wantWhere = "id", "same-batch"
		case mode == message.AppendStrict && in.hasID(r.ID):
			want, wantWhere = "id", "later-batch"
			if in.ids[r.ID].ch != ci {
				wantWhere = "other-channel"
			}
		case seenKey[k]:
			want, wantWhere = "key", "same-batch"
		case mode != message.AppendTrustedContiguous && c.hasKey(k):
			want, wantWhere = "key", "later-batch:first-copy-"+c.since[k].String()
		}
		if want != "" {
			break
		}
		seenID[r.ID] = true
		seenKey[k] = true
	}
	res, err := c.log.Append(c08Ctx, recs, message.AppendOptions{Mode: mode})
	m := c08ModeName[p[0]]
	if want != "" {
		if err == nil {
			return "", mc.Violatef("C08:duplicate-"+want+"-accepted:"+m+":"+c08WhereClass(wantWhere),
				"%s: %s append accepted (%+v) although the reference already holds the %s (%s)", evl, m, res, want, wantWhere)
		}
		if !errors.Is(err, dberrors.ErrConflict) {
			return "", mc.Violatef("C08:duplicate-"+want+"-wrong-error:"+m, "%s: got %v, want ErrConflict (%s %s)", evl, err, want, wantWhere)
		}
		in.countRefusal(want, wantWhere, p[0], c)
		return "refused:" + want + ":" + strings.SplitN(wantWhere, ":", 2)[0], nil
	}
	if err != nil {
		return "", mc.Violatef("C08:valid-append-refused:"+m, "%s: %s append refused with %v although no pair / id of it is stored", evl, m, err)
	}
	if res.BaseSeq != c.leo+1 || res.Count != len(recs) || res.LastSeq != c.leo+uint64(len(recs)) {
		return "", mc.Violatef("C08:append-result-mismatch", "%s: result %+v at reference LEO %d", evl, res, c.leo)
	}
	for _, r := range recs {
		c.leo++
		c.rows = append(c.rows, c08Row{seq: c.leo, id: r.ID, sender: r.FromUID, no: r.ClientMsgNo})
		in.ids[r.ID] = c08Loc{ci, c.leo}
		c.since[c08Key{r.FromUID, r.ClientMsgNo}] = c08Since{mode: m}
	}
	c08nAccepted.Add(1)
	if p[0] == "t" {
		c08nTrusted.Add(1)
	}
	other := in.ch[1-ci]
	for _, r := range recs {
		if other.hasKey(c08Key{r.FromUID, r.ClientMsgNo}) {
			c08nSameKeyOtherChannel.Add(1)
		}
	}
	return "accepted:" + p[0], nil
}

func (in *c08Inst) hasID(id uint64) bool { _, ok := in.ids[id]; return ok }

func (c *c08Chan) hasKey(k c08Key) bool {
	for _, r := range c.rows {
		if r.sender == k.sender && r.no == k.no {
			return true
		}
	}
	return false
}

func (in *c08Inst) countRefusal(want, where, mode string, c *c08Chan) {
	if want == "id" {
		if where == "other-channel" {
			c08nDupIDCross.Add(1)
		} else {
			c08nDupID.Add(1)
		}
		return
	}
	if where == "same-batch" {
		if mode == "t" {
			c08nTrustedBatchDup.Add(1)
		} else {
			c08nDupKeySameBatch.Add(1)
		}
		return
	}
	c08nDupKeyLater.Add(1)
	if mode == "a" {
		c08nDupKeyViaAlloc.Add(1)
	}
	if strings.Contains(where, "trusted") {
		c08nDupKeyOfTrusted.Add(1)
	}
	if strings.HasSuffix(where, "reopen") {
		c08nDupKeyAfterReopen.Add(1)
	}
	if strings.HasSuffix(where, "cold-reacquire") {
		c08nDupKeyAfterCold.Add(1)
	}
	if strings.HasSuffix(where, "warm-reacquire") {
		c08nDupKeyAfterWarm.Add(1)
	}
}

func (in *c08Inst) Canon() string { return "" }

// ---------------------------------------------------------------- oracle

func (in *c08Inst) Check() error {
	if in.initErr != nil {
		return mc.Violatef("C08:harness-init", "cannot initialise instance: %v", in.initErr)
	}
	c08nChecks.Add(1)
	idCount := map[uint64]int{}
	for ci, c := range in.ch {
		where := fmt.Sprintf("channel %s (reference: leo=%d rows=%d)", c.name, c.leo, len(c.rows))
		rows, err := c.log.Read(c08Ctx, 1, message.ReadOptions{})
		if err != nil {
			return mc.Violatef("C08:read-error", "%s: Read: %v", where, err)
		}
		// the property, stated directly on what the store returns
		keyCount := map[c08Key]int{}
		for _, m := range rows {
			idCount[m.MessageID]++
			if m.FromUID != "" && m.ClientMsgNo != "" {
				k := c08Key{m.FromUID, m.ClientMsgNo}
				keyCount[k]++
				if keyCount[k] > 1 {
					return mc.Violatef("C08:key-stored-at-two-sequences", "%s: (%s,%s) is stored at more than one sequence", where, m.FromUID, m.ClientMsgNo)
				}
			}
			if idCount[m.MessageID] > 1 {
				return mc.Violatef("C08:message-id-stored-twice", "%s: message id %d is stored more than once on this node", where, m.MessageID%c08IDStride)
			}
		}
		if len(rows) != len(c.rows) {
			return mc.Violatef("C08:rows-differ-from-reference", "%s: store holds %d rows", where, len(rows))
		}
		for i, m := range rows {
			w := c.rows[i]
			if m.MessageSeq != w.seq || m.MessageID != w.id || m.FromUID != w.sender || m.ClientMsgNo != w.no {
				return mc.Violatef("C08:rows-differ-from-reference", "%s: row %d is seq=%d id=%d (%s,%s), reference seq=%d id=%d (%s,%s)", where, i, m.MessageSeq, m.MessageID%c08IDStride, m.FromUID, m.ClientMsgNo, w.seq, w.id%c08IDStride, w.sender, w.no)
			}
		}
		leo, err := c.log.LEO(c08Ctx)
		if err != nil || leo != c.leo {
			return mc.Violatef("C08:leo-mismatch", "%s: LEO=%d,%v", where, leo, err)
		}
		// lookups agree with the rows, for every key of the menu (stored or not)
		for _, kn := range c08KeyNames {
			k := c08Keys[kn]
			hit, ok, err := c.log.LookupIdempotency(c08Ctx, message.IdempotencyKey{FromUID: k.sender, ClientMsgNo: k.no})
			if err != nil {
				return mc.Violatef("C08:LookupIdempotency-error", "%s: LookupIdempotency(%s): %v", where, kn, err)
			}
			var w *c08Row
			for i := range c.rows {
				if c.rows[i].sender == k.sender && c.rows[i].no == k.no {
					w = &c.rows[i]
				}
			}
			if ok != (w != nil) || (ok && (hit.MessageSeq != w.seq || hit.MessageID != w.id)) {
				return mc.Violatef("C08:LookupIdempotency-disagrees-with-rows", "%s: LookupIdempotency(%s)=%+v,%v, reference row %+v", where, kn, hit, ok, w)
			}
		}
		// ids: the 3 menu ids plus every id the reference holds in the menu range
		probe := map[uint64]bool{}
		for i := uint64(1); i <= 3; i++ {
			probe[in.ns*c08IDStride+i] = true
		}
		for _, r := range c.rows {
			if r.sender != "bulk" {
				probe[r.id] = true
			}
		}
		for id := range probe {
			got, ok, err := c.log.GetByMessageID(c08Ctx, id)
			if err != nil {
				return mc.Violatef("C08:GetByMessageID-error", "%s: GetByMessageID(%d): %v", where, id%c08IDStride, err)
			}
			loc, stored := in.ids[id]
			if ok != (stored && loc.ch == ci) || (ok && got.MessageSeq != loc.seq) {
				return mc.Violatef("C08:GetByMessageID-disagrees-with-rows", "%s: GetByMessageID(%d) found=%v seq=%d, reference %+v stored=%v", where, id%c08IDStride, ok, got.MessageSeq, loc, stored)
			}
		}
	}
	return nil
}

// ---------------------------------------------------------------- test

func TestVerifC08(t *testing.T) {
	log.SetOutput(io.Discard)
	r := ev.Start(t, "C08")
	defer r.Finish()
	c08SweepStale()
	defer c08DrainPool()

	type sys struct {
		cfg   *c08Cfg
		depth int
		note  string
	}
	systems := []sys{
		{&c08Cfg{"idempotency-main", false, c08AlphabetQuick}, ev.Pick(r, 4, 5), "collision alphabet (<=17 events/state)"},
		{&c08Cfg{"idempotency-wide", false, c08AlphabetWide}, ev.Pick(r, 3, 4), "wide alphabet (<=28 events/state)"},
		{&c08Cfg{"idempotency-filter-saturated", true, c08AlphabetSaturated}, ev.Pick(r, 3, 4), "channel A pre-loaded with 400 distinct keys through the server-allocated-id path (filter primary capacity 384), then <=13 events/state"},
	}
	var total mc.Result
	for _, s := range systems {
		cfg := s.cfg
		res := mc.Run(r, mc.System{
			Name:       cfg.name,
			New:        func() mc.Instance { return c08NewInst(cfg) },
			MaxDepth:   s.depth,
			ShardDepth: 2,
			Bounds:     map[string]any{"channels": 2, "keys": c08KeyNames, "menu_ids": 3, "modes": []string{"strict", "server-allocated-id", "trusted-contiguous"}, "alphabet": s.note},
			Note:       "no state merging (membership filter, LEO cache, warm registry state are hidden state): every event sequence up to the depth bound",
		})
		total.States += res.States
		total.Transitions += res.Transitions
	}
	if r.Replay() != nil {
		return
	}
	g := func(name string, v *atomic.Int64, min int64) {
		r.Guard(name, v.Load() >= min, "%s=%d (need >=%d)", name, v.Load(), min)
		r.Count(name, v.Load())
	}
	g("appends-accepted", &c08nAccepted, 100)
	g("duplicate-key-refused-same-batch", &c08nDupKeySameBatch, 10)
	g("duplicate-key-refused-later-batch", &c08nDupKeyLater, 10)
	g("duplicate-key-refused-after-reopen", &c08nDupKeyAfterReopen, 10)
	g("duplicate-key-refused-after-cold-reacquire", &c08nDupKeyAfterCold, 10)
	g("duplicate-key-refused-after-warm-reacquire", &c08nDupKeyAfterWarm, 10)
	g("duplicate-key-refused-in-server-allocated-mode", &c08nDupKeyViaAlloc, 10)
	g("duplicate-of-trusted-row-refused", &c08nDupKeyOfTrusted, 10)
	g("trusted-same-batch-duplicate-refused", &c08nTrustedBatchDup, 10)
	g("duplicate-id-refused", &c08nDupID, 10)
	g("duplicate-id-refused-other-channel", &c08nDupIDCross, 10)
	g("same-key-accepted-in-other-channel", &c08nSameKeyOtherChannel, 10)
	g("trusted-appends", &c08nTrusted, 10)
	g("saturated-instances", &c08nSaturated, 10)
	r.Count("states-fully-compared", c08nChecks.Load())
	r.Guard("state-space-nontrivial", total.States >= 1000, "states=%d", total.States)
	r.Assume("server-allocated-id mode: the caller's proof (ids are allocator-issued, unique on the node) is honoured; colliding (sender, number) keys are still presented and must be refused")
	r.Assume("trusted-contiguous mode (follower apply): rows were validated by the leader, so the harness presents no row whose pair is already stored; same-batch duplicates are presented and must be refused, and later strict/server-allocated duplicates of trusted rows must be refused")
	r.Assume("logical reopen = new MessageDB over the still-open pebble engine (all message-layer memory dropped, filter and LEO rebuilt from durable rows)")
	r.Assume("cold lease re-acquisition uses a test seam that makes the registry's warm cache (8192 keys) behave as already evicted for that one release")
}
