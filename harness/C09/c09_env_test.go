package message

// C09 - storage mutations are crash-atomic (engine E4, crash-point enumeration).
//
// This file: the crash-volume plumbing shared by the harness - one process-wide
// crashfs.Router behind engine.VerifFS, real Open/Close of the message store on a mounted
// volume, the raw key/value dump of a store (the encoding-agnostic view that makes
// "entirely present or entirely absent" checkable for every row, index, identity and
// watermark key at once) and a quiet Pebble logger.

import (
	"bytes"
	"crypto/sha256"
	"encoding/hex"
	"fmt"
	"sort"
	"strings"
	"sync"
	"sync/atomic"

	"github.com/WuKongIM/WuKongIM/pkg/db/internal/engine"
	channel "github.com/WuKongIM/WuKongIM/pkg/db/message/channelcompat"
	"github.com/WuKongIM/WuKongIM/pkg/zzverif/crashfs"
	"github.com/cockroachdb/pebble/v2"
	"github.com/cockroachdb/pebble/v2/vfs"
)

type vc09Quiet struct{}

func (vc09Quiet) Infof(string, ...interface{})  {}
func (vc09Quiet) Errorf(string, ...interface{}) {}
func (vc09Quiet) Fatalf(format string, args ...interface{}) {
	panic("pebble fatal: " + fmt.Sprintf(format, args...))
}

var (
	vc09RouterOnce sync.Once
	vc09Router     *crashfs.Router
	vc09MountSeq   atomic.Int64
)

// vc09Setup installs the process-wide router (idempotent).
func vc09Setup() *crashfs.Router {
	vc09RouterOnce.Do(func() {
		vc09Router = crashfs.NewRouter()
		engine.VerifFS = vc09Router
		engine.VerifTweak = func(o *pebble.Options) {
			o.Logger = vc09Quiet{}
		}
	})
	return vc09Router
}

// vc09NewPrefix returns a unique top-level mount prefix.
func vc09NewPrefix() string { return fmt.Sprintf("/vc09m%d", vc09MountSeq.Add(1)) }

// the two channels every history works on
var (
	vc09Keys = [2]channel.ChannelKey{"c09/a", "c09/b"}
	vc09IDs  = [2]channel.ChannelID{{ID: "a", Type: 1}, {ID: "b", Type: 1}}
	vc09Name = [2]string{"A", "B"}
)

// vc09Store is one real, opened message store on a mounted volume.
type vc09Store struct {
	eng    *Engine
	stores [2]*ChannelStore
}

func vc09OpenStore(prefix string) (*vc09Store, error) {
	eng, err := Open(prefix + "/db")
	if err != nil {
		return nil, err
	}
	s := &vc09Store{eng: eng}
	for i := range vc09Keys {
		st, err := eng.ForChannel(vc09Keys[i], vc09IDs[i])
		if err != nil {
			_ = eng.Close()
			return nil, err
		}
		s.stores[i] = st
	}
	return s, nil
}

func (s *vc09Store) close() error {
	var first error
	for _, st := range s.stores {
		if st != nil {
			if err := st.Close(); err != nil && first == nil {
				first = err
			}
		}
	}
	if err := s.eng.Close(); err != nil && first == nil {
		first = err
	}
	return first
}

// vc09KV is one raw key/value pair.
type vc09KV struct{ K, V string }

// vc09Dump is the complete logical content of a store in key order.
type vc09Dump struct {
	KVs  []vc09KV
	Hash string
}

func vc09DumpStore(s *vc09Store) (vc09Dump, error) {
	var d vc09Dump
	it, err := s.eng.engine.NewIter(engine.Span{}, engine.IterOptions{})
	if err != nil {
		return d, err
	}
	defer it.Close()
	h := sha256.New()
	var lenbuf [8]byte
	put := func(b []byte) {
		n := len(b)
		for i := 0; i < 8; i++ {
			lenbuf[i] = byte(n >> (8 * i))
		}
		h.Write(lenbuf[:])
		h.Write(b)
	}
	for ok := it.First(); ok; ok = it.Next() {
		k := append([]byte(nil), it.Key()...)
		v, err := it.Value()
		if err != nil {
			return d, err
		}
		put(k)
		put(v)
		d.KVs = append(d.KVs, vc09KV{K: string(k), V: string(v)})
	}
	if err := it.Error(); err != nil {
		return d, err
	}
	d.Hash = hex.EncodeToString(h.Sum(nil))[:16]
	return d, nil
}

func (d vc09Dump) asMap() map[string]string {
	m := make(map[string]string, len(d.KVs))
	for _, kv := range d.KVs {
		m[kv.K] = kv.V
	}
	return m
}

// vc09DumpDiff describes how got differs from want (for violation messages).
func vc09DumpDiff(want, got vc09Dump) string {
	wm, gm := want.asMap(), got.asMap()
	var missing, extra, changed []string
	for k, v := range wm {
		g, ok := gm[k]
		if !ok {
			missing = append(missing, vc09KeyName(k))
		} else if g != v {
			changed = append(changed, vc09KeyName(k))
		}
	}
	for k := range gm {
		if _, ok := wm[k]; !ok {
			extra = append(extra, vc09KeyName(k))
		}
	}
	sort.Strings(missing)
	sort.Strings(extra)
	sort.Strings(changed)
	clip := func(xs []string) string {
		if len(xs) > 6 {
			return fmt.Sprintf("%s ...(+%d)", strings.Join(xs[:6], ","), len(xs)-6)
		}
		return strings.Join(xs, ",")
	}
	return fmt.Sprintf("missing=%d[%s] extra=%d[%s] changed=%d[%s]", len(missing), clip(missing), len(extra), clip(extra), len(changed), clip(changed))
}

// vc09KeyName renders a raw key readably (printable bytes kept, the rest hex).
func vc09KeyName(k string) string {
	var b bytes.Buffer
	for i := 0; i < len(k); i++ {
		c := k[i]
		if c >= 0x21 && c <= 0x7e && c != '\\' {
			b.WriteByte(c)
		} else {
			fmt.Fprintf(&b, "\\%02x", c)
		}
	}
	s := b.String()
	if len(s) > 70 {
		s = s[:70] + "~"
	}
	return s
}

// vc09SubsetOf reports whether every pair of a is in b.
func vc09SubsetOf(a, b vc09Dump) bool {
	bm := b.asMap()
	for _, kv := range a.KVs {
		if v, ok := bm[kv.K]; !ok || v != kv.V {
			return false
		}
	}
	return true
}

// vc09ImageHash is a content hash of the database directory of a crash image (file names
// and bytes). Two images with the same hash are the same disk; the deterministic recovery
// is executed once for them.
func vc09ImageHash(mem *vfs.MemFS, dir string) (string, error) {
	names, err := mem.List(dir)
	if err != nil {
		return "", err
	}
	sort.Strings(names)
	h := sha256.New()
	for _, n := range names {
		full := mem.PathJoin(dir, n)
		info, err := mem.Stat(full)
		if err != nil {
			return "", err
		}
		fmt.Fprintf(h, "%d:%s:%v:", len(n), n, info.IsDir())
		if info.IsDir() {
			sub, err := vc09ImageHash(mem, full)
			if err != nil {
				return "", err
			}
			h.Write([]byte(sub))
			continue
		}
		f, err := mem.Open(full)
		if err != nil {
			return "", err
		}
		size := info.Size()
		buf := make([]byte, size)
		if size > 0 {
			if _, err := f.ReadAt(buf, 0); err != nil {
				f.Close()
				return "", err
			}
		}
		f.Close()
		fmt.Fprintf(h, "%d:", size)
		h.Write(buf)
	}
	return hex.EncodeToString(h.Sum(nil)), nil
}
