package message

// C09 runner: executes one history on a crash-capturing volume through the real store,
// records a boundary (raw dump + API observation + model) after every engine-batch-level
// step, then reopens EVERY captured crash image (kill and power-loss) with the real open
// path and decides the property for it.

import (
	"context"
	"encoding/json"
	"fmt"
	"math/rand"
	rand2 "math/rand/v2"
	"os"
	"runtime"
	"sort"
	"strings"
	"sync"
	"sync/atomic"
	"testing"
	"time"

	"github.com/WuKongIM/WuKongIM/pkg/quorumlog"
	"github.com/WuKongIM/WuKongIM/pkg/zzverif/crashfs"
	"github.com/WuKongIM/WuKongIM/pkg/zzverif/ev"
	"github.com/cockroachdb/pebble/v2/vfs"
)

// vc09Meta is captured with every crash image.
type vc09Meta struct {
	Acked     int64  // steps acknowledged
	Started   int64  // steps started
	WalWrites int64  // WAL write points seen since the in-flight step began (incl. this one)
	ParAcked  uint32 // bitmask of acknowledged requests of a concurrent step
}

type vc09Step struct {
	Event    string // history event label this step belongs to
	EvIdx    int    // index of that event in the history
	Kind     string
	CI       int
	Par      []*vc09Op // concurrent step: the requests
	Disabled bool
	OK       bool
	Tags     []string // accepted step: the secondary records its pre-state carried (vc09Op.tags)
}

type vc09Boundary struct {
	Raw   vc09Dump
	Model *vc09Model
}

type vc09Violation struct {
	FP  string
	Msg string
}

type vc09Stats struct {
	images, inflight, insideWalBatch, insideMultiBatch, partialCleanup int64
	inflightOld, inflightNew, powerLostUnacked                      int64
	groupedBatches, parImages, parPartial                          int64
	reopened, cleanupAboveLEO                                       int64
	kindOK                                                           map[string]int64
	points, steps, boundaries                                        int64
	// a further real mutation executed on the recovered store of every distinct disk content
	further int64
	// images captured strictly inside an accepted step, by the tags of that step
	tagInflight map[string]int64
}

type vc09History struct {
	name    string
	prefix  []string // events executed before capturing starts
	events  []string
	par     bool // the captured part is ONE concurrent step made of the events
	pair    bool // events = (op1, op2): op2 runs while op1 is parked inside its WAL fsync
	ps      vc09PairStats
	viols   []vc09Violation
	herrs   []string
	st      vc09Stats
	sample  map[string]any
}

func (h *vc09History) label() string {
	if len(h.prefix) > 0 {
		return fmt.Sprintf("%s{prefix %s | %s}", h.name, strings.Join(h.prefix, " ; "), strings.Join(h.events, " ; "))
	}
	return fmt.Sprintf("%s{%s}", h.name, strings.Join(h.events, " ; "))
}

func (h *vc09History) violate(fp, format string, args ...any) {
	for _, v := range h.viols {
		if v.FP == fp {
			return
		}
	}
	h.viols = append(h.viols, vc09Violation{FP: fp, Msg: h.label() + ": " + fmt.Sprintf(format, args...)})
}

func (h *vc09History) herr(format string, args ...any) {
	if len(h.herrs) < 5 {
		h.herrs = append(h.herrs, h.label()+": "+fmt.Sprintf(format, args...))
	}
}

type vc09Observer struct{ grouped atomic.Int64 }

func (o *vc09Observer) SetCommitCoordinatorQueueDepth(int) {}
func (o *vc09Observer) ObserveCommitCoordinatorBatch(e CommitCoordinatorBatchEvent) {
	if e.Requests >= 2 && e.Err == nil {
		o.grouped.Add(1)
	}
}

// vc09Exec is the live execution of one history.
type vc09Exec struct {
	h       *vc09History
	router  *crashfs.Router
	prefix  string
	vol     *crashfs.Volume
	store   *vc09Store
	model   *vc09Model
	steps   []vc09Step
	bounds  []vc09Boundary
	acked   atomic.Int64
	started atomic.Int64
	wal     atomic.Int64
	parAck  atomic.Uint32
	capture bool
	evIdx   int
}

func (x *vc09Exec) boundary() bool {
	raw, err := vc09DumpStore(x.store)
	if err != nil {
		x.h.herr("raw dump failed: %v", err)
		return false
	}
	// the live store, read through its API, must agree with the reference model
	live, _ := vc09ObserveAll(x.store, x.model.Q)
	if d := vc09FirstDiff(x.model.expectAll(x.model.Q), live); d != "" {
		x.h.violate("C09:clean-run-state-differs-from-model:"+vc09LineKind(d), "after %d steps the live store differs from the reference model: %s", len(x.steps), d)
		return false
	}
	x.bounds = append(x.bounds, vc09Boundary{Raw: raw, Model: x.model.clone()})
	return true
}

// runOp executes one prepared op as one step.
func (x *vc09Exec) runOp(event string, op *vc09Op) bool {
	step := vc09Step{Event: event, EvIdx: x.evIdx, Kind: op.kind, CI: op.ci, Disabled: op.disabled}
	x.wal.Store(0)
	x.started.Add(1)
	var err error
	if !op.disabled {
		if perr := ev.Recover(func() { err = op.run(x.store) }); perr != nil {
			x.h.violate("C09:panic-in-mutation:"+op.kind, "%s panicked: %v", op.name(), perr)
			return false
		}
	}
	x.acked.Add(1)
	ok := !op.disabled && err == nil
	step.OK = ok
	if ok {
		step.Tags = op.tags
	}
	x.steps = append(x.steps, step)
	if !op.disabled && ok != op.predictOK {
		x.h.violate("C09:mutation-outcome-differs-from-model:"+op.kind, "step %d %s: real result err=%v, model predicted accepted=%v", len(x.steps), op.name(), err, op.predictOK)
		return false
	}
	if ok {
		op.apply(x.model)
		if op.changes {
			x.h.st.kindOK[op.kind]++
		}
	}
	return x.boundary()
}

// runEvent expands one history event into its steps.
func (x *vc09Exec) runEvent(event string) bool {
	x.evIdx++
	kind, ci, arg := vc09ParseEvent(event)
	m := x.model
	switch kind {
	case "app":
		return x.runOp(event, m.prepApp(ci))
	case "xhw":
		return x.runOp(event, m.prepXhw(ci))
	case "fol":
		return x.runOp(event, m.prepFol(ci))
	case "flo":
		return x.runOp(event, m.prepFolHW(ci, false))
	case "rep":
		return x.runOp(event, m.prepRep(ci))
	case "trn", "trp":
		// default target: everything above the committed HW; explicit target: trn:A:<seq>
		if arg == "" {
			if kind == "trn" {
				return x.runOp(event, m.prepTrn(ci))
			}
			to := m.Ch[ci].LEO
			if m.Ch[ci].HW < to {
				to = m.Ch[ci].HW
			}
			return x.runOp(event, m.prepTrnTo(ci, to, false))
		}
		var to uint64
		fmt.Sscan(arg, &to)
		return x.runOp(event, m.prepTrnTo(ci, to, kind == "trn"))
	case "trx":
		// physical trim batches only, through the boundary adopted earlier (no adopt call)
		through := m.Ch[ci].Local
		if !m.Ch[ci].HasRet || through == 0 {
			return x.runOp(event, &vc09Op{kind: "trim", ci: ci, disabled: true})
		}
		for i := 0; i < 8; i++ {
			op := m.prepTrim(ci, through)
			if !x.runOp(event, op) {
				return false
			}
			if !op.more || !x.steps[len(x.steps)-1].OK {
				break
			}
		}
		return true
	case "ckp":
		return x.runOp(event, m.prepCkp(ci, false))
	case "ckb":
		return x.runOp(event, m.prepCkp(ci, true))
	case "dis":
		return x.runOp(event, m.prepDis(ci))
	case "bulk":
		n := 0
		fmt.Sscan(arg, &n)
		return x.runOp(event, m.prepBulk(ci, n))
	case "trm":
		through := vc09TrimThrough(&m.Ch[ci])
		if arg != "" {
			// explicit boundary: trm:A:<seq>
			fmt.Sscan(arg, &through)
		}
		if through == 0 {
			return x.runOp(event, &vc09Op{kind: "adopt", ci: ci, disabled: true})
		}
		if !x.runOp(event, m.prepAdopt(ci, through)) {
			return false
		}
		for i := 0; i < 8; i++ {
			op := m.prepTrim(ci, through)
			if !x.runOp(event, op) {
				return false
			}
			if !op.more || !x.steps[len(x.steps)-1].OK {
				break
			}
		}
		return true
	}
	x.h.herr("unknown event %q", event)
	return false
}

func (x *vc09Exec) prepEvent(event string) *vc09Op {
	kind, ci, _ := vc09ParseEvent(event)
	m := x.model
	switch kind {
	case "app":
		return m.prepApp(ci)
	case "xhw":
		return m.prepXhw(ci)
	case "fol":
		return m.prepFol(ci)
	case "ckb":
		return m.prepCkp(ci, true)
	}
	return nil
}

// runPar executes the events of h as ONE concurrent step: every request is submitted from
// its own goroutine; the coordinator is configured to collect exactly len(ops) requests.
// mask selects which requests really run (all of them on the crash volume; the shadow
// executions that produce the single-request reference states run a subset sequentially).
func (x *vc09Exec) runPar(events []string, mask uint32, concurrent bool) bool {
	ops := make([]*vc09Op, len(events))
	for i, e := range events {
		ops[i] = x.prepEvent(e)
		if ops[i] == nil {
			x.h.herr("event %q cannot be part of a concurrent step", e)
			return false
		}
	}
	x.wal.Store(0)
	x.parAck.Store(0)
	x.started.Add(1)
	errs := make([]error, len(ops))
	if concurrent {
		var wg sync.WaitGroup
		for i := range ops {
			wg.Add(1)
			go func(i int) {
				defer wg.Done()
				if perr := ev.Recover(func() { errs[i] = ops[i].run(x.store) }); perr != nil {
					errs[i] = perr
				}
				if errs[i] == nil {
					for {
						old := x.parAck.Load()
						if x.parAck.CompareAndSwap(old, old|1<<uint(i)) {
							break
						}
					}
				}
			}(i)
		}
		wg.Wait()
	} else {
		for i := range ops {
			if mask&(1<<uint(i)) != 0 {
				errs[i] = ops[i].run(x.store)
			}
		}
	}
	x.acked.Add(1)
	x.steps = append(x.steps, vc09Step{Event: strings.Join(events, " || "), Kind: "par", Par: ops, OK: true})
	for i, op := range ops {
		if mask&(1<<uint(i)) == 0 {
			continue
		}
		if (errs[i] == nil) != op.predictOK {
			x.h.violate("C09:mutation-outcome-differs-from-model:"+op.kind, "concurrent request %s: err=%v, model predicted accepted=%v", op.name(), errs[i], op.predictOK)
			return false
		}
		if errs[i] == nil {
			op.apply(x.model)
		}
	}
	return x.boundary()
}

// vc09RunShadow executes prefix + the subset mask of the concurrent events sequentially on
// a plain (non-capturing) volume and returns the final boundary: the reference state
// "prefix + exactly these requests".
func vc09RunShadow(h *vc09History, mask uint32) (vc09Boundary, bool) {
	sh := &vc09History{name: h.name + "/shadow", prefix: h.prefix, events: h.events, par: true, st: vc09Stats{kindOK: map[string]int64{}}}
	x, ok := vc09Start(sh, false)
	if !ok {
		h.herrs = append(h.herrs, sh.herrs...)
		return vc09Boundary{}, false
	}
	defer x.finish()
	for _, e := range sh.prefix {
		if !x.runEvent(e) {
			break
		}
	}
	if len(sh.viols) == 0 && len(sh.herrs) == 0 {
		x.runPar(sh.events, mask, false)
	}
	if len(sh.viols) > 0 || len(sh.herrs) > 0 {
		for _, v := range sh.viols {
			h.herr("shadow execution failed: %s", v.Msg)
		}
		h.herrs = append(h.herrs, sh.herrs...)
		return vc09Boundary{}, false
	}
	return x.bounds[len(x.bounds)-1], true
}

// vc09Start opens a fresh store on a fresh volume.
func vc09Start(h *vc09History, capture bool) (*vc09Exec, bool) {
	x := &vc09Exec{h: h, router: vc09Setup(), prefix: vc09NewPrefix(), model: vc09NewModel(), capture: capture}
	x.vol = crashfs.NewVolume()
	x.router.Mount(x.prefix, x.vol)
	if err := x.vol.MkdirAllSynced(x.prefix + "/db"); err != nil {
		h.herr("mkdir: %v", err)
		return nil, false
	}
	st, err := vc09OpenStore(x.prefix)
	if err != nil {
		h.herr("open fresh store: %v", err)
		x.router.Unmount(x.prefix)
		return nil, false
	}
	x.store = st
	x.vol.Filter = func(k int, op string) bool {
		if strings.HasPrefix(op, "write ") && strings.HasSuffix(op, ".log") {
			x.wal.Add(1)
		}
		return true
	}
	x.vol.Meta = func() any {
		return vc09Meta{Acked: x.acked.Load(), Started: x.started.Load(), WalWrites: x.wal.Load(), ParAcked: x.parAck.Load()}
	}
	return x, true
}

func (x *vc09Exec) finish() {
	if x.store != nil {
		_ = x.store.close()
		x.store = nil
	}
	x.router.Unmount(x.prefix)
}

// vc09RunHistory runs h completely: execution with capture, then every image.
func vc09RunHistory(h *vc09History) {
	h.st.kindOK = map[string]int64{}
	h.st.tagInflight = map[string]int64{}
	if h.pair {
		vc09RunPair(h)
		return
	}
	x, ok := vc09Start(h, true)
	if !ok {
		return
	}
	var obs *vc09Observer
	good := true
	for _, e := range h.prefix {
		if good = x.runEvent(e); !good {
			break
		}
	}
	if h.par {
		// configured AFTER the prefix: a lone prefix request would otherwise sit out the whole
		// flush window (the window only has to be longer than the concurrent submission takes)
		obs = &vc09Observer{}
		x.store.eng.ConfigureCommitCoordinator(CommitCoordinatorConfig{FlushWindow: 20 * time.Second, MaxRequests: len(h.events), Observer: obs})
	}
	// steps of the prefix are not crash-tested: restart the step numbering
	if good {
		x.steps = nil
		x.bounds = nil
		x.acked.Store(0)
		x.started.Store(0)
		if h.name == "prep" {
			h.st.kindOK = map[string]int64{} // count the captured event only
		}
		good = x.boundary()
	}
	if good {
		x.vol.Start()
		if h.par {
			good = x.runPar(h.events, 1<<uint(len(h.events))-1, true)
		} else {
			for _, e := range h.events {
				if good = x.runEvent(e); !good {
					break
				}
			}
		}
		x.vol.Stop()
		x.vol.Snapshot("idle")
	}
	h.st.points = int64(x.vol.Points())
	h.st.steps = int64(len(x.steps))
	h.st.boundaries = int64(len(x.bounds))
	if obs != nil {
		h.st.groupedBatches = obs.grouped.Load()
		if good && h.st.groupedBatches == 0 {
			h.herr("the concurrent requests were not collected into one physical batch")
		}
	}
	images := x.vol.Images()
	_ = x.store.close()
	x.store = nil
	if !good {
		x.router.Unmount(x.prefix)
		return
	}
	final := x.bounds[len(x.bounds)-1].Model.Q
	var shadows map[uint32]vc09Boundary
	if h.par {
		shadows = map[uint32]vc09Boundary{}
		full := uint32(1)<<uint(len(h.events)) - 1
		for mask := uint32(1); mask < full; mask++ {
			b, ok := vc09RunShadow(h, mask)
			if !ok {
				x.router.Unmount(x.prefix)
				return
			}
			shadows[mask] = b
		}
		// determinism of the shadow technique: all requests sequentially == the concurrent run
		if b, ok := vc09RunShadow(h, full); ok {
			if b.Raw.Hash != x.bounds[len(x.bounds)-1].Raw.Hash {
				h.herr("sequential shadow of all concurrent requests differs from the concurrent execution: %s", vc09DumpDiff(x.bounds[len(x.bounds)-1].Raw, b.Raw))
			}
		}
	}
	var lastDesc string
	cache := map[string]*vc09Reopened{}
	for _, img := range images {
		meta, _ := img.Meta.(vc09Meta)
		for _, mode := range []string{"kill", "power"} {
			mem := img.Kill
			if mode == "power" {
				mem = img.Power
			}
			desc := x.checkImage(img.K, img.Op, mode, mem, meta, final, shadows, cache)
			if desc != "" {
				lastDesc = desc
			}
		}
	}
	x.router.Unmount(x.prefix)
	var stepNames []string
	for _, s := range x.steps {
		n := s.Kind
		if s.Kind != "par" {
			n += ":" + vc09Name[s.CI]
		}
		if s.Disabled {
			n += "(n/a)"
		} else if !s.OK {
			n += "(refused)"
		}
		stepNames = append(stepNames, n)
	}
	h.sample = map[string]any{"history": h.label(), "steps": stepNames, "crash_points_captured": len(images), "images_reopened": h.st.images,
		"images_inside_a_mutation": h.st.inflight, "last_inflight_image": lastDesc, "final_state": x.bounds[len(x.bounds)-1].Model.expectAll(final)[:6]}
}

// vc09Reopened is what the real open path made of one disk content.
type vc09Reopened struct {
	err   error // Open failed
	derr  error // the recovered store could not be scanned
	raw   vc09Dump
	lines []string
	facts [2]vc09Facts
	st    *vc09Store // still open: the further real mutation has not run yet
}

func (ro *vc09Reopened) release() {
	if ro.st != nil {
		_ = ro.st.close()
		ro.st = nil
	}
}

// vc09Further executes one more REAL mutation per channel (a plain append at the recovered
// log end) on a recovered store whose content equals the reference model base, and compares
// everything the store then reports with the model after those appends: a recovered state
// must not only read back correctly, the store must also keep working from it.
func vc09Further(st *vc09Store, base *vc09Model, q vc09Queries) string {
	m := base.clone()
	m.Q.IDs = append([]uint64(nil), q.IDs...)
	for i := range q.Cmds {
		m.Q.Cmds[i] = append([]quorumlog.CommandID(nil), q.Cmds[i]...)
	}
	m.Q.MaxSeq = q.MaxSeq
	for ci := range m.Ch {
		op := m.prepApp(ci)
		var err error
		if perr := ev.Recover(func() { err = op.run(st) }); perr != nil {
			return fmt.Sprintf("a further append on channel %s panicked: %v", vc09Name[ci], perr)
		}
		if err != nil {
			return fmt.Sprintf("a further append on channel %s (model log end %d) fails: %v", vc09Name[ci], base.Ch[ci].LEO, err)
		}
		op.apply(m)
	}
	lines, _ := vc09ObserveAll(st, m.Q)
	if d := vc09FirstDiff(m.expectAll(m.Q), lines); d != "" {
		return "after a further append on every channel the store differs from the model: " + d
	}
	return ""
}

// reopen mounts a private copy of the image, opens it with the real Open and reads it.
// With keep the opened store is returned (the caller closes it).
func (x *vc09Exec) reopen(mem *vfs.MemFS, q vc09Queries, keep bool) (*vc09Reopened, *vc09Store) {
	cp := mem.CrashClone(vfs.CrashCloneCfg{UnsyncedDataPercent: 100, RNG: rand2.New(rand2.NewPCG(1, 2))})
	x.router.Mount(x.prefix, crashfs.FromImage(cp))
	res := &vc09Reopened{}
	st, err := vc09OpenStore(x.prefix)
	if err != nil {
		res.err = err
		return res, nil
	}
	res.raw, res.derr = vc09DumpStore(st)
	if res.derr == nil {
		res.lines, res.facts = vc09ObserveAll(st, q)
	}
	if keep {
		return res, st
	}
	_ = st.close()
	return res, nil
}

// checkImage decides the property for one crash image. It returns a short description
// when the image was captured strictly inside a mutation.
func (x *vc09Exec) checkImage(k int, fsop, mode string, mem *vfs.MemFS, meta vc09Meta, q vc09Queries, shadows map[uint32]vc09Boundary, cache map[string]*vc09Reopened) string {
	h := x.h
	h.st.images++
	a, s := int(meta.Acked), int(meta.Started)
	where := fmt.Sprintf("crash point %d (before %q), %s image, %d steps acknowledged / %d started", k, fsop, mode, a, s)
	if a < 0 || s < a || s > a+1 || s >= len(x.bounds)+1 || s > len(x.steps) {
		h.herr("%s: inconsistent capture counters", where)
		return ""
	}
	inflight := s > a
	var step *vc09Step
	if inflight {
		step = &x.steps[s-1]
		h.st.inflight++
		where += fmt.Sprintf(", in-flight step %s", step.Kind)
		if meta.WalWrites >= 2 && strings.HasPrefix(fsop, "write ") && step.Kind != "dis" {
			// every step except dis commits exactly one engine batch: a second WAL write
			// means the batch record spans WAL blocks and this point lies inside it
			h.st.insideWalBatch++
		}
		if s >= 2 && x.steps[s-2].EvIdx == step.EvIdx && (step.Kind == "trim" || step.Kind == "adopt") {
			h.st.insideMultiBatch++
		}
		if step.Kind == "par" {
			h.st.parImages++
		}
	}
	// identical disk contents recover identically: the real recovery runs once per content
	key, err := vc09ImageHash(mem, x.prefix)
	if err != nil {
		h.herr("%s: cannot hash the image: %v", where, err)
		return ""
	}
	ro := cache[key]
	if ro == nil {
		var kept *vc09Store
		ro, kept = x.reopen(mem, q, true)
		ro.st = kept
		cache[key] = ro
		h.st.reopened++
	}
	defer ro.release()
	if ro.err != nil {
		h.violate("C09:reopen-failed-after-"+mode, "%s: the store does not open: %v", where, ro.err)
		return ""
	}
	if ro.derr != nil {
		h.violate("C09:reopen-failed-after-"+mode, "%s: the recovered store cannot be scanned: %v", where, ro.derr)
		return ""
	}
	raw, lines, facts := ro.raw, ro.lines, ro.facts

	// which reference state is it?
	matched := -1
	var want []string
	var wantModel *vc09Model
	for j := a; j <= s && j < len(x.bounds); j++ {
		if raw.Hash == x.bounds[j].Raw.Hash {
			matched = j
			want = x.bounds[j].Model.expectAll(q)
			wantModel = x.bounds[j].Model
			break
		}
	}
	if inflight && step.Kind == "par" && matched == a && meta.ParAcked != 0 && raw.Hash != x.bounds[s].Raw.Hash {
		h.violate("C09:acknowledged-mutation-lost-after-"+mode, "%s: concurrent requests %03b were acknowledged but the recovered store contains none of them", where, meta.ParAcked)
		return ""
	}
	if matched < 0 && inflight && step.Kind == "par" {
		// exactly a subset of the concurrent requests that contains every acknowledged one
		for mask, b := range shadows {
			if mask&meta.ParAcked == meta.ParAcked && raw.Hash == b.Raw.Hash {
				matched = a
				want = b.Model.expectAll(q)
				wantModel = b.Model
				h.st.parPartial++
				break
			}
		}
	}
	cleanup := -1 // channel whose restore cleanup is in progress
	if matched < 0 && inflight && step.Kind == "dis" && step.OK {
		cleanup = step.CI
		w, why := x.partialCleanup(lines, raw, a, step.CI, q)
		if why != "" {
			h.violate("C09:torn-restore-cleanup-after-"+mode, "%s: %s", where, why)
			return ""
		}
		want = w
		matched = a
		h.st.partialCleanup++
		h.st.insideMultiBatch++
	}
	if matched < 0 {
		// classify: an acknowledged mutation missing, or a torn one
		for j := 0; j < a; j++ {
			if raw.Hash == x.bounds[j].Raw.Hash {
				h.violate("C09:acknowledged-mutation-lost-after-"+mode, "%s: the recovered store equals the state after only %d steps; acknowledged (durable) mutations are missing: %s",
					where, j, vc09DumpDiff(x.bounds[a].Raw, raw))
				return ""
			}
		}
		kind := "idle"
		if inflight {
			kind = step.Kind
		}
		msg := fmt.Sprintf("vs state after %d steps: %s", a, vc09DumpDiff(x.bounds[a].Raw, raw))
		if inflight && s < len(x.bounds) {
			msg += fmt.Sprintf(" | vs state after %d steps: %s", s, vc09DumpDiff(x.bounds[s].Raw, raw))
		}
		h.violate("C09:recovered-state-is-no-mutation-prefix:"+kind+":"+mode, "%s: the recovered store is neither the state before nor after the in-flight mutation (%s)", where, msg)
		return ""
	}
	if d := vc09FirstDiff(want, lines); d != "" {
		h.violate("C09:recovered-view-differs-from-model:"+vc09LineKind(d)+":"+mode, "%s: raw content equals the reference state but the reopened store reports something else: %s", where, d)
		return ""
	}
	if !x.invariants(where, mode, facts, cleanup) {
		return ""
	}
	if ro.st != nil && wantModel != nil && cleanup < 0 {
		// once per distinct disk content: the recovered store must keep working
		h.st.further++
		if why := vc09Further(ro.st, wantModel, q); why != "" {
			kind := "idle"
			if inflight {
				kind = step.Kind
			}
			h.violate("C09:recovered-store-unusable:"+kind+":"+mode, "%s: the recovered store equals the reference state after %d steps, but %s", where, matched, why)
			return ""
		}
	}
	ro.release()
	if cleanup >= 0 {
		// a restore whose cleanup crashed retries the cleanup: it must converge exactly
		_, st := x.reopen(mem, q, true)
		if st == nil {
			h.herr("%s: second reopen for the cleanup retry failed", where)
			return ""
		}
		err := st.stores[cleanup].DiscardForRestore(context.Background())
		var again vc09Dump
		var derr error
		if err == nil {
			again, derr = vc09DumpStore(st)
		}
		_ = st.close()
		if err != nil {
			h.violate("C09:restore-cleanup-retry-fails-after-"+mode, "%s: retrying DiscardForRestore: %v", where, err)
			return ""
		}
		if derr != nil {
			h.herr("%s: dump after cleanup retry: %v", where, derr)
			return ""
		}
		if again.Hash != x.bounds[s].Raw.Hash {
			h.violate("C09:restore-cleanup-retry-leaves-residue-after-"+mode, "%s: after retrying the cleanup the store differs from a completed cleanup: %s", where, vc09DumpDiff(x.bounds[s].Raw, again))
			return ""
		}
	}
	if !inflight {
		return ""
	}
	for _, tag := range step.Tags {
		h.st.tagInflight[tag]++
	}
	if step.Kind != "par" && cleanup < 0 && x.bounds[a].Raw.Hash != x.bounds[s].Raw.Hash {
		if matched == a {
			h.st.inflightOld++
			if mode == "power" {
				h.st.powerLostUnacked++
			}
		} else {
			h.st.inflightNew++
		}
	}
	return fmt.Sprintf("point %d before %q (%s): in-flight %s recovered as state after %d steps (acked %d)", k, fsop, mode, step.Kind, matched, a)
}

// invariants checks what the property states about every recovered channel on what the
// reopened store reports: the log end equals the last stored row, the durable frontier loads
// consistently or fails closed, the committed watermark does not exceed the log end
// (cleanup: channel whose restore cleanup is in progress, -1 for none).
func (x *vc09Exec) invariants(where, mode string, facts [2]vc09Facts, cleanup int) bool {
	h := x.h
	for ci, f := range facts {
		n := vc09Name[ci]
		if f.LEOErr != nil || f.RowsErr != nil {
			h.violate("C09:recovered-log-unreadable-after-"+mode, "%s: channel %s: LEO err=%v rows err=%v", where, n, f.LEOErr, f.RowsErr)
			return false
		}
		last := f.LastRow
		if f.RMax > last {
			last = f.RMax // retention floor: the rows at the tail were trimmed
		}
		if f.LEO != last {
			h.violate("C09:recovered-leo-differs-from-last-stored-row:"+mode, "%s: channel %s: LEO %d, last stored row %d (retention floor %d)", where, n, f.LEO, f.LastRow, f.RMax)
			return false
		}
		switch vc09ErrClass(f.FrontierErr) {
		case "ok":
			fr := f.Frontier
			if fr.LEO != f.LEO || fr.Committed > fr.LEO || (f.HasCkpt && fr.Committed != f.HW) || (fr.LEO > 0 && (fr.Manifest.LastOffset != fr.LEO || fr.TailIdentity.Index != fr.LEO)) {
				h.violate("C09:durable-frontier-inconsistent-after-"+mode, "%s: channel %s: frontier %+v vs LEO %d HW %d", where, n, fr, f.LEO, f.HW)
				return false
			}
		case "corrupt":
			// fails closed
		default:
			h.violate("C09:durable-frontier-fails-open-after-"+mode, "%s: channel %s: LoadDurableFrontier: %v", where, n, f.FrontierErr)
			return false
		}
		if f.HasCkpt && f.HW > f.LEO {
			if ci != cleanup {
				h.violate("C09:committed-above-leo-after-"+mode, "%s: channel %s: committed %d > LEO %d", where, n, f.HW, f.LEO)
				return false
			}
			h.st.cleanupAboveLEO++
		}
	}
	return true
}

// partialCleanup checks an image captured between the batches of DiscardForRestore on
// channel ci: some page batches (rows + all their index entries) applied, the final wipe not.
// It returns the expected observation lines, or why the image is not such a state.
func (x *vc09Exec) partialCleanup(lines []string, raw vc09Dump, a int, ci int, q vc09Queries) ([]string, string) {
	before, after := x.bounds[a], x.bounds[a+1]
	if !vc09SubsetOf(raw, before.Raw) {
		return nil, "the recovered store contains keys/values that never existed before the cleanup: " + vc09DumpDiff(before.Raw, raw)
	}
	if !vc09SubsetOf(after.Raw, raw) {
		return nil, "the cleanup of one channel removed data that survives a completed cleanup: " + vc09DumpDiff(after.Raw, raw)
	}
	pages := vc09DiscardPages(before.Model.Ch[ci].Rows)
	var firstWhy string
	for n := 1; n <= len(pages); n++ {
		m := before.Model.clone()
		c := &m.Ch[ci]
		rows := c.Rows[:0:0]
		for _, r := range c.Rows {
			if r.Seq > pages[n-1] {
				rows = append(rows, r)
			}
		}
		c.Rows = rows
		c.LEO = 0
		if len(rows) > 0 {
			c.LEO = rows[len(rows)-1].Seq
		}
		if c.HasRet && c.RMax > c.LEO {
			c.LEO = c.RMax
		}
		want := m.expectAll(q)
		d := vc09FirstDiff(want, lines)
		if d == "" {
			return want, ""
		}
		if firstWhy == "" {
			firstWhy = d
		}
	}
	return nil, "the recovered store is not 'k page batches applied, final wipe not applied' for any k: " + firstWhy
}

// ---------------------------------------------------------------- enumeration

func vc09Sequences(alphabet []string, maxLen int) [][]string {
	out := [][]string{{}}
	layer := [][]string{{}}
	for l := 1; l <= maxLen; l++ {
		var next [][]string
		for _, p := range layer {
			for _, e := range alphabet {
				s := append(append([]string(nil), p...), e)
				next = append(next, s)
			}
		}
		out = append(out, next...)
		layer = next
	}
	return out
}

func TestVerifC09(t *testing.T) {
	r := ev.Start(t, "C09")
	defer r.Finish()
	start := time.Now()
	vc09Setup()
	maxLen := ev.Pick(r, 2, 3)
	alphabet := vc09Alphabet()

	var hs []*vc09History
	if rf := r.Replay(); rf != nil {
		var pl struct {
			Name   string   `json:"name"`
			Prefix []string `json:"prefix"`
			Events []string `json:"events"`
			Par    bool     `json:"par"`
			Pair   bool     `json:"pair"`
		}
		if err := json.Unmarshal(rf.Replay, &pl); err != nil {
			r.HarnessError("bad replay payload: %v", err)
			return
		}
		hs = append(hs, &vc09History{name: pl.Name, prefix: pl.Prefix, events: pl.Events, par: pl.Par, pair: pl.Pair})
	} else {
		for _, seq := range vc09Sequences(alphabet, maxLen) {
			hs = append(hs, &vc09History{name: "seq", events: seq})
		}
		// group commit: concurrent requests collected into one physical batch
		hs = append(hs,
			&vc09History{name: "group1", events: []string{"xhw:A", "app:B"}, par: true},
			&vc09History{name: "group2", prefix: []string{"xhw:A", "xhw:B"}, events: []string{"ckb:A", "fol:B"}, par: true},
			// restore cleanup paging: > 1024 rows, i.e. two page batches and the final wipe
			&vc09History{name: "paging", prefix: []string{"bulk:A:600", "bulk:A:500", "xhw:B"}, events: []string{"dis:A"}},
		)
		if r.Thorough() {
			hs = append(hs, &vc09History{name: "paging-then-append", prefix: []string{"bulk:A:600", "bulk:A:500"}, events: []string{"dis:A", "xhw:A"}})
		}
		// every mutation from prepared states whose secondary records disagree with its post-state
		hs = append(hs, vc09PreparedHistories(r.Thorough())...)
		// op2 issued while op1's commit is parked inside its WAL fsync
		hs = append(hs, vc09PairHistories(r.Thorough())...)
	}
	if only := os.Getenv("VC09_ONLY"); only != "" {
		var keep []*vc09History
		for _, h := range hs {
			if strings.Contains(h.label(), only) {
				keep = append(keep, h)
			}
		}
		hs = keep
	}
	total, totalPairs, totalPrep := 0, 0, 0
	for _, h := range hs {
		switch {
		case h.pair:
			totalPairs++
		case h.name == "prep":
			totalPrep++
		default:
			total++
		}
	}
	// VERIF_SEED only permutes the order in which histories are executed
	rng := rand.New(rand.NewSource(r.Seed()))
	rng.Shuffle(len(hs), func(i, j int) { hs[i], hs[j] = hs[j], hs[i] })
	// the expensive histories go first; every history goes to the currently lightest shard
	// (estimated cost; deterministic given the seed)
	cost := func(h *vc09History) int {
		switch {
		case strings.HasPrefix(h.name, "paging"):
			return 400
		case h.par:
			return 30
		case h.pair:
			return 6
		case h.name == "prep":
			return 4 + len(h.prefix) + 2*len(h.events)
		}
		return 1 + 2*len(h.events)
	}
	sort.SliceStable(hs, func(i, j int) bool { return cost(hs[i]) > cost(hs[j]) })
	shardI, shardN := r.Shard()
	if shardN > 1 {
		load := make([]int, shardN)
		var mine []*vc09History
		for _, h := range hs {
			best := 0
			for k := 1; k < shardN; k++ {
				if load[k] < load[best] {
					best = k
				}
			}
			load[best] += cost(h)
			if best == shardI {
				mine = append(mine, h)
			}
		}
		hs = mine
	}

	workers := runtime.GOMAXPROCS(0)
	if workers > 16 {
		workers = 16
	}
	deadline := r.Deadline()
	var capped atomic.Bool
	var done atomic.Int64
	// pair histories mostly wait (classification bound): they get their own, wider pool
	var plain, pairs []*vc09History
	for _, h := range hs {
		if h.pair {
			pairs = append(pairs, h)
		} else {
			plain = append(plain, h)
		}
	}
	var wg sync.WaitGroup
	pool := func(list []*vc09History, n int) {
		work := make(chan *vc09History, len(list))
		for _, h := range list {
			work <- h
		}
		close(work)
		for w := 0; w < n; w++ {
			wg.Add(1)
			go func() {
				defer wg.Done()
				for h := range work {
					if !deadline.IsZero() && time.Now().After(deadline) {
						capped.Store(true)
						continue
					}
					if perr := ev.Recover(func() { vc09RunHistory(h) }); perr != nil {
						h.herr("harness panic: %v", perr)
					}
					done.Add(1)
				}
			}()
		}
	}
	pool(plain, workers)
	pool(pairs, 5*workers)
	wg.Wait()

	// ---- merge, deterministically
	sort.Slice(hs, func(i, j int) bool { return hs[i].label() < hs[j].label() })
	var tot, prep vc09Stats
	tot.kindOK = map[string]int64{}
	prep.kindOK = map[string]int64{}
	prep.tagInflight = map[string]int64{}
	prepMine := int64(0)
	var pt vc09PairStats
	samples, prepSamples := 0, 0
	pairSamples := map[string]int{}
	pairsDone, pairsMine := int64(0), int64(0)
	for _, h := range hs {
		if h.pair {
			pt.add(&h.ps)
			pairsMine++
			pairsDone += h.ps.pairs
			if h.sample != nil {
				k := fmt.Sprint(h.sample["op2_class"], h.sample["op2_changes_state"])
				if pairSamples[k] < 1 && len(pairSamples) < 5 && (h.sample["op2_acknowledged"] != "" || h.sample["op2_changes_state"] == true) {
					pairSamples[k]++
					r.Sample(h.sample)
				}
			}
		}
		if h.name == "prep" {
			prepMine++
			prep.images += h.st.images
			prep.inflight += h.st.inflight
			prep.insideMultiBatch += h.st.insideMultiBatch
			prep.inflightOld += h.st.inflightOld
			prep.inflightNew += h.st.inflightNew
			prep.reopened += h.st.reopened
			prep.further += h.st.further
			prep.points += h.st.points
			prep.steps += h.st.steps
			for k, v := range h.st.kindOK {
				prep.kindOK[k] += v
			}
			for k, v := range h.st.tagInflight {
				prep.tagInflight[k] += v
			}
		} else {
			tot.images += h.st.images
			tot.inflight += h.st.inflight
			tot.insideWalBatch += h.st.insideWalBatch
			tot.insideMultiBatch += h.st.insideMultiBatch
			tot.partialCleanup += h.st.partialCleanup
			tot.inflightOld += h.st.inflightOld
			tot.inflightNew += h.st.inflightNew
			tot.powerLostUnacked += h.st.powerLostUnacked
			tot.groupedBatches += h.st.groupedBatches
			tot.parImages += h.st.parImages
			tot.parPartial += h.st.parPartial
			tot.reopened += h.st.reopened
			tot.cleanupAboveLEO += h.st.cleanupAboveLEO
			tot.further += h.st.further
			tot.points += h.st.points
			tot.steps += h.st.steps
			for k, v := range h.st.kindOK {
				tot.kindOK[k] += v
			}
		}
		for _, e := range h.herrs {
			r.HarnessError("%s", e)
		}
		for _, v := range h.viols {
			r.Violation(ev.Violation{Fingerprint: v.FP, Message: v.Msg, System: "crash",
				Replay: map[string]any{"name": h.name, "prefix": h.prefix, "events": h.events, "par": h.par, "pair": h.pair}})
			if r.Replay() != nil {
				r.MarkReplayReproduced()
			}
		}
		if h.sample != nil && h.name == "prep" && len(h.st.tagInflight) > 0 && prepSamples < 3 {
			r.Sample(h.sample)
			prepSamples++
		} else if h.sample != nil && h.name != "prep" && h.st.inflight > 0 && (len(h.events) == maxLen || h.name != "seq") && samples < 6 {
			r.Sample(h.sample)
			samples++
		}
	}
	exhaustive := !capped.Load() && int(done.Load()) == len(hs)
	r.Section(ev.Section{Name: "crash", Kind: "crash", Evaluations: tot.images, Distinct: tot.inflight, Validated: tot.images,
		Exhaustive: exhaustive, Outcomes: 2, WallS: time.Since(start).Seconds(),
		Bounds: map[string]any{"alphabet": alphabet, "max_history_length": maxLen, "channels": 2, "histories_total": total, "histories_this_shard": int64(len(hs)) - pairsMine - prepMine,
			"special_histories": "group1, group2, paging (+ paging-then-append in thorough)", "images_per_point": "kill + power-loss"},
		Note: "every mutating filesystem call made while a history runs is a crash point; both images of every point are evaluated (images with byte-identical disk content are recovered by the real Open once, see counters); " +
			"evaluations = images reopened, distinct_nontrivial = images captured strictly inside a mutation (acknowledged < started)"})
	r.Section(ev.Section{Name: "ack-while-peer-commit-in-fsync", Kind: "crash", Evaluations: pt.images, Distinct: pt.imagesOp1InFlight, Validated: pt.images,
		Exhaustive: exhaustive && pairsDone == pairsMine, Outcomes: 2, WallS: time.Since(start).Seconds(),
		Bounds: map[string]any{"prefix_states": vc09PairPrefixes, "op1": vc09PairOp1, "op2": vc09PairOp2, "pairs_total": totalPairs, "pairs_this_shard": pairsMine,
			"snapshots_per_pair": "op1 parked inside its WAL fsync (batch visible, not durable) / the instant op2 returned / idle; kill + power-loss image each",
			"op2_waits_classification_bound": fmt.Sprintf("%v for an op2 that changes nothing, %v for an op2 that needs a commit of its own (classification only, never an oracle)", vc09PairWaitNoop, vc09PairWaitChanging)},
		Note: "every ordered pair (op1, op2) on one channel: op1 is parked inside the fsync of its commit (crashfs.HoldNextSync), op2 runs to completion or is classified as waiting for op1; " +
			"everything op2 acknowledged must be present in the power image taken at the instant it returned; evaluations = images reopened, distinct_nontrivial = images taken while op1 was still inside its commit"})
	r.Section(ev.Section{Name: "prepared-states", Kind: "crash", Evaluations: prep.images, Distinct: prep.inflight, Validated: prep.images,
		Exhaustive: exhaustive, Outcomes: 2, WallS: time.Since(start).Seconds(),
		Bounds: map[string]any{"prepared_states": vc09Prepared, "events": vc09PreparedEvents, "events_per_history": ev.Pick(r, 1, 2), "histories_total": totalPrep, "histories_this_shard": prepMine,
			"images_per_point": "kill + power-loss", "required_situations": vc09PreparedTags},
		Note: "every prepared state x every event: the state is built first (not crash-tested), then the ONE event runs with every mutating filesystem call as a crash point; the prepared states carry the secondary records " +
			"(retention record with RetainedMaxSeq above a truncation target, epoch history / proposal identities / index rows of a suffix, stale RetainedMaxSeq, boundary above the checkpoint, log end held only by the retention record) " +
			"that the mutation has to rewrite in the same batch; evaluations = images reopened, distinct_nontrivial = images captured strictly inside a mutation"})
	r.Count("histories", int64(done.Load())-pairsDone-prepMine)
	r.Count("prepared_histories", prepMine)
	r.Count("prepared_steps_executed", prep.steps)
	r.Count("prepared_crash_points_seen", prep.points)
	r.Count("prepared_images_reopened", prep.images)
	r.Count("prepared_images_inside_a_mutation", prep.inflight)
	r.Count("prepared_images_between_batches_of_a_multi_batch_mutation", prep.insideMultiBatch)
	r.Count("prepared_inflight_images_recovered_as_absent", prep.inflightOld)
	r.Count("prepared_inflight_images_recovered_as_present", prep.inflightNew)
	r.Count("prepared_distinct_disk_contents_recovered_by_the_real_open", prep.reopened)
	r.Count("prepared_recovered_stores_given_a_further_real_append", prep.further)
	r.Count("recovered_stores_given_a_further_real_append", tot.further)
	for _, k := range vc09SortedKeys(prep.kindOK) {
		r.Count("prepared_accepted_state_changing_"+k, prep.kindOK[k])
	}
	for _, k := range vc09SortedKeys(prep.tagInflight) {
		r.Count("prepared_inflight_images_"+k, prep.tagInflight[k])
	}
	r.Count("pairs_executed", pt.pairs)
	r.Count("pairs_op1_parked_inside_wal_fsync", pt.parked)
	r.Count("pairs_op1_not_parked", pt.notParked)
	r.Count("pairs_op2_returned_while_op1_parked", pt.returnedWhileParked)
	r.Count("pairs_op2_waited_for_op1", pt.waited)
	r.Count("pairs_op2_not_applicable_in_state", pt.op2NotApplicable)
	r.Count("pairs_op2_refused_as_predicted", pt.refused)
	r.Count("pairs_op2_acknowledged_state_change", pt.changingAcks)
	r.Count("pairs_op2_acknowledged_without_writing", pt.noopAcks)
	r.Count("pairs_op2_acknowledged_without_writing_while_op1_parked", pt.noopAcksWhileParked)
	r.Count("pairs_op2_acknowledged_without_writing_promise_nontrivial", pt.noopAcksNontrivial)
	r.Count("pairs_op2_acknowledged_without_writing_promise_needs_op1_durable", pt.noopAcksNeedingOp1)
	r.Count("pair_images_reopened", pt.images)
	r.Count("pair_images_while_op1_inside_its_commit", pt.imagesOp1InFlight)
	r.Count("pair_distinct_disk_contents_recovered_by_the_real_open", pt.reopened)
	r.Count("pair_power_images_at_park_instant_without_op1", pt.parkPowerLacksOp1)
	r.Count("pair_kill_images_at_park_instant_with_op1", pt.parkKillHasOp1)
	r.Count("info_plain_LoadCheckpoint_returned_visible_not_yet_durable_hw", pt.plainReadSawUnsyncedHW)
	for _, k := range vc09SortedKeys(pt.op1Parked) {
		r.Count("pair_op1_parked_"+k, pt.op1Parked[k])
	}
	for _, k := range vc09SortedKeys(pt.op2Acked) {
		r.Count("pair_op2_acknowledged_"+k, pt.op2Acked[k])
	}
	r.Count("steps_executed", tot.steps)
	r.Count("crash_points_seen", tot.points)
	r.Count("images_reopened", tot.images)
	r.Count("images_inside_a_mutation", tot.inflight)
	r.Count("images_inside_a_multi_write_wal_batch", tot.insideWalBatch)
	r.Count("images_between_batches_of_a_multi_batch_mutation", tot.insideMultiBatch)
	r.Count("images_partial_restore_cleanup", tot.partialCleanup)
	r.Count("inflight_images_recovered_as_absent", tot.inflightOld)
	r.Count("inflight_images_recovered_as_present", tot.inflightNew)
	r.Count("power_images_that_lost_an_unacknowledged_mutation", tot.powerLostUnacked)
	r.Count("physical_batches_with_two_or_more_requests", tot.groupedBatches)
	r.Count("images_inside_a_concurrent_step", tot.parImages)
	r.Count("images_equal_to_a_strict_subset_of_concurrent_requests", tot.parPartial)
	r.Count("distinct_disk_contents_recovered_by_the_real_open", tot.reopened)
	r.Count("partial_cleanup_images_reporting_committed_above_leo_failing_closed", tot.cleanupAboveLEO)
	for k, v := range tot.kindOK {
		r.Count("accepted_state_changing_"+k, v)
	}
	if r.Replay() == nil {
		r.Guard("image-inside-multi-key-batch-write", tot.insideWalBatch >= 1, "%d images captured between two WAL writes of one multi-key batch", tot.insideWalBatch)
		r.Guard("image-inside-multi-batch-mutation", tot.insideMultiBatch >= 1 && tot.partialCleanup >= 1, "%d images between the batches of a trim / restore cleanup, %d of them partial cleanups", tot.insideMultiBatch, tot.partialCleanup)
		r.Guard("both-outcomes-of-an-inflight-mutation", tot.inflightOld >= 1 && tot.inflightNew >= 1, "in-flight mutation recovered as absent %d times, as present %d times", tot.inflightOld, tot.inflightNew)
		r.Guard("power-loss-differs-from-kill", tot.powerLostUnacked >= 1, "%d power-loss images dropped an unsynced in-flight mutation", tot.powerLostUnacked)
		r.Guard("group-commit-exercised", tot.groupedBatches >= 1, "%d physical batches carried >= 2 requests", tot.groupedBatches)
		missing := []string{}
		for _, k := range []string{"app", "xhw", "fol", "rep", "trn", "ckp", "ckb", "adopt", "trim", "dis"} {
			if tot.kindOK[k] == 0 {
				missing = append(missing, k)
			}
		}
		r.Guard("every-mutation-kind-accepted", len(missing) == 0, "kinds never accepted with a state change: %v", missing)
		// one guard per situation (a guard holds when it holds in one shard)
		for _, tag := range vc09PreparedTags {
			r.Guard("prepared:"+tag, prep.tagInflight[tag] >= 1, "%d images captured strictly inside an accepted mutation in this situation (this shard)", prep.tagInflight[tag])
		}
		r.Guard("recovered-stores-keep-working", tot.further+prep.further >= 1, "%d recovered stores were given a further real append", tot.further+prep.further)
		r.Guard("peer-commit-visible-but-not-durable", pt.parkPowerLacksOp1 >= 1 && pt.parkKillHasOp1 >= 1 && pt.notParked == 0,
			"%d pairs parked op1 inside its WAL fsync (%d not parked): at that instant %d power images lacked op1 and %d kill images contained it", pt.parked, pt.notParked, pt.parkPowerLacksOp1, pt.parkKillHasOp1)
		r.Guard("op2-acknowledged-while-peer-parked", pt.noopAcksWhileParked >= 1 && pt.noopAcksNontrivial >= 1,
			"%d acknowledgements without a write returned while op1 was parked; %d no-write acknowledgements promised something an empty store does not satisfy", pt.noopAcksWhileParked, pt.noopAcksNontrivial)
		r.Guard("op2-promise-depending-on-the-parked-commit", pt.noopAcksNeedingOp1 >= 1 && pt.waited >= 1,
			"%d no-write acknowledgements promised something that only holds once op1 is durable (each checked against the power image at its return); %d pairs waited for op1", pt.noopAcksNeedingOp1, pt.waited)
		var lacking []string
		for _, e := range vc09PairOp1 {
			k, _, _ := vc09ParseEvent(e)
			if k == "adp" {
				k = "adopt"
			}
			if pt.op1Parked[k] == 0 {
				lacking = append(lacking, "op1 "+k)
			}
		}
		for _, k := range []string{"ckb", "ckp", "fhw", "fhb", "rty", "leo", "fro", "app", "xhw", "fol", "rep", "trn", "adopt"} {
			if pt.op2Acked[k] == 0 {
				lacking = append(lacking, "op2 "+k)
			}
		}
		r.Guard("every-pair-operation-exercised", len(lacking) == 0, "never parked / never acknowledged: %v", lacking)
	}
	r.Assume("crash model: process kill = every completed write visible; power loss = only synced data (and synced directory entries) survive; torn sectors inside one unsynced write are covered only at these two extremes")
	r.Assume("the data directory itself is durable before the store first opens in it")
	r.Assume("truncation targets are never below the committed HW (the store does not touch the checkpoint on truncation; truncating committed data is a caller error outside this property)")
	r.Assume("reference states are the boundaries of the same execution (raw key/value content) and a hand-written semantic model checked against the live store at every boundary")
	r.Assume("ack-while-peer-commit-in-fsync: op2 is issued after op1's batch became visible, so a recovered state containing op2 without op1 is not a prefix of the issue order; the acknowledgements of LEOWithError (\"durable log end offset\") and LoadDurableFrontier are treated as durability reports, the plain LoadCheckpoint read (unlocked by design) is not")
	r.Assume("an image captured between the batches of DiscardForRestore (restore-failure cleanup, before the node is activated) may report committed > LEO for the channel being wiped; required instead: every page batch atomic, LoadDurableFrontier loads consistently or fails closed, and a retried cleanup converges to exactly the completed cleanup")
	if os.Getenv("VC09_VERBOSE") != "" {
		t.Logf("histories=%d images=%d inflight=%d wall=%.1fs", done.Load(), tot.images, tot.inflight, time.Since(start).Seconds())
	}
}

// ---------------------------------------------------------------- prepared states

// vc09PreparedState is one state built BEFORE capturing starts, in which some mutation's
// secondary records exist and disagree with that mutation's post-state.
type vc09PreparedState struct {
	Events   []string `json:"events"`
	State    string   `json:"state"`
	Extra    []string `json:"extra_events,omitempty"` // events with explicit arguments that only make sense here
	Thorough bool     `json:"thorough_only,omitempty"`
}

var vc09Prepared = []vc09PreparedState{
	{Events: []string{"xhw:A", "xhw:A", "xhw:A", "trm:A", "xhw:B"},
		State: "A: LEO 6, committed HW 4, rows 3..6, retention record 2/2/6 (RetainedMaxSeq ABOVE every truncation target), cursor 2, exact tail proof; B: LEO 2",
		Extra: []string{"trm:A:4"}},
	{Events: []string{"xhw:A", "xhw:A", "flo:A", "flo:A", "trm:A"},
		State: "A: LEO 6, committed HW 2, rows 3..6, retention record 2/2/6, epoch history points at offsets 4 and 5 (above the HW), no tail proof",
		Extra: []string{"trn:A:4", "trp:A:4", "trn:A:5"}},
	{Events: []string{"xhw:A", "trm:A"},
		State: "A: every row trimmed, LEO 2 held only by the retention record 2/2/2"},
	{Events: []string{"xhw:A", "trm:A", "xhw:A"},
		State: "A: LEO 4, committed HW 2, rows 3..4, STALE retention record 2/2/2 (RetainedMaxSeq below the log end)"},
	{Events: []string{"xhw:A", "xhw:A"},
		State: "A: LEO 4, committed HW 2, no retention record",
		Extra: []string{"trm:A:3"}},
	{Events: []string{"xhw:A", "xhw:A", "flo:A", "flo:A", "flo:A", "flo:A", "trm:A", "xhw:B", "trm:B"},
		State:    "A: LEO 8, committed HW 2, rows 3..8, retention record 2/2/8, epoch history points at offsets 4..7; B: every row trimmed, LEO 2 held by its retention record",
		Extra:    []string{"trn:A:3", "trn:A:4", "trn:A:5", "trn:A:6", "trn:A:7", "trp:A:3", "trp:A:5", "trp:A:7", "app:B", "xhw:B", "ckp:B", "trm:A:5"}},
	{Events: []string{"app:A", "app:A", "app:A", "app:A", "app:A", "trm:A:3"},
		State:    "A: LEO 5, no checkpoint, plain rows 4..5, retention record 3/3/5",
		Extra:    []string{"trn:A:3", "trn:A:4", "trp:A:3", "trp:A:4"}},
}

// vc09PreparedEvents run from every prepared state (one event per history).
var vc09PreparedEvents = []string{"app:A", "xhw:A", "fol:A", "flo:A", "rep:A", "trn:A", "trp:A", "ckp:A", "ckb:A", "trm:A", "trx:A", "dis:A"}

// vc09PreparedTags are the situations (vc09Op.tags) the section must have crash-enumerated.
var vc09PreparedTags = []string{
	"trn-lowers-retained-max", "trn-lowers-retained-max-rows-remain", "trn-epoch-history-above-target",
	"trn-proposal-identities-above-target", "trn-index-rows-above-target",
	"trp-lowers-retained-max", "trp-lowers-retained-max-rows-remain", "trp-proposal-identities-above-target", "trp-index-rows-above-target",
	"rep-lowers-retained-max", "rep-replaces-a-stored-suffix",
	"app-log-end-held-by-retention-record-only",
	"adopt-rewrites-an-existing-retention-record", "adopt-boundary-above-checkpoint", "adopt-advances-an-existing-cursor",
	"rep-advances-an-existing-checkpoint", "xhw-advances-an-existing-checkpoint", "xhw-on-a-channel-with-retention-record",
	"trim-raises-a-stale-retained-max", "trim-deletes-a-row-above-checkpoint", "trim-deletes-a-row-with-proposal-identity",
}

func vc09PreparedHistories(thorough bool) []*vc09History {
	var out []*vc09History
	for _, p := range vc09Prepared {
		if p.Thorough && !thorough {
			continue
		}
		events := append(append([]string(nil), vc09PreparedEvents...), p.Extra...)
		for _, e := range events {
			out = append(out, &vc09History{name: "prep", prefix: p.Events, events: []string{e}})
			if !thorough {
				continue
			}
			// thorough: every ordered pair of events from the prepared state
			for _, e2 := range events {
				out = append(out, &vc09History{name: "prep", prefix: p.Events, events: []string{e, e2}})
			}
		}
	}
	return out
}
