package message

// C09 section "ack-while-peer-commit-in-fsync".
//
// Pebble makes a batch visible to readers BEFORE the WAL fsync of that batch returns. Every
// entry point of the store that answers "already satisfied, nothing to write" from what it
// reads (checkpoint lanes, record-less follower apply, exact-append retry, adopt, the durable
// reads) is therefore only correct because it serialises, through the per-channel append /
// checkpoint locks, behind the writer whose commit is still inside its fsync. Sequential
// histories, clean reopen and kill images never expose a missing serialisation.
//
// For every ordered pair (op1, op2) of the menus below, on one channel:
//   - op1 is started in its own goroutine with crashfs.HoldNextSync armed on the WAL, so it
//     PARKS inside the fsync of its commit: its batch is visible, not durable;
//   - once the visible state equals "prefix + op1" (deterministic condition, polled), a
//     snapshot is taken and op2 runs to completion. If op2 does not return within a
//     generous real-time bound it is classified "waits" (this bound classifies, it is never
//     an oracle) and op1 is released; in both cases a snapshot is taken by op2's own
//     goroutine at the instant its call returned; op1 is released, everything finishes, a
//     last snapshot is taken;
//   - the kill and the power image of all three snapshots are reopened with the real Open.
//
// Oracle per image: the recovered raw content is one of the reference states B0 (prefix),
// B1 (prefix+op1), B2 (prefix+op1+op2) of a sequential execution of the same operations;
// it is not behind anything acknowledged before the snapshot (op1 returned -> >= B1; a
// state-changing op2 returned -> B2); and when op2 acknowledged WITHOUT changing anything
// (already-satisfied no-op, durable read) what that acknowledgement promises (op.post)
// must hold in the recovered state - in particular in the power image taken when it
// returned. Plus the usual per-image invariants (view == model, LEO == last row, committed
// <= LEO, frontier consistent or failing closed).

import (
	"context"
	"fmt"
	"sort"
	"strings"
	"sync/atomic"
	"time"

	"github.com/WuKongIM/WuKongIM/pkg/zzverif/ev"
	"github.com/cockroachdb/pebble/v2/vfs"
)

const (
	// how long op2 may run before it is CLASSIFIED as waiting for op1 (never an oracle).
	// A state-changing op2 needs a commit of its own, which cannot complete while the WAL
	// fsync is parked; the short bound only gives it time to reach its blocking point.
	vc09PairWaitNoop     = 1500 * time.Millisecond
	vc09PairWaitChanging = 100 * time.Millisecond
	// safety net against a hung execution (reported as a harness error)
	vc09PairSafety = 90 * time.Second
)

// op1: operations that always commit exactly one synchronous batch in the prefix states.
var vc09PairOp1 = []string{"xhw:A", "fol:A", "ckp:A", "ckb:A", "rep:A", "app:A", "trn:A", "adp:A"}

// op2: every op1, plus the checkpoint lanes with a target relative to the watermarks
// (h0 = committed HW durable before op1, m1 = visible HW after op1 minus one, h1 = visible HW
// after op1, l1 = visible LEO after op1), plus the read-then-acknowledge operations.
var vc09PairOp2 = func() []string {
	var out []string
	for _, lane := range []string{"ckb", "ckp", "fhw", "fhb"} {
		for _, t := range []string{"h0", "m1", "h1", "l1"} {
			out = append(out, lane+":A:"+t)
		}
	}
	out = append(out, "rty:A", "leo:A", "fro:A")
	out = append(out, vc09PairOp1...)
	return out
}()

// vc09PairPrefix is one state in which the pairs are explored.
type vc09PairPrefix struct {
	Events   []string `json:"events"`
	State    string   `json:"state"`
	SkipOp1  []string `json:"op1_not_applicable,omitempty"` // would change nothing in this state
	Thorough bool     `json:"thorough_only,omitempty"`
}

var vc09PairPrefixes = []vc09PairPrefix{
	{Events: []string{"xhw:A", "xhw:A"}, State: "LEO 4, committed HW 2"},
	{Events: []string{"xhw:A"}, State: "LEO 2, no checkpoint row yet"},
	{Events: []string{"xhw:A", "xhw:A", "trm:A"}, State: "LEO 4, committed HW 2, retention boundary 2 adopted and trimmed", SkipOp1: []string{"adp:A"}, Thorough: true},
}

// vc09PairHistories enumerates prefixes x op1 x op2 (rty = retry of op1, only where op1 can be retried).
func vc09PairHistories(thorough bool) []*vc09History {
	var out []*vc09History
	for _, p := range vc09PairPrefixes {
		if p.Thorough && !thorough {
			continue
		}
		for _, o1 := range vc09PairOp1 {
			skip := false
			for _, e := range p.SkipOp1 {
				skip = skip || e == o1
			}
			if skip {
				continue
			}
			for _, o2 := range vc09PairOp2 {
				if strings.HasPrefix(o2, "rty:") && !strings.HasPrefix(o1, "xhw:") {
					continue
				}
				out = append(out, &vc09History{name: "pair", prefix: p.Events, events: []string{o1, o2}, pair: true})
			}
		}
	}
	return out
}

type vc09PairStats struct {
	pairs, parked, notParked                         int64
	returnedWhileParked, waited, op2NotApplicable    int64
	images, imagesOp1InFlight, reopened              int64
	parkPowerLacksOp1, parkKillHasOp1                int64
	changingAcks, refused                            int64
	noopAcks, noopAcksWhileParked, noopAcksNeedingOp1 int64
	noopAcksNontrivial                               int64
	plainReadSawUnsyncedHW                           int64
	op1Parked, op2Acked                              map[string]int64
}

func (a *vc09PairStats) add(b *vc09PairStats) {
	a.pairs += b.pairs
	a.parked += b.parked
	a.notParked += b.notParked
	a.returnedWhileParked += b.returnedWhileParked
	a.waited += b.waited
	a.op2NotApplicable += b.op2NotApplicable
	a.images += b.images
	a.imagesOp1InFlight += b.imagesOp1InFlight
	a.reopened += b.reopened
	a.parkPowerLacksOp1 += b.parkPowerLacksOp1
	a.parkKillHasOp1 += b.parkKillHasOp1
	a.changingAcks += b.changingAcks
	a.refused += b.refused
	a.noopAcks += b.noopAcks
	a.noopAcksWhileParked += b.noopAcksWhileParked
	a.noopAcksNeedingOp1 += b.noopAcksNeedingOp1
	a.noopAcksNontrivial += b.noopAcksNontrivial
	a.plainReadSawUnsyncedHW += b.plainReadSawUnsyncedHW
	if a.op1Parked == nil {
		a.op1Parked, a.op2Acked = map[string]int64{}, map[string]int64{}
	}
	for k, v := range b.op1Parked {
		a.op1Parked[k] += v
	}
	for k, v := range b.op2Acked {
		a.op2Acked[k] += v
	}
}

// vc09PairCtx is what the preparation of op2 needs to know about op1.
type vc09PairCtx struct {
	h0      uint64 // committed HW before op1
	op1     *vc09Op
	cutting bool // op1 removes a log suffix (a durable LEO reported before it may shrink)
}

// prepPair prepares one event of the pair menus against the model.
func (m *vc09Model) prepPair(event string, pc *vc09PairCtx) *vc09Op {
	kind, ci, arg := vc09ParseEvent(event)
	c := &m.Ch[ci]
	target := c.LEO
	switch arg {
	case "h0":
		target = pc.h0
	case "h1":
		target = c.HW
	case "m1":
		target = 0
		if c.HW > 0 {
			target = c.HW - 1
		}
	}
	switch kind {
	case "app":
		return m.prepApp(ci)
	case "xhw":
		return m.prepXhw(ci)
	case "fol":
		return m.prepFol(ci)
	case "rep":
		return m.prepRep(ci)
	case "trn":
		return m.prepTrn(ci)
	case "ckp":
		return m.prepCkpTarget(ci, false, target)
	case "ckb":
		return m.prepCkpTarget(ci, true, target)
	case "fhw":
		return m.prepFetchHW(ci, false, target)
	case "fhb":
		return m.prepFetchHW(ci, true, target)
	case "adp":
		through := vc09TrimThrough(c)
		if through == 0 {
			return &vc09Op{kind: "adopt", ci: ci, disabled: true}
		}
		return m.prepAdopt(ci, through)
	case "rty":
		// the caller retries op1's very request: the store must answer AlreadyDurable only
		// when op1's proposal is durable
		if pc.op1 == nil || pc.op1.again == nil || !pc.op1.predictOK {
			return &vc09Op{kind: "rty", ci: ci, disabled: true}
		}
		return &vc09Op{kind: "rty", ci: ci, predictOK: true, run: pc.op1.again, apply: func(*vc09Model) {},
			post: func(_ *vc09Model, afterOp1 bool) bool { return afterOp1 },
			told: func() string { return "the retried exact append is already durable" }}
	case "leo":
		// LEOWithError "returns the durable log end offset"
		var got uint64
		cutting := pc.cutting
		return &vc09Op{kind: "leo", ci: ci, predictOK: true, apply: func(*vc09Model) {},
			run: func(s *vc09Store) error {
				l, err := s.stores[ci].LEOWithError()
				got = l
				return err
			},
			post: func(m *vc09Model, afterOp1 bool) bool { return m.Ch[ci].LEO >= got || (afterOp1 && cutting) },
			told: func() string { return fmt.Sprintf("durable LEO %d", got) }}
	case "fro":
		// LoadDurableFrontier: the exact durable frontier under the append and checkpoint locks
		var got string
		return &vc09Op{kind: "fro", ci: ci, predictOK: strings.HasPrefix(c.frontierText(), "ok"), apply: func(*vc09Model) {},
			run: func(s *vc09Store) error {
				fr, err := s.stores[ci].LoadDurableFrontier(context.Background())
				got = vc09FrontierText(fr, err)
				return err
			},
			post: func(m *vc09Model, _ bool) bool { return m.Ch[ci].frontierText() == got },
			told: func() string { return "durable frontier " + got }}
	}
	return nil
}

// vc09PairReference executes prefix ; op1 ; op2 sequentially on its own store and returns
// the reference states B0, B1, B2 and which of the two operations the store accepted.
func vc09PairReference(h *vc09History) ([]vc09Boundary, [2]bool, bool) {
	var acc [2]bool
	sh := &vc09History{name: h.name + "/sequential", prefix: h.prefix, events: h.events, st: vc09Stats{kindOK: map[string]int64{}}}
	x, started := vc09Start(sh, false)
	if !started {
		h.herrs = append(h.herrs, sh.herrs...)
		return nil, acc, false
	}
	defer x.finish()
	good := true
	for _, e := range sh.prefix {
		if good = x.runEvent(e); !good {
			break
		}
	}
	if good {
		x.steps, x.bounds = nil, nil
		good = x.boundary()
	}
	if good {
		_, ci, _ := vc09ParseEvent(h.events[0])
		pc := &vc09PairCtx{h0: x.model.Ch[ci].HW}
		op1 := x.model.prepPair(h.events[0], pc)
		op2ok := op1 != nil
		if op2ok {
			pc.op1, pc.cutting = op1, op1.kind == "trn" || op1.kind == "rep"
			good = x.runOp(h.events[0], op1)
		}
		if good && op2ok {
			if op2 := x.model.prepPair(h.events[1], pc); op2 != nil {
				good = x.runOp(h.events[1], op2)
			} else {
				op2ok = false
			}
		}
		if !op2ok {
			sh.herr("unknown pair event")
			good = false
		}
	}
	// what the sequential execution finds wrong is wrong with the real code
	for _, v := range sh.viols {
		h.violate(v.FP, "sequential reference execution: %s", v.Msg)
	}
	h.herrs = append(h.herrs, sh.herrs...)
	if !good || len(sh.viols) > 0 || len(sh.herrs) > 0 || len(x.bounds) != 3 || len(x.steps) != 2 {
		return nil, acc, false
	}
	acc = [2]bool{x.steps[0].OK, x.steps[1].OK}
	return x.bounds, acc, true
}

// vc09PairImage describes one snapshot of a pair execution.
type vc09PairImage struct {
	tag         string
	floor, ceil int    // the recovered state is B_j with floor <= j <= ceil
	floorWhy    string // who was acknowledged
	checkPost   bool   // op2 acknowledged without changing anything: its promise must hold
	op1InFlight bool
}

func vc09RunPair(h *vc09History) {
	ps := &h.ps
	ps.op1Parked, ps.op2Acked = map[string]int64{}, map[string]int64{}
	if len(h.events) != 2 {
		h.herr("a pair history needs exactly two events")
		return
	}
	ref, acc, ok := vc09PairReference(h)
	if !ok {
		return
	}
	if !acc[0] || ref[1].Raw.Hash == ref[0].Raw.Hash {
		h.herr("op1 is not an accepted state-changing mutation in this prefix state: the pair is vacuous")
		return
	}
	x, started := vc09Start(h, true)
	if !started {
		return
	}
	defer x.finish()
	for _, e := range h.prefix {
		if !x.runEvent(e) {
			return
		}
	}
	x.steps, x.bounds = nil, nil
	if !x.boundary() {
		return
	}
	if x.bounds[0].Raw.Hash != ref[0].Raw.Hash {
		h.herr("the prefix state differs between two executions: %s", vc09DumpDiff(ref[0].Raw, x.bounds[0].Raw))
		return
	}
	_, ci, _ := vc09ParseEvent(h.events[0])
	pc := &vc09PairCtx{h0: x.model.Ch[ci].HW}
	op1 := x.model.prepPair(h.events[0], pc)
	pc.op1, pc.cutting = op1, op1.kind == "trn" || op1.kind == "rep"
	op1.apply(x.model) // predicted (acc[0]); verified below
	op2 := x.model.prepPair(h.events[1], pc)
	changing := ref[2].Raw.Hash != ref[1].Raw.Hash
	ps.pairs++

	// ---- op1, parked inside the fsync of its commit
	held, release := x.vol.HoldNextSync(func(k int, op string) bool { return strings.HasSuffix(op, ".log") })
	defer release()
	var err1, err2 error
	var panic1, panic2 bool
	var op1Returned atomic.Bool
	op1done := make(chan struct{})
	go func() {
		defer close(op1done)
		if perr := ev.Recover(func() { err1 = op1.run(x.store) }); perr != nil {
			err1, panic1 = perr, true
		}
		op1Returned.Store(true)
	}()
	parked := false
	select {
	case <-held:
		parked = true
	case <-op1done:
		x.vol.HoldNextSync(func(int, string) bool { return false }) // disarm
	}
	if parked {
		ps.parked++
		ps.op1Parked[op1.kind]++
		// wait (deterministic condition) until op1's batch is visible to readers
		limit := time.Now().Add(vc09PairSafety)
		for {
			d, err := vc09DumpStore(x.store)
			if err == nil && d.Hash == ref[1].Raw.Hash {
				break
			}
			if time.Now().After(limit) {
				h.herr("op1 parked inside its fsync but its batch never became visible as the state after op1")
				release()
				<-op1done
				return
			}
			time.Sleep(200 * time.Microsecond)
		}
		x.vol.Snapshot("op1-parked")
		// informational: the plain (unlocked, by design) checkpoint read at this instant
		if ck, err := x.store.stores[ci].LoadCheckpoint(); err == nil && ck.HW > ref[0].Model.Ch[ci].HW {
			ps.plainReadSawUnsyncedHW++
		}
	} else {
		ps.notParked++
	}

	// ---- op2, to completion (or classified as waiting for op1)
	class := "not-applicable"
	op1ReturnedAtSnap := false
	if !op2.disabled {
		op2done := make(chan struct{})
		go func() {
			defer close(op2done)
			if perr := ev.Recover(func() { err2 = op2.run(x.store) }); perr != nil {
				err2, panic2 = perr, true
			}
			op1ReturnedAtSnap = op1Returned.Load()
			x.vol.Snapshot("op2-returned")
		}()
		bound := vc09PairWaitNoop
		if changing {
			bound = vc09PairWaitChanging
		}
		timer := time.NewTimer(bound)
		select {
		case <-op2done:
			class = "returned"
			if parked {
				class = "returned-while-op1-parked"
				ps.returnedWhileParked++
			}
		case <-timer.C:
			class = "waits-for-op1"
			ps.waited++
		}
		timer.Stop()
		release()
		select {
		case <-op2done:
		case <-time.After(vc09PairSafety):
			h.herr("op2 did not return within %v after op1 was released", vc09PairSafety)
			return
		}
	} else {
		ps.op2NotApplicable++
		release()
	}
	select {
	case <-op1done:
	case <-time.After(vc09PairSafety):
		h.herr("op1 did not return within %v after it was released", vc09PairSafety)
		return
	}
	if panic1 {
		h.violate("C09:panic-in-mutation:"+op1.kind, "%s panicked: %v", op1.name(), err1)
		return
	}
	if panic2 {
		h.violate("C09:panic-in-mutation:"+op2.kind, "%s panicked while %s was inside its fsync: %v", op2.name(), op1.name(), err2)
		return
	}
	ok1, ok2 := err1 == nil, !op2.disabled && err2 == nil
	if ok1 != op1.predictOK {
		h.violate("C09:mutation-outcome-differs-from-model:"+op1.kind, "%s: real result err=%v, model predicted accepted=%v", op1.name(), err1, op1.predictOK)
		return
	}
	if !op2.disabled && ok2 != op2.predictOK {
		h.violate("C09:mutation-outcome-differs-from-model:"+op2.kind, "%s issued while %s was inside its fsync (%s): real result err=%v, model predicted accepted=%v", op2.name(), op1.name(), class, err2, op2.predictOK)
		return
	}
	if ok2 != acc[1] {
		h.herr("op2 outcome differs between the sequential and the concurrent execution without the model noticing")
		return
	}
	if ok2 {
		op2.apply(x.model)
		ps.op2Acked[op2.kind]++
		if changing {
			ps.changingAcks++
		}
	} else if !op2.disabled {
		ps.refused++
	}
	if !x.boundary() {
		return
	}
	if got := x.bounds[len(x.bounds)-1].Raw; got.Hash != ref[2].Raw.Hash {
		h.herr("final state of the concurrent execution differs from the sequential execution of op1 ; op2: %s", vc09DumpDiff(ref[2].Raw, got))
		return
	}
	x.vol.Snapshot("idle")
	images := x.vol.Images()
	_ = x.store.close()
	x.store = nil

	// ---- every image
	post := ok2 && !changing && op2.post != nil
	if post {
		ps.noopAcks++
		if class == "returned-while-op1-parked" {
			ps.noopAcksWhileParked++
		}
		if !op2.post(vc09NewModel(), false) {
			ps.noopAcksNontrivial++
		}
		if !op2.post(ref[0].Model, false) {
			ps.noopAcksNeedingOp1++
		}
	}
	q := x.model.Q
	cache := map[string]*vc09Reopened{}
	var descs []string
	for _, img := range images {
		pi := vc09PairImage{tag: img.Op, ceil: 2}
		switch img.Op {
		case "op1-parked":
			pi.ceil, pi.op1InFlight = 1, true
		case "op2-returned":
			// counted as "inside op1's commit" only when that is certain by construction (op2
			// returned before op1 was released), so that the count does not depend on timing
			pi.op1InFlight = class == "returned-while-op1-parked"
			if op1ReturnedAtSnap {
				pi.floor, pi.floorWhy = 1, op1.name()+" had returned"
			}
			if ok2 && changing {
				pi.floor, pi.floorWhy = 2, op2.name()+" had returned"
			}
			pi.checkPost = post
		case "idle":
			pi.floor, pi.floorWhy = 1, op1.name()+" had returned"
			if ok2 && changing {
				pi.floor, pi.floorWhy = 2, "both operations had returned"
			}
			pi.checkPost = post
		default:
			h.herr("unexpected image %q", img.Op)
			return
		}
		for _, mode := range []string{"kill", "power"} {
			mem := img.Kill
			if mode == "power" {
				mem = img.Power
			}
			j, ok := x.checkPairImage(pi, mode, mem, ref, op1, op2, class, q, cache)
			if !ok {
				return
			}
			descs = append(descs, fmt.Sprintf("%s/%s=B%d", img.Op, mode, j))
			if img.Op == "op1-parked" {
				if mode == "power" && j == 0 {
					ps.parkPowerLacksOp1++
				}
				if mode == "kill" && j >= 1 {
					ps.parkKillHasOp1++
				}
			}
		}
	}
	told := ""
	if ok2 && op2.told != nil {
		told = op2.told()
	}
	h.sample = map[string]any{"history": h.label(), "op1": op1.name(), "op1_parked_inside_wal_fsync": parked, "op2": op2.name(), "op2_class": class,
		"op2_accepted": ok2, "op2_changes_state": changing, "op2_acknowledged": told, "recovered_images": descs}
}

// checkPairImage decides one image of a pair execution; it returns the index of the
// reference state the image recovered as.
func (x *vc09Exec) checkPairImage(pi vc09PairImage, mode string, mem *vfs.MemFS, ref []vc09Boundary, op1, op2 *vc09Op, class string, q vc09Queries, cache map[string]*vc09Reopened) (int, bool) {
	h := x.h
	h.ps.images++
	if pi.op1InFlight {
		h.ps.imagesOp1InFlight++
	}
	where := fmt.Sprintf("snapshot %q, %s image (op1 %s parked inside its WAL fsync; op2 %s: %s)", pi.tag, mode, op1.name(), op2.name(), class)
	key, err := vc09ImageHash(mem, x.prefix)
	if err != nil {
		h.herr("%s: cannot hash the image: %v", where, err)
		return 0, false
	}
	ro := cache[key]
	if ro == nil {
		ro, _ = x.reopen(mem, q, false)
		cache[key] = ro
		h.ps.reopened++
	}
	if ro.err != nil {
		h.violate("C09:reopen-failed-after-"+mode, "%s: the store does not open: %v", where, ro.err)
		return 0, false
	}
	if ro.derr != nil {
		h.violate("C09:reopen-failed-after-"+mode, "%s: the recovered store cannot be scanned: %v", where, ro.derr)
		return 0, false
	}
	var js []int
	for j := range ref {
		if ro.raw.Hash == ref[j].Raw.Hash {
			js = append(js, j)
		}
	}
	if len(js) == 0 || js[0] > pi.ceil {
		h.violate("C09:peer-fsync:recovered-state-is-no-mutation-prefix:"+mode, "%s: the recovered store is none of the states before op1 / after op1 / after op1 and op2 that were possible at this instant (vs before: %s | vs after op1: %s | vs after both: %s)",
			where, vc09DumpDiff(ref[0].Raw, ro.raw), vc09DumpDiff(ref[1].Raw, ro.raw), vc09DumpDiff(ref[2].Raw, ro.raw))
		return 0, false
	}
	hi := js[len(js)-1]
	if hi > pi.ceil {
		hi = pi.ceil
	}
	if hi < pi.floor {
		h.violate("C09:acknowledged-mutation-lost-after-"+mode, "%s: %s, yet the recovered store equals the state B%d; acknowledged (durable) mutations are missing: %s",
			where, pi.floorWhy, hi, vc09DumpDiff(ref[pi.floor].Raw, ro.raw))
		return 0, false
	}
	if pi.checkPost {
		sat := false
		for _, j := range js {
			if j <= pi.ceil && op2.post(ref[j].Model, j >= 1) {
				sat = true
			}
		}
		if !sat {
			told := ""
			if op2.told != nil {
				told = op2.told()
			}
			h.violate("C09:acknowledged-during-peer-fsync-not-durable:"+op2.kind+":"+mode, "%s: %s reported success without writing anything (%s), but this image recovers as the state B%d (B0 = before %s), in which that does not hold: the acknowledgement relied on data that was visible but not yet durable",
				where, op2.name(), told, hi, op1.name())
			return 0, false
		}
	}
	if d := vc09FirstDiff(ref[hi].Model.expectAll(q), ro.lines); d != "" {
		h.violate("C09:recovered-view-differs-from-model:"+vc09LineKind(d)+":"+mode, "%s: raw content equals the reference state B%d but the reopened store reports something else: %s", where, hi, d)
		return 0, false
	}
	if !x.invariants(where, mode, ro.facts, -1) {
		return 0, false
	}
	return hi, true
}

func vc09SortedKeys(m map[string]int64) []string {
	out := make([]string, 0, len(m))
	for k := range m {
		out = append(out, k)
	}
	sort.Strings(out)
	return out
}
