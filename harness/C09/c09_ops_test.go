package message

// C09 alphabet: the mutations of the channel store, each driven through the same entry
// point production code uses (pkg/channel/store adapters). An op is PREPARED against the
// model (arguments + predicted acceptance), RUN on the real store and APPLIED to the model.

import (
	"context"
	"fmt"
	"strings"

	channel "github.com/WuKongIM/WuKongIM/pkg/db/message/channelcompat"
	"github.com/WuKongIM/WuKongIM/pkg/quorumlog"
)

type vc09Op struct {
	kind      string // app xhw fol ckp ckb trn rep adopt trim dis bulk
	ci        int
	predictOK bool
	disabled  bool // no store call is made (the operation is not applicable in this state)
	changes   bool // the model says durable state changes when the call succeeds
	run       func(s *vc09Store) error
	apply     func(m *vc09Model)
	more      bool // trim: another call is needed
	// tags name the secondary records that exist in the pre-state of this op and that the
	// op must rewrite/remove together with its primary effect (section prepared-states:
	// vacuity guards prove that every such situation was crash-enumerated)
	tags []string

	// used by the ack-while-peer-commit-in-fsync section (c09_pair_test.go):
	// post states what a successful acknowledgement of this op promises about the durable
	// state, as a predicate over a reference model (afterOp1: the model already contains
	// the peer operation). It is only consulted for acknowledgements that change nothing
	// (already-satisfied no-ops, durable reads); state-changing ops are checked by position.
	post func(m *vc09Model, afterOp1 bool) bool
	// told renders what the op reported (reads), for messages.
	told func() string
	// again re-submits the very same request (a retry of an exact append).
	again func(s *vc09Store) error
}

func (o *vc09Op) name() string { return o.kind + ":" + vc09Name[o.ci] }

var vc09Kinds = []string{"app", "xhw", "fol", "rep", "trn", "ckp", "ckb", "trm", "dis"}

// vc09Alphabet lists the event labels: kind x channel.
func vc09Alphabet() []string {
	var out []string
	for _, k := range vc09Kinds {
		for _, n := range vc09Name {
			out = append(out, k+":"+n)
		}
	}
	return out
}

func vc09ParseEvent(ev string) (kind string, ci int, arg string) {
	parts := strings.Split(ev, ":")
	kind = parts[0]
	if len(parts) > 1 && parts[1] == "B" {
		ci = 1
	}
	if len(parts) > 2 {
		arg = parts[2]
	}
	return
}

func (m *vc09Model) prepApp(ci int) *vc09Op {
	c := &m.Ch[ci]
	seq := c.LEO + 1
	id := m.allocID()
	m.noteSeq(seq)
	rec, row, _ := vc09MakeRecord(ci, seq, id, false)
	var tags []string
	if c.HasRet && len(c.Rows) == 0 && c.LEO > 0 {
		tags = append(tags, "app-log-end-held-by-retention-record-only")
	}
	return &vc09Op{kind: "app", ci: ci, predictOK: true, changes: true, tags: tags,
		run: func(s *vc09Store) error {
			base, err := s.stores[ci].Append([]channel.Record{rec})
			if err == nil && base != seq-1 {
				return fmt.Errorf("append returned base %d, model %d", base, seq-1)
			}
			return err
		},
		apply: func(m *vc09Model) {
			c := &m.Ch[ci]
			c.Rows = append(c.Rows, row)
			c.LEO = seq
			if seq == 1 {
				c.Catalog = true
			}
		}}
}

// prepXhw: exact leader append of one 2-record proposal (second record > one WAL block)
// carrying the committed HW of everything before it.
func (m *vc09Model) prepXhw(ci int) *vc09Op {
	c := &m.Ch[ci]
	base := c.LEO
	_, _, exact := c.exactTail()
	ok := base == 0 || (exact && !(c.HasCkpt && c.HW > c.LEO))
	id1, id2 := m.allocID(), m.allocID()
	m.noteSeq(base + 2)
	rec1, row1, q1 := vc09MakeRecord(ci, base+1, id1, false)
	rec2, row2, q2 := vc09MakeRecord(ci, base+2, id2, true)
	man, entries := m.seal(ci, base, c.maxTerm(), []quorumlog.Record{q1, q2})
	submit := func(s *vc09Store, want quorumlog.AppendOutcome) error {
		res := StoreAppendBatch(context.Background(), []AppendBatchItem{{
			Store: s.stores[ci], Records: []channel.Record{rec1, rec2}, Committed: base,
			Class: AppendBatchClassLeaderQuorum, ExactBaseOffset: true, ExpectedBaseOffset: base, Proposal: man,
		}})
		if len(res) != 1 {
			return fmt.Errorf("StoreAppendBatch returned %d results", len(res))
		}
		if res[0].Err == nil && (res[0].Outcome != want || res[0].LastOffset != base+2) {
			return fmt.Errorf("exact append: outcome %d last %d, model outcome %d last %d", res[0].Outcome, res[0].LastOffset, want, base+2)
		}
		return res[0].Err
	}
	var tags []string
	if ok && c.HasCkpt && base > c.HW {
		tags = append(tags, "xhw-advances-an-existing-checkpoint")
	}
	if ok && c.HasRet {
		tags = append(tags, "xhw-on-a-channel-with-retention-record")
	}
	return &vc09Op{kind: "xhw", ci: ci, predictOK: ok, changes: true, tags: tags,
		run:   func(s *vc09Store) error { return submit(s, quorumlog.AppendOutcomeDurable) },
		again: func(s *vc09Store) error { return submit(s, quorumlog.AppendOutcomeAlreadyDurable) },
		apply: func(m *vc09Model) {
			c := &m.Ch[ci]
			c.Rows = append(c.Rows, row1, row2)
			c.LEO = base + 2
			c.Props = append(c.Props, man)
			for _, e := range entries {
				c.Idents[e.Index] = e
			}
			if base > c.HW {
				c.HasCkpt, c.HW = true, base
			}
			if base == 0 {
				c.Catalog = true
			}
		}}
}

// prepFol: follower apply of one fetched record + leader HW + epoch boundary in one batch.
func (m *vc09Model) prepFol(ci int) *vc09Op { return m.prepFolHW(ci, true) }

// prepFolHW: withHW=false is the same apply without a leader HW (record + epoch boundary
// only), which leaves epoch-history points ABOVE the committed watermark.
func (m *vc09Model) prepFolHW(ci int, withHW bool) *vc09Op {
	c := &m.Ch[ci]
	seq := c.LEO + 1
	id := m.allocID()
	m.noteSeq(seq)
	rec, row, _ := vc09MakeRecord(ci, seq, id, false)
	epoch := uint64(1)
	if n := len(c.Hist); n > 0 {
		epoch = c.Hist[n-1].Epoch + 1
	}
	point := channel.EpochPoint{Epoch: epoch, StartOffset: c.LEO}
	// a newer epoch must not start below the last stored epoch boundary (plain Truncate keeps
	// the epoch history, so boundaries above the log end can exist): refused as corrupt state
	ok := true
	if n := len(c.Hist); n > 0 && point.StartOffset < c.Hist[n-1].StartOffset {
		ok = false
	}
	hw := seq
	kind := "fol"
	if !withHW {
		kind, hw = "flo", 0
	}
	return &vc09Op{kind: kind, ci: ci, predictOK: ok, changes: true,
		run: func(s *vc09Store) error {
			req := channel.ApplyFetchStoreRequest{Records: []channel.Record{rec}}
			if withHW {
				req.CheckpointHW = &hw
			}
			leo, err := s.stores[ci].StoreApplyFetchTrustedWithEpoch(req, &point)
			if err == nil && leo != seq {
				return fmt.Errorf("apply returned leo %d, model %d", leo, seq)
			}
			return err
		},
		apply: func(m *vc09Model) {
			c := &m.Ch[ci]
			c.Rows = append(c.Rows, row)
			c.LEO = seq
			if withHW && hw > c.HW {
				c.HasCkpt, c.HW = true, hw
			}
			c.Hist = append(c.Hist, EpochPoint{Epoch: epoch, StartOffset: point.StartOffset})
			if seq == 1 {
				c.Catalog = true
			}
		}}
}

// prepBulk: n small fetched records in one trusted apply (used only to pre-populate).
func (m *vc09Model) prepBulk(ci int, n int) *vc09Op {
	c := &m.Ch[ci]
	base := c.LEO
	recs := make([]channel.Record, 0, n)
	rows := make([]vc09Row, 0, n)
	for i := 0; i < n; i++ {
		seq := base + 1 + uint64(i)
		rec, row, _ := vc09MakeRecord(ci, seq, m.allocID(), false)
		recs = append(recs, rec)
		rows = append(rows, row)
	}
	m.noteSeq(base + uint64(n))
	hw := base + uint64(n)
	return &vc09Op{kind: "bulk", ci: ci, predictOK: true, changes: true,
		run: func(s *vc09Store) error {
			_, err := s.stores[ci].StoreApplyFetchTrusted(channel.ApplyFetchStoreRequest{Records: recs, CheckpointHW: &hw})
			return err
		},
		apply: func(m *vc09Model) {
			c := &m.Ch[ci]
			c.Rows = append(c.Rows, rows...)
			c.LEO = hw
			if hw > c.HW {
				c.HasCkpt, c.HW = true, hw
			}
			if base == 0 {
				c.Catalog = true
			}
		}}
}

// prepCkp: checkpoint the whole log (direct synchronous batch / coordinator batch lane).
func (m *vc09Model) prepCkp(ci int, viaCoordinator bool) *vc09Op {
	return m.prepCkpTarget(ci, viaCoordinator, m.Ch[ci].LEO)
}

// prepCkpTarget: advance the checkpoint HW monotonically to hw.
func (m *vc09Model) prepCkpTarget(ci int, viaCoordinator bool, hw uint64) *vc09Op {
	c := &m.Ch[ci]
	change := !c.HasCkpt || hw > c.HW
	kind := "ckp"
	if viaCoordinator {
		kind = "ckb"
	}
	return &vc09Op{kind: kind, ci: ci, predictOK: true, changes: change,
		run: func(s *vc09Store) error {
			if !viaCoordinator {
				return s.stores[ci].StoreCheckpointHWMonotonic(context.Background(), hw)
			}
			res := StoreCheckpointHWMonotonicBatch(context.Background(), []CheckpointHWBatchItem{{Store: s.stores[ci], HW: hw}})
			if len(res) != 1 {
				return fmt.Errorf("StoreCheckpointHWMonotonicBatch returned %d results", len(res))
			}
			return res[0].Err
		},
		apply: func(m *vc09Model) {
			if change {
				c := &m.Ch[ci]
				c.HasCkpt, c.HW, c.Catalog = true, hw, true
			}
		},
		post: func(m *vc09Model, _ bool) bool { return m.Ch[ci].HasCkpt && m.Ch[ci].HW >= hw },
		told: func() string { return fmt.Sprintf("checkpoint HW >= %d", hw) }}
}

// prepFetchHW: follower apply that carries no records, only the leader HW (single-store
// entry point / cross-channel batch entry point).
func (m *vc09Model) prepFetchHW(ci int, batch bool, hw uint64) *vc09Op {
	c := &m.Ch[ci]
	change := hw > c.HW
	ok := hw <= c.LEO
	leo := c.LEO
	kind := "fhw"
	if batch {
		kind = "fhb"
	}
	return &vc09Op{kind: kind, ci: ci, predictOK: ok, changes: change,
		run: func(s *vc09Store) error {
			req := channel.ApplyFetchStoreRequest{CheckpointHW: &hw}
			var got uint64
			var err error
			if batch {
				res := StoreApplyFetchTrustedBatch(context.Background(), []ApplyFetchBatchItem{{Store: s.stores[ci], Request: req}})
				if len(res) != 1 {
					return fmt.Errorf("StoreApplyFetchTrustedBatch returned %d results", len(res))
				}
				got, err = res[0].LEO, res[0].Err
			} else {
				got, err = s.stores[ci].StoreApplyFetchTrusted(req)
			}
			if err == nil && got != leo {
				return fmt.Errorf("record-less apply returned leo %d, model %d", got, leo)
			}
			return err
		},
		apply: func(m *vc09Model) {
			if change {
				c := &m.Ch[ci]
				c.HasCkpt, c.HW, c.Catalog = true, hw, true
			}
		},
		post: func(m *vc09Model, _ bool) bool { return hw == 0 || (m.Ch[ci].HasCkpt && m.Ch[ci].HW >= hw) },
		told: func() string { return fmt.Sprintf("checkpoint HW >= %d", hw) }}
}

// prepTrn: follower-style suffix truncation of everything above the committed HW
// (log and epoch history together).
func (m *vc09Model) prepTrn(ci int) *vc09Op {
	c := &m.Ch[ci]
	to := c.LEO
	if c.HW < c.LEO {
		to = c.HW
	}
	return m.prepTrnTo(ci, to, true)
}

// prepTrnTo: suffix truncation to an explicit target (never below the committed HW: the
// store leaves the checkpoint alone, truncating committed data is the caller's error).
// history=true is TruncateLogAndHistory, history=false the plain Truncate (rows, indexes,
// proposal identities and the retention record, but not the epoch history).
func (m *vc09Model) prepTrnTo(ci int, to uint64, history bool) *vc09Op {
	c := &m.Ch[ci]
	if to > c.LEO || (c.HasCkpt && to < c.HW) {
		return &vc09Op{kind: "trn", ci: ci, disabled: true}
	}
	ok := !(c.HasRet && to < c.Local)
	for _, p := range c.Props {
		if p.LastOffset > to && p.BaseOffset < to {
			ok = false
		}
	}
	kind := "trn"
	if !history {
		kind = "trp"
	}
	// plain Truncate at the log end returns before it stages anything
	writes := history || to < c.LEO
	var tags []string
	if ok && writes {
		if c.HasRet && c.RMax > to {
			tags = append(tags, kind+"-lowers-retained-max")
			if len(c.Rows) > 0 && c.Rows[0].Seq <= to {
				tags = append(tags, kind+"-lowers-retained-max-rows-remain")
			}
		}
		for _, p := range c.Hist {
			if p.StartOffset > to {
				tags = append(tags, kind+"-epoch-history-above-target")
				break
			}
		}
		for _, p := range c.Props {
			if p.LastOffset > to {
				tags = append(tags, kind+"-proposal-identities-above-target")
				break
			}
		}
		if len(c.Rows) > 0 && c.Rows[len(c.Rows)-1].Seq > to {
			tags = append(tags, kind+"-index-rows-above-target")
		}
	}
	return &vc09Op{kind: kind, ci: ci, predictOK: ok, changes: writes, tags: tags,
		run: func(s *vc09Store) error {
			if history {
				return s.stores[ci].TruncateLogAndHistory(context.Background(), to)
			}
			return s.stores[ci].Truncate(to)
		},
		apply: func(m *vc09Model) {
			if !writes {
				return
			}
			c := &m.Ch[ci]
			c.cutAbove(to, history)
			if c.HasRet && c.RMax > to {
				c.RMax = to
			}
			c.Catalog = true
			c.LEO = to
		}}
}

// prepRep: recovery-only suffix replacement: keep the committed/adopted prefix, drop every
// proposal above it and install one quorum-proven proposal, committed, in one batch.
func (m *vc09Model) prepRep(ci int) *vc09Op {
	c := &m.Ch[ci]
	_, _, exact := c.exactTail()
	frontierOK := (c.LEO == 0 || exact) && !(c.HasCkpt && c.HW > c.LEO)
	if !frontierOK {
		return &vc09Op{kind: "rep", ci: ci, disabled: true}
	}
	floor := c.HW
	if c.HasRet && c.Local > floor {
		floor = c.Local
	}
	kt := c.LEO
	found := false
	if floor == 0 {
		kt, found = 0, true
	}
	for _, p := range c.Props {
		if p.LastOffset >= floor && (!found || p.LastOffset < kt) {
			kt, found = p.LastOffset, true
		}
	}
	if !found {
		return &vc09Op{kind: "rep", ci: ci, disabled: true}
	}
	seq := kt + 1
	id := m.allocID()
	m.noteSeq(seq)
	rec, row, q := vc09MakeRecord(ci, seq, id, false)
	man, entries := m.seal(ci, kt, c.maxTerm()+1, []quorumlog.Record{q})
	var tags []string
	if c.HasRet && c.RMax > seq {
		tags = append(tags, "rep-lowers-retained-max")
	}
	if c.LEO > kt {
		tags = append(tags, "rep-replaces-a-stored-suffix")
	}
	if c.HasCkpt && seq > c.HW {
		tags = append(tags, "rep-advances-an-existing-checkpoint")
	}
	return &vc09Op{kind: "rep", ci: ci, predictOK: true, changes: true, tags: tags,
		run: func(s *vc09Store) error {
			ctx := context.Background()
			fr, err := s.stores[ci].LoadDurableFrontier(ctx)
			if err != nil {
				return fmt.Errorf("LoadDurableFrontier before replace: %w", err)
			}
			res, err := s.stores[ci].ReplaceRecoverySuffix(ctx, ReplaceRecoverySuffixRequest{
				Expected: fr, KeepThrough: kt, Committed: seq,
				Proposals: []RecoveryProposal{{Manifest: man, Records: []channel.Record{rec}}},
			})
			if err == nil && (res.Outcome != quorumlog.AppendOutcomeDurable || res.LastOffset != seq) {
				return fmt.Errorf("replace: outcome %d last %d, model durable last %d", res.Outcome, res.LastOffset, seq)
			}
			return err
		},
		apply: func(m *vc09Model) {
			c := &m.Ch[ci]
			c.cutAbove(kt, true)
			c.Rows = append(c.Rows, row)
			c.Props = append(c.Props, man)
			c.Idents[seq] = entries[0]
			c.HasCkpt, c.HW = true, seq
			if c.HasRet && c.RMax > seq {
				c.RMax = seq
			}
			c.LEO = seq
			if seq == 1 {
				c.Catalog = true
			}
		}}
}

func vc09TrimThrough(c *vc09Chan) uint64 {
	if c.LEO < 2 {
		return c.LEO
	}
	return 2
}

// prepAdopt: first batch of a retention trim - adopt the boundary and advance the replay cursor.
func (m *vc09Model) prepAdopt(ci int, through uint64) *vc09Op {
	c := &m.Ch[ci]
	local, rmax := c.Local, c.RMax
	if through > local {
		local = through
	}
	floor := c.LEO
	if through > floor {
		floor = through
	}
	if floor > rmax {
		rmax = floor
	}
	retChange := local != c.Local || rmax != c.RMax
	curChange := !c.HasCursor || c.Cursor < local
	var tags []string
	if c.HasRet && retChange {
		tags = append(tags, "adopt-rewrites-an-existing-retention-record")
	}
	if c.HasCkpt && through > c.HW {
		tags = append(tags, "adopt-boundary-above-checkpoint")
	}
	if c.HasCursor && curChange {
		tags = append(tags, "adopt-advances-an-existing-cursor")
	}
	return &vc09Op{kind: "adopt", ci: ci, predictOK: true, changes: retChange || curChange, tags: tags,
		run: func(s *vc09Store) error {
			return s.stores[ci].AdoptRetentionBoundary(context.Background(), through, vc09Cursor)
		},
		apply: func(m *vc09Model) {
			c := &m.Ch[ci]
			if retChange {
				c.HasRet, c.Local, c.RMax = true, local, rmax
			}
			if curChange {
				c.HasCursor, c.Cursor = true, local
			}
			if retChange || curChange {
				c.Catalog = true
			}
			if c.RMax > c.LEO {
				c.LEO = c.RMax
			}
		},
		post: func(m *vc09Model, _ bool) bool {
			c := &m.Ch[ci]
			return c.HasRet && c.Local >= through && c.HasCursor && c.Cursor >= through
		},
		told: func() string { return fmt.Sprintf("retention boundary and replay cursor >= %d", through) }}
}

// prepTrim: one bounded physical trim batch (MaxMessages:1).
func (m *vc09Model) prepTrim(ci int, through uint64) *vc09Op {
	c := &m.Ch[ci]
	var hit []vc09Row
	for _, r := range c.Rows {
		if r.Seq > c.Phys && r.Seq <= through && len(hit) < 2 {
			hit = append(hit, r)
		}
	}
	more := len(hit) > 1
	phys, rmax := c.Phys, c.RMax
	if c.LEO > rmax {
		rmax = c.LEO
	}
	var del *vc09Row
	if len(hit) > 0 {
		del = &hit[0]
	}
	if !more && through > phys {
		phys = through
	} else if del != nil && del.Seq > phys {
		phys = del.Seq
	}
	ok := through <= c.Local
	wantDeleted := 0
	if del != nil {
		wantDeleted = 1
	}
	var tags []string
	if ok && c.HasRet && rmax > c.RMax {
		tags = append(tags, "trim-raises-a-stale-retained-max")
	}
	if ok && del != nil && c.HasCkpt && del.Seq > c.HW {
		tags = append(tags, "trim-deletes-a-row-above-checkpoint")
	}
	if ok && del != nil {
		if _, has := c.Idents[del.Seq]; has {
			tags = append(tags, "trim-deletes-a-row-with-proposal-identity")
		}
	}
	return &vc09Op{kind: "trim", ci: ci, predictOK: ok, changes: true, more: more, tags: tags,
		run: func(s *vc09Store) error {
			res, err := s.stores[ci].TrimMessagesThroughLimit(context.Background(), through, RetentionTrimOptions{MaxMessages: 1})
			if err == nil && (res.More != more || res.Deleted != wantDeleted) {
				return fmt.Errorf("trim returned more=%v deleted=%d, model more=%v deleted=%d", res.More, res.Deleted, more, wantDeleted)
			}
			return err
		},
		apply: func(m *vc09Model) {
			c := &m.Ch[ci]
			if del != nil {
				rows := c.Rows[:0:0]
				for _, r := range c.Rows {
					if r.Seq != del.Seq {
						rows = append(rows, r)
					}
				}
				c.Rows = rows
			}
			c.HasRet, c.Phys, c.RMax = true, phys, rmax
			c.Catalog = true
			if c.RMax > c.LEO {
				c.LEO = c.RMax
			}
		}}
}

// prepDis: restore-failure cleanup of the whole channel (paged row deletion + final wipe).
func (m *vc09Model) prepDis(ci int) *vc09Op {
	return &vc09Op{kind: "dis", ci: ci, predictOK: true, changes: true,
		run: func(s *vc09Store) error {
			return s.stores[ci].DiscardForRestore(context.Background())
		},
		apply: func(m *vc09Model) {
			m.Ch[ci] = vc09Chan{Idents: map[uint64]quorumlog.EntryIdentity{}}
		}}
}

// vc09DiscardPages returns, for the rows of a channel, the sequence after which each page
// batch of DiscardForRestore ends (at most 1024 rows and about 8 MiB of payload per page).
func vc09DiscardPages(rows []vc09Row) []uint64 {
	var ends []uint64
	count, bytes := 0, 0
	for i, r := range rows {
		if count > 0 && (count >= 1024 || bytes+r.PLen > 8<<20) {
			ends = append(ends, rows[i-1].Seq)
			count, bytes = 0, 0
		}
		count++
		bytes += r.PLen
	}
	if count > 0 {
		ends = append(ends, rows[len(rows)-1].Seq)
	}
	return ends
}
