package message

// C09 reference model: a boring per-channel description (row slice, maps, a few integers)
// of what the store must contain after each mutation, the observation of a real store
// through its API in the same line format, and the operations of the alphabet. Every
// operation is prepared against the model (arguments, predicted acceptance), executed on
// the REAL store, and then applied to the model.

import (
	"context"
	"errors"
	"fmt"
	"hash/fnv"
	"math"
	"sort"
	"strings"

	channel "github.com/WuKongIM/WuKongIM/pkg/db/message/channelcompat"
	"github.com/WuKongIM/WuKongIM/pkg/quorumlog"
)

const (
	vc09Epoch      = 5
	vc09Fence      = 9
	vc09BaseTerm   = 7
	vc09Cursor     = "committed"
	vc09BigPayload = 40 * 1024 // > one 32 KiB WAL block: the commit needs >= 2 WAL writes
	vc09FirstID    = 1001
)

type vc09Row struct {
	Seq   uint64
	ID    uint64
	Cno   string
	PLen  int
	PHash uint64
}

type vc09Chan struct {
	Rows      []vc09Row
	LEO       uint64
	HasCkpt   bool
	HW        uint64
	HasRet    bool
	Local     uint64
	Phys      uint64
	RMax      uint64
	HasCursor bool
	Cursor    uint64
	Hist      []EpochPoint
	Props     []DurableProposalManifest
	Idents    map[uint64]quorumlog.EntryIdentity
	Catalog   bool
}

// vc09Queries is the set of lookups an observation performs. It depends on the history
// (which ids / commands were ever used), never on the state.
type vc09Queries struct {
	IDs    []uint64
	Cmds   [2][]quorumlog.CommandID
	MaxSeq uint64
}

type vc09Model struct {
	Ch      [2]vc09Chan
	NextID  uint64
	NextCmd uint64
	Q       vc09Queries
}

func vc09NewModel() *vc09Model {
	m := &vc09Model{NextID: vc09FirstID, NextCmd: 1}
	for i := range m.Ch {
		m.Ch[i].Idents = map[uint64]quorumlog.EntryIdentity{}
	}
	m.Q.MaxSeq = 1
	return m
}

func (m *vc09Model) clone() *vc09Model {
	c := &vc09Model{NextID: m.NextID, NextCmd: m.NextCmd}
	for i := range m.Ch {
		s := m.Ch[i]
		d := s
		d.Rows = append([]vc09Row(nil), s.Rows...)
		d.Hist = append([]EpochPoint(nil), s.Hist...)
		d.Props = append([]DurableProposalManifest(nil), s.Props...)
		d.Idents = make(map[uint64]quorumlog.EntryIdentity, len(s.Idents))
		for k, v := range s.Idents {
			d.Idents[k] = v
		}
		c.Ch[i] = d
	}
	c.Q.IDs = append([]uint64(nil), m.Q.IDs...)
	for i := range m.Q.Cmds {
		c.Q.Cmds[i] = append([]quorumlog.CommandID(nil), m.Q.Cmds[i]...)
	}
	c.Q.MaxSeq = m.Q.MaxSeq
	return c
}

func (m *vc09Model) noteSeq(seq uint64) {
	if seq > m.Q.MaxSeq {
		m.Q.MaxSeq = seq
	}
}

func vc09Hash(p []byte) uint64 {
	h := fnv.New64a()
	h.Write(p)
	return h.Sum64()
}

func vc09Cno(seq uint64) string { return fmt.Sprintf("k%d", seq) }

// vc09MakeRecord builds one durable record for channel ci at seq with message id id.
func vc09MakeRecord(ci int, seq, id uint64, big bool) (channel.Record, vc09Row, quorumlog.Record) {
	var payload []byte
	if big {
		payload = make([]byte, vc09BigPayload)
		for i := range payload {
			payload[i] = byte(uint64(i)*7 + id)
		}
	} else {
		payload = []byte(fmt.Sprintf("p-%s-%d-%d", vc09Name[ci], seq, id))
	}
	ts := int64(1_700_000_000_000) + int64(id)
	row := messageRow{
		MessageID: id, ClientMsgNo: vc09Cno(seq), ChannelID: vc09IDs[ci].ID, ChannelType: vc09IDs[ci].Type,
		FromUID: "u1", ServerTimestampMS: ts, Payload: payload,
	}
	rec, err := compatibilityRecordFromRow(row)
	if err != nil {
		panic(err)
	}
	rec.Index = seq
	rec.Epoch = vc09Epoch
	mrow := vc09Row{Seq: seq, ID: id, Cno: vc09Cno(seq), PLen: len(payload), PHash: vc09Hash(payload)}
	qrec := quorumlog.Record{ID: id, Index: seq, Epoch: vc09Epoch, FromUID: "u1", ClientMsgNo: vc09Cno(seq), ServerTimestampMS: ts, Payload: payload}
	return rec, mrow, qrec
}

func (m *vc09Model) allocID() uint64 {
	id := m.NextID
	m.NextID++
	m.Q.IDs = append(m.Q.IDs, id)
	return id
}

func (m *vc09Model) allocCmd(ci int) quorumlog.CommandID {
	var c quorumlog.CommandID
	c[0] = 0xC9
	c[1] = byte(ci + 1)
	n := m.NextCmd
	m.NextCmd++
	for i := 0; i < 8; i++ {
		c[2+i] = byte(n >> (8 * (7 - i)))
	}
	m.Q.Cmds[ci] = append(m.Q.Cmds[ci], c)
	return c
}

// seal builds a manifest for records following base on channel ci.
func (m *vc09Model) seal(ci int, base, term uint64, qrecs []quorumlog.Record) (DurableProposalManifest, []quorumlog.EntryIdentity) {
	man := DurableProposalManifest{
		Version: DurableProposalManifestVersion, ChannelEpoch: vc09Epoch, LeaderTerm: term, FenceVersion: vc09Fence,
		CommandID: m.allocCmd(ci), BaseOffset: base, LastOffset: base + uint64(len(qrecs)), PreviousIndex: base,
	}
	if base > 0 {
		if id, ok := m.Ch[ci].Idents[base]; ok {
			man.PreviousTerm, man.PreviousDigest = id.LeaderTerm, id.Digest
		} else {
			// no exact predecessor: a structurally valid manifest the store must refuse
			man.PreviousTerm = 1
			man.PreviousDigest[0] = 1
		}
	}
	sealed, entries, ok := quorumlog.SealProposalManifest(man, qrecs)
	if !ok {
		panic("vc09: cannot seal manifest")
	}
	return sealed, entries
}

// exactTail reports whether the channel has the complete exact proof at its log end.
func (c *vc09Chan) exactTail() (DurableProposalManifest, quorumlog.EntryIdentity, bool) {
	if c.LEO == 0 {
		return DurableProposalManifest{}, quorumlog.EntryIdentity{}, false
	}
	id, ok := c.Idents[c.LEO]
	if !ok {
		return DurableProposalManifest{}, quorumlog.EntryIdentity{}, false
	}
	for _, p := range c.Props {
		if p.LastOffset == c.LEO && p.CommandID == id.CommandID {
			return p, id, true
		}
	}
	return DurableProposalManifest{}, quorumlog.EntryIdentity{}, false
}

func (c *vc09Chan) maxTerm() uint64 {
	t := uint64(vc09BaseTerm)
	for _, p := range c.Props {
		if p.LeaderTerm > t {
			t = p.LeaderTerm
		}
	}
	return t
}

// cutAbove removes rows, manifests, identities (and optionally history) above to.
func (c *vc09Chan) cutAbove(to uint64, history bool) {
	rows := c.Rows[:0:0]
	for _, r := range c.Rows {
		if r.Seq <= to {
			rows = append(rows, r)
		}
	}
	c.Rows = rows
	props := c.Props[:0:0]
	for _, p := range c.Props {
		if p.LastOffset <= to {
			props = append(props, p)
		}
	}
	c.Props = props
	for k := range c.Idents {
		if k > to {
			delete(c.Idents, k)
		}
	}
	if history {
		hist := c.Hist[:0:0]
		for _, p := range c.Hist {
			if p.StartOffset <= to {
				hist = append(hist, p)
			}
		}
		c.Hist = hist
	}
}

// ---------------------------------------------------------------- expectation

// frontierText is what LoadDurableFrontier must report for this channel: it loads with the
// exact tail proof, or fails closed.
func (c *vc09Chan) frontierText() string {
	switch {
	case c.HasCkpt && c.HW > c.LEO:
		return "corrupt"
	case c.LEO == 0:
		return fmt.Sprintf("ok leo=0 committed=%d", c.HW)
	}
	if p, id, ok := c.exactTail(); ok {
		return fmt.Sprintf("ok leo=%d committed=%d %s tail[%s]", c.LEO, c.HW, vc09ManifestLine(p), vc09IdentLine(id))
	}
	return "corrupt"
}

// vc09FrontierText renders a real LoadDurableFrontier result in the same format.
func vc09FrontierText(fr DurableFrontier, err error) string {
	switch {
	case err != nil:
		return vc09ErrClass(err)
	case fr.LEO == 0:
		return fmt.Sprintf("ok leo=0 committed=%d", fr.Committed)
	}
	return fmt.Sprintf("ok leo=%d committed=%d %s tail[%s]", fr.LEO, fr.Committed, vc09ManifestLine(fr.Manifest), vc09IdentLine(fr.TailIdentity))
}

func vc09Hex(b []byte) string { return fmt.Sprintf("%x", b) }

func vc09ManifestLine(p DurableProposalManifest) string {
	return fmt.Sprintf("cmd=%s base=%d last=%d term=%d pterm=%d pdig=%s dig=%s", vc09Hex(p.CommandID[:10]), p.BaseOffset, p.LastOffset, p.LeaderTerm, p.PreviousTerm, vc09Hex(p.PreviousDigest[:6]), vc09Hex(p.Digest[:6]))
}

func vc09IdentLine(e quorumlog.EntryIdentity) string {
	return fmt.Sprintf("cmd=%s idx=%d term=%d pidx=%d dig=%s", vc09Hex(e.CommandID[:10]), e.Index, e.LeaderTerm, e.PreviousIndex, vc09Hex(e.Digest[:6]))
}

// expect renders the model of channel ci with the lookups of q.
func (m *vc09Model) expect(ci int, q vc09Queries) []string {
	c := &m.Ch[ci]
	n := vc09Name[ci]
	var out []string
	add := func(format string, args ...any) { out = append(out, n+"."+fmt.Sprintf(format, args...)) }
	add("leo=%d", c.LEO)
	var rows []string
	bySeq := map[uint64]vc09Row{}
	byID := map[uint64]vc09Row{}
	for _, r := range c.Rows {
		rows = append(rows, fmt.Sprintf("%d:%d:u1:%s:%d:%x", r.Seq, r.ID, r.Cno, r.PLen, r.PHash))
		bySeq[r.Seq] = r
		byID[r.ID] = r
	}
	add("rows=[%s]", strings.Join(rows, " "))
	if c.HasCkpt {
		add("ckpt=0/0/%d", c.HW)
	} else {
		add("ckpt=absent")
	}
	add("ret=%d/%d/%d", c.Local, c.Phys, c.RMax)
	if c.HasCursor {
		add("cursor=%d", c.Cursor)
	} else {
		add("cursor=absent")
	}
	var hist []string
	for _, p := range c.Hist {
		hist = append(hist, fmt.Sprintf("%d@%d", p.Epoch, p.StartOffset))
	}
	add("hist=[%s]", strings.Join(hist, " "))
	add("frontier=%s", c.frontierText())
	for i := uint64(1); i <= q.MaxSeq+1; i++ {
		if id, ok := c.Idents[i]; ok {
			add("ident[%d]=%s", i, vc09IdentLine(id))
		} else {
			add("ident[%d]=absent", i)
		}
		line := "absent"
		for _, p := range c.Props {
			if p.LastOffset == i {
				line = vc09ManifestLine(p)
			}
		}
		add("bylast[%d]=%s", i, line)
		if r, ok := bySeq[i]; ok {
			add("idem[%s]=%d:%d:%x", vc09Cno(i), r.Seq, r.ID, r.PHash)
			add("cmn[%s]=[%d]", vc09Cno(i), r.Seq)
		} else {
			add("idem[%s]=absent", vc09Cno(i))
			add("cmn[%s]=[]", vc09Cno(i))
		}
	}
	for _, cmd := range q.Cmds[ci] {
		line := "absent"
		for _, p := range c.Props {
			if p.CommandID == cmd {
				line = vc09ManifestLine(p)
			}
		}
		add("bycmd[%s]=%s", vc09Hex(cmd[:10]), line)
	}
	for _, id := range q.IDs {
		if r, ok := byID[id]; ok {
			add("byid[%d]=%d", id, r.Seq)
		} else {
			add("byid[%d]=absent", id)
		}
	}
	if len(c.Rows) > 0 {
		add("sender=%d", c.Rows[len(c.Rows)-1].Seq)
	} else {
		add("sender=absent")
	}
	return out
}

func (m *vc09Model) expectAll(q vc09Queries) []string {
	var out []string
	for ci := range m.Ch {
		out = append(out, m.expect(ci, q)...)
	}
	var cat []string
	for ci := range m.Ch {
		if m.Ch[ci].Catalog {
			cat = append(cat, string(vc09Keys[ci]))
		}
	}
	sort.Strings(cat)
	out = append(out, fmt.Sprintf("catalog=[%s]", strings.Join(cat, " ")))
	return out
}

// ---------------------------------------------------------------- observation

func vc09ErrClass(err error) string {
	switch {
	case err == nil:
		return "ok"
	case errors.Is(err, channel.ErrCorruptState):
		return "corrupt"
	default:
		return "err(" + err.Error() + ")"
	}
}

// vc09Facts are the numbers the per-image invariants are stated over.
type vc09Facts struct {
	LEO         uint64
	LEOErr      error
	LastRow     uint64
	RowsErr     error
	HasCkpt     bool
	HW          uint64
	RMax        uint64
	FrontierErr error
	Frontier    DurableFrontier
}

// vc09Observe reads channel ci of a real store through its API.
func vc09Observe(s *vc09Store, ci int, q vc09Queries) ([]string, vc09Facts) {
	st := s.stores[ci]
	n := vc09Name[ci]
	ctx := context.Background()
	var out []string
	var f vc09Facts
	add := func(format string, args ...any) { out = append(out, n+"."+fmt.Sprintf(format, args...)) }
	leo, err := st.LEOWithError()
	f.LEO, f.LEOErr = leo, err
	if err != nil {
		add("leo=%s", vc09ErrClass(err))
	} else {
		add("leo=%d", leo)
	}
	msgs, err := st.ListMessagesBySeq(ctx, 1, 0, 0, false)
	f.RowsErr = err
	if err != nil {
		add("rows=%s", vc09ErrClass(err))
	} else {
		var rows []string
		for _, msg := range msgs {
			rows = append(rows, fmt.Sprintf("%d:%d:%s:%s:%d:%x", msg.MessageSeq, msg.MessageID, msg.FromUID, msg.ClientMsgNo, len(msg.Payload), vc09Hash(msg.Payload)))
			if msg.MessageSeq > f.LastRow {
				f.LastRow = msg.MessageSeq
			}
		}
		add("rows=[%s]", strings.Join(rows, " "))
	}
	ck, err := st.LoadCheckpoint()
	switch {
	case err == nil:
		f.HasCkpt, f.HW = true, ck.HW
		add("ckpt=%d/%d/%d", ck.Epoch, ck.LogStartOffset, ck.HW)
	case errors.Is(err, channel.ErrEmptyState):
		add("ckpt=absent")
	default:
		add("ckpt=%s", vc09ErrClass(err))
	}
	ret, err := st.LoadRetentionState()
	if err != nil {
		add("ret=%s", vc09ErrClass(err))
	} else {
		f.RMax = ret.RetainedMaxSeq
		add("ret=%d/%d/%d", ret.LocalRetentionThroughSeq, ret.PhysicalRetentionThroughSeq, ret.RetainedMaxSeq)
	}
	cur, ok, err := st.LoadCommittedDispatchCursor(vc09Cursor)
	switch {
	case err != nil:
		add("cursor=%s", vc09ErrClass(err))
	case ok:
		add("cursor=%d", cur)
	default:
		add("cursor=absent")
	}
	points, err := st.LoadHistory()
	switch {
	case err == nil:
		var hist []string
		for _, p := range points {
			hist = append(hist, fmt.Sprintf("%d@%d", p.Epoch, p.StartOffset))
		}
		add("hist=[%s]", strings.Join(hist, " "))
	case errors.Is(err, channel.ErrEmptyState):
		add("hist=[]")
	default:
		add("hist=%s", vc09ErrClass(err))
	}
	fr, err := st.LoadDurableFrontier(ctx)
	f.Frontier, f.FrontierErr = fr, err
	add("frontier=%s", vc09FrontierText(fr, err))
	key := ChannelKey(vc09Keys[ci])
	raw := s.eng.engine
	for i := uint64(1); i <= q.MaxSeq+1; i++ {
		id, ok, err := loadDurableEntryIdentityFrom(raw, key, i)
		switch {
		case err != nil:
			add("ident[%d]=%s", i, vc09ErrClass(err))
		case ok:
			add("ident[%d]=%s", i, vc09IdentLine(id))
		default:
			add("ident[%d]=absent", i)
		}
		p, ok, err := loadDurableProposalFrom(raw, encodeProposalByLastKey(key, i))
		switch {
		case err != nil:
			add("bylast[%d]=%s", i, vc09ErrClass(err))
		case ok:
			add("bylast[%d]=%s", i, vc09ManifestLine(p.manifest))
		default:
			add("bylast[%d]=absent", i)
		}
		ent, hash, ok, err := st.LookupIdempotency(channel.IdempotencyKey{ChannelID: vc09IDs[ci], FromUID: "u1", ClientMsgNo: vc09Cno(i)})
		switch {
		case err != nil:
			add("idem[%s]=%s", vc09Cno(i), vc09ErrClass(err))
		case ok:
			add("idem[%s]=%d:%d:%x", vc09Cno(i), ent.MessageSeq, ent.MessageID, hash)
		default:
			add("idem[%s]=absent", vc09Cno(i))
		}
		list, _, _, err := st.ListMessagesByClientMsgNo(vc09Cno(i), 0, 16)
		if err != nil {
			add("cmn[%s]=%s", vc09Cno(i), vc09ErrClass(err))
		} else {
			var seqs []string
			for _, msg := range list {
				seqs = append(seqs, fmt.Sprint(msg.MessageSeq))
			}
			add("cmn[%s]=[%s]", vc09Cno(i), strings.Join(seqs, " "))
		}
	}
	for _, cmd := range q.Cmds[ci] {
		p, ok, err := loadDurableProposalFrom(raw, encodeProposalByCommandKey(key, cmd))
		switch {
		case err != nil:
			add("bycmd[%s]=%s", vc09Hex(cmd[:10]), vc09ErrClass(err))
		case ok:
			add("bycmd[%s]=%s", vc09Hex(cmd[:10]), vc09ManifestLine(p.manifest))
		default:
			add("bycmd[%s]=absent", vc09Hex(cmd[:10]))
		}
	}
	for _, id := range q.IDs {
		msg, ok, err := st.GetMessageByMessageID(id)
		switch {
		case err != nil:
			add("byid[%d]=%s", id, vc09ErrClass(err))
		case ok:
			add("byid[%d]=%d", id, msg.MessageSeq)
		default:
			add("byid[%d]=absent", id)
		}
	}
	seq, ok, err := st.GetLastSenderMessageSeq(ctx, "u1", math.MaxUint64)
	switch {
	case err != nil:
		add("sender=%s", vc09ErrClass(err))
	case ok:
		add("sender=%d", seq)
	default:
		add("sender=absent")
	}
	return out, f
}

func vc09ObserveAll(s *vc09Store, q vc09Queries) ([]string, [2]vc09Facts) {
	var out []string
	var facts [2]vc09Facts
	for ci := range s.stores {
		lines, f := vc09Observe(s, ci, q)
		out = append(out, lines...)
		facts[ci] = f
	}
	keys, err := s.eng.ListChannelKeys()
	if err != nil {
		out = append(out, "catalog="+vc09ErrClass(err))
	} else {
		var cat []string
		for _, k := range keys {
			cat = append(cat, string(k))
		}
		sort.Strings(cat)
		out = append(out, fmt.Sprintf("catalog=[%s]", strings.Join(cat, " ")))
	}
	return out, facts
}

// vc09FirstDiff returns the first line where want and got differ ("" when equal).
func vc09FirstDiff(want, got []string) string {
	n := len(want)
	if len(got) > n {
		n = len(got)
	}
	for i := 0; i < n; i++ {
		w, g := "<none>", "<none>"
		if i < len(want) {
			w = want[i]
		}
		if i < len(got) {
			g = got[i]
		}
		if w != g {
			if len(w) > 300 {
				w = w[:300] + "~"
			}
			if len(g) > 300 {
				g = g[:300] + "~"
			}
			return fmt.Sprintf("want %q got %q", w, g)
		}
	}
	return ""
}

// vc09LineKind extracts the structural kind of a differing line ("A.leo=3" -> "leo").
func vc09LineKind(diff string) string {
	i := strings.Index(diff, "\"")
	if i < 0 {
		return "state"
	}
	s := diff[i+1:]
	if j := strings.IndexAny(s, "=["); j >= 0 {
		s = s[:j]
	}
	if j := strings.Index(s, "."); j >= 0 {
		s = s[j+1:]
	}
	if s == "" {
		return "state"
	}
	return s
}
