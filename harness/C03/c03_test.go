package replication

// C03 - Append receipts are exact, contiguous and retry-stable.
// Entry point of the shared replication world (../C01/world_test.go) with the C03 oracle.

import (
	"testing"

	"github.com/WuKongIM/WuKongIM/pkg/zzverif/ev"
	"github.com/WuKongIM/WuKongIM/pkg/zzverif/mc"
)

func TestVerifC03(t *testing.T) {
	r := ev.Start(t, "C03")
	defer r.Finish()
	st := &vwStats{}
	run := func(name string, retained, depth, devs int) mc.Result { // nolint
		o := vwOpts{
			prop: "C03", cmds: 3, maxInstalls: ev.Pick(r, 1, 2), maxCrashes: ev.Pick(r, 1, 2), maxOutages: ev.Pick(r, 0, 1), retained: retained,
			evConflict: true, evSame: true, evTrailing: true, evLocalLost: true, evHedge: r.Thorough(),
			oC03: true, reportKF: false,
		}
		return vwRun(r, name, o, st, depth, devs, "N=3 voters, Q=2, one channel, commands c1 (1 record), c2 (2 records), c3 (1 record), each in an exact and a conflicting content variant; initial state: node 1 installed under (1,1,1); a path ends (silently, counted) at a transition that matches the known C01 defect KF-C01-1")
	}
	res := run("replication-world/C03/retained1-deep", 1, ev.Pick(r, 5, 6), ev.Pick(r, 0, 0))
	res2 := run("replication-world/C03/retained1-mid", 1, ev.Pick(r, 4, 5), ev.Pick(r, 1, 1))
	res3 := run("replication-world/C03/retained1-faulty", 1, ev.Pick(r, 3, 4), ev.Pick(r, 2, 2))
	res4 := run("replication-world/C03/retained2", 2, ev.Pick(r, 4, 5), ev.Pick(r, 1, 1))
	res.States += res3.States + res4.States
	vwAssumptions(r)
	vwCounters(r, st)
	if r.Replay() != nil {
		return
	}
	r.Guard("acknowledged-commits", st.acks.Load() >= 10, "%d acknowledged receipts", st.acks.Load())
	r.Guard("identical-exact-retries", st.retryIdentical.Load() >= 10, "%d exact retries returned the identical receipt", st.retryIdentical.Load())
	r.Guard("retry-without-retained-cache", st.reconcileAfterEviction.Load() >= 1, "%d exact retries were answered without the retained cache (eviction / restart -> store reconciliation)", st.reconcileAfterEviction.Load())
	r.Guard("retry-of-pending-proposal", st.retryPendingAcked.Load() >= 1, "%d ambiguous (pending) proposals were acknowledged by a retry", st.retryPendingAcked.Load())
	r.Guard("conflicting-retries-rejected", st.conflictRejected.Load() >= 10, "%d conflicting retries of acknowledged commands rejected", st.conflictRejected.Load())
	r.Guard("retry-under-higher-authority", st.retryRefusedHigherAuthority.Load()+st.retryIdentical.Load() >= 1, "%d retries refused under a higher authority", st.retryRefusedHigherAuthority.Load())
	r.Guard("states", res.States+res2.States >= 100, "%d states", res.States+res2.States)
}
