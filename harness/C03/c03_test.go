package replication

// C03 - Append receipts are exact, contiguous and retry-stable.
// Entry point of the shared replication world (../C01/world_test.go) with the C03 oracle,
// wrapped by vw3 (c03_cold_test.go: command-lookup fault + narrow pending excuse).

import (
	"os"
	"testing"

	"github.com/WuKongIM/WuKongIM/pkg/zzverif/ev"
	"github.com/WuKongIM/WuKongIM/pkg/zzverif/mc"
)

func vw3Run(r *ev.R, name string, o vwOpts, st *vwStats, xs *vw3Counters, anon bool, depth, devs int, note string) mc.Result {
	depth, devs = vwDebugBounds(depth, devs)
	o.noPrune = os.Getenv("VERIF_DEBUG_NOPRUNE") == "1"
	b := vwBounds(o)
	b["env_questions"].(map[string]bool)["command-lookup{ok,fails}"] = true
	return mc.Run(r, mc.System{
		Name: name, New: func() mc.Instance { return newVW3(o, st, xs, true, anon) },
		MaxDepth: depth, MaxDeviations: devs, Bounds: b, Note: note,
	})
}

func TestVerifC03(t *testing.T) {
	r := ev.Start(t, "C03")
	defer r.Finish()
	st := &vwStats{}
	xs := &vw3Counters{}
	base := func(retained int) vwOpts {
		return vwOpts{
			prop: "C03", cmds: 3, maxInstalls: ev.Pick(r, 1, 2), maxCrashes: ev.Pick(r, 1, 2), maxOutages: ev.Pick(r, 0, 1), retained: retained,
			evConflict: true, evSame: true, evTrailing: true, evLocalLost: true, evHedge: r.Thorough(),
			oC03: true, reportKF: false,
		}
	}
	note := "N=3 voters, Q=2, one channel, commands c1 (1 record), c2 (2 records), c3 (1 record), each in an exact and a conflicting content variant; initial state: node 1 installed under (1,1,1); a path ends (silently, counted) at a transition that matches the known C01 defect KF-C01-1"
	run := func(name string, retained, depth, devs int) mc.Result { // nolint
		return vw3Run(r, name, base(retained), st, xs, false, depth, devs, note)
	}
	res := run("replication-world/C03/retained1-deep", 1, ev.Pick(r, 5, 6), ev.Pick(r, 0, 0))
	res2 := run("replication-world/C03/retained1-mid", 1, ev.Pick(r, 4, 5), ev.Pick(r, 1, 1))
	res3 := run("replication-world/C03/retained1-faulty", 1, ev.Pick(r, 3, 4), ev.Pick(r, 2, 2))
	res4 := run("replication-world/C03/retained2", 2, ev.Pick(r, 4, 5), ev.Pick(r, 1, 1))
	res.States += res3.States + res4.States

	// MessageDB-backed box: the leader's and the followers' durable logs are real
	// pkg/db/message stores, c1 / c2 are proposed with ServerAllocatedMessageIDs (sequenced
	// fast path of the exact append), so "retry after owner restart / eviction" runs
	// against the durable command index of the real store.
	pool, err := newVWMDBPool()
	if err == nil {
		err = pool.selfTest()
	}
	if err != nil {
		r.HarnessError("MessageDB-backed world unavailable: %v", err)
	} else {
		om := base(1)
		om.backend = pool.lease
		om.maxOutages, om.evHedge = 0, false
		if !r.Thorough() {
			om.evTrailing = false
		}
		mnote := note + "; every node's durable log is a real MessageDB (pkg/db/message on Pebble, in-memory vfs) channel store; c1, c2 are proposed with ServerAllocatedMessageIDs, c3 without; plus commita = one record without an idempotency key proposed with ServerAllocatedMessageIDs"
		mdb := vw3Run(r, "replication-world/C03/messagedb-retained1", om, st, xs, true, ev.Pick(r, 3, 4), 0, mnote)
		if r.Thorough() {
			mdb2 := vw3Run(r, "replication-world/C03/messagedb-retained1-faulty", om, st, xs, true, 3, 1, mnote)
			mdb.States += mdb2.States
		}
		r.Guard("messagedb-world-states", mdb.States >= 100, "%d states explored over MessageDB-backed stores", mdb.States)
	}
	if pool != nil {
		pool.close()
	}
	vwAssumptions(r)
	vwCounters(r, st)
	r.Count("command_lookup_failed_executions_incl_replays", xs.lookupFailed.Load())
	r.Count("exact_retry_refused_behind_pending_left_by_ambiguous_round_executions_incl_replays", xs.refusedByLegitPending.Load())
	r.Count("pending_left_by_ambiguous_round_executions_incl_replays", xs.pendingLeftByAmbiguousRound.Load())
	if r.Replay() != nil {
		return
	}
	r.Guard("acknowledged-commits", st.acks.Load() >= 10, "%d acknowledged receipts", st.acks.Load())
	r.Guard("identical-exact-retries", st.retryIdentical.Load() >= 10, "%d exact retries returned the identical receipt", st.retryIdentical.Load())
	r.Guard("retry-without-retained-cache", st.reconcileAfterEviction.Load() >= 1, "%d exact retries were answered without the retained cache (eviction / restart -> store reconciliation)", st.reconcileAfterEviction.Load())
	r.Guard("retry-of-pending-proposal", st.retryPendingAcked.Load() >= 1, "%d ambiguous (pending) proposals were acknowledged by a retry", st.retryPendingAcked.Load())
	r.Guard("conflicting-retries-rejected", st.conflictRejected.Load() >= 10, "%d conflicting retries of acknowledged commands rejected", st.conflictRejected.Load())
	r.Guard("retry-under-higher-authority", st.retryRefusedHigherAuthority.Load()+st.retryIdentical.Load() >= 1, "%d retries refused under a higher authority", st.retryRefusedHigherAuthority.Load())
	r.Guard("command-lookup-failures", xs.lookupFailed.Load() >= 1, "%d cold retries whose durable command lookup failed", xs.lookupFailed.Load())
	r.Guard("pending-left-by-ambiguous-round", xs.pendingLeftByAmbiguousRound.Load() >= 1, "%d proposals left pending by a round without a definite answer", xs.pendingLeftByAmbiguousRound.Load())
	r.Guard("states", res.States+res2.States >= 100, "%d states", res.States+res2.States)
}
