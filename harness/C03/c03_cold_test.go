package replication

// C03 strengthening (cold retry path of the sequencer).
//
// vw3 wraps the shared replication world (../C01/world_test.go) without changing it:
//
//   - one more environment question: the durable command-index lookup of the cold retry
//     path (quorumLog.loadRetainedProposal -> commandStore.LookupCommands) fails
//     transiently (store error / cancelled context);
//   - a narrower excuse for "an exact retry of an acknowledged command was refused": the
//     world's own oracle accepts every refusal while the sequencer holds a pending
//     proposal. A pending proposal is legitimate only when it was left by a durability
//     round that ended WITHOUT a definite answer (Commit returned "durable quorum
//     unavailable"). A Commit that returned a definite rejection (conflicting reuse of a
//     command identity, failed command lookup) has no business leaving its re-sealed
//     proposal in the pending slot; if it does, every later exact retry of the command and
//     every new command is refused. The wrapper therefore tracks, per node, whether the
//     pending proposal now installed is legitimate and reports a fault-free refusal of an
//     exact retry under the acknowledging authority that happened only because of an
//     illegitimate pending proposal.

import (
	"context"
	"errors"
	"fmt"
	"strconv"
	"strings"
	"sync/atomic"

	ch "github.com/WuKongIM/WuKongIM/pkg/channel"
	"github.com/WuKongIM/WuKongIM/pkg/zzverif/mc"
)

var errVwLookupFailed = errors.New("verif: command index lookup failed")

type vw3Counters struct {
	lookupFailed, refusedByLegitPending, pendingLeftByAmbiguousRound atomic.Int64
	anonAcks, anonRetryIdentical                                     atomic.Int64
}

// vw3AnonCmd is the number of the "anonymous" command of the wrapper (event
// commita:<node>): ONE record WITHOUT an idempotency key (empty FromUID / ClientMsgNo, like
// the system messages and the recovery barrier) proposed with ServerAllocatedMessageIDs, so
// that on a MessageDB store neither the (sender, client number) index nor the message-id
// index guards a re-sealed cold retry: only the durable command index does.
const vw3AnonCmd = 9

type vw3 struct {
	*vw
	lookupFail bool
	anon       bool // commita events enabled
	xs         *vw3Counters
	// legit[i]: the pending proposal of node i+1 was left by a round without a definite answer
	legit [vwN]bool
}

type vw3Commands struct {
	x     *vw3
	inner commandStore
}

func (c *vw3Commands) LookupCommands(ctx context.Context, l []CommandLookup) []CommandLookupResult {
	if c.x.lookupFail && c.x.choose("lookup-commands", 2) == 1 {
		c.x.xs.lookupFailed.Add(1)
		out := make([]CommandLookupResult, len(l))
		for i := range out {
			out[i].Err = errVwLookupFailed
		}
		return out
	}
	return c.inner.LookupCommands(ctx, l)
}

func newVW3(o vwOpts, st *vwStats, xs *vw3Counters, lookupFail, anon bool) *vw3 {
	x := &vw3{vw: newVW(o, st), lookupFail: lookupFail, anon: anon, xs: xs}
	x.wrapLogs()
	for i, n := range x.nodes { // a prefix may leave pending proposals: judge them by the real state only
		if st := x.chanState(n); st != nil && st.pending != nil {
			x.legit[i] = true
		}
	}
	return x
}

// wrapLogs interposes on the command lookup of every (fresh) quorumLog.
func (x *vw3) wrapLogs() {
	for _, n := range x.nodes {
		if _, ok := n.log.commands.(*vw3Commands); !ok {
			n.log.commands = &vw3Commands{x: x, inner: n.log.commands}
		}
	}
}

func (x *vw3) pendingKey(n *vwNode) string {
	st := x.chanState(n)
	if st == nil || st.pending == nil {
		return ""
	}
	p := st.pending.proposal
	variant := byte('?')
	if len(p.records) > 0 && len(p.records[0].Payload) > 0 {
		variant = p.records[0].Payload[0]
	}
	return fmt.Sprintf("%s%c@%d-%d:%s:%s", cmdName(p.manifest.CommandID), variant, p.first, p.last, d8(p.manifest.Digest), authStr(st.authority.ID))
}

func (x *vw3) Events() []string {
	evs := x.vw.Events()
	if x.anon && !x.dead {
		for _, n := range x.nodes {
			if len(n.hist) > 0 {
				evs = append(evs, fmt.Sprintf("commita:%d", n.id))
			}
		}
	}
	return evs
}

func anonRecords(epoch uint64) []ch.Record {
	payload := make([]byte, 60)
	payload[0], payload[1] = 'a', vw3AnonCmd
	return []ch.Record{{ID: 1990, Epoch: epoch, ServerTimestampMS: 1_700_000_000_009, Payload: payload, SizeBytes: len(payload)}}
}

// applyAnon is the Commit event of the anonymous command with the C03 core oracle: first
// acknowledgement = one contiguous range right after the log end holding the command; an
// exact retry that succeeds returns the identical range and leaves every replica log
// unchanged; in a fault-free step under the acknowledging authority it is not refused
// (unless a legitimate pending proposal blocks the sequencer). The acknowledgement is
// registered with the world, so its state invariants (no command stored twice in one log,
// no committed copy outside the acknowledged range) cover the command as well.
func (x *vw3) applyAnon(n *vwNode, env *mc.Env) (obs string, err error) {
	x.env = env
	defer func() { x.env = nil }()
	before := x.snapshot()
	x.snapOK = false
	x.resetObs()
	defer func() {
		if p := recover(); p != nil {
			obs, err = "panic", mc.Violatef("C03:panic-in-commit", "commita panicked: %v", p)
		}
	}()
	k := vw3AnonCmd
	cur := n.hist[len(n.hist)-1]
	ni := int(n.id) - 1
	hadPending := x.pendingKey(n) != ""
	x.proposed[k] |= 1
	receipt, cerr := n.log.Commit(context.Background(), Proposal{Key: x.key, Expected: cur, CommandID: cmdID(k), Records: anonRecords(cur.ChannelEpoch), ServerAllocatedMessageIDs: true})
	after := x.snapshot()
	obs = "commita:" + errName(cerr)
	if cerr == nil {
		obs += fmt.Sprintf(":[%d,%d]", receipt.First, receipt.Last)
	}
	if err := x.anonStoredAgain(after); err != nil {
		return obs, err
	}
	ai, acked := x.ackOf[k]
	if cerr != nil {
		if acked && x.acks[ai].receipt.Authority == cur && n.writable && !n.fenced && !hadPending && x.noFaultsNow() {
			return obs, mc.Violatef("C03:exact-retry-refused-under-same-authority", "exact retry of the acknowledged anonymous command at node %d under its acknowledging authority %s was refused with %v (no fault in this event, nobody down, nothing pending)", n.id, authStr(cur), cerr)
		}
		return obs, x.transitionChecks("commita", before)
	}
	if acked {
		ack := x.acks[ai]
		if receipt.First != ack.receipt.First || receipt.Last != ack.receipt.Last {
			return obs, mc.Violatef("C03:retry-returned-different-range", "the anonymous command (no idempotency key, ServerAllocatedMessageIDs) was acknowledged as [%d,%d] under %s; its exact retry at node %d under %s returned [%d,%d]", ack.receipt.First, ack.receipt.Last, authStr(ack.receipt.Authority), n.id, authStr(cur), receipt.First, receipt.Last)
		}
		if !sameLogs(before, after) {
			return obs, mc.Violatef("C03:exact-retry-stored-rows", "exact retry of the acknowledged anonymous command at node %d changed a replica log", n.id)
		}
		x.st.retryIdentical.Add(1)
		x.xs.anonRetryIdentical.Add(1)
		return obs, x.transitionChecks("commita", before)
	}
	if receipt.CommandID != cmdID(k) || receipt.Last != receipt.First || receipt.HW < receipt.Last {
		return obs, mc.Violatef("C03:receipt-range-length-mismatch", "Commit of the one-record anonymous command at node %d returned %+v", n.id, receipt)
	}
	id, ok := after[ni].at(receipt.First)
	if !ok || id.CommandID != cmdID(k) {
		return obs, mc.Violatef("C03:receipt-without-local-entry", "Commit of the anonymous command at node %d returned [%d,%d] but its own log does not hold the command there", n.id, receipt.First, receipt.Last)
	}
	if held, _ := before[ni].at(receipt.First); held.CommandID != cmdID(k) && receipt.First != before[ni].leo+1 {
		return obs, mc.Violatef("C03:receipt-not-contiguous-with-log-end", "Commit of the anonymous command at node %d returned [%d,%d] but its log ended at %d before", n.id, receipt.First, receipt.Last, before[ni].leo)
	}
	for _, old := range x.acks {
		if receipt.First <= old.receipt.Last && old.receipt.First <= receipt.Last {
			return obs, mc.Violatef("C03:overlapping-receipts", "the anonymous command acknowledged as [%d,%d] overlaps c%d [%d,%d]", receipt.First, receipt.Last, old.cmd, old.receipt.First, old.receipt.Last)
		}
	}
	x.acks = append(x.acks, vwAck{cmd: k, variant: 'a', receipt: receipt, ids: []ch.EntryIdentity{id}, by: n.id})
	x.ackOf[k] = len(x.acks) - 1
	n.mustHold = append(n.mustHold, len(x.acks)-1)
	x.st.acks.Add(1)
	x.xs.anonAcks.Add(1)
	return obs, x.transitionChecks("commita", before)
}

func (x *vw3) Apply(event string, env *mc.Env) (string, error) {
	parts := strings.Split(event, ":")
	if parts[0] == "commita" {
		id, _ := strconv.Atoi(parts[1])
		var before [vwN]string
		for i, n := range x.nodes {
			before[i] = x.pendingKey(n)
		}
		obs, err := x.applyAnon(x.node(ch.NodeID(id)), env)
		x.wrapLogs()
		x.reclassify(before, id-1, obs)
		return obs, err
	}
	var before [vwN]string
	for i, n := range x.nodes {
		before[i] = x.pendingKey(n)
	}
	legitBefore := x.legit
	obs, err := x.vw.Apply(event, env)
	x.wrapLogs()
	isCommit := parts[0] == "commit" || parts[0] == "commitx" || parts[0] == "commitp"
	at := -1
	if isCommit {
		id, _ := strconv.Atoi(parts[1])
		at = id - 1
	}
	x.reclassify(before, at, obs)
	if err != nil || !x.o.oC03 || parts[0] != "commit" || x.dead {
		return obs, err
	}
	refused := !strings.HasPrefix(obs, "commit:ok")
	if !refused || before[at] == "" {
		return obs, nil // refusals without a pending proposal are judged by the world itself
	}
	n := x.nodes[at]
	k, _ := strconv.Atoi(parts[2][1:])
	ai, acked := x.ackOf[k]
	if !acked || x.acks[ai].variant != 'a' || len(n.hist) == 0 {
		return obs, nil
	}
	ack := x.acks[ai]
	cur := n.hist[len(n.hist)-1]
	if ack.receipt.Authority != cur || !n.writable || n.fenced || !x.noFaultsNow() {
		return obs, nil
	}
	if legitBefore[at] {
		if strings.HasPrefix(before[at], "c"+strconv.Itoa(k)+"a@") {
			// the pending proposal is a re-sealed copy of the acknowledged command itself
			// (cold retry whose round ended without a definite answer): from now on every
			// retry re-runs that proposal, is answered "conflict" by every store and is
			// refused without the reconciliation the first attempt would have got.
			return obs, mc.Violatef("C03:exact-retry-refused-by-own-resealed-pending-proposal",
				"exact retry of acknowledged c%d [%d,%d] at node %d under its acknowledging authority %s was refused (%s) in a fault-free step: the sequencer holds the pending proposal %s, a re-sealed copy of this very command left by an earlier cold retry whose durability round ended without a definite answer; retrying that proposal can only conflict with the acknowledged copy and is never reconciled",
				k, ack.receipt.First, ack.receipt.Last, n.id, authStr(cur), strings.TrimPrefix(obs, "commit:"), before[at])
		}
		// blocked by ANOTHER unresolved proposal (another command, or a conflicting reuse
		// of this command's identity) whose round ended without a definite answer: the
		// sequencer admits one unresolved proposal at a time (accepted, counted).
		x.xs.refusedByLegitPending.Add(1)
		return obs, nil
	}
	return obs, mc.Violatef("C03:exact-retry-refused-by-proposal-kept-pending-after-definite-rejection",
		"exact retry of acknowledged c%d [%d,%d] at node %d under its acknowledging authority %s was refused (%s) in a fault-free step: the sequencer holds the pending proposal %s, which was left behind by a Commit that returned a definite rejection (not by an ambiguous durability round)",
		k, ack.receipt.First, ack.receipt.Last, n.id, authStr(cur), strings.TrimPrefix(obs, "commit:"), before[at])
}

// anonStoredAgain is the structural signature of the defect "a cold retry of the key-less
// ServerAllocatedMessageIDs command was appended again": some replica log holds the
// (one-record) anonymous command at more than one offset. Every symptom of that defect
// (different range acknowledged, second copy found by the state invariant after a lost
// acknowledgement, refusal by followers that hold something else there) is reported under
// this one fingerprint.
func (x *vw3) anonStoredAgain(logs []vwLog) error {
	for i, l := range logs {
		var at []uint64
		for s, id := range l.ids {
			if id.CommandID == cmdID(vw3AnonCmd) {
				at = append(at, uint64(s+1))
			}
		}
		if len(at) > 1 {
			return mc.Violatef("C03:cold-retry-of-keyless-server-allocated-command-appended-again",
				"node %d stores the anonymous command (one record without an idempotency key, proposed with ServerAllocatedMessageIDs) at offsets %v: a retry issued when the command was no longer in the sequencer's retained-command cache (owner restart, eviction, new authority) was re-sealed at the log end and appended AGAIN instead of being answered with the original range",
				i+1, at)
		}
	}
	return nil
}

func (x *vw3) Check() error {
	if x.anon && !x.dead {
		if err := x.anonStoredAgain(x.snapshot()); err != nil {
			return err
		}
	}
	return x.vw.Check()
}

// reclassify updates the legitimacy of every node's pending proposal after an event (at =
// index of the node a Commit was issued to, -1 otherwise).
func (x *vw3) reclassify(before [vwN]string, at int, obs string) {
	ambiguous := strings.HasSuffix(obs, ":durable-quorum-unavailable")
	for i, n := range x.nodes {
		now := x.pendingKey(n)
		switch {
		case now == "":
			x.legit[i] = false
		case now == before[i]:
			// unchanged pending proposal keeps its classification
		default:
			x.legit[i] = i == at && ambiguous
			if x.legit[i] {
				x.xs.pendingLeftByAmbiguousRound.Add(1)
			}
		}
	}
}

func (x *vw3) Canon() string {
	c := x.vw.Canon()
	if c == "" || c == "dead" {
		return c
	}
	return c + fmt.Sprintf("|L%v|A%d", x.legit, x.proposed[vw3AnonCmd])
}
