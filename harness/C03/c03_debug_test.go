package replication

import (
	"fmt"
	"os"
	"strings"
	"testing"
)

// TestVerifC03Path (developer aid, never run by the check driver): executes the event path
// in VERIF_DEBUG_PATH ("ev1;ev2;...") with default environment answers on the C03 world
// (VERIF_DEBUG_MDB=1: MessageDB-backed) and prints every observation.
func TestVerifC03Path(t *testing.T) {
	path := os.Getenv("VERIF_DEBUG_PATH")
	if path == "" {
		t.Skip("no VERIF_DEBUG_PATH")
	}
	o := vwOpts{prop: "C03", cmds: 3, maxInstalls: 2, maxCrashes: 2, maxOutages: 1, retained: 1,
		evConflict: true, evSame: true, evTrailing: true, evLocalLost: true, oC03: true}
	if os.Getenv("VERIF_DEBUG_MDB") == "1" {
		pool, err := newVWMDBPool()
		if err != nil {
			t.Fatal(err)
		}
		defer pool.close()
		o.backend = pool.lease
	}
	x := newVW3(o, &vwStats{}, &vw3Counters{}, true, true)
	defer x.Close()
	for _, e := range strings.Split(path, ";") {
		e = strings.TrimSpace(e)
		ok := false
		for _, en := range x.Events() {
			ok = ok || en == e
		}
		if !ok {
			t.Fatalf("event %q not enabled; enabled: %v", e, x.Events())
		}
		obs, err := x.Apply(e, nil)
		if err == nil {
			err = x.Check()
		}
		fmt.Printf("%-28s -> %s  err=%v\n", e, obs, err)
		for i, l := range x.snapshot() {
			var ids []string
			for _, id := range l.ids {
				ids = append(ids, fmt.Sprintf("%s/t%d", cmdName(id.CommandID), id.LeaderTerm))
			}
			fmt.Printf("      node %d: LEO %d committed %d %v | %s\n", i+1, l.leo, l.committed, ids, x.logCanon(x.nodes[i]))
		}
	}
}
