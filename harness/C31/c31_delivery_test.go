package delivery_test

// C31 - Online delivery preserves per-channel order and recipient coverage (engine E3).
//
// The real delivery.Runtime (package compiled from vrewrite'd sources: locks, channels,
// selects, timers, context deadlines and goroutine spawns are scheduling points of the
// controlled scheduler) with 2 plan workers processes 3 durable plans over 2 channels
// (channel c1: sequences 1 and 2, channel c2: sequence 1). All ports are fakes that answer
// from a per-scenario menu and record what the runtime asked them to do; every fake call
// contains a vsched.Point (latency = a place where the calling worker can be overtaken).
// An extra thread calls Stop (or Quiesce, then Stop) at any point. Every schedule within
// the delay bound is executed and each complete execution is judged by the oracle below.

import (
	"context"
	"errors"
	"fmt"
	"runtime"
	"runtime/debug"
	"sort"
	"strings"
	"testing"
	"time"

	"github.com/WuKongIM/WuKongIM/internal/contracts/authority"
	channelappendcontract "github.com/WuKongIM/WuKongIM/internal/contracts/channelappend"
	"github.com/WuKongIM/WuKongIM/internal/contracts/onlinedelivery"
	"github.com/WuKongIM/WuKongIM/internal/runtime/delivery"
	"github.com/WuKongIM/WuKongIM/pkg/zzverif/ev"
	"github.com/WuKongIM/WuKongIM/pkg/zzverif/vsched"
	"github.com/WuKongIM/WuKongIM/pkg/zzverif/vsync"
)

const (
	c31NodeA       = 1 // local owner node (session writes)
	c31NodeB       = 2 // remote owner node (owner-push RPC)
	c31MaxAttempts = 3
	c31PlanTimeout = time.Hour
)

type c31Disp int

const (
	c31OK c31Disp = iota
	c31Retry
	c31Drop
)

func (d c31Disp) String() string { return [...]string{"ok", "retryable", "dropped"}[d] }

// c31Scn is one environment menu choice: who is online where, and how each exact route
// answers attempt 1, 2, 3 ... of one plan (missing entries = ok).
type c31Scn struct {
	name string
	// presence answer per uid (static during the execution)
	routes map[string][]onlinedelivery.Route
	// script per session id: disposition of the n-th attempt of one plan on that route
	script map[uint64][]c31Disp
	// remoteErrFirst: the first remote owner push of every plan fails as a whole (transport error)
	remoteErrFirst bool
	// remoteScript: answer of the remote owner to the n-th push of one plan, over the whole
	// batch it receives (missing entries = "ok"): "partial" (first route accepted, the rest
	// retryable), "allretry", "error" (transport error, nothing classified), "ok", "terminal"
	// (all dropped). When set it replaces the per-session script for remote routes.
	remoteScript []string
	// lifecycle thread: "stop" | "quiesce" | "" (none)
	lifecycle string
	// recipients of every plan, grouped by authority target (leader node)
	targets [][]string
	// owner batch bound / concurrency
	batch, ownerConc int
	note             string
	// deep: explored with one more delay in the thorough tier
	deep bool
}

func c31Route(uid string, node, session uint64) onlinedelivery.Route {
	return onlinedelivery.Route{UID: uid, OwnerNodeID: node, OwnerBootID: 7, OwnerSeq: 100 + session, SessionID: session, DeviceID: fmt.Sprintf("d%d", session), DeviceFlag: 1, DeviceLevel: 1}
}

type c31Plan struct {
	msg     uint64
	seq     uint64
	channel string
}

var c31Plans = []c31Plan{{101, 1, "c1"}, {102, 2, "c1"}, {201, 1, "c2"}}

type c31Call struct {
	kind   string // "write" | "remote" | "offline" | "presence"
	msg    uint64
	seq    uint64
	chanID string
	route  onlinedelivery.Route   // write
	routes []onlinedelivery.Route // remote
	uids   []string               // offline / presence
	disp   c31Disp                // write
	result onlinedelivery.OwnerPushResult
	err    error
	ctxErr bool
}

type c31World struct {
	scn      *c31Scn
	rt       *delivery.Runtime
	calls    []c31Call
	attempts map[string]int // "msg/session" -> attempts so far (local and remote routes)
	remoteN  map[uint64]int // msg -> remote calls so far
	enqErr   map[uint64]error
	enqDone  map[uint64]bool
	// quiesce scenario: accepted local writes waiting for the client's recvack
	toAck     []delivery.Recvack
	ackCursor int
	quiesced  bool
	lifeErr   error
	finalErr  error
	timedOut  bool
	problems  []string
}

func (w *c31World) disp(msg uint64, session uint64) c31Disp {
	key := fmt.Sprintf("%d/%d", msg, session)
	n := w.attempts[key]
	w.attempts[key] = n + 1
	s := w.scn.script[session]
	if n < len(s) {
		return s[n]
	}
	return c31OK
}

// EndpointsByTargets is the fake presence port.
func (w *c31World) EndpointsByTargets(ctx context.Context, targets []onlinedelivery.RecipientTargetBatch) []delivery.TargetPresenceResult {
	vsched.Point("presence")
	out := make([]delivery.TargetPresenceResult, len(targets))
	var uids []string
	for i, t := range targets {
		for _, r := range t.Recipients {
			uids = append(uids, r.UID)
			out[i].Routes = append(out[i].Routes, w.scn.routes[r.UID]...)
		}
	}
	w.calls = append(w.calls, c31Call{kind: "presence", uids: uids, ctxErr: ctx.Err() != nil})
	return out
}

// WriteSession is the fake owner-local session writer.
func (w *c31World) WriteSession(ctx context.Context, wr delivery.LocalSessionWrite) delivery.SessionWriteResult {
	vsched.Point("write")
	d := w.disp(wr.Event.MessageID, wr.Route.SessionID)
	w.calls = append(w.calls, c31Call{kind: "write", msg: wr.Event.MessageID, seq: wr.Event.MessageSeq, chanID: wr.Event.ChannelID, route: wr.Route, disp: d, ctxErr: ctx.Err() != nil})
	switch d {
	case c31OK:
		w.toAck = append(w.toAck, delivery.Recvack{UID: wr.Route.UID, SessionID: wr.Route.SessionID, MessageID: wr.Event.MessageID, MessageSeq: wr.Event.MessageSeq})
		return delivery.SessionWriteResult{Disposition: delivery.SessionWriteAccepted}
	case c31Retry:
		return delivery.SessionWriteResult{Disposition: delivery.SessionWriteRetryable, Err: errors.New("session busy")}
	default:
		return delivery.SessionWriteResult{Disposition: delivery.SessionWriteDropped, Err: errors.New("session gone")}
	}
}

// PushOwner is the fake remote owner-push port (node B).
func (w *c31World) PushOwner(ctx context.Context, push onlinedelivery.OwnerPush) (onlinedelivery.OwnerPushResult, error) {
	vsched.Point("remote-push")
	n := w.remoteN[push.Event.MessageID]
	w.remoteN[push.Event.MessageID] = n + 1
	c := c31Call{kind: "remote", msg: push.Event.MessageID, seq: push.Event.MessageSeq, chanID: push.Event.ChannelID, routes: append([]onlinedelivery.Route(nil), push.Routes...), ctxErr: ctx.Err() != nil}
	if w.scn.remoteErrFirst && n == 0 {
		c.err = errors.New("transport down")
		w.calls = append(w.calls, c)
		return onlinedelivery.OwnerPushResult{}, c.err
	}
	var res onlinedelivery.OwnerPushResult
	if w.scn.remoteScript != nil {
		ans := "ok"
		if n < len(w.scn.remoteScript) {
			ans = w.scn.remoteScript[n]
		}
		if ans == "error" {
			c.err = errors.New("transport down")
			w.calls = append(w.calls, c)
			return onlinedelivery.OwnerPushResult{}, c.err
		}
		for i, r := range push.Routes {
			switch c31ScriptDisp(ans, i) {
			case c31OK:
				res.Accepted = append(res.Accepted, r)
			case c31Retry:
				res.Retryable = append(res.Retryable, r)
			default:
				res.Dropped = append(res.Dropped, r)
			}
		}
		c.result = res.Clone()
		w.calls = append(w.calls, c)
		return res, nil
	}
	for _, r := range push.Routes {
		switch w.disp(push.Event.MessageID, r.SessionID) {
		case c31OK:
			res.Accepted = append(res.Accepted, r)
		case c31Retry:
			res.Retryable = append(res.Retryable, r)
		default:
			res.Dropped = append(res.Dropped, r)
		}
	}
	c.result = res.Clone()
	w.calls = append(w.calls, c)
	return res, nil
}

// ObserveOfflineRecipients is the fake offline observer.
func (w *c31World) ObserveOfflineRecipients(_ context.Context, e delivery.OfflineRecipientsEvent) {
	vsched.Point("offline")
	w.calls = append(w.calls, c31Call{kind: "offline", msg: e.Event.MessageID, seq: e.Event.MessageSeq, chanID: e.Event.ChannelID, uids: append([]string(nil), e.UIDs...)})
}

func (w *c31World) plan(p c31Plan) onlinedelivery.RecipientDeliveryPlan {
	plan := onlinedelivery.RecipientDeliveryPlan{
		Mode:  onlinedelivery.ModeDurable,
		Event: channelappendcontract.CommittedEnvelope{MessageID: p.msg, MessageSeq: p.seq, ChannelID: p.channel, ChannelType: 2, FromUID: "sender", SenderNodeID: 9, SenderSessionID: 900, Payload: []byte("x")},
	}
	for i, group := range w.scn.targets {
		tb := onlinedelivery.RecipientTargetBatch{Target: authority.Target{HashSlot: uint16(i), SlotID: uint32(i + 1), LeaderNodeID: uint64(i + 1), LeaderTerm: 3}}
		for _, uid := range group {
			tb.Recipients = append(tb.Recipients, channelappendcontract.Recipient{UID: uid})
		}
		plan.Targets = append(plan.Targets, tb)
	}
	return plan
}

func (w *c31World) enqueue(p c31Plan) {
	err := w.rt.EnqueueRecipientDeliveryPlan(context.Background(), w.plan(p))
	w.enqErr[p.msg] = err
	w.enqDone[p.msg] = true
}

func c31Body(scn *c31Scn) func(x *vsched.Exec) {
	return func(x *vsched.Exec) {
		w := &c31World{scn: scn, attempts: map[string]int{}, remoteN: map[uint64]int{}, enqErr: map[uint64]error{}, enqDone: map[uint64]bool{}}
		x.Data["w"] = w
		w.rt = delivery.NewRuntime(delivery.RuntimeOptions{
			LocalNodeID: c31NodeA, Presence: w, RemoteOwnerPusher: w, SessionWriter: w, OfflineRecipientsObserver: w,
			QueueSize: 2, Workers: 2, PlanTimeout: c31PlanTimeout, OwnerPushBatchSize: scn.batch, OwnerConcurrency: scn.ownerConc,
			RetryMaxAttempts: c31MaxAttempts, RetryInitialBackoff: time.Millisecond, RetryMaxBackoff: 2 * time.Millisecond,
			Acks: delivery.NewAckTracker(delivery.AckTrackerOptions{ShardCount: 2, Now: func() int64 { return 1000 }}),
		})
		if err := w.rt.Start(context.Background()); err != nil {
			w.problems = append(w.problems, "start: "+err.Error())
			return
		}
		var wg vsync.WaitGroup
		wg.Add(2)
		vsched.GoNamed("producer-c1", func() {
			defer wg.Done()
			w.enqueue(c31Plans[0])
			w.enqueue(c31Plans[1])
		})
		vsched.GoNamed("producer-c2", func() {
			defer wg.Done()
			w.enqueue(c31Plans[2])
		})
		switch scn.lifecycle {
		case "stop":
			wg.Add(1)
			vsched.GoNamed("stopper", func() {
				defer wg.Done()
				w.lifeErr = w.rt.Stop(context.Background())
			})
		case "quiesce":
			wg.Add(2)
			vsched.GoNamed("quiescer", func() {
				defer wg.Done()
				w.lifeErr = w.rt.Quiesce(context.Background())
				w.quiesced = true
				vsched.Progress()
			})
			// the recipients' clients: every accepted session write is acknowledged
			vsched.GoNamed("clients", func() {
				defer wg.Done()
				for {
					vsched.WaitUntil("client-wait", func() bool { return w.ackCursor < len(w.toAck) || w.quiesced })
					for w.ackCursor < len(w.toAck) {
						a := w.toAck[w.ackCursor]
						w.ackCursor++
						_ = w.rt.Recvack(context.Background(), a)
					}
					if w.quiesced {
						return
					}
				}
			})
		}
		wg.Wait()
		// drain: a graceful stop must finish every accepted plan
		w.finalErr = w.rt.Stop(context.Background())
		w.timedOut = vsched.Now().Sub(vsched.Base) >= c31PlanTimeout
		for _, c := range w.calls {
			x.Log("%s", c31Describe(c))
		}
		for _, p := range c31Plans {
			x.Log("enqueue %d: %v", p.msg, w.enqErr[p.msg])
		}
		x.Log("lifecycle=%v final=%v timeout=%v", w.lifeErr, w.finalErr, w.timedOut)
	}
}

func c31Describe(c c31Call) string {
	switch c.kind {
	case "write":
		return fmt.Sprintf("write m%d %s/%d -> %s", c.msg, c.route.UID, c.route.SessionID, c.disp)
	case "remote":
		ss := []string{}
		for _, r := range c.routes {
			ss = append(ss, fmt.Sprintf("%s/%d", r.UID, r.SessionID))
		}
		if c.err != nil {
			return fmt.Sprintf("remote m%d %v -> error", c.msg, ss)
		}
		return fmt.Sprintf("remote m%d %v -> acc=%d retry=%d drop=%d", c.msg, ss, len(c.result.Accepted), len(c.result.Retryable), len(c.result.Dropped))
	case "offline":
		return fmt.Sprintf("offline m%d %v", c.msg, c.uids)
	default:
		return fmt.Sprintf("presence %v", c.uids)
	}
}

// c31ScriptDisp: what a batch-level remote answer means for the i-th route of the batch.
func c31ScriptDisp(ans string, i int) c31Disp {
	switch ans {
	case "partial":
		if i == 0 {
			return c31OK
		}
		return c31Retry
	case "allretry":
		return c31Retry
	case "terminal":
		return c31Drop
	default:
		return c31OK
	}
}

// c31SimRemote is the reference for a scripted remote owner: how often each session of the
// owner's batch (in presence order) gets a classified answer when every retry carries
// exactly the routes the previous classified answer marked retryable, a transport error
// leaves the route set unchanged, and at most c31MaxAttempts pushes are made.
func c31SimRemote(script []string, sessions []uint64) map[uint64]int {
	tries := map[uint64]int{}
	cur := append([]uint64(nil), sessions...)
	for attempt := 0; attempt < c31MaxAttempts && len(cur) > 0; attempt++ {
		ans := "ok"
		if attempt < len(script) {
			ans = script[attempt]
		}
		if ans == "error" {
			continue
		}
		var next []uint64
		for i, se := range cur {
			tries[se]++
			if c31ScriptDisp(ans, i) == c31Retry {
				next = append(next, se)
			}
		}
		cur = next
	}
	return tries
}

// expectedAttempts: how many times one exact route is tried for one plan under its script.
func c31ExpectedAttempts(script []c31Disp) int {
	for i := 0; i < c31MaxAttempts; i++ {
		d := c31OK
		if i < len(script) {
			d = script[i]
		}
		if d != c31Retry {
			return i + 1
		}
	}
	return c31MaxAttempts
}

func c31Check(scn *c31Scn) func(x *vsched.Exec) error {
	return func(x *vsched.Exec) error {
		w, _ := x.Data["w"].(*c31World)
		if w == nil {
			return nil
		}
		if len(w.problems) > 0 {
			return vsched.Violatef("C31:runtime-lifecycle-call-failed", "%v", w.problems)
		}
		if w.finalErr != nil || (w.lifeErr != nil && !errors.Is(w.lifeErr, delivery.ErrRuntimeClosed)) {
			return vsched.Violatef("C31:graceful-stop-returned-error", "Stop/Quiesce with a background context returned lifecycle=%v final=%v", w.lifeErr, w.finalErr)
		}
		planOf := map[uint64]c31Plan{}
		for _, p := range c31Plans {
			planOf[p.msg] = p
		}
		// exact routes a plan may touch, per uid
		validRoute := map[onlinedelivery.Route]bool{}
		recipients := []string{}
		for _, g := range scn.targets {
			for _, uid := range g {
				recipients = append(recipients, uid)
				for _, r := range scn.routes[uid] {
					validRoute[r] = true
				}
			}
		}
		// ---- admission
		for _, p := range c31Plans {
			err := w.enqErr[p.msg]
			if !w.enqDone[p.msg] {
				return vsched.Violatef("C31:enqueue-did-not-return", "enqueue of message %d never returned", p.msg)
			}
			if err != nil && !(errors.Is(err, delivery.ErrRuntimeClosed) && scn.lifecycle != "") {
				return vsched.Violatef("C31:enqueue-unexpected-error", "enqueue of message %d returned %v", p.msg, err)
			}
		}
		// ---- walk the port calls in the order they happened
		type sc struct {
			session uint64
			channel string
		}
		lastSeq := map[sc]uint64{}
		lastOK := map[sc]uint64{}
		tries := map[string]int{}   // msg/uid/session -> attempts
		final := map[string]bool{}  // msg/uid/session -> got a non-retryable answer
		offline := map[string]int{} // msg/uid -> offline reports
		var prevRemote = map[uint64]*c31Call{}
		note := func(c c31Call, r onlinedelivery.Route, d c31Disp) error {
			p, ok := planOf[c.msg]
			if !ok || p.seq != c.seq || p.channel != c.chanID {
				return vsched.Violatef("C31:push-carries-unknown-event", "%s: event (msg %d seq %d channel %q) is not a submitted plan", c31Describe(c), c.msg, c.seq, c.chanID)
			}
			if w.enqErr[c.msg] != nil {
				return vsched.Violatef("C31:rejected-plan-was-executed", "%s: the plan's enqueue returned %v", c31Describe(c), w.enqErr[c.msg])
			}
			if !validRoute[r] {
				return vsched.Violatef("C31:push-to-route-that-presence-did-not-return", "%s: route %+v is not an exact route resolved for a recipient of the plan", c31Describe(c), r)
			}
			key := fmt.Sprintf("%d/%s/%d", c.msg, r.UID, r.SessionID)
			if final[key] {
				return vsched.Violatef("C31:route-pushed-again-after-its-final-answer", "%s: route %s/%d already got a non-retryable answer for this plan (a retry must target only the exact failed routes)", c31Describe(c), r.UID, r.SessionID)
			}
			k := sc{r.SessionID, c.chanID}
			if c.seq < lastSeq[k] {
				return vsched.Violatef("C31:channel-sequence-pushed-out-of-order", "%s: session %d of channel %s was already pushed sequence %d", c31Describe(c), r.SessionID, c.chanID, lastSeq[k])
			}
			lastSeq[k] = c.seq
			if d == c31OK {
				if c.seq <= lastOK[k] {
					return vsched.Violatef("C31:channel-sequence-delivered-twice-or-backwards", "%s: session %d of channel %s already accepted sequence %d", c31Describe(c), r.SessionID, c.chanID, lastOK[k])
				}
				lastOK[k] = c.seq
			}
			tries[key]++
			if d != c31Retry {
				final[key] = true
			}
			return nil
		}
		for i := range w.calls {
			c := w.calls[i]
			switch c.kind {
			case "write":
				if c.route.OwnerNodeID != c31NodeA {
					return vsched.Violatef("C31:local-write-for-remote-owner", "%s: route owned by node %d was written locally", c31Describe(c), c.route.OwnerNodeID)
				}
				if err := note(c, c.route, c.disp); err != nil {
					return err
				}
			case "remote":
				if prev := prevRemote[c.msg]; prev != nil && prev.err == nil {
					// a retry after a classified answer: exactly the retryable routes
					if !c31SameRoutes(c.routes, prev.result.Retryable) {
						return vsched.Violatef("C31:remote-retry-not-narrowed-to-failed-routes", "%s: previous answer marked %d route(s) retryable, the retry carries %d", c31Describe(c), len(prev.result.Retryable), len(c.routes))
					}
				} else if prev != nil && !c31SameRoutes(c.routes, prev.routes) {
					return vsched.Violatef("C31:remote-retry-after-error-changed-routes", "%s: retry after a transport error must carry the same routes", c31Describe(c))
				}
				prevRemote[c.msg] = &w.calls[i]
				for _, r := range c.routes {
					if r.OwnerNodeID != c31NodeB {
						return vsched.Violatef("C31:remote-push-for-other-owner", "%s: route owned by node %d sent to node %d", c31Describe(c), r.OwnerNodeID, c31NodeB)
					}
					if c.err != nil {
						if !validRoute[r] {
							return vsched.Violatef("C31:push-to-route-that-presence-did-not-return", "%s: route %+v", c31Describe(c), r)
						}
						continue
					}
					d := c31Drop
					for _, a := range c.result.Accepted {
						if a == r {
							d = c31OK
						}
					}
					for _, a := range c.result.Retryable {
						if a == r {
							d = c31Retry
						}
					}
					if err := note(c, r, d); err != nil {
						return err
					}
				}
			case "offline":
				if w.enqErr[c.msg] != nil {
					return vsched.Violatef("C31:rejected-plan-was-executed", "%s: the plan's enqueue returned %v", c31Describe(c), w.enqErr[c.msg])
				}
				for _, uid := range c.uids {
					offline[fmt.Sprintf("%d/%s", c.msg, uid)]++
				}
			}
		}
		// ---- coverage of every accepted plan
		var remoteSessions []uint64
		for _, uid := range recipients {
			for _, r := range scn.routes[uid] {
				if r.OwnerNodeID == c31NodeB {
					remoteSessions = append(remoteSessions, r.SessionID)
				}
			}
		}
		remoteWant := c31SimRemote(scn.remoteScript, remoteSessions)
		for _, p := range c31Plans {
			if w.enqErr[p.msg] != nil {
				continue
			}
			for _, uid := range recipients {
				off := offline[fmt.Sprintf("%d/%s", p.msg, uid)]
				rs := scn.routes[uid]
				if len(rs) == 0 {
					if off != 1 && !(w.timedOut && off == 0) {
						return vsched.Violatef("C31:offline-recipient-not-reported-exactly-once", "plan %d: recipient %s has no online route and was reported offline %d times", p.msg, uid, off)
					}
					continue
				}
				if off != 0 {
					return vsched.Violatef("C31:online-recipient-reported-offline", "plan %d: recipient %s has %d online route(s) and was reported offline %d times", p.msg, uid, len(rs), off)
				}
				for _, r := range rs {
					want := c31ExpectedAttempts(scn.script[r.SessionID])
					if r.OwnerNodeID == c31NodeB && scn.remoteScript != nil {
						want = remoteWant[r.SessionID]
					}
					if r.OwnerNodeID == c31NodeB && scn.remoteErrFirst {
						// one attempt is consumed by the transport error before any route is classified
						if want+1 > c31MaxAttempts {
							want = c31MaxAttempts - 1
						}
					}
					got := tries[fmt.Sprintf("%d/%s/%d", p.msg, uid, r.SessionID)]
					if got > want {
						return vsched.Violatef("C31:route-pushed-more-often-than-its-retries-allow", "plan %d: route %s/%d pushed %d times, its answers allow %d", p.msg, uid, r.SessionID, got, want)
					}
					if got < want && !w.timedOut {
						return vsched.Violatef("C31:online-route-of-accepted-plan-not-pushed", "plan %d: route %s/%d pushed %d times, expected %d (online recipient neither pushed to completion nor reported offline)", p.msg, uid, r.SessionID, got, want)
					}
				}
			}
		}
		return nil
	}
}

func c31SameRoutes(a, b []onlinedelivery.Route) bool {
	if len(a) != len(b) {
		return false
	}
	key := func(rs []onlinedelivery.Route) []string {
		out := make([]string, len(rs))
		for i, r := range rs {
			out[i] = fmt.Sprintf("%+v", r)
		}
		sort.Strings(out)
		return out
	}
	return strings.Join(key(a), "|") == strings.Join(key(b), "|")
}

func c31Scenarios() []*c31Scn {
	a11, a12 := c31Route("u1", c31NodeA, 11), c31Route("u2", c31NodeA, 12)
	b21, b22 := c31Route("u1", c31NodeB, 21), c31Route("u2", c31NodeB, 22)
	stale := c31Route("u3", c31NodeA, 99) // presence still lists a session the owner no longer has
	scns := []*c31Scn{
		{name: "local-two-sessions-stop", lifecycle: "stop", targets: [][]string{{"u1", "u2", "u4"}, {"u4"}},
			routes: map[string][]onlinedelivery.Route{"u1": {a11}, "u2": {a12}}, batch: 8, ownerConc: 1,
			note: "u1,u2 online on the local owner, u4 offline and listed under two authority targets (one de-duplicated offline report); Stop at any point"},
		{name: "local-retry-narrowing", lifecycle: "", targets: [][]string{{"u1", "u2", "u3"}},
			routes: map[string][]onlinedelivery.Route{"u1": {a11}, "u2": {a12}, "u3": {stale}},
			script: map[uint64][]c31Disp{11: {c31Retry, c31OK}, 99: {c31Drop}}, batch: 8, ownerConc: 1,
			note: "session 11 retryable once, session 12 ok, u3 has a stale route that the owner drops"},
		{name: "remote-retry-and-two-owners-stop", lifecycle: "stop", targets: [][]string{{"u1", "u2"}, {"u4"}},
			routes: map[string][]onlinedelivery.Route{"u1": {a11, b21}, "u2": {b22}},
			script: map[uint64][]c31Disp{21: {c31Retry, c31OK}, 22: {c31OK}}, batch: 8, ownerConc: 2,
			note: "u1 online on both owners (local + remote), u2 remote only; remote route 21 retryable once; owners pushed concurrently; u4 offline"},
		{name: "remote-transport-error-quiesce", lifecycle: "quiesce", targets: [][]string{{"u1", "u2"}},
			routes: map[string][]onlinedelivery.Route{"u1": {a11}, "u2": {b22}}, remoteErrFirst: true, batch: 8, ownerConc: 1,
			note: "first remote push of every plan fails as a whole; Quiesce (clients ack every accepted write), then Stop"},
	}
	{
		scns = append(scns,
			&c31Scn{name: "retry-exhausted-and-terminal", lifecycle: "stop", targets: [][]string{{"u1"}, {"u2", "u3"}},
				routes: map[string][]onlinedelivery.Route{"u1": {a11}, "u2": {b22}, "u3": {stale}},
				script: map[uint64][]c31Disp{11: {c31Retry, c31Retry, c31Retry}, 22: {c31Drop}, 99: {c31Drop}}, batch: 1, ownerConc: 2,
				note: "session 11 retryable until exhaustion, remote 22 terminal, stale local route; owner batch bound 1"},
			&c31Scn{name: "all-offline-quiesce", deep: true, lifecycle: "quiesce", targets: [][]string{{"u4", "u5"}, {"u4"}},
				routes: map[string][]onlinedelivery.Route{}, batch: 8, ownerConc: 1,
				note: "nobody online, u4 listed under two targets: one de-duplicated offline batch per plan"},
		)
	}
	return scns
}

// c31ScriptScenarios: every behaviourally distinct answer sequence of length <= 3 over
// {partial, allretry, error, ok, terminal} for one remote owner batch (a sequence ends at
// the first answer that leaves nothing to retry; entries beyond the script are "ok").
func c31ScriptScenarios(thorough bool) []*c31Scn {
	b21, b22, b23 := c31Route("u1", c31NodeB, 21), c31Route("u2", c31NodeB, 22), c31Route("u3", c31NodeB, 23)
	a11 := c31Route("u1", c31NodeA, 11)
	answers := []string{"partial", "allretry", "error", "ok", "terminal"}
	ends := func(a string) bool { return a == "ok" || a == "terminal" }
	var scripts [][]string
	var gen func(prefix []string)
	gen = func(prefix []string) {
		for _, a := range answers {
			sc := append(append([]string(nil), prefix...), a)
			if ends(a) || len(sc) == c31MaxAttempts {
				scripts = append(scripts, sc)
				continue
			}
			gen(sc)
		}
	}
	gen(nil)
	var out []*c31Scn
	for _, sc := range scripts {
		out = append(out, &c31Scn{name: "remote-script-2routes/" + strings.Join(sc, ","), lifecycle: "", targets: [][]string{{"u1", "u2"}},
			routes: map[string][]onlinedelivery.Route{"u1": {b21}, "u2": {b22}}, remoteScript: sc, batch: 8, ownerConc: 1,
			note: "one remote owner batch of 2 sessions answering " + strings.Join(sc, ",")})
		if thorough {
			out = append(out, &c31Scn{name: "remote-script-3routes+local/" + strings.Join(sc, ","), lifecycle: "stop", targets: [][]string{{"u1", "u2", "u3"}},
				routes: map[string][]onlinedelivery.Route{"u1": {a11, b21}, "u2": {b22}, "u3": {b23}}, remoteScript: sc, batch: 8, ownerConc: 2,
				note: "remote owner batch of 3 sessions answering " + strings.Join(sc, ",") + ", u1 also online locally, owners concurrent, Stop at any point"})
		}
	}
	return out
}

func TestVerifC31(t *testing.T) {
	r := ev.Start(t, "C31")
	defer r.Finish()
	bound := ev.Pick(r, 2, 3)
	// Engine workaround (reported to the coordinator): vsched remembers closed channels by
	// address; if the collector frees a closed channel (a finished plan's context) in the
	// middle of an execution, a new channel can reuse the address and look closed, and the
	// real receive then blocks the process. No collection may therefore happen inside an
	// execution: automatic GC is off and runs explicitly between executions.
	defer debug.SetGCPercent(debug.SetGCPercent(-1))
	judged := 0
	var execs int64
	outcomes := 0
	overlap := false
	scripted := c31ScriptScenarios(r.Thorough())
	for _, scn := range append(c31Scenarios(), scripted...) {
		scn := scn
		bound := bound
		if scn.deep && r.Thorough() {
			bound++
		}
		if scn.remoteScript != nil {
			// answer-sequence product: retry handling is sequential inside one plan, so
			// the menu is what is enumerated here; schedules within a smaller delay bound
			bound = ev.Pick(r, 1, 2)
		}
		check := c31Check(scn)
		st := vsched.Explore(r, vsched.Scenario{
			Name: scn.name, Property: "C31", Bound: bound, Delay: true, QuietAtomics: true, Horizon: 20000,
			Bounds: map[string]any{"workers": 2, "plans": 3, "channels": 2, "queue_size": 2, "retry_max_attempts": c31MaxAttempts, "menu": scn.note, "lifecycle_thread": scn.lifecycle},
			Note:   "delay bounding; atomics are not scheduling points (see level_note)",
			Body:   c31Body(scn),
			Check: func(x *vsched.Exec) error {
				if judged++; judged%100 == 0 {
					runtime.GC()
				}
				if w, _ := x.Data["w"].(*c31World); w != nil && c31Overlaps(w) {
					overlap = true
				}
				return check(x)
			},
		})
		execs += st.Executions
		outcomes += st.Outcomes
	}
	if r.Replay() != nil {
		return
	}
	r.Guard("schedules", execs >= 1000, "executions=%d", execs)
	r.Guard("remote-answer-scripts", len(scripted) >= 50, "distinct remote answer sequences (length <= %d over partial/allretry/error/ok/terminal)=%d", c31MaxAttempts, len(scripted))
	r.Guard("distinct-outcomes", outcomes >= 20, "distinct port-call sequences=%d", outcomes)
	r.Guard("channels-processed-concurrently", overlap, "an execution where channel c2's plan was pushed between two pushes of channel c1 plans was seen=%v", overlap)
	r.Assume("atomic operations of the delivery runtime are not scheduling points (QuietAtomics): they are single read-modify-write steps on metrics (inflight, queue depth), the ack tracker's counters (property C32) and the owner work-index dispenser; no decision of plan processing reads one of them twice")
	r.Assume("a plan deadline (1h of virtual time) firing is a schedulable event; executions in which it fired are only checked for order, exact routes and over-delivery, not for completeness")
}

// c31Overlaps: a call for channel c2 happened between two calls for channel c1.
func c31Overlaps(w *c31World) bool {
	first, last, mid := -1, -1, false
	for i, c := range w.calls {
		if c.chanID == "c1" {
			if first < 0 {
				first = i
			}
			last = i
		}
	}
	for i, c := range w.calls {
		if c.chanID == "c2" && i > first && i < last {
			mid = true
		}
	}
	return mid
}
