package channelappend

// C31 (run "dispatch") - recipient coverage and per-channel order from the committed message
// down to the session write, with the REAL plan construction in front of the REAL runtime.
//
// The post-commit effect of the channel writer (commitEffect.run -> dispatchCommitted
// RecipientsForTarget -> subscriber snapshot / pages -> normalisation -> authority grouping ->
// dispatchRecipientPlans, all of recipient.go, unmodified and not rewritten: it is sequential
// code) runs on a harness thread and hands its Recipient Delivery Plans to a real
// delivery.Runtime (package compiled from vrewrite'd sources, so queue admission, the
// channel-hashed shard FIFO, the workers and the ports are scheduling points). The runtime
// takes ownership of each plan WITHOUT copying it; whether the planner keeps writing into
// storage it already handed over is therefore observable here, and only here: the other run
// of this check builds its plans by hand.
//
// Menus: subscriber counts around the plan bound B (B-1, B, B+1, 2B, 2B+1, 3B => 1, 2 and 3
// plans per message), one or two authority targets (two targets interleave, so a plan carries
// two target windows and a target is split across plans), snapshot / paged / message-scoped
// fan-out, two messages of the same channel in commit order (the shard worker is still busy
// with the first message's plans when the second message's plans are appended), a second
// channel, and Stop at any point. Every schedule within the delay bound is executed.
//
// Oracle (per execution, from the port calls only; the reference owns the recipient set: it is
// the subscriber menu): every recipient of every committed message whose dispatch was accepted
// is written to each of its online sessions exactly once or reported offline exactly once;
// never both, never twice; no push to a route presence did not return; per (session, channel)
// the pushed sequences never decrease.

import (
	"context"
	"errors"
	"fmt"
	"runtime"
	"runtime/debug"
	"strconv"
	"testing"
	"time"

	"github.com/WuKongIM/WuKongIM/internal/contracts/authority"
	"github.com/WuKongIM/WuKongIM/internal/contracts/onlinedelivery"
	"github.com/WuKongIM/WuKongIM/internal/runtime/delivery"
	"github.com/WuKongIM/WuKongIM/pkg/zzverif/ev"
	"github.com/WuKongIM/WuKongIM/pkg/zzverif/vsched"
	"github.com/WuKongIM/WuKongIM/pkg/zzverif/vsync"
)

const (
	c31dNodeA       = 1 // local owner node (session writes)
	c31dNodeB       = 2 // remote owner node (owner-push RPC)
	c31dPlanTimeout = time.Hour
)

type c31dScn struct {
	name string
	// n subscribers u1..un of channel c1
	n int
	// batch is Options.RecipientBatchSize (the plan bound B)
	batch int
	// groups: number of distinct recipient authority targets; uid i belongs to target i%groups
	groups int
	// fan-out path: "snapshot" (non-large channel, cached for the 2nd message), "pages"
	// (large channel, page size `page`), "scoped" (MessageScopedUIDs)
	path string
	page int
	// msgs committed on c1 in one effect (sequence 1..msgs)
	msgs int
	// second: a second channel c2 with `second` subscribers v1.. gets one message from its own
	// appender thread
	second int
	// collide: the authority targets share one physical hash slot and differ in the rest of
	// the fence (a slot in transition)
	collide bool
	// stop: a thread calls Stop at any point
	stop  bool
	queue int
	bound int // delay bound quick; thorough = bound+1
	note  string
}

func c31dUID(prefix string, i int) string { return prefix + strconv.Itoa(i) }

// c31dIndex: "u3" -> 3
func c31dIndex(uid string) int { n, _ := strconv.Atoi(uid[1:]); return n }

// authority target of a uid (the reference; the fake resolver answers with it)
func c31dTarget(scn *c31dScn, uid string) authority.Target {
	g := c31dIndex(uid) % scn.groups
	slot := uint16(g + 1)
	if scn.collide {
		slot = 1
	}
	return authority.Target{HashSlot: slot, SlotID: uint32(g + 1), LeaderNodeID: uint64(g + 1), LeaderTerm: 3}
}

// online routes of a uid (static): index%3==1 one local session, ==2 offline, ==0 one remote
// session. Subscribers of c2 ("v..") use disjoint session ids.
func c31dRoutes(uid string) []onlinedelivery.Route {
	i := c31dIndex(uid)
	base := uint64(0)
	if uid[0] == 'v' {
		base = 100
	}
	mk := func(node, session uint64) onlinedelivery.Route {
		return onlinedelivery.Route{UID: uid, OwnerNodeID: node, OwnerBootID: 7, OwnerSeq: 1000 + session, SessionID: session, DeviceID: "d" + strconv.FormatUint(session, 10), DeviceFlag: 1, DeviceLevel: 1}
	}
	switch i % 3 {
	case 1:
		return []onlinedelivery.Route{mk(c31dNodeA, base+10+uint64(i))}
	case 0:
		return []onlinedelivery.Route{mk(c31dNodeB, base+40+uint64(i))}
	}
	return nil
}

type c31dCall struct {
	kind   string // "write" | "remote" | "offline" | "presence" | "handover"
	msg    uint64
	seq    uint64
	chanID string
	routes []onlinedelivery.Route
	uids   []string
	err    error
}

type c31dWorld struct {
	scn   *c31dScn
	rt    *delivery.Runtime
	calls []c31dCall
	// per channel: plans handed over / presence calls started (the shard is FIFO per channel)
	handed   map[string]int
	presence map[string]int
	// plans handed over per message, with the enqueue result
	plans map[uint64][]c31dPlanRec
	// guards
	overlap, noOverlap bool
	maxTargets         int
	dispatchErr        map[uint64]error
	dispatched         map[uint64]bool
	stopErr, finalErr  error
	timedOut           bool
}

type c31dPlanRec struct {
	uids []string
	err  error
}

// ---- fake ports of channelappend

// NextSubscriberPage is the fake subscriber store (fresh slices, like a store scan).
func (w *c31dWorld) NextSubscriberPage(_ context.Context, req SubscriberPageRequest) (SubscriberPage, error) {
	prefix, n := "u", w.scn.n
	if req.ChannelID.ID == "c2" {
		prefix, n = "v", w.scn.second
	}
	start := 0
	if req.Cursor != "" {
		start, _ = strconv.Atoi(req.Cursor)
	}
	end := n
	if req.Limit > 0 && start+req.Limit < n {
		end = start + req.Limit
	}
	page := SubscriberPage{Done: end == n}
	for i := start; i < end; i++ {
		page.Recipients = append(page.Recipients, Recipient{UID: c31dUID(prefix, i+1)})
	}
	if !page.Done {
		page.Cursor = strconv.Itoa(end)
	}
	return page, nil
}

// ResolveRecipientAuthority is the fake recipient authority resolver.
func (w *c31dWorld) ResolveRecipientAuthority(_ context.Context, uid string) (RecipientAuthorityTarget, error) {
	return c31dTarget(w.scn, uid), nil
}

// c31dHandover passes every plan through to the real runtime UNTOUCHED (same Targets
// backing array: a Go slice header is copied, not its storage) and only notes, for the
// oracle and the vacuity guards, what was handed over and what the runtime answered.
type c31dHandover struct{ w *c31dWorld }

func (h c31dHandover) EnqueueRecipientDeliveryPlan(ctx context.Context, plan onlinedelivery.RecipientDeliveryPlan) error {
	w := h.w
	ch := plan.Event.ChannelID
	var uids []string
	for _, t := range plan.Targets {
		for _, r := range t.Recipients {
			uids = append(uids, r.UID)
		}
	}
	if len(plan.Targets) > w.maxTargets {
		w.maxTargets = len(plan.Targets)
	}
	if k := len(w.plans[plan.Event.MessageID]); k > 0 {
		// a later plan of the same dispatch: its target windows are appended by now. Is the
		// previous plan of this dispatch still waiting in front of presence resolution?
		if w.presence[ch] < w.handed[ch] {
			w.overlap = true
		} else {
			w.noOverlap = true
		}
	}
	err := w.rt.EnqueueRecipientDeliveryPlan(ctx, plan)
	if err == nil {
		w.handed[ch]++
	}
	w.plans[plan.Event.MessageID] = append(w.plans[plan.Event.MessageID], c31dPlanRec{uids: uids, err: err})
	w.calls = append(w.calls, c31dCall{kind: "handover", msg: plan.Event.MessageID, chanID: ch, uids: uids, err: err})
	return err
}

// ---- fake ports of the delivery runtime

// EndpointsByTargets is the fake presence port. A target's authority node only knows the
// sessions of the UIDs it is the authority for.
func (w *c31dWorld) EndpointsByTargets(_ context.Context, targets []onlinedelivery.RecipientTargetBatch) []delivery.TargetPresenceResult {
	vsched.Point("presence")
	out := make([]delivery.TargetPresenceResult, len(targets))
	var uids []string
	ch := ""
	for i, t := range targets {
		for _, r := range t.Recipients {
			uids = append(uids, r.UID)
			if r.UID != "" && r.UID[0] == 'v' {
				ch = "c2"
			} else {
				ch = "c1"
			}
			if t.Target == c31dTarget(w.scn, r.UID) {
				out[i].Routes = append(out[i].Routes, c31dRoutes(r.UID)...)
			}
		}
	}
	w.presence[ch]++
	w.calls = append(w.calls, c31dCall{kind: "presence", chanID: ch, uids: uids})
	return out
}

// WriteSession is the fake owner-local session writer (always accepts).
func (w *c31dWorld) WriteSession(_ context.Context, wr delivery.LocalSessionWrite) delivery.SessionWriteResult {
	vsched.Point("write")
	w.calls = append(w.calls, c31dCall{kind: "write", msg: wr.Event.MessageID, seq: wr.Event.MessageSeq, chanID: wr.Event.ChannelID, routes: []onlinedelivery.Route{wr.Route}})
	return delivery.SessionWriteResult{Disposition: delivery.SessionWriteAccepted}
}

// PushOwner is the fake remote owner (node B; always accepts every route).
func (w *c31dWorld) PushOwner(_ context.Context, push onlinedelivery.OwnerPush) (onlinedelivery.OwnerPushResult, error) {
	vsched.Point("remote-push")
	rs := append([]onlinedelivery.Route(nil), push.Routes...)
	w.calls = append(w.calls, c31dCall{kind: "remote", msg: push.Event.MessageID, seq: push.Event.MessageSeq, chanID: push.Event.ChannelID, routes: rs})
	return onlinedelivery.OwnerPushResult{Accepted: append([]onlinedelivery.Route(nil), push.Routes...)}, nil
}

// ObserveOfflineRecipients is the fake offline observer.
func (w *c31dWorld) ObserveOfflineRecipients(_ context.Context, e delivery.OfflineRecipientsEvent) {
	vsched.Point("offline")
	w.calls = append(w.calls, c31dCall{kind: "offline", msg: e.Event.MessageID, seq: e.Event.MessageSeq, chanID: e.Event.ChannelID, uids: append([]string(nil), e.UIDs...)})
}

type c31dMsg struct {
	id, seq uint64
	channel string
}

func c31dMessages(scn *c31dScn) (c1, c2 []c31dMsg) {
	for i := 1; i <= scn.msgs; i++ {
		c1 = append(c1, c31dMsg{uint64(100 + i), uint64(i), "c1"})
	}
	if scn.second > 0 {
		c2 = append(c2, c31dMsg{201, 1, "c2"})
	}
	return
}

func (w *c31dWorld) subscribers(channel string) []string {
	prefix, n := "u", w.scn.n
	if channel == "c2" {
		prefix, n = "v", w.scn.second
	}
	out := make([]string, n)
	for i := range out {
		out[i] = c31dUID(prefix, i+1)
	}
	return out
}

// appender runs the real post-commit effect of one channel for its committed messages.
func (w *c31dWorld) appender(msgs []c31dMsg) {
	scn := w.scn
	ports := commitPortsFromOptions(Options{
		Subscribers: w, RecipientAuthorityResolver: w, OnlineDeliveryEnqueuer: c31dHandover{w},
		RecipientBatchSize: scn.batch, SubscriberScanPageSize: scn.page,
	})
	effect := commitEffect{key: msgs[0].channel, seq: 1, attempt: 1,
		target: AuthorityTarget{ChannelID: ChannelID{ID: msgs[0].channel, Type: 2}, LeaderNodeID: c31dNodeA, Epoch: 1, LeaderEpoch: 1,
			Large: scn.path == "pages", SubscriberMutationVersion: 5}}
	for _, m := range msgs {
		e := CommittedEnvelope{MessageID: m.id, MessageSeq: m.seq, ChannelID: m.channel, ChannelType: 2, FromUID: "sender", SenderNodeID: 9, SenderSessionID: 900, Payload: []byte("x")}
		if scn.path == "scoped" {
			// same recipient set, different order for the second message: its plans are
			// composed differently from the first message's
			e.MessageScopedUIDs = w.subscribers(m.channel)
			if m.seq%2 == 0 {
				for i, j := 0, len(e.MessageScopedUIDs)-1; i < j; i, j = i+1, j-1 {
					e.MessageScopedUIDs[i], e.MessageScopedUIDs[j] = e.MessageScopedUIDs[j], e.MessageScopedUIDs[i]
				}
			}
		}
		effect.events = append(effect.events, committedPostCommit{envelope: e})
	}
	done := effect.run(context.Background(), ports)
	for i, m := range msgs {
		w.dispatched[m.id] = true
		if i < len(done.items) {
			w.dispatchErr[m.id] = done.items[i].err
		} else {
			w.dispatchErr[m.id] = errors.New("no completion item")
		}
	}
}

func c31dBody(scn *c31dScn) func(x *vsched.Exec) {
	return func(x *vsched.Exec) {
		w := &c31dWorld{scn: scn, handed: map[string]int{}, presence: map[string]int{}, plans: map[uint64][]c31dPlanRec{},
			dispatchErr: map[uint64]error{}, dispatched: map[uint64]bool{}}
		x.Data["w"] = w
		w.rt = delivery.NewRuntime(delivery.RuntimeOptions{
			LocalNodeID: c31dNodeA, Presence: w, RemoteOwnerPusher: w, SessionWriter: w, OfflineRecipientsObserver: w,
			QueueSize: scn.queue, Workers: 2, PlanTimeout: c31dPlanTimeout, OwnerPushBatchSize: 8, OwnerConcurrency: 1,
			RetryMaxAttempts: 3, RetryInitialBackoff: time.Millisecond, RetryMaxBackoff: 2 * time.Millisecond,
			Acks: delivery.NewAckTracker(delivery.AckTrackerOptions{ShardCount: 2, Now: func() int64 { return 1000 }}),
		})
		if err := w.rt.Start(context.Background()); err != nil {
			x.Log("start: %v", err)
			w.finalErr = err
			return
		}
		c1, c2 := c31dMessages(scn)
		var wg vsync.WaitGroup
		wg.Add(1)
		vsched.GoNamed("appender-c1", func() {
			defer wg.Done()
			w.appender(c1)
		})
		if len(c2) > 0 {
			wg.Add(1)
			vsched.GoNamed("appender-c2", func() {
				defer wg.Done()
				w.appender(c2)
			})
		}
		if scn.stop {
			wg.Add(1)
			vsched.GoNamed("stopper", func() {
				defer wg.Done()
				w.stopErr = w.rt.Stop(context.Background())
			})
		}
		wg.Wait()
		// drain: a graceful stop finishes every accepted plan
		w.finalErr = w.rt.Stop(context.Background())
		w.timedOut = vsched.Now().Sub(vsched.Base) >= c31dPlanTimeout
		for _, c := range w.calls {
			x.Log("%s", c31dDescribe(c))
		}
		for _, m := range append(c1, c2...) {
			x.Log("dispatch %d: %v", m.id, w.dispatchErr[m.id] != nil)
		}
		x.Log("stop=%v final=%v timeout=%v", w.stopErr, w.finalErr, w.timedOut)
	}
}

func c31dDescribe(c c31dCall) string {
	rs := []string{}
	for _, r := range c.routes {
		rs = append(rs, fmt.Sprintf("%s/%d", r.UID, r.SessionID))
	}
	switch c.kind {
	case "write":
		return fmt.Sprintf("write m%d %v", c.msg, rs)
	case "remote":
		return fmt.Sprintf("remote m%d %v", c.msg, rs)
	case "offline":
		return fmt.Sprintf("offline m%d %v", c.msg, c.uids)
	case "handover":
		return fmt.Sprintf("handover m%d %v -> rejected=%v", c.msg, c.uids, c.err != nil)
	default:
		return fmt.Sprintf("presence %v", c.uids)
	}
}

func c31dCheck(scn *c31dScn) func(x *vsched.Exec) error {
	return func(x *vsched.Exec) error {
		w, _ := x.Data["w"].(*c31dWorld)
		if w == nil {
			return nil
		}
		if w.finalErr != nil || w.stopErr != nil {
			return vsched.Violatef("C31:graceful-stop-returned-error", "Start/Stop with a background context returned stop=%v final=%v", w.stopErr, w.finalErr)
		}
		c1, c2 := c31dMessages(scn)
		msgs := append(c1, c2...)
		byID := map[uint64]c31dMsg{}
		for _, m := range msgs {
			byID[m.id] = m
		}
		// ---- the recipients every message must cover (reference: the subscriber menu)
		covered := map[uint64]map[string]bool{} // msg -> uid -> must be delivered
		for _, m := range msgs {
			if !w.dispatched[m.id] {
				return vsched.Violatef("C31:dispatch-did-not-return", "the post-commit dispatch of message %d never returned", m.id)
			}
			covered[m.id] = map[string]bool{}
			err := w.dispatchErr[m.id]
			if err != nil && !(scn.stop && errors.Is(err, delivery.ErrRuntimeClosed)) {
				return vsched.Violatef("C31:dispatch-of-committed-message-rejected", "dispatch of message %d failed with %v although the runtime was open and the context live", m.id, err)
			}
			if err == nil {
				for _, uid := range w.subscribers(m.channel) {
					covered[m.id][uid] = true
				}
				continue
			}
			// Stop closed admission in the middle of the dispatch: the recipients of the
			// plans the runtime accepted are owed delivery, the others must see nothing
			for _, p := range w.plans[m.id] {
				if p.err == nil {
					for _, uid := range p.uids {
						covered[m.id][uid] = true
					}
				}
			}
		}
		// ---- walk the port calls
		type sc struct {
			session uint64
			channel string
		}
		lastSeq := map[sc]uint64{}
		pushes := map[string]int{}  // msg/uid/session
		offline := map[string]int{} // msg/uid
		for _, c := range w.calls {
			switch c.kind {
			case "write", "remote":
				m, ok := byID[c.msg]
				if !ok || m.seq != c.seq || m.channel != c.chanID {
					return vsched.Violatef("C31:push-carries-unknown-event", "%s: event (msg %d seq %d channel %q) is not a committed message", c31dDescribe(c), c.msg, c.seq, c.chanID)
				}
				for _, r := range c.routes {
					valid := false
					for _, want := range c31dRoutes(r.UID) {
						valid = valid || want == r
					}
					if !valid || !w.isSubscriber(m.channel, r.UID) {
						return vsched.Violatef("C31:push-to-route-that-presence-did-not-return", "%s: route %+v is not an exact route of a recipient of the message", c31dDescribe(c), r)
					}
					if (c.kind == "write") != (r.OwnerNodeID == c31dNodeA) {
						return vsched.Violatef("C31:route-pushed-through-wrong-owner", "%s: route owned by node %d", c31dDescribe(c), r.OwnerNodeID)
					}
					if !covered[c.msg][r.UID] {
						return vsched.Violatef("C31:rejected-plan-was-executed", "%s: recipient %s was in no plan the runtime accepted for message %d", c31dDescribe(c), r.UID, c.msg)
					}
					k := sc{r.SessionID, c.chanID}
					if c.seq < lastSeq[k] {
						return vsched.Violatef("C31:channel-sequence-pushed-out-of-order", "%s: session %d of channel %s was already pushed sequence %d", c31dDescribe(c), r.SessionID, c.chanID, lastSeq[k])
					}
					lastSeq[k] = c.seq
					pushes[fmt.Sprintf("%d/%s/%d", c.msg, r.UID, r.SessionID)]++
				}
			case "offline":
				if _, ok := byID[c.msg]; !ok {
					return vsched.Violatef("C31:push-carries-unknown-event", "%s: not a committed message", c31dDescribe(c))
				}
				for _, uid := range c.uids {
					if !covered[c.msg][uid] {
						return vsched.Violatef("C31:rejected-plan-was-executed", "%s: recipient %s was in no plan the runtime accepted for message %d", c31dDescribe(c), uid, c.msg)
					}
					offline[fmt.Sprintf("%d/%s", c.msg, uid)]++
				}
			}
		}
		// ---- coverage: exactly once, per recipient of every committed message
		for _, m := range msgs {
			for _, uid := range w.subscribers(m.channel) {
				if !covered[m.id][uid] {
					continue
				}
				off := offline[fmt.Sprintf("%d/%s", m.id, uid)]
				rs := c31dRoutes(uid)
				if len(rs) == 0 {
					if off > 1 || (off == 0 && !w.timedOut) {
						return vsched.Violatef("C31:dispatched-offline-recipient-not-reported-exactly-once", "message %d (%d subscribers, plan bound %d): recipient %s has no online route and was reported offline %d times", m.id, len(w.subscribers(m.channel)), scn.batch, uid, off)
					}
					continue
				}
				if off != 0 {
					return vsched.Violatef("C31:dispatched-online-recipient-reported-offline", "message %d: recipient %s has %d online route(s) and was reported offline %d times", m.id, uid, len(rs), off)
				}
				for _, r := range rs {
					got := pushes[fmt.Sprintf("%d/%s/%d", m.id, uid, r.SessionID)]
					if got > 1 {
						return vsched.Violatef("C31:dispatched-recipient-pushed-more-than-once", "message %d (%d subscribers, plan bound %d): route %s/%d was pushed %d times", m.id, len(w.subscribers(m.channel)), scn.batch, uid, r.SessionID, got)
					}
					if got == 0 && !w.timedOut {
						return vsched.Violatef("C31:dispatched-recipient-neither-pushed-nor-reported-offline", "message %d (%d subscribers, plan bound %d): online route %s/%d was never pushed", m.id, len(w.subscribers(m.channel)), scn.batch, uid, r.SessionID)
					}
				}
			}
		}
		return nil
	}
}

func (w *c31dWorld) isSubscriber(channel, uid string) bool {
	for _, s := range w.subscribers(channel) {
		if s == uid {
			return true
		}
	}
	return false
}

func c31dScenarios(thorough bool) []*c31dScn {
	var scns []*c31dScn
	// the plan-bound boundaries B-1 .. 3B with B=2: 1, 2 and 3 plans per message
	for n := 1; n <= 6; n++ {
		bound := 2
		if n <= 2 || n == 6 {
			bound = 1
		}
		scns = append(scns, &c31dScn{name: fmt.Sprintf("snapshot-n%d-b2-2targets", n), n: n, batch: 2, groups: 2, path: "snapshot", msgs: 2, queue: 4, bound: bound,
			note: fmt.Sprintf("%d subscribers, plan bound 2 (%d plan(s) per message), two interleaved authority targets, two messages of c1 in commit order (the second uses the cached snapshot)", n, (n+1)/2)})
	}
	scns = append(scns,
		&c31dScn{name: "snapshot-n3-b1-1target", n: 3, batch: 1, groups: 1, path: "snapshot", msgs: 2, queue: 4, bound: 2,
			note: "3 subscribers, plan bound 1: 3 single-recipient plans per message whose one target window comes from one authority group"},
		&c31dScn{name: "snapshot-n5-b2-2targets-deep", n: 5, batch: 2, groups: 2, path: "snapshot", msgs: 2, queue: 2, bound: 2,
			note: "5 subscribers, plan bound 2 (3 plans per message, the middle one carries two target windows), queue of 2: the appender blocks on admission while the worker drains"},
		&c31dScn{name: "pages-n5-p3-b2", n: 5, batch: 2, groups: 2, path: "pages", page: 3, msgs: 2, queue: 4, bound: 2,
			note: "large channel: subscriber pages of 3 and 2 with plan bound 2 (a page larger than the plan bound: 2 plans, then 1)"},
		&c31dScn{name: "scoped-n3-b2", n: 3, batch: 2, groups: 1, path: "scoped", msgs: 2, queue: 4, bound: 2,
			note: "message-scoped recipient list of 3 with plan bound 2; the second message lists the same recipients in reverse order"},
		&c31dScn{name: "snapshot-n4-b2-colliding-hash-slot", n: 4, batch: 2, groups: 2, collide: true, path: "snapshot", msgs: 1, queue: 4, bound: 1,
			note: "two exact authority targets that share one physical hash slot (slot in transition): presence only answers under the exact target"},
		&c31dScn{name: "two-channels-n3-b2", n: 3, batch: 2, groups: 2, path: "snapshot", msgs: 1, second: 3, queue: 2, bound: 2,
			note: "c1 and c2 (different shards) dispatch one 2-plan message each from their own appender threads into a queue of 2"},
		&c31dScn{name: "stop-n4-b2", n: 4, batch: 2, groups: 2, path: "snapshot", msgs: 2, stop: true, queue: 4, bound: 2,
			note: "Stop at any point of two 2-plan dispatches: recipients of accepted plans are owed delivery, the others nothing"},
	)
	return scns
}

func TestVerifC31Dispatch(t *testing.T) {
	r := ev.Start(t, "C31")
	defer r.Finish()
	// same engine workaround as the runtime run: no collection inside an execution
	defer debug.SetGCPercent(debug.SetGCPercent(-1))
	judged := 0
	var execs int64
	outcomes := 0
	overlap, noOverlap := false, false
	maxTargets := 0
	plansSeen := map[int]bool{}
	for _, scn := range c31dScenarios(r.Thorough()) {
		scn := scn
		bound := scn.bound
		if r.Thorough() {
			bound++
		}
		check := c31dCheck(scn)
		st := vsched.Explore(r, vsched.Scenario{
			Name: "dispatch/" + scn.name, Property: "C31", Bound: bound, Delay: true, QuietAtomics: true, Horizon: 20000,
			Bounds: map[string]any{"workers": 2, "queue_size": scn.queue, "subscribers": scn.n, "recipient_batch_size": scn.batch, "authority_targets": scn.groups,
				"fanout": scn.path, "targets_share_hash_slot": scn.collide, "messages_on_c1": scn.msgs, "subscribers_of_c2": scn.second, "stop_thread": scn.stop, "menu": scn.note},
			Note: "real commitEffect.run / recipient.go in front of the real delivery.Runtime; delay bounding; atomics are not scheduling points",
			Body: c31dBody(scn),
			Check: func(x *vsched.Exec) error {
				if judged++; judged%100 == 0 {
					runtime.GC()
				}
				if w, _ := x.Data["w"].(*c31dWorld); w != nil {
					overlap = overlap || w.overlap
					noOverlap = noOverlap || w.noOverlap
					if w.maxTargets > maxTargets {
						maxTargets = w.maxTargets
					}
					for _, ps := range w.plans {
						plansSeen[len(ps)] = true
					}
				}
				return check(x)
			},
		})
		execs += st.Executions
		outcomes += st.Outcomes
	}
	if r.Replay() != nil {
		return
	}
	r.Guard("dispatch-schedules", execs >= 500, "executions=%d", execs)
	r.Guard("dispatch-distinct-outcomes", outcomes >= 20, "distinct port-call sequences=%d", outcomes)
	r.Guard("dispatch-plans-per-message-1-2-3", plansSeen[1] && plansSeen[2] && plansSeen[3], "messages dispatched as 1, 2 and 3 plans seen=%v", plansSeen)
	r.Guard("dispatch-plan-with-two-target-windows", maxTargets >= 2, "largest number of target windows in one plan=%d", maxTargets)
	r.Guard("dispatch-next-plan-appended-while-previous-still-queued", overlap, "an execution where a later plan of one dispatch was built and handed over before the previous plan of that dispatch reached presence resolution was seen=%v", overlap)
	r.Guard("dispatch-next-plan-appended-after-previous-resolved", noOverlap, "an execution where the previous plan had already reached presence resolution was seen=%v", noOverlap)
	r.Assume("dispatch run: session writes and remote owner pushes always succeed and presence is static (answer menus, retries and Quiesce are explored by the runtime run); subscriber UIDs are distinct and none is the sender")
}
