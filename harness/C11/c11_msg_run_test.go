package message

// C11 (message store part) - test entry: E1 round-trip exploration, E2 corruption
// enumeration (every truncation, every offset x 4 byte mutations, with and without a
// re-sealed checksum), E4 crash-retry of a restore.

import (
	"bytes"
	"context"
	"encoding/binary"
	"fmt"
	"hash/crc32"
	"encoding/json"
	"math/rand/v2"
	"os"
	"os/exec"
	"path/filepath"
	"strings"
	"sync"
	"sync/atomic"
	"testing"
	"time"

	"github.com/WuKongIM/WuKongIM/pkg/zzverif/crashfs"
	"github.com/WuKongIM/WuKongIM/pkg/zzverif/ev"
	"github.com/WuKongIM/WuKongIM/pkg/zzverif/mc"
	"github.com/cockroachdb/pebble/v2/vfs"
)

// vc11Build runs a fixed history and returns the instance (caller closes it).
func vc11Build(history []string) (*vc11Inst, error) {
	in := vc11NewInst().(*vc11Inst)
	if in.err != nil {
		return nil, in.err
	}
	for _, e := range history {
		ok := false
		for _, en := range in.Events() {
			if en == e {
				ok = true
			}
		}
		if !ok {
			in.Close()
			return nil, fmt.Errorf("event %s not enabled in fixed history %v", e, history)
		}
		if _, err := in.Apply(e, nil); err != nil {
			in.Close()
			return nil, err
		}
	}
	return in, nil
}

type vc11Case struct {
	label string
	data  []byte
}

// vc11Mutations: every truncation and every offset x {bit0 flip, bit7 flip, 0x00, 0xFF}.
// With reseal the 4-byte CRC trailer is recomputed over the mutated payload (a well-formed
// envelope around mismatched content); offsets inside the trailer are then skipped.
func vc11Mutations(stream []byte, reseal bool) []vc11Case {
	var out []vc11Case
	n := len(stream)
	if !reseal {
		for l := 0; l < n; l++ {
			out = append(out, vc11Case{label: fmt.Sprintf("trunc@%d", l), data: append([]byte(nil), stream[:l]...)})
		}
	}
	limit := n
	if reseal {
		limit = n - 4
	}
	for off := 0; off < limit; off++ {
		orig := stream[off]
		for k, nb := range []byte{orig ^ 0x01, orig ^ 0x80, 0x00, 0xFF} {
			if nb == orig {
				continue
			}
			d := append([]byte(nil), stream...)
			d[off] = nb
			if reseal {
				binary.BigEndian.PutUint32(d[n-4:], crc32.ChecksumIEEE(d[:n-4]))
			}
			out = append(out, vc11Case{label: fmt.Sprintf("%s@%d", []string{"bit0", "bit7", "zero", "ff"}[k], off), data: d})
		}
	}
	return out
}

type vc11Importer struct {
	name string
	run  func(s *vc11Store, data []byte) error
}

var vc11Importers = []vc11Importer{
	{"reader", func(s *vc11Store, data []byte) error { _, err := vc11ImportReader(s, data); return err }},
	{"bytes", func(s *vc11Store, data []byte) error {
		_, err := s.eng.ImportBackupSnapshot(context.Background(), data)
		return err
	}},
}

// vc11CaseResult is the outcome of importing one mutated stream into one target.
type vc11CaseResult struct {
	Idx     int    `json:"idx"`
	Label   string `json:"label"`
	Target  string `json:"target"`
	Outcome string `json:"outcome"` // rejected:<class> | accepted | accepted-identical | accepted-different | partially-applied | panic
	Detail  string `json:"detail,omitempty"`
}

type vc11Target struct {
	name string
	st   *vc11Store
	dump vc11Dump
}

func vc11FreshTarget(restored bool, stream []byte) (*vc11Target, error) {
	st, err := vc11Fresh()
	if err != nil {
		return nil, err
	}
	t := &vc11Target{name: "empty", st: st}
	if restored {
		t.name = "restored"
		if _, err := vc11ImportReader(st, stream); err != nil {
			st.close()
			return nil, err
		}
	}
	t.dump, err = vc11DumpStore(st)
	if err != nil {
		st.close()
		return nil, err
	}
	return t, nil
}

// vc11RunCases imports cases[from:] through imp into an empty target (and, for plain
// corruption, a target that already holds the restored snapshot) and reports every outcome.
func vc11RunCases(imp vc11Importer, stream []byte, cases []vc11Case, from int, reseal bool, before func(int), emit func(vc11CaseResult)) error {
	ref, err := vc11FreshTarget(true, stream)
	if err != nil {
		return err
	}
	restoredHash := ref.dump.Hash
	ref.st.close()
	var targets []*vc11Target
	defer func() {
		for _, t := range targets {
			t.st.close()
		}
	}()
	kinds := []bool{false, true}
	if reseal {
		kinds = []bool{false}
	}
	for _, restored := range kinds {
		t, err := vc11FreshTarget(restored, stream)
		if err != nil {
			return err
		}
		targets = append(targets, t)
	}
	for idx := from; idx < len(cases); idx++ {
		c := cases[idx]
		if before != nil {
			before(idx)
		}
		for ti, t := range targets {
			var ierr error
			perr := ev.Recover(func() { ierr = imp.run(t.st, c.data) })
			res := vc11CaseResult{Idx: idx, Label: c.label, Target: t.name}
			reset := false
			if perr != nil {
				res.Outcome, res.Detail, reset = "panic", perr.Error(), true
			} else {
				after, err := vc11DumpStore(t.st)
				if err != nil {
					return err
				}
				switch {
				case ierr != nil && after.Hash == t.dump.Hash:
					res.Outcome, res.Detail = "rejected:"+vc11ErrClass(ierr), ierr.Error()
				case ierr != nil:
					res.Outcome, res.Detail = "partially-applied", fmt.Sprintf("import failed (%v) but the target changed: %s", ierr, vc11DumpDiff(t.dump, after))
				case !reseal && after.Hash == restoredHash:
					res.Outcome = "accepted-identical" // decodes to the identical state
				case !reseal:
					res.Outcome, res.Detail = "accepted-different", "import succeeded and installed a state that differs from the restored snapshot"
				default:
					res.Outcome = "accepted" // well-formed envelope around different content
				}
				reset = after.Hash != t.dump.Hash
			}
			emit(res)
			if reset {
				nt, err := vc11FreshTarget(t.name == "restored", stream)
				if err != nil {
					return err
				}
				t.st.close()
				targets[ti] = nt
			}
		}
	}
	return nil
}

// vc11Stream rebuilds the fixed source and exports it (deterministic).
func vc11Stream(history []string) ([]byte, error) {
	in, err := vc11Build(history)
	if err != nil {
		return nil, err
	}
	defer in.Close()
	stream, _, err := vc11Export(in.src, vc11Cuts(in.model))
	return stream, err
}

// TestVerifC11MsgChild is the child side of the process-isolated enumeration (an import
// that kills the process with a runtime fatal error must be observed, not suffered).
func TestVerifC11MsgChild(t *testing.T) {
	spec := os.Getenv("VC11_CHILD")
	if spec == "" {
		t.Skip("child-process helper of TestVerifC11Msg")
	}
	var c struct {
		History  []string `json:"history"`
		Importer string   `json:"importer"`
		Reseal   bool     `json:"reseal"`
		From     int      `json:"from"`
		Out      string   `json:"out"`
	}
	if err := json.Unmarshal([]byte(spec), &c); err != nil {
		t.Fatal(err)
	}
	vc11Setup()
	stream, err := vc11Stream(c.History)
	if err != nil {
		t.Fatal(err)
	}
	var imp vc11Importer
	for _, i := range vc11Importers {
		if i.name == c.Importer {
			imp = i
		}
	}
	out, err := os.OpenFile(c.Out, os.O_APPEND|os.O_CREATE|os.O_WRONLY, 0o644)
	if err != nil {
		t.Fatal(err)
	}
	defer out.Close()
	enc := json.NewEncoder(out)
	err = vc11RunCases(imp, stream, vc11Mutations(stream, c.Reseal), c.From, c.Reseal,
		func(idx int) { fmt.Fprintf(out, "{\"begin\":%d}\n", idx) },
		func(res vc11CaseResult) { _ = enc.Encode(res) })
	if err != nil {
		t.Fatal(err)
	}
	fmt.Fprintln(out, "{\"done\":true}")
}

func vc11Tail(s string, n int) string {
	if i := strings.Index(s, "fatal error"); i >= 0 {
		j := strings.LastIndex(s[:i], "\n")
		if j < 0 {
			j = 0
		}
		s = s[j:]
	}
	if len(s) > n {
		s = s[:n]
	}
	return strings.TrimSpace(s)
}

// vc11RunIsolated runs the enumeration for imp in child processes; a child that dies is
// reported for the case it was executing and the enumeration resumes after that case.
func vc11RunIsolated(r *ev.R, secName string, history []string, imp vc11Importer, ncases int, reseal bool, emit func(vc11CaseResult), crash func(idx int, tail string)) {
	dir, err := os.MkdirTemp("", "vc11child")
	if err != nil {
		r.HarnessError("%s: %v", secName, err)
		return
	}
	defer os.RemoveAll(dir)
	from := 0
	for attempt := 0; from < ncases && attempt < 400; attempt++ {
		outPath := filepath.Join(dir, fmt.Sprintf("out-%d.jsonl", attempt))
		spec, _ := json.Marshal(map[string]any{"history": history, "importer": imp.name, "reseal": reseal, "from": from, "out": outPath})
		cmd := exec.Command(os.Args[0], "-test.run", "^TestVerifC11MsgChild$", "-test.timeout", "0")
		cmd.Env = append(append([]string{}, os.Environ()...), "VC11_CHILD="+string(spec), "VERIF_OUT=", "VERIF_REPLAY=")
		var output bytes.Buffer
		cmd.Stdout = &output
		cmd.Stderr = &output
		runErr := cmd.Run()
		data, _ := os.ReadFile(outPath)
		done := false
		last := -1
		for _, line := range strings.Split(string(data), "\n") {
			if line == "" {
				continue
			}
			var m map[string]any
			if json.Unmarshal([]byte(line), &m) != nil {
				continue
			}
			if _, ok := m["done"]; ok {
				done = true
				continue
			}
			if b, ok := m["begin"]; ok {
				last = int(b.(float64))
				continue
			}
			var res vc11CaseResult
			if json.Unmarshal([]byte(line), &res) == nil && res.Outcome != "" {
				emit(res)
			}
		}
		if done && runErr == nil {
			return
		}
		if last < from {
			r.HarnessError("%s: child process failed before the first case: %v: %s", secName, runErr, vc11Tail(output.String(), 600))
			return
		}
		crash(last, vc11Tail(output.String(), 1000))
		from = last + 1
	}
}

// vc11Corruption enumerates corrupted variants of the export of history. Importers named
// in isolated run in child processes.
func vc11Corruption(r *ev.R, name string, history []string, reseal bool, importers []vc11Importer, isolated map[string]bool) {
	secName := "message-corruption/" + name
	if reseal {
		secName = "message-resealed-mismatch/" + name
	}
	e := r.NewEnum(secName)
	stream, err := vc11Stream(history)
	if err != nil {
		r.HarnessError("%s: %v", secName, err)
		return
	}
	cases := vc11Mutations(stream, reseal)
	type impResult struct {
		results []vc11CaseResult
		killed  []vc11CaseResult
		err     error
	}
	out := make([]*impResult, len(importers))
	var wg sync.WaitGroup
	for i, imp := range importers {
		i, imp := i, imp
		res := &impResult{}
		out[i] = res
		wg.Add(1)
		go func() {
			defer wg.Done()
			emit := func(cr vc11CaseResult) { res.results = append(res.results, cr) }
			if isolated[imp.name] {
				vc11RunIsolated(r, secName, history, imp, len(cases), reseal, emit, func(idx int, tail string) {
					res.killed = append(res.killed, vc11CaseResult{Idx: idx, Label: cases[idx].label, Detail: tail})
				})
				return
			}
			res.err = vc11RunCases(imp, stream, cases, 0, reseal, nil, emit)
		}()
	}
	wg.Wait()
	accepted, rejected, killed := 0, 0, 0
	for i, imp := range importers {
		res := out[i]
		if res.err != nil {
			r.HarnessError("%s: %s: %v", secName, imp.name, res.err)
			return
		}
		replay := func(label, target string) map[string]any {
			return map[string]any{"section": secName, "history": history, "case": label, "importer": imp.name, "target": target, "reseal": reseal}
		}
		for _, cr := range res.results {
			where := fmt.Sprintf("%s: %s via %s into %s target (stream %d bytes)", secName, cr.Label, imp.name, cr.Target, len(stream))
			switch {
			case strings.HasPrefix(cr.Outcome, "rejected"):
				rejected++
			case cr.Outcome == "accepted" || cr.Outcome == "accepted-identical":
				accepted++
			case cr.Outcome == "panic":
				r.Violation(ev.Violation{Fingerprint: "C11:import-panics:" + imp.name, Message: where + ": " + cr.Detail, System: secName, Replay: replay(cr.Label, cr.Target)})
			case cr.Outcome == "partially-applied":
				fp := "C11:rejected-stream-partially-applied:" + imp.name
				if !reseal {
					fp = "C11:corrupted-stream-partially-applied:" + imp.name
				}
				r.Violation(ev.Violation{Fingerprint: fp, Message: where + ": " + cr.Detail, System: secName, Replay: replay(cr.Label, cr.Target)})
			case cr.Outcome == "accepted-different":
				r.Violation(ev.Violation{Fingerprint: "C11:corrupted-stream-accepted:" + imp.name, Message: where + ": " + cr.Detail, System: secName, Replay: replay(cr.Label, cr.Target)})
			}
			e.Case(where, true, cr.Outcome)
		}
		for _, cr := range res.killed {
			killed++
			where := fmt.Sprintf("%s: %s via %s (stream %d bytes)", secName, cr.Label, imp.name, len(stream))
			r.Violation(ev.Violation{Fingerprint: "C11:import-kills-process:" + imp.name, Message: where + ": the importing process died: " + cr.Detail, System: secName, Replay: replay(cr.Label, "any")})
			e.Case(where, true, "process-killed")
		}
	}
	names := []string{}
	for _, imp := range importers {
		names = append(names, imp.name)
	}
	e.Done(true, map[string]any{"history": history, "stream_bytes": len(stream), "mutated_streams": len(cases), "importers": names, "resealed_checksum": reseal},
		"every truncation length and every offset x {bit0 flip, bit7 flip, 0x00, 0xFF} of one exported stream; a case = (mutated stream, import API, target state: empty / already restored)")
	r.Count(secName+"/rejected-target-unchanged", int64(rejected))
	r.Count(secName+"/accepted", int64(accepted))
	r.Count(secName+"/process-killed", int64(killed))
	if !reseal {
		r.Guard(secName+"/rejections", rejected >= len(cases), "%d rejected imports for %d mutated streams", rejected, len(cases))
	} else {
		r.Guard(secName+"/both-outcomes", rejected >= 1 && accepted >= 1, "%d rejected, %d accepted re-sealed streams", rejected, accepted)
	}
	if len(cases) > 0 {
		r.Sample(map[string]any{"section": secName, "history": history, "stream_bytes": len(stream), "example_case": cases[len(cases)/2].label, "cases": len(cases)})
	}
}

func vc11ImageHash(mem *vfs.MemFS, dir string) string {
	names, err := mem.List(dir)
	if err != nil {
		return "err:" + err.Error()
	}
	h := crc32.NewIEEE()
	var out string
	sortStrings(names)
	for _, n := range names {
		full := mem.PathJoin(dir, n)
		info, err := mem.Stat(full)
		if err != nil {
			return "err:" + err.Error()
		}
		if info.IsDir() {
			out += n + "/{" + vc11ImageHash(mem, full) + "}"
			continue
		}
		f, err := mem.Open(full)
		if err != nil {
			return "err:" + err.Error()
		}
		buf := make([]byte, info.Size())
		if len(buf) > 0 {
			if _, err := f.ReadAt(buf, 0); err != nil {
				f.Close()
				return "err:" + err.Error()
			}
		}
		f.Close()
		h.Reset()
		h.Write(buf)
		out += fmt.Sprintf("%s:%d:%08x:%x;", n, len(buf), h.Sum32(), vc11Hash(buf))
	}
	return out
}

func sortStrings(xs []string) {
	for i := 1; i < len(xs); i++ {
		for j := i; j > 0 && xs[j] < xs[j-1]; j-- {
			xs[j], xs[j-1] = xs[j-1], xs[j]
		}
	}
}

// vc11CrashRetry: restore on a crash-capturing volume; every crash image -> reopen ->
// retry the restore (exact re-import, and cleanup + import) -> same final state and export.
func vc11CrashRetry(r *ev.R, name string, history []string) {
	secName := "message-restore-crash-retry/" + name
	start := time.Now()
	in, err := vc11Build(history)
	if err != nil {
		r.HarnessError("%s: %v", secName, err)
		return
	}
	defer in.Close()
	cuts := vc11Cuts(in.model)
	stream, _, err := vc11Export(in.src, cuts)
	if err != nil {
		r.HarnessError("%s: export: %v", secName, err)
		return
	}
	ref, err := vc11Fresh()
	if err != nil {
		r.HarnessError("%s: %v", secName, err)
		return
	}
	emptyDump, err := vc11DumpStore(ref)
	if err != nil {
		r.HarnessError("%s: %v", secName, err)
		ref.close()
		return
	}
	if _, err := vc11ImportReader(ref, stream); err != nil {
		r.HarnessError("%s: clean restore failed: %v", secName, err)
		ref.close()
		return
	}
	refDump, err := vc11DumpStore(ref)
	ref.close()
	if err != nil {
		r.HarnessError("%s: %v", secName, err)
		return
	}
	prefix, vol, err := vc11NewVolume()
	if err != nil {
		r.HarnessError("%s: %v", secName, err)
		return
	}
	router := vc11Setup()
	defer router.Unmount(prefix)
	tgt, err := vc11OpenAt(prefix, vol)
	if err != nil {
		r.HarnessError("%s: %v", secName, err)
		return
	}
	var acked atomic.Int64
	vol.Meta = func() any { return acked.Load() }
	vol.Start()
	_, ierr := vc11ImportReader(tgt, stream)
	if ierr == nil {
		acked.Store(1)
	}
	vol.Stop()
	vol.Snapshot("idle")
	tgt.closeStore()
	if ierr != nil {
		r.HarnessError("%s: restore on the capturing volume failed: %v", secName, ierr)
		return
	}
	images := vol.Images()
	var evals, distinct, inflight int64
	seen := map[string]bool{}
	violate := func(fp, format string, args ...any) {
		r.Violation(ev.Violation{Fingerprint: fp, Message: secName + ": " + fmt.Sprintf(format, args...), System: secName,
			Replay: map[string]any{"section": secName, "history": history}})
	}
	for _, img := range images {
		done, _ := img.Meta.(int64)
		for _, mode := range []string{"kill", "power"} {
			mem := img.Kill
			if mode == "power" {
				mem = img.Power
			}
			evals++
			if done == 0 {
				inflight++
			}
			key := vc11ImageHash(mem, prefix) + fmt.Sprint(done)
			if seen[key] {
				continue // byte-identical disk with the same acknowledgement state: same recovery, same retries
			}
			seen[key] = true
			distinct++
			where := fmt.Sprintf("crash point %d (before %q), %s image", img.K, img.Op, mode)
			for _, retry := range []string{"exact-reimport", "cleanup-then-import"} {
				cp := mem.CrashClone(vfs.CrashCloneCfg{UnsyncedDataPercent: 100, RNG: rand.New(rand.NewPCG(1, 2))})
				router.Mount(prefix, crashfs.FromImage(cp))
				st, err := vc11OpenAt(prefix, nil)
				if err != nil {
					violate("C11:restore-target-does-not-reopen-after-"+mode, "%s: %v", where, err)
					continue
				}
				if done == 1 && retry == "exact-reimport" {
					// the restore had been acknowledged: it must be completely there
					if d, err := vc11DumpStore(st); err == nil && d.Hash != refDump.Hash {
						violate("C11:acknowledged-restore-incomplete-after-"+mode, "%s: %s", where, vc11DumpDiff(refDump, d))
					}
				}
				var rerr error
				if retry == "cleanup-then-import" {
					for ci := range st.stores {
						if err := st.stores[ci].DiscardForRestore(context.Background()); err != nil && rerr == nil {
							rerr = fmt.Errorf("DiscardForRestore(%s): %w", vc11Name[ci], err)
						}
					}
					// the cleanup of every restored channel must leave what a fresh store contains
					if d, err := vc11DumpStore(st); rerr == nil && err == nil && d.Hash != emptyDump.Hash {
						violate("C11:restore-cleanup-leaves-residue", "%s: after DiscardForRestore of every channel the store is not empty: %s", where, vc11DumpDiff(emptyDump, d))
						st.closeStore()
						continue
					}
				}
				if rerr == nil {
					_, rerr = vc11ImportReader(st, stream)
				}
				if rerr != nil {
					violate("C11:restore-retry-fails:"+retry, "%s: %s: %v", where, retry, rerr)
					st.closeStore()
					continue
				}
				d, err := vc11DumpStore(st)
				if err != nil {
					r.HarnessError("%s: %v", secName, err)
					st.closeStore()
					continue
				}
				if d.Hash != refDump.Hash {
					violate("C11:restore-retry-does-not-converge:"+retry, "%s: %s: final state differs from a clean restore: %s", where, retry, vc11DumpDiff(refDump, d))
					st.closeStore()
					continue
				}
				again, _, err := vc11Export(st, cuts)
				if err != nil || !bytes.Equal(again, stream) {
					violate("C11:restore-retry-export-differs:"+retry, "%s: %s: export after retry differs (err=%v)", where, retry, err)
				}
				st.closeStore()
			}
		}
	}
	r.Section(ev.Section{Name: secName, Kind: "crash", Evaluations: evals, Distinct: inflight, Validated: distinct * 2, Exhaustive: true,
		Bounds: map[string]any{"history": history, "stream_bytes": len(stream), "crash_points": len(images), "distinct_disk_contents": distinct, "retries_per_content": 2},
		Note: "restore (ImportBackupSnapshotReader) on a crash-capturing volume; every crash point x {kill, power}; each distinct disk content is reopened and the restore retried two ways", WallS: time.Since(start).Seconds()})
	r.Guard(secName+"/inflight-images", inflight >= 4, "%d images captured while the restore was running", inflight)
	r.Sample(map[string]any{"section": secName, "history": history, "crash_points": len(images), "distinct_disk_contents": distinct})
}

func TestVerifC11Msg(t *testing.T) {
	r := ev.Start(t, "C11")
	defer r.Finish()
	vc11Setup()
	depth := ev.Pick(r, 4, 8)
	res := mc.Run(r, mc.System{
		Name: "message-backup-roundtrip", New: vc11NewInst, MaxDepth: depth, KeepGoing: true,
		Bounds: map[string]any{"channels": 2, "alphabet": "per channel: exact append (uncommitted, commits its predecessors), follower apply (row + HW + epoch point), commit advance by one, retention trim of one more committed row"},
		Note:   "state = the reference model of both channels (ids and command ids are functions of channel and sequence, so equal models are byte-equal stores); the round-trip oracle runs in every state",
	})
	h1 := []string{"xap:A", "xap:A"}                          // one committed exact row + uncommitted suffix
	h2 := []string{"fol:A", "fol:A", "trm:A", "xap:B", "xap:B"} // plain rows, history, retention; second channel: committed exact row + uncommitted suffix
	h3 := []string{"xap:A", "xap:A", "fol:B", "trm:B"}          // the loosely validated fields (cut epoch, cursor, retention) of the second channel lie deep in the stream
	// re-sealed row <-> entry identity mismatch (round 4): the mismatched row is the only row / lies in the second channel behind an intact one
	h1pop := []string{"xap:B", "xap:B"}
	h4 := []string{"fol:A", "fol:A", "xap:B", "xap:B", "xap:B"}
	h4pop := []string{"fol:A", "fol:A"}
	if rf := r.Replay(); rf != nil {
		// enumeration / crash sections are cheap: re-run the whole section of the recorded violation
		before := r.ViolationCount()
		switch rf.System {
		case "message-corruption/exact":
			vc11Corruption(r, "exact", h1, false, vc11Importers, nil)
		case "message-corruption/two-channels":
			vc11Corruption(r, "two-channels", h2, false, vc11Importers, nil)
		case "message-corruption/deep-metadata":
			vc11Corruption(r, "deep-metadata", h3, false, vc11Importers, nil)
		case "message-resealed-mismatch/exact":
			vc11Corruption(r, "exact", h1, true, vc11Importers, map[string]bool{"bytes": true})
		case "message-resealed-mismatch/two-channels":
			vc11Corruption(r, "two-channels", h2, true, vc11Importers, map[string]bool{"bytes": true})
		case "message-resealed-row-identity-mismatch/exact":
			vc11RowMismatch(r, "exact", h1, h1pop, vc11Importers)
		case "message-resealed-row-identity-mismatch/second-channel":
			vc11RowMismatch(r, "second-channel", h4, h4pop, vc11Importers)
		case "message-restore-crash-retry/two-channels":
			vc11CrashRetry(r, "two-channels", h2)
		case "message-restore-crash-retry/exact":
			vc11CrashRetry(r, "exact", []string{"xap:A", "xap:A", "xap:A", "hw:A"})
		}
		if r.ViolationCount() > before {
			r.MarkReplayReproduced()
		}
		return
	}
	r.Guard("message-roundtrip-states", res.States >= 50, "%d states explored", res.States)
	vc11Corruption(r, "exact", h1, false, vc11Importers, nil)
	vc11Corruption(r, "two-channels", h2, false, vc11Importers, nil)
	vc11Corruption(r, "deep-metadata", h3, false, vc11Importers, nil)
	vc11Corruption(r, "exact", h1, true, vc11Importers, map[string]bool{"bytes": true})
	if r.Thorough() {
		vc11Corruption(r, "two-channels", h2, true, vc11Importers, map[string]bool{"bytes": true})
	}
	vc11RowMismatch(r, "exact", h1, h1pop, vc11Importers)
	vc11RowMismatch(r, "second-channel", h4, h4pop, vc11Importers)
	vc11CrashRetry(r, "two-channels", h2)
	if r.Thorough() {
		vc11CrashRetry(r, "exact", []string{"xap:A", "xap:A", "xap:A", "hw:A"})
	}
	r.Assume("cuts are what the backup coordinator selects: HW = min(checkpoint HW, LEO), LogStartOffset = min(adopted retention boundary, HW), one fixed channel epoch")
	r.Assume("a stream whose checksum trailer was recomputed after the mutation is a well-formed envelope around mismatched content: accepting it is legal, rejecting it must leave the target untouched")
}
