package message

// C11 (message store part) - backup and restore reproduce committed data exactly.
//
// This file: plumbing - in-memory volumes behind engine.VerifFS (plain for the model
// checking and corruption parts, crash-capturing for the crash-retry part), real Open,
// raw key/value dumps, record / manifest builders and the reference model of one channel.

import (
	"bytes"
	"context"
	"crypto/sha256"
	"encoding/hex"
	"errors"
	"fmt"
	"hash/fnv"
	"io"
	"sort"
	"strings"
	"sync"
	"sync/atomic"

	"github.com/WuKongIM/WuKongIM/pkg/db/internal/engine"
	channel "github.com/WuKongIM/WuKongIM/pkg/db/message/channelcompat"
	"github.com/WuKongIM/WuKongIM/pkg/quorumlog"
	"github.com/WuKongIM/WuKongIM/pkg/zzverif/crashfs"
	"github.com/cockroachdb/pebble/v2"
)

type vc11Quiet struct{}

func (vc11Quiet) Infof(string, ...interface{})  {}
func (vc11Quiet) Errorf(string, ...interface{}) {}
func (vc11Quiet) Fatalf(format string, args ...interface{}) {
	panic("pebble fatal: " + fmt.Sprintf(format, args...))
}

var (
	vc11Once     sync.Once
	vc11Router   *crashfs.Router
	vc11MountSeq atomic.Int64
)

func vc11Setup() *crashfs.Router {
	vc11Once.Do(func() {
		vc11Router = crashfs.NewRouter()
		engine.VerifFS = vc11Router
		engine.VerifTweak = func(o *pebble.Options) { o.Logger = vc11Quiet{} }
	})
	return vc11Router
}

const (
	vc11Epoch    = 5
	vc11Fence    = 9
	vc11Term     = 7
	vc11HashSlot = 11
	vc11Cursor   = "committed"
)

var (
	vc11Keys = [2]channel.ChannelKey{"c11/a", "c11/b"}
	vc11IDs  = [2]channel.ChannelID{{ID: "a", Type: 1}, {ID: "b", Type: 2}}
	vc11Name = [2]string{"A", "B"}
)

// vc11Store is one real message store on its own in-memory volume.
type vc11Store struct {
	prefix string
	vol    *crashfs.Volume
	eng    *Engine
	stores [2]*ChannelStore
}

func vc11NewVolume() (string, *crashfs.Volume, error) {
	r := vc11Setup()
	prefix := fmt.Sprintf("/vc11m%d", vc11MountSeq.Add(1))
	vol := crashfs.NewVolume()
	r.Mount(prefix, vol)
	if err := vol.MkdirAllSynced(prefix + "/db"); err != nil {
		r.Unmount(prefix)
		return "", nil, err
	}
	return prefix, vol, nil
}

func vc11OpenAt(prefix string, vol *crashfs.Volume) (*vc11Store, error) {
	eng, err := Open(prefix + "/db")
	if err != nil {
		return nil, err
	}
	s := &vc11Store{prefix: prefix, vol: vol, eng: eng}
	for i := range vc11Keys {
		st, err := eng.ForChannel(vc11Keys[i], vc11IDs[i])
		if err != nil {
			_ = eng.Close()
			return nil, err
		}
		s.stores[i] = st
	}
	return s, nil
}

// vc11Fresh opens a fresh empty store on a fresh volume.
func vc11Fresh() (*vc11Store, error) {
	prefix, vol, err := vc11NewVolume()
	if err != nil {
		return nil, err
	}
	s, err := vc11OpenAt(prefix, vol)
	if err != nil {
		vc11Setup().Unmount(prefix)
		return nil, err
	}
	return s, nil
}

func (s *vc11Store) closeStore() {
	for _, st := range s.stores {
		if st != nil {
			_ = st.Close()
		}
	}
	if s.eng != nil {
		_ = s.eng.Close()
		s.eng = nil
	}
}

// close closes the store and drops its volume.
func (s *vc11Store) close() {
	s.closeStore()
	vc11Setup().Unmount(s.prefix)
}

type vc11KV struct{ K, V string }

type vc11Dump struct {
	KVs  []vc11KV
	Hash string
}

func vc11DumpStore(s *vc11Store) (vc11Dump, error) {
	var d vc11Dump
	it, err := s.eng.engine.NewIter(engine.Span{}, engine.IterOptions{})
	if err != nil {
		return d, err
	}
	defer it.Close()
	h := sha256.New()
	for ok := it.First(); ok; ok = it.Next() {
		k := append([]byte(nil), it.Key()...)
		v, err := it.Value()
		if err != nil {
			return d, err
		}
		fmt.Fprintf(h, "%d:%d:", len(k), len(v))
		h.Write(k)
		h.Write(v)
		d.KVs = append(d.KVs, vc11KV{K: string(k), V: string(v)})
	}
	if err := it.Error(); err != nil {
		return d, err
	}
	d.Hash = hex.EncodeToString(h.Sum(nil))[:16]
	return d, nil
}

func vc11KeyName(k string) string {
	var b bytes.Buffer
	for i := 0; i < len(k); i++ {
		c := k[i]
		if c >= 0x21 && c <= 0x7e && c != '\\' {
			b.WriteByte(c)
		} else {
			fmt.Fprintf(&b, "\\%02x", c)
		}
	}
	s := b.String()
	if len(s) > 64 {
		s = s[:64] + "~"
	}
	return s
}

func vc11DumpDiff(want, got vc11Dump) string {
	wm := map[string]string{}
	gm := map[string]string{}
	for _, kv := range want.KVs {
		wm[kv.K] = kv.V
	}
	for _, kv := range got.KVs {
		gm[kv.K] = kv.V
	}
	var missing, extra, changed []string
	for k, v := range wm {
		if g, ok := gm[k]; !ok {
			missing = append(missing, vc11KeyName(k))
		} else if g != v {
			changed = append(changed, vc11KeyName(k))
		}
	}
	for k := range gm {
		if _, ok := wm[k]; !ok {
			extra = append(extra, vc11KeyName(k))
		}
	}
	sort.Strings(missing)
	sort.Strings(extra)
	sort.Strings(changed)
	clip := func(xs []string) string {
		if len(xs) > 5 {
			return strings.Join(xs[:5], ",") + fmt.Sprintf(" ...(+%d)", len(xs)-5)
		}
		return strings.Join(xs, ",")
	}
	return fmt.Sprintf("missing=%d[%s] extra=%d[%s] changed=%d[%s]", len(missing), clip(missing), len(extra), clip(extra), len(changed), clip(changed))
}

// ---------------------------------------------------------------- model

type vc11Row struct {
	Seq   uint64
	ID    uint64
	Cno   string
	Exact bool
	PLen  int
	PHash uint64
}

type vc11Chan struct {
	Rows      []vc11Row // rows physically present
	LEO       uint64
	HasCkpt   bool
	HW        uint64
	HasRet    bool
	Local     uint64
	Phys      uint64
	RMax      uint64
	HasCursor bool
	Cursor    uint64
	Hist      []EpochPoint
	Props     []DurableProposalManifest
	Idents    map[uint64]quorumlog.EntryIdentity
	Kinds     string // kind of every row ever appended, by seq: 'x' exact, 'p' plain
}

type vc11Model struct{ Ch [2]vc11Chan }

func vc11NewModel() *vc11Model {
	m := &vc11Model{}
	for i := range m.Ch {
		m.Ch[i].Idents = map[uint64]quorumlog.EntryIdentity{}
	}
	return m
}

func vc11Hash(p []byte) uint64 {
	h := fnv.New64a()
	h.Write(p)
	return h.Sum64()
}

func vc11Cno(seq uint64) string { return fmt.Sprintf("k%d", seq) }

// ids, idempotency keys and command ids are functions of (channel, sequence): histories
// that reach the same logical state reach byte-identical stores.
func vc11MsgID(ci int, seq uint64) uint64 { return uint64(1000*(ci+1)) + seq }

func vc11MakeRecord(ci int, seq uint64) (channel.Record, vc11Row, quorumlog.Record) {
	id := vc11MsgID(ci, seq)
	payload := []byte(fmt.Sprintf("p-%s-%d", vc11Name[ci], seq))
	if seq%2 == 0 {
		payload = nil // empty payloads are legal and exercise the zero-length encodings
	}
	ts := int64(1_700_000_000_000) + int64(id)
	row := messageRow{
		MessageID: id, ClientMsgNo: vc11Cno(seq), ChannelID: vc11IDs[ci].ID, ChannelType: vc11IDs[ci].Type,
		FromUID: "u1", ServerTimestampMS: ts, Payload: payload,
	}
	rec, err := compatibilityRecordFromRow(row)
	if err != nil {
		panic(err)
	}
	rec.Index = seq
	rec.Epoch = vc11Epoch
	mrow := vc11Row{Seq: seq, ID: id, Cno: vc11Cno(seq), PLen: len(payload), PHash: vc11Hash(payload)}
	qrec := quorumlog.Record{ID: id, Index: seq, Epoch: vc11Epoch, FromUID: "u1", ClientMsgNo: vc11Cno(seq), ServerTimestampMS: ts, Payload: payload}
	return rec, mrow, qrec
}

func vc11Cmd(ci int, base uint64) quorumlog.CommandID {
	var c quorumlog.CommandID
	c[0] = 0xC1
	c[1] = byte(ci + 1)
	c[2] = byte(base + 1)
	return c
}

func (c *vc11Chan) exactTail() bool {
	if c.LEO == 0 {
		return false
	}
	id, ok := c.Idents[c.LEO]
	if !ok {
		return false
	}
	for _, p := range c.Props {
		if p.LastOffset == c.LEO && p.CommandID == id.CommandID {
			return true
		}
	}
	return false
}

func vc11ErrClass(err error) string {
	switch {
	case err == nil:
		return "ok"
	case errors.Is(err, channel.ErrCorruptState):
		return "corrupt-state"
	case errors.Is(err, channel.ErrCorruptValue):
		return "corrupt-value"
	case errors.Is(err, channel.ErrInvalidArgument):
		return "invalid"
	default:
		return "other"
	}
}

// ---------------------------------------------------------------- backup helpers

// vc11Cuts returns the cuts a backup coordinator would select for the model: the
// committed watermark and the adopted retention boundary of every channel with a catalog row.
func vc11Cuts(m *vc11Model) []BackupChannelCut {
	var cuts []BackupChannelCut
	for ci := range m.Ch {
		c := &m.Ch[ci]
		if len(c.Kinds) == 0 && !c.HasCkpt {
			continue // never touched: not in the catalog
		}
		hw := c.HW
		if hw > c.LEO {
			hw = c.LEO
		}
		logStart := c.Local
		if logStart > hw {
			logStart = hw
		}
		cuts = append(cuts, BackupChannelCut{
			Key: ChannelKey(vc11Keys[ci]), ID: ChannelID{ID: vc11IDs[ci].ID, Type: vc11IDs[ci].Type},
			Checkpoint: Checkpoint{Epoch: vc11Epoch, LogStartOffset: logStart, HW: hw},
		})
	}
	return cuts
}

func vc11Export(s *vc11Store, cuts []BackupChannelCut) ([]byte, BackupSnapshotStats, error) {
	rd, stats, err := s.eng.OpenBackupSnapshotWithStats(context.Background(), BackupSnapshotRequest{HashSlot: vc11HashSlot, Channels: cuts})
	if err != nil {
		return nil, stats, err
	}
	data, err := io.ReadAll(rd)
	cerr := rd.Close()
	if err != nil {
		return nil, stats, err
	}
	if cerr != nil {
		return nil, stats, cerr
	}
	// the plain variant must produce the same bytes
	rd2, err := s.eng.OpenBackupSnapshot(context.Background(), BackupSnapshotRequest{HashSlot: vc11HashSlot, Channels: cuts})
	if err != nil {
		return nil, stats, err
	}
	data2, err := io.ReadAll(rd2)
	_ = rd2.Close()
	if err != nil {
		return nil, stats, err
	}
	if !bytes.Equal(data, data2) {
		return nil, stats, fmt.Errorf("OpenBackupSnapshot and OpenBackupSnapshotWithStats produced different streams (%d vs %d bytes)", len(data2), len(data))
	}
	return data, stats, nil
}

func vc11ImportReader(s *vc11Store, data []byte) (BackupSnapshotStats, error) {
	return s.eng.ImportBackupSnapshotReader(context.Background(), bytes.NewReader(data), int64(len(data)))
}
