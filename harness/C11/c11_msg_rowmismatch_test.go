package message

// C11 (message store part) - strengthening round 4 (seed C11-3): structurally valid,
// correctly RE-SEALED streams in which a committed row does not match its durable entry
// identity. A byte flip inside a row is caught by the row's own checksum, so the
// "re-sealed mismatch" sections never reach the row <-> identity binding; here the row is
// re-encoded (row checksums recomputed) with a same-length different payload, spliced into
// the stream and the CRC trailer is recomputed.
//
// Oracle: the import must be rejected (the stream contradicts itself: the identity rows it
// carries do not describe the message rows it carries) AND the target must be byte-for-byte
// unchanged: no catalog row, checkpoint, proposal or identity rows, no rows of earlier
// channels or earlier batches.

import (
	"bufio"
	"bytes"
	"context"
	"encoding/binary"
	"fmt"
	"hash/crc32"
	"strings"

	"github.com/WuKongIM/WuKongIM/pkg/zzverif/ev"
)

type vc11StreamRow struct {
	key         ChannelKey
	seq         uint64
	row         messageRow
	headerBody  []byte
	payloadBody []byte
	hasIdentity bool
}

// vc11StreamRows lists the message rows of a (genuine) exported stream.
func vc11StreamRows(stream []byte) ([]vc11StreamRow, error) {
	var rows []vc11StreamRow
	_, err := parseMessageBackupStream(context.Background(), bytes.NewReader(stream), int64(len(stream)),
		func(ctx context.Context, reader *bufio.Reader, header messageBackupChannelHeader) (uint64, error) {
			ids, err := backupEntryIdentityMap(header.key, header.systemEntries)
			if err != nil {
				return 0, err
			}
			var prev, maxID uint64
			for i := uint64(0); i < header.messageCount; i++ {
				seq, row, hb, pb, err := readMessageBackupStreamRow(ctx, reader, header, prev)
				if err != nil {
					return 0, err
				}
				prev = seq
				if row.MessageID > maxID {
					maxID = row.MessageID
				}
				_, has := ids[seq]
				row.Payload = append([]byte(nil), row.Payload...)
				rows = append(rows, vc11StreamRow{key: header.key, seq: seq, row: row,
					headerBody: append([]byte(nil), hb...), payloadBody: append([]byte(nil), pb...), hasIdentity: has})
			}
			return maxID, nil
		})
	return rows, err
}

// vc11RowMismatchCases: for every row of the stream and every payload byte x {bit0, bit7}
// flip, the stream with that row re-encoded and the trailer re-sealed.
func vc11RowMismatchCases(stream []byte) (cases []vc11Case, identity []bool, err error) {
	rows, err := vc11StreamRows(stream)
	if err != nil {
		return nil, nil, err
	}
	n := len(stream)
	for _, sr := range rows {
		hk := encodeMessageRowKey(sr.key, sr.seq, messageHeaderFamilyID)
		pk := encodeMessageRowKey(sr.key, sr.seq, messagePayloadFamilyID)
		if bytes.Count(stream, sr.headerBody) != 1 || bytes.Count(stream, sr.payloadBody) != 1 {
			return nil, nil, fmt.Errorf("row %s/%d is not contained exactly once in the stream", sr.key, sr.seq)
		}
		for off := range sr.row.Payload {
			for k, mask := range []byte{0x01, 0x80} {
				row := sr.row
				row.Payload = append([]byte(nil), sr.row.Payload...)
				row.Payload[off] ^= mask
				nh, err := encodeMessageHeader(hk, row)
				if err != nil {
					return nil, nil, err
				}
				np, err := encodeMessagePayload(pk, row)
				if err != nil {
					return nil, nil, err
				}
				if len(nh) != len(sr.headerBody) || len(np) != len(sr.payloadBody) || bytes.Equal(np, sr.payloadBody) {
					return nil, nil, fmt.Errorf("row %s/%d: re-encoded row changed size or did not change", sr.key, sr.seq)
				}
				d := bytes.Replace(append([]byte(nil), stream...), sr.headerBody, nh, 1)
				d = bytes.Replace(d, sr.payloadBody, np, 1)
				if len(d) != n {
					return nil, nil, fmt.Errorf("row %s/%d: spliced stream changed size", sr.key, sr.seq)
				}
				binary.BigEndian.PutUint32(d[n-4:], crc32.ChecksumIEEE(d[:n-4]))
				cases = append(cases, vc11Case{label: fmt.Sprintf("row:%s/%d:payload[%d]^%s", sr.key, sr.seq, off, []string{"bit0", "bit7"}[k]), data: d})
				identity = append(identity, sr.hasIdentity)
			}
		}
	}
	return cases, identity, nil
}

// vc11RowMismatch imports every re-sealed row-mismatch stream of the export of history
// through every importer into an empty target and into a target that already holds the
// restore of popHistory (a different export).
func vc11RowMismatch(r *ev.R, name string, history, popHistory []string, importers []vc11Importer) {
	secName := "message-resealed-row-identity-mismatch/" + name
	e := r.NewEnum(secName)
	stream, err := vc11Stream(history)
	if err != nil {
		r.HarnessError("%s: %v", secName, err)
		return
	}
	popStream, err := vc11Stream(popHistory)
	if err != nil {
		r.HarnessError("%s: %v", secName, err)
		return
	}
	cases, identity, err := vc11RowMismatchCases(stream)
	if err != nil {
		r.HarnessError("%s: %v", secName, err)
		return
	}
	rejected, accepted, withIdentity := 0, 0, 0
	for _, imp := range importers {
		mk := []func() (*vc11Target, error){
			func() (*vc11Target, error) { return vc11FreshTarget(false, nil) },
			func() (*vc11Target, error) {
				t, err := vc11FreshTarget(true, popStream)
				if t != nil {
					t.name = "populated"
				}
				return t, err
			},
		}
		targets := make([]*vc11Target, len(mk))
		for i := range mk {
			if targets[i], err = mk[i](); err != nil {
				r.HarnessError("%s: %v", secName, err)
				return
			}
		}
		closeAll := func() {
			for _, t := range targets {
				if t != nil {
					t.st.close()
				}
			}
		}
		for idx, c := range cases {
			for ti, t := range targets {
				where := fmt.Sprintf("%s: %s via %s into %s target (stream %d bytes)", secName, c.label, imp.name, t.name, len(stream))
				replay := map[string]any{"section": secName, "history": history, "populated_with": popHistory, "case": c.label, "importer": imp.name, "target": t.name}
				var ierr error
				perr := ev.Recover(func() { ierr = imp.run(t.st, c.data) })
				outcome := ""
				reset := true
				if perr != nil {
					outcome = "panic"
					r.Violation(ev.Violation{Fingerprint: "C11:import-panics:" + imp.name, Message: where + ": " + perr.Error(), System: secName, Replay: replay})
				} else {
					after, err := vc11DumpStore(t.st)
					if err != nil {
						r.HarnessError("%s: %v", secName, err)
						closeAll()
						return
					}
					reset = after.Hash != t.dump.Hash
					switch {
					case ierr != nil && !reset:
						outcome = "rejected:" + vc11ErrClass(ierr)
						rejected++
					case ierr != nil:
						outcome = "partially-applied"
						r.Violation(ev.Violation{Fingerprint: "C11:rejected-stream-partially-applied:" + imp.name,
							Message: where + fmt.Sprintf(": import failed (%v) but the target changed: %s", ierr, vc11DumpDiff(t.dump, after)), System: secName, Replay: replay})
					case identity[idx]:
						outcome = "accepted-identity-mismatch"
						r.Violation(ev.Violation{Fingerprint: "C11:row-identity-mismatch-accepted:" + imp.name,
							Message: where + ": the import succeeded although the row contradicts the durable entry identity carried by the same stream", System: secName, Replay: replay})
					default:
						outcome = "accepted" // a plain row (no identity in the stream) with different content
						accepted++
					}
				}
				if identity[idx] {
					withIdentity++
				}
				e.Case(where, true, outcome)
				if reset {
					nt, err := mk[ti]()
					if err != nil {
						r.HarnessError("%s: %v", secName, err)
						closeAll()
						return
					}
					t.st.close()
					targets[ti] = nt
				}
			}
		}
		closeAll()
	}
	names := []string{}
	for _, imp := range importers {
		names = append(names, imp.name)
	}
	e.Done(true, map[string]any{"history": history, "populated_target_history": popHistory, "stream_bytes": len(stream), "mismatched_streams": len(cases), "importers": names, "targets": []string{"empty", "populated"}},
		"every row of the exported stream x every payload byte x {bit0, bit7} flip, the row re-encoded (row checksums valid) and the stream trailer re-sealed; a case = (stream, import API, target: empty / holding the restore of another export)")
	r.Count(secName+"/rejected-target-unchanged", int64(rejected))
	r.Count(secName+"/accepted-plain-row", int64(accepted))
	r.Guard(secName+"/identity-rows", withIdentity >= 2*len(importers), "%d cases hit a row that has a durable entry identity in the stream", withIdentity)
	if len(cases) > 0 {
		r.Sample(map[string]any{"section": secName, "history": history, "example_case": cases[len(cases)/2].label, "cases": len(cases), "labels_prefix": strings.SplitN(cases[0].label, ":payload", 2)[0]})
	}
}
