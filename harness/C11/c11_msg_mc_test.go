package message

// C11 (message store part) - E1: every small channel history on two channels, executed on
// the real store; in every reachable state: export -> import into a fresh store ->
// re-export byte-identical, restored content == committed prefix + identities +
// idempotency rows, nothing above the exported HW, exact retry idempotent.

import (
	"bytes"
	"context"
	"fmt"
	"math"
	"sort"
	"strings"

	channel "github.com/WuKongIM/WuKongIM/pkg/db/message/channelcompat"
	"github.com/WuKongIM/WuKongIM/pkg/quorumlog"
	"github.com/WuKongIM/WuKongIM/pkg/zzverif/mc"
)

type vc11Inst struct {
	src   *vc11Store
	model *vc11Model
	err   error // infrastructure failure while building the instance
}

func vc11NewInst() mc.Instance {
	in := &vc11Inst{model: vc11NewModel()}
	in.src, in.err = vc11Fresh()
	return in
}

func (in *vc11Inst) Close() {
	if in.src != nil {
		in.src.close()
		in.src = nil
	}
}

func (in *vc11Inst) Events() []string {
	var evs []string
	for ci := range in.model.Ch {
		c := &in.model.Ch[ci]
		n := vc11Name[ci]
		if c.LEO == 0 || c.exactTail() {
			evs = append(evs, "xap:"+n) // exact 1-record proposal, commits everything before it
		}
		evs = append(evs, "fol:"+n) // plain fetched record + HW + epoch point
		if c.HW < c.LEO {
			evs = append(evs, "hw:"+n) // commit advance by one
		}
		if c.Local < c.HW {
			evs = append(evs, "trm:"+n) // retention: adopt + trim one more committed row
		}
	}
	return evs
}

func (in *vc11Inst) Apply(ev string, _ *mc.Env) (string, error) {
	if in.err != nil {
		return "", fmt.Errorf("harness: cannot open source store: %v", in.err)
	}
	parts := strings.Split(ev, ":")
	ci := 0
	if parts[1] == "B" {
		ci = 1
	}
	c := &in.model.Ch[ci]
	st := in.src.stores[ci]
	ctx := context.Background()
	switch parts[0] {
	case "xap":
		base := c.LEO
		rec, row, q := vc11MakeRecord(ci, base+1)
		row.Exact = true
		man := DurableProposalManifest{
			Version: DurableProposalManifestVersion, ChannelEpoch: vc11Epoch, LeaderTerm: vc11Term, FenceVersion: vc11Fence,
			CommandID: vc11Cmd(ci, base), BaseOffset: base, LastOffset: base + 1, PreviousIndex: base,
		}
		if base > 0 {
			id := c.Idents[base]
			man.PreviousTerm, man.PreviousDigest = id.LeaderTerm, id.Digest
		}
		sealed, entries, ok := quorumlog.SealProposalManifest(man, []quorumlog.Record{q})
		if !ok {
			return "", fmt.Errorf("harness: cannot seal manifest")
		}
		res := StoreAppendBatch(ctx, []AppendBatchItem{{
			Store: st, Records: []channel.Record{rec}, Committed: base, Class: AppendBatchClassLeaderQuorum,
			ExactBaseOffset: true, ExpectedBaseOffset: base, Proposal: sealed,
		}})
		if len(res) != 1 || res[0].Err != nil {
			return "", mc.Violatef("C11:history-step-refused:xap", "exact append refused: %+v", res)
		}
		c.Rows = append(c.Rows, row)
		c.LEO = base + 1
		c.Kinds += "x"
		c.Props = append(c.Props, sealed)
		c.Idents[base+1] = entries[0]
		if base > c.HW {
			c.HasCkpt, c.HW = true, base
		}
	case "fol":
		seq := c.LEO + 1
		rec, row, _ := vc11MakeRecord(ci, seq)
		hw := seq
		point := channel.EpochPoint{Epoch: uint64(len(c.Hist) + 1), StartOffset: c.LEO}
		if _, err := st.StoreApplyFetchTrustedWithEpoch(channel.ApplyFetchStoreRequest{Records: []channel.Record{rec}, CheckpointHW: &hw}, &point); err != nil {
			return "", mc.Violatef("C11:history-step-refused:fol", "follower apply refused: %v", err)
		}
		c.Rows = append(c.Rows, row)
		c.LEO = seq
		c.Kinds += "p"
		c.HasCkpt, c.HW = true, hw
		c.Hist = append(c.Hist, EpochPoint{Epoch: point.Epoch, StartOffset: point.StartOffset})
	case "hw":
		hw := c.HW + 1
		if err := st.StoreCheckpointHWMonotonic(ctx, hw); err != nil {
			return "", mc.Violatef("C11:history-step-refused:hw", "checkpoint refused: %v", err)
		}
		c.HasCkpt, c.HW = true, hw
	case "trm":
		through := c.Local + 1
		if err := st.AdoptRetentionBoundary(ctx, through, vc11Cursor); err != nil {
			return "", mc.Violatef("C11:history-step-refused:trm", "adopt refused: %v", err)
		}
		for i := 0; i < 4; i++ {
			res, err := st.TrimMessagesThroughLimit(ctx, through, RetentionTrimOptions{MaxMessages: 1})
			if err != nil {
				return "", mc.Violatef("C11:history-step-refused:trm", "trim refused: %v", err)
			}
			if !res.More {
				break
			}
		}
		c.HasRet, c.Local, c.Phys = true, through, through
		if c.LEO > c.RMax {
			c.RMax = c.LEO
		}
		if through > c.RMax {
			c.RMax = through
		}
		if !c.HasCursor || c.Cursor < through {
			c.HasCursor, c.Cursor = true, through
		}
		rows := c.Rows[:0:0]
		for _, r := range c.Rows {
			if r.Seq > through {
				rows = append(rows, r)
			}
		}
		c.Rows = rows
	default:
		return "", fmt.Errorf("harness: unknown event %s", ev)
	}
	return ev, nil
}

func (in *vc11Inst) Canon() string {
	var b strings.Builder
	for ci := range in.model.Ch {
		c := &in.model.Ch[ci]
		fmt.Fprintf(&b, "%s:%s leo=%d ck=%v hw=%d ret=%v/%d/%d/%d cur=%v/%d hist=%v|", vc11Name[ci], c.Kinds, c.LEO, c.HasCkpt, c.HW, c.HasRet, c.Local, c.Phys, c.RMax, c.HasCursor, c.Cursor, c.Hist)
	}
	return b.String()
}

// vc11SourceLines / vc11TargetLines: the model's description of the source store and of
// what a restore of the cut must contain.
func vc11RowLine(r vc11Row) string {
	return fmt.Sprintf("%d:%d:u1:%s:%d:%x", r.Seq, r.ID, r.Cno, r.PLen, r.PHash)
}

func vc11Expect(m *vc11Model, target bool) []string {
	var out []string
	var cat []string
	for ci := range m.Ch {
		c := &m.Ch[ci]
		n := vc11Name[ci]
		touched := len(c.Kinds) > 0 || c.HasCkpt
		hw := c.HW
		add := func(format string, args ...any) { out = append(out, n+"."+fmt.Sprintf(format, args...)) }
		limit := uint64(math.MaxUint64)
		if target {
			limit = hw // nothing above the exported committed watermark
		}
		var rows []string
		present := map[uint64]vc11Row{}
		var last uint64
		for _, r := range c.Rows {
			if r.Seq <= limit {
				rows = append(rows, vc11RowLine(r))
				present[r.Seq] = r
				last = r.Seq
			}
		}
		leo := c.LEO
		if target {
			leo = hw
			_ = last
		}
		add("leo=%d", leo)
		add("rows=[%s]", strings.Join(rows, " "))
		switch {
		case target && touched:
			ls := c.Local
			if ls > hw {
				ls = hw
			}
			add("ckpt=%d/%d/%d", vc11Epoch, ls, hw)
		case !target && c.HasCkpt:
			add("ckpt=0/0/%d", c.HW)
		default:
			add("ckpt=absent")
		}
		add("ret-local-phys=%d/%d", c.Local, c.Phys)
		if c.HasCursor {
			add("cursor=%d", c.Cursor)
		} else {
			add("cursor=absent")
		}
		var hist []string
		for _, p := range c.Hist {
			if p.StartOffset <= limit {
				hist = append(hist, fmt.Sprintf("%d@%d", p.Epoch, p.StartOffset))
			}
		}
		add("hist=[%s]", strings.Join(hist, " "))
		for i := uint64(1); i <= uint64(len(c.Kinds))+1; i++ {
			if id, ok := c.Idents[i]; ok && i <= limit {
				add("ident[%d]=%x/%x", i, id.CommandID[:3], id.Digest[:6])
			} else {
				add("ident[%d]=absent", i)
			}
			line := "absent"
			for _, p := range c.Props {
				if p.LastOffset == i && i <= limit {
					line = fmt.Sprintf("%x/%d-%d/%x", p.CommandID[:3], p.BaseOffset, p.LastOffset, p.Digest[:6])
				}
			}
			add("bylast[%d]=%s", i, line)
			cmdline := "absent"
			for _, p := range c.Props {
				if p.CommandID == vc11Cmd(ci, i-1) && p.LastOffset <= limit {
					cmdline = fmt.Sprintf("%d-%d", p.BaseOffset, p.LastOffset)
				}
			}
			add("bycmd[%d]=%s", i, cmdline)
			if r, ok := present[i]; ok {
				add("idem[%s]=%d:%d:%x", vc11Cno(i), r.Seq, r.ID, r.PHash)
				add("byid[%d]=%d", vc11MsgID(ci, i), r.Seq)
			} else {
				add("idem[%s]=absent", vc11Cno(i))
				add("byid[%d]=absent", vc11MsgID(ci, i))
			}
		}
		if touched {
			cat = append(cat, string(vc11Keys[ci]))
		}
	}
	sort.Strings(cat)
	out = append(out, fmt.Sprintf("catalog=[%s]", strings.Join(cat, " ")))
	return out
}

// vc11Observe reads a real store in the same line format. n is the per-channel lookup range.
func vc11Observe(s *vc11Store, m *vc11Model) []string {
	var out []string
	ctx := context.Background()
	for ci := range s.stores {
		st := s.stores[ci]
		n := vc11Name[ci]
		add := func(format string, args ...any) { out = append(out, n+"."+fmt.Sprintf(format, args...)) }
		if leo, err := st.LEOWithError(); err != nil {
			add("leo=%s", vc11ErrClass(err))
		} else {
			add("leo=%d", leo)
		}
		msgs, err := st.ListMessagesBySeq(ctx, 1, 0, 0, false)
		if err != nil {
			add("rows=%s", vc11ErrClass(err))
		} else {
			var rows []string
			for _, msg := range msgs {
				rows = append(rows, fmt.Sprintf("%d:%d:%s:%s:%d:%x", msg.MessageSeq, msg.MessageID, msg.FromUID, msg.ClientMsgNo, len(msg.Payload), vc11Hash(msg.Payload)))
			}
			add("rows=[%s]", strings.Join(rows, " "))
		}
		if ck, err := st.LoadCheckpoint(); err == nil {
			add("ckpt=%d/%d/%d", ck.Epoch, ck.LogStartOffset, ck.HW)
		} else if err == channel.ErrEmptyState {
			add("ckpt=absent")
		} else {
			add("ckpt=%s", vc11ErrClass(err))
		}
		if ret, err := st.LoadRetentionState(); err != nil {
			add("ret-local-phys=%s", vc11ErrClass(err))
		} else {
			add("ret-local-phys=%d/%d", ret.LocalRetentionThroughSeq, ret.PhysicalRetentionThroughSeq)
		}
		if cur, ok, err := st.LoadCommittedDispatchCursor(vc11Cursor); err != nil {
			add("cursor=%s", vc11ErrClass(err))
		} else if ok {
			add("cursor=%d", cur)
		} else {
			add("cursor=absent")
		}
		if points, err := st.LoadHistory(); err == nil || err == channel.ErrEmptyState {
			var hist []string
			for _, p := range points {
				hist = append(hist, fmt.Sprintf("%d@%d", p.Epoch, p.StartOffset))
			}
			add("hist=[%s]", strings.Join(hist, " "))
		} else {
			add("hist=%s", vc11ErrClass(err))
		}
		key := ChannelKey(vc11Keys[ci])
		raw := s.eng.engine
		for i := uint64(1); i <= uint64(len(m.Ch[ci].Kinds))+1; i++ {
			if id, ok, err := loadDurableEntryIdentityFrom(raw, key, i); err != nil {
				add("ident[%d]=%s", i, vc11ErrClass(err))
			} else if ok {
				add("ident[%d]=%x/%x", i, id.CommandID[:3], id.Digest[:6])
			} else {
				add("ident[%d]=absent", i)
			}
			if p, ok, err := loadDurableProposalFrom(raw, encodeProposalByLastKey(key, i)); err != nil {
				add("bylast[%d]=%s", i, vc11ErrClass(err))
			} else if ok {
				add("bylast[%d]=%x/%d-%d/%x", i, p.manifest.CommandID[:3], p.manifest.BaseOffset, p.manifest.LastOffset, p.manifest.Digest[:6])
			} else {
				add("bylast[%d]=absent", i)
			}
			if p, ok, err := loadDurableProposalFrom(raw, encodeProposalByCommandKey(key, vc11Cmd(ci, i-1))); err != nil {
				add("bycmd[%d]=%s", i, vc11ErrClass(err))
			} else if ok {
				add("bycmd[%d]=%d-%d", i, p.manifest.BaseOffset, p.manifest.LastOffset)
			} else {
				add("bycmd[%d]=absent", i)
			}
			if ent, hash, ok, err := st.LookupIdempotency(channel.IdempotencyKey{ChannelID: vc11IDs[ci], FromUID: "u1", ClientMsgNo: vc11Cno(i)}); err != nil {
				add("idem[%s]=%s", vc11Cno(i), vc11ErrClass(err))
			} else if ok {
				add("idem[%s]=%d:%d:%x", vc11Cno(i), ent.MessageSeq, ent.MessageID, hash)
			} else {
				add("idem[%s]=absent", vc11Cno(i))
			}
			if msg, ok, err := st.GetMessageByMessageID(vc11MsgID(ci, i)); err != nil {
				add("byid[%d]=%s", vc11MsgID(ci, i), vc11ErrClass(err))
			} else if ok {
				add("byid[%d]=%d", vc11MsgID(ci, i), msg.MessageSeq)
			} else {
				add("byid[%d]=absent", vc11MsgID(ci, i))
			}
		}
	}
	if keys, err := s.eng.ListChannelKeys(); err != nil {
		out = append(out, "catalog="+vc11ErrClass(err))
	} else {
		var cat []string
		for _, k := range keys {
			cat = append(cat, string(k))
		}
		sort.Strings(cat)
		out = append(out, fmt.Sprintf("catalog=[%s]", strings.Join(cat, " ")))
	}
	return out
}

func vc11FirstDiff(want, got []string) string {
	n := len(want)
	if len(got) > n {
		n = len(got)
	}
	for i := 0; i < n; i++ {
		w, g := "<none>", "<none>"
		if i < len(want) {
			w = want[i]
		}
		if i < len(got) {
			g = got[i]
		}
		if w != g {
			return fmt.Sprintf("want %q got %q", w, g)
		}
	}
	return ""
}

func vc11LineKind(diff string) string {
	i := strings.Index(diff, "\"")
	if i < 0 {
		return "state"
	}
	s := diff[i+1:]
	if j := strings.IndexAny(s, "=["); j >= 0 {
		s = s[:j]
	}
	if j := strings.Index(s, "."); j >= 0 {
		s = s[j+1:]
	}
	return s
}

// Check is the round-trip oracle, evaluated in every state.
func (in *vc11Inst) Check() error {
	if in.err != nil {
		return fmt.Errorf("harness: cannot open source store: %v", in.err)
	}
	m := in.model
	// the model must describe the source store (otherwise the oracle below means nothing)
	if d := vc11FirstDiff(vc11Expect(m, false), vc11Observe(in.src, m)); d != "" {
		return mc.Violatef("C11:source-differs-from-model:"+vc11LineKind(d), "source store differs from the reference model: %s", d)
	}
	cuts := vc11Cuts(m)
	stream, stats, err := vc11Export(in.src, cuts)
	if err != nil {
		return mc.Violatef("C11:export-fails", "export of %d cuts failed: %v", len(cuts), err)
	}
	return vc11RoundTrip(m, cuts, stream, stats)
}

// vc11RoundTrip imports stream into a fresh store and checks fidelity.
func vc11RoundTrip(m *vc11Model, cuts []BackupChannelCut, stream []byte, stats BackupSnapshotStats) error {
	var wantMsgs, wantMax uint64
	for ci := range m.Ch {
		c := &m.Ch[ci]
		for _, r := range c.Rows {
			if r.Seq <= c.HW {
				wantMsgs++
				if r.ID > wantMax {
					wantMax = r.ID
				}
			}
		}
	}
	if stats.HashSlot != vc11HashSlot || stats.ChannelCount != uint64(len(cuts)) || stats.MessageCount != wantMsgs || stats.MaxMessageID != wantMax {
		return mc.Violatef("C11:export-stats-wrong", "export stats %+v, model: channels=%d committed retained messages=%d max id=%d", stats, len(cuts), wantMsgs, wantMax)
	}
	dst, err := vc11Fresh()
	if err != nil {
		return fmt.Errorf("harness: cannot open target store: %v", err)
	}
	defer dst.close()
	istats, err := vc11ImportReader(dst, stream)
	if err != nil {
		return mc.Violatef("C11:import-of-own-export-fails", "importing a fresh export (%d bytes) into an empty store failed: %v", len(stream), err)
	}
	if istats != stats {
		return mc.Violatef("C11:import-stats-differ", "import stats %+v, export stats %+v", istats, stats)
	}
	// restored content: committed prefix, identities, idempotency rows, nothing above HW
	// the log-end lines are compared last so that a wrong log end does not hide other differences
	var leoErr error
	{
		want, got := vc11Expect(m, true), vc11Observe(dst, m)
		var w2, g2 []string
		for i := range want {
			if i < len(got) && strings.Contains(want[i], ".leo=") && strings.Contains(got[i], ".leo=") {
				if want[i] != got[i] && leoErr == nil {
					leoErr = mc.Violatef("C11:restored-log-end-differs-from-exported-hw", "restored store: want %q got %q (the restored log must end at the exported committed watermark; nothing may exist above it)", want[i], got[i])
				}
				continue
			}
			w2 = append(w2, want[i])
			if i < len(got) {
				g2 = append(g2, got[i])
			}
		}
		if len(got) > len(want) {
			g2 = append(g2, got[len(want):]...)
		}
		if d := vc11FirstDiff(w2, g2); d != "" {
			return mc.Violatef("C11:restored-content-differs:"+vc11LineKind(d), "restored store differs from the committed prefix of the source: %s", d)
		}
	}
	before, err := vc11DumpStore(dst)
	if err != nil {
		return fmt.Errorf("harness: dump target: %v", err)
	}
	again, stats2, err := vc11Export(dst, cuts)
	if err != nil {
		return mc.Violatef("C11:re-export-fails", "exporting the restored store failed: %v", err)
	}
	if !bytes.Equal(again, stream) {
		return mc.Violatef("C11:re-export-differs", "re-export of the restored store differs from the original export (%d vs %d bytes, first difference at offset %d)", len(again), len(stream), vc11FirstByteDiff(again, stream))
	}
	if stats2 != stats {
		return mc.Violatef("C11:re-export-stats-differ", "re-export stats %+v vs %+v", stats2, stats)
	}
	// an exact retry is idempotent
	if _, err := vc11ImportReader(dst, stream); err != nil {
		return mc.Violatef("C11:exact-retry-refused", "re-importing the same stream into the restored store failed: %v", err)
	}
	after, err := vc11DumpStore(dst)
	if err != nil {
		return fmt.Errorf("harness: dump target: %v", err)
	}
	if after.Hash != before.Hash {
		return mc.Violatef("C11:exact-retry-changes-state", "re-importing the same stream changed the restored store: %s", vc11DumpDiff(before, after))
	}
	// the in-memory variant installs the same state
	dst2, err := vc11Fresh()
	if err != nil {
		return fmt.Errorf("harness: cannot open target store: %v", err)
	}
	defer dst2.close()
	if _, err := dst2.eng.ImportBackupSnapshot(context.Background(), stream); err != nil {
		return mc.Violatef("C11:import-of-own-export-fails", "ImportBackupSnapshot of a fresh export failed: %v", err)
	}
	d2, err := vc11DumpStore(dst2)
	if err != nil {
		return fmt.Errorf("harness: dump target: %v", err)
	}
	if d2.Hash != before.Hash {
		return mc.Violatef("C11:import-variants-disagree", "ImportBackupSnapshot and ImportBackupSnapshotReader installed different states: %s", vc11DumpDiff(before, d2))
	}
	return leoErr
}

func vc11FirstByteDiff(a, b []byte) int {
	n := len(a)
	if len(b) < n {
		n = len(b)
	}
	for i := 0; i < n; i++ {
		if a[i] != b[i] {
			return i
		}
	}
	return n
}
