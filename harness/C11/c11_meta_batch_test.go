package meta_test

// C11 (metadata store part) - install-batch boundaries of the streaming restore paths.
//
// The streaming importers (importHashSlotSnapshotReader behind ImportHashSlotSnapshotReader /
// ...ForRestore, and RestoreSnapshotWriter) install a stream in bounded batches: a batch is
// committed when it holds 1024 entries or 16 MiB of key+value bytes, and a final flush commits
// whatever is still staged - which is NOTHING when the last entry of the stream is the one
// that filled a batch. The small streams of the other sections (<= 10 entries) never reach a
// batch boundary, so everything that is specific to "the last batch was committed by the
// in-loop flush and the final flush had nothing to do" was unexplored. This file enumerates
// the input SHAPES around those boundaries (entry count = B-1, B, B+1, 2B, ...; last entry
// trips the byte threshold; last but one trips it) and, for every shape and streaming import
// API, every crash point x {kill, power} of the restore INCLUDING every crash point after the
// restore reported success (idle, and every FS call of the clean Close that follows): an
// acknowledged restore must be complete in every later image, every image must reopen, and a
// retried restore must converge to the clean result.

import (
	"bytes"
	"context"
	"fmt"
	"math/rand/v2"
	"os"
	"sort"
	"strings"
	"sync"
	"sync/atomic"
	"time"

	"github.com/WuKongIM/WuKongIM/pkg/db/meta"
	"github.com/WuKongIM/WuKongIM/pkg/zzverif/crashfs"
	"github.com/WuKongIM/WuKongIM/pkg/zzverif/ev"
	"github.com/cockroachdb/pebble/v2/vfs"
)

const (
	// The two install-batch limits of pkg/db/meta (unexported constants
	// slotSnapshotImportBatchEntries / slotSnapshotImportBatchBytes). The harness does not
	// trust these copies: guards below require that the kill images really show a state with
	// exactly vm11BatchEntries installed entries (first in-loop flush), resp. the state at the
	// byte-threshold flush.
	vm11BatchEntries = 1024
	vm11BatchBytes   = 16 << 20
)

// vm11Shape is one input shape of the restored stream.
type vm11Shape struct {
	name    string
	entries int  // exact entry count of the imported stream (entry-count shapes)
	big     bool // a run of users with maximal tokens whose LAST row reaches vm11BatchBytes (byte-threshold shapes)
	tail    bool // big: one more row follows the one that reaches the threshold
}

func vm11EntryShape(n int) vm11Shape {
	return vm11Shape{name: fmt.Sprintf("entries=%d", n), entries: n}
}

var (
	vm11ShapeBigLast  = vm11Shape{name: "bytes-last-entry-trips-threshold", big: true}
	vm11ShapeBigInner = vm11Shape{name: "bytes-last-but-one-entry-trips-threshold", big: true, tail: true}
)

// vm11WriterImporter drives RestoreSnapshotWriter (the "fresh slot" restore path: it never
// deletes, so it is run against an empty target).
var vm11WriterImporter = vm11Importer{name: "writer", business: true, run: func(d *vm11DB, data []byte) error {
	ctx := context.Background()
	w, err := d.db.MetaDB().NewRestoreSnapshotWriter(ctx, []uint16{vm11Slot}, false)
	if err != nil {
		return err
	}
	_, _, err = meta.ReplayBackupHashSlotSnapshot(ctx, bytes.NewReader(data), int64(len(data)), func(e meta.BackupSnapshotEntry) error {
		return w.Put(ctx, e.Key, e.Value)
	})
	cerr := w.Close()
	if err != nil {
		return err
	}
	return cerr
}}

func vm11ImporterByName(name string) (vm11Importer, bool) {
	if name == vm11WriterImporter.name {
		return vm11WriterImporter, true
	}
	for _, imp := range vm11Importers {
		if imp.name == name {
			return imp, true
		}
	}
	return vm11Importer{}, false
}

// vm11FlushPoints: the entry counts at which the in-loop flush of a streaming install fires
// for a stream with these entry sizes (only used to state the shapes and for vacuity guards).
func vm11FlushPoints(sizes []int) []int {
	var out []int
	entries, total := 0, 0
	for i, sz := range sizes {
		entries++
		total += sz
		if entries >= vm11BatchEntries || total >= vm11BatchBytes {
			out = append(out, i+1)
			entries, total = 0, 0
		}
	}
	return out
}

func vm11EntryCount(stream []byte) (int, error) {
	st, err := meta.VerifyBackupHashSlotSnapshotReader(context.Background(), []uint16{vm11Slot}, bytes.NewReader(stream), int64(len(stream)))
	return int(st.EntryCount), err
}

func vm11StreamOf(d *vm11DB, business bool) ([]byte, error) {
	ctx := context.Background()
	if business {
		return vm11ReadAll(d.db.OpenBackupHashSlotSnapshot(ctx, []uint16{vm11Slot}))
	}
	return vm11ReadAll(d.db.OpenHashSlotSnapshot(ctx, []uint16{vm11Slot}))
}

// vm11ShapeStream builds a real source database of the wanted shape through the typed API and
// returns the stream the importer consumes (full or backup export of the source).
func vm11ShapeStream(shape vm11Shape, business bool) ([]byte, []int, error) {
	// sections of the same shape share the (deterministic) source stream
	key := fmt.Sprintf("%s/%v", shape.name, business)
	vm11StreamMu.Lock()
	c := vm11StreamCache[key]
	if c == nil {
		c = &vm11CachedStream{}
		vm11StreamCache[key] = c
	}
	vm11StreamMu.Unlock()
	c.once.Do(func() { c.stream, c.sizes, c.err = vm11BuildShapeStream(shape, business) })
	return c.stream, c.sizes, c.err
}

type vm11CachedStream struct {
	once   sync.Once
	stream []byte
	sizes  []int
	err    error
}

var (
	vm11StreamMu    sync.Mutex
	vm11StreamCache = map[string]*vm11CachedStream{}
)

func vm11BuildShapeStream(shape vm11Shape, business bool) (stream []byte, sizes []int, err error) {
	ctx := context.Background()
	t0 := time.Now()
	dbg := func(what string) {
		if os.Getenv("VM11_DEBUG") != "" {
			fmt.Fprintf(os.Stderr, "DBG   build %s %s %.2fs\n", shape.name, what, time.Since(t0).Seconds())
		}
	}
	var src *vm11DB
	if shape.big {
		src, err = vm11Fresh()
		if err != nil {
			return nil, nil, err
		}
		defer src.close()
		s := src.db.ForHashSlot(vm11Slot)
		// value strings are limited to 65535 bytes, so the byte threshold is reached by a run
		// of users with maximal tokens; all rows have the same size, measured on the first one
		user := func(i int) meta.User {
			return meta.User{UID: fmt.Sprintf("p%04d", i), Token: strings.Repeat("t", 65535), DeviceFlag: 1, DeviceLevel: 1}
		}
		if err = s.UpsertUser(ctx, user(0)); err != nil {
			return nil, nil, err
		}
		one, serr := vm11StreamOf(src, business)
		if serr != nil {
			return nil, nil, serr
		}
		var rowBytes int
		_, _, err = meta.ReplayBackupHashSlotSnapshot(ctx, bytes.NewReader(one), int64(len(one)), func(e meta.BackupSnapshotEntry) error {
			rowBytes += len(e.Key) + len(e.Value)
			return nil
		})
		if err != nil {
			return nil, nil, err
		}
		n := (vm11BatchBytes + rowBytes - 1) / rowBytes // the n-th row reaches the threshold
		if shape.tail {
			n++
		}
		// 16 rows per commit for the rest (a synced commit per row costs a copy of the whole
		// write-ahead log on the in-memory volume each time; one commit for all rows is
		// quadratic in the typed batch)
		for lo := 1; lo < n; lo += 16 {
			wb := src.db.NewWriteBatch()
			for i := lo; i < n && i < lo+16; i++ {
				if err = wb.UpsertUser(vm11Slot, user(i)); err != nil {
					_ = wb.Close()
					return nil, nil, err
				}
			}
			err = wb.Commit()
			_ = wb.Close()
			if err != nil {
				return nil, nil, err
			}
		}
		dbg("committed")
	} else {
		in, berr := vm11Build([]string{"u1", "u2", "dev", "chan", "rtm"})
		if berr != nil {
			return nil, nil, berr
		}
		defer in.Close()
		src = in.src
		base, berr := vm11StreamOf(src, business)
		if berr != nil {
			return nil, nil, berr
		}
		c0, berr := vm11EntryCount(base)
		if berr != nil {
			return nil, nil, berr
		}
		k := shape.entries - c0
		if k < 0 {
			return nil, nil, fmt.Errorf("shape %s: the base table already has %d entries", shape.name, c0)
		}
		if k > 0 {
			uids := make([]string, k)
			for i := range uids {
				uids[i] = fmt.Sprintf("s%05d", i)
			}
			if err = src.db.ForHashSlot(vm11Slot).AddSubscribers(ctx, "g1", 2, uids, 3); err != nil {
				return nil, nil, err
			}
		}
	}
	stream, err = vm11StreamOf(src, business)
	if err != nil {
		return nil, nil, err
	}
	dbg("exported")
	_, _, err = meta.ReplayBackupHashSlotSnapshot(ctx, bytes.NewReader(stream), int64(len(stream)), func(e meta.BackupSnapshotEntry) error {
		sizes = append(sizes, len(e.Key)+len(e.Value))
		return nil
	})
	if err != nil {
		return nil, nil, err
	}
	flushes := vm11FlushPoints(sizes)
	switch {
	case !shape.big && len(sizes) != shape.entries:
		return nil, nil, fmt.Errorf("shape %s: built a stream of %d entries", shape.name, len(sizes))
	case shape.big && !shape.tail && !(len(flushes) == 1 && flushes[0] == len(sizes) && len(sizes) < vm11BatchEntries):
		return nil, nil, fmt.Errorf("shape %s: %d entries, byte threshold reached at %v", shape.name, len(sizes), flushes)
	case shape.big && shape.tail && !(len(flushes) == 1 && flushes[0] == len(sizes)-1 && len(sizes) < vm11BatchEntries):
		return nil, nil, fmt.Errorf("shape %s: %d entries, byte threshold reached at %v", shape.name, len(sizes), flushes)
	}
	return stream, sizes, nil
}

// vm11BoundaryResult collects what one (shape, importer) section wants to report; sections
// run concurrently and are reported in a fixed order afterwards.
type vm11BoundaryResult struct {
	emit []func(r *ev.R)
}

func (b *vm11BoundaryResult) add(f func(r *ev.R)) { b.emit = append(b.emit, f) }

func vm11BoundarySection(shape vm11Shape, imp vm11Importer) string {
	return "meta-restore-batch-boundary/" + shape.name + "/" + imp.name
}

// vm11Boundary: one restore of a stream of the given shape on a crash-capturing volume.
func vm11Boundary(shape vm11Shape, imp vm11Importer) *vm11BoundaryResult {
	out := &vm11BoundaryResult{}
	secName := vm11BoundarySection(shape, imp)
	start := time.Now()
	herr := func(format string, args ...any) *vm11BoundaryResult {
		msg := secName + ": " + fmt.Sprintf(format, args...)
		out.add(func(r *ev.R) { r.HarnessError("%s", msg) })
		return out
	}
	stale := imp.name != vm11WriterImporter.name // the writer is the fresh-slot path
	dbg := func(what string) {
		if os.Getenv("VM11_DEBUG") != "" {
			fmt.Fprintf(os.Stderr, "DBG %s %s %.2fs\n", secName, what, time.Since(start).Seconds())
		}
	}
	stream, sizes, err := vm11ShapeStream(shape, imp.business)
	if err != nil {
		return herr("%v", err)
	}
	dbg("stream built")
	prepare := func(d *vm11DB) error {
		if stale {
			return vm11Stale(d)
		}
		return nil
	}
	// reference: the same restore without a crash
	ref, err := vm11Fresh()
	if err != nil {
		return herr("%v", err)
	}
	if err = prepare(ref); err == nil {
		err = imp.run(ref, stream)
	}
	if err != nil {
		ref.close()
		return herr("clean restore failed: %v", err)
	}
	refState, err := vm11State(ref)
	var refStream []byte
	if err == nil {
		refStream, err = vm11StreamOf(ref, imp.business)
	}
	ref.close()
	if err != nil {
		return herr("%v", err)
	}
	refCount, err := vm11EntryCount(refStream)
	if err != nil {
		return herr("%v", err)
	}

	dbg("reference done")
	prefix, vol, err := vm11NewVolume()
	if err != nil {
		return herr("%v", err)
	}
	router := vm11Setup()
	defer router.Unmount(prefix)
	db, err := meta.Open(prefix + "/db")
	if err != nil {
		return herr("%v", err)
	}
	tgt := &vm11DB{prefix: prefix, vol: vol, db: db}
	if err := prepare(tgt); err != nil {
		_ = db.Close()
		return herr("%v", err)
	}
	staleState, err := vm11State(tgt)
	if err != nil {
		_ = db.Close()
		return herr("%v", err)
	}
	var acked atomic.Int64
	vol.Meta = func() any { return acked.Load() }
	filtered := false
	if shape.big && !imp.tokens {
		// 16 MiB travel through the write-ahead log in ~512 block writes and, after the
		// acknowledgement, through the memtable flush of the clean Close in ~200 more; an image
		// is two copies of the whole volume. For this shape the write calls are not captured:
		// every create / sync / rename / remove / ... is, and so are "idle" and "closed".
		filtered = true
		vol.Filter = func(_ int, op string) bool {
			return !(strings.HasPrefix(op, "write ") || strings.HasPrefix(op, "writeat "))
		}
	}
	vol.Start()
	ierr := imp.run(tgt, stream)
	if ierr == nil {
		acked.Store(1)
		// every later point: idle, and every FS call of the clean Close that follows
		vol.Snapshot("idle")
	}
	cerr := db.Close()
	vol.Stop()
	if ierr != nil {
		return herr("restore on the capturing volume failed: %v", ierr)
	}
	if cerr != nil {
		return herr("close after the restore failed: %v", cerr)
	}
	vol.Snapshot("closed")
	images := vol.Images()
	dbg(fmt.Sprintf("captured %d images", len(images)))

	var evals, distinct, inflight, afterAck, intermediate int64
	seen := map[string]bool{}
	killCounts := map[int]bool{}
	violate := func(fp, format string, args ...any) {
		v := ev.Violation{Fingerprint: fp, Message: secName + ": " + fmt.Sprintf(format, args...), System: secName,
			Replay: map[string]any{"section": secName, "shape": shape.name, "importer": imp.name}}
		out.add(func(r *ev.R) { r.Violation(v) })
	}
	for _, img := range images {
		done, _ := img.Meta.(int64)
		for _, mode := range []string{"kill", "power"} {
			mem := img.Kill
			if mode == "power" {
				mem = img.Power
			}
			evals++
			if done == 0 {
				inflight++
			} else {
				afterAck++
			}
			key := vm11ImageHash(mem, prefix) + fmt.Sprint(done)
			if seen[key] {
				continue
			}
			seen[key] = true
			distinct++
			where := fmt.Sprintf("crash point %d (before %q), %s image", img.K, img.Op, mode)
			if done == 1 {
				where += ", after the restore had returned success"
			}
			cp := mem.CrashClone(vfs.CrashCloneCfg{UnsyncedDataPercent: 100, RNG: rand.New(rand.NewPCG(1, 2))})
			router.Mount(prefix, crashfs.FromImage(cp))
			db2, err := meta.Open(prefix + "/db")
			if err != nil {
				violate("C11:meta-restore-target-does-not-reopen-after-"+mode, "%s: %v", where, err)
				continue
			}
			d2 := &vm11DB{prefix: prefix, db: db2}
			st, err := vm11State(d2)
			if err != nil {
				violate("C11:meta-restore-target-unreadable-after-"+mode, "%s: %v", where, err)
				_ = db2.Close()
				continue
			}
			got := -1
			if cur, err := vm11StreamOf(d2, imp.business); err == nil {
				if n, err := vm11EntryCount(cur); err == nil {
					got = n
				}
			}
			if mode == "kill" {
				killCounts[got] = true
			}
			if done == 1 && st != refState {
				violate("C11:meta-acknowledged-import-incomplete-after-"+mode,
					"%s: the restore of a %d-entry stream had returned success but the reopened hash slot re-exports %d of %d entries (%s) and nothing will retry it",
					where, len(sizes), got, refCount, map[bool]string{true: "the old generation is gone, the last install batch is missing", false: "the last install batch is missing"}[stale])
			}
			if st != refState && st != staleState {
				intermediate++
			}
			if err := imp.run(d2, stream); err != nil {
				violate("C11:meta-restore-retry-fails", "%s: retrying the restore: %v", where, err)
				_ = db2.Close()
				continue
			}
			st2, err := vm11State(d2)
			_ = db2.Close()
			if err != nil {
				msg := fmt.Sprintf("%s: %s: %v", secName, where, err)
				out.add(func(r *ev.R) { r.HarnessError("%s", msg) })
				continue
			}
			if st2 != refState {
				violate("C11:meta-restore-retry-does-not-converge", "%s: after the retry the hash slot differs from a clean restore", where)
			}
		}
	}
	dbg(fmt.Sprintf("reopened %d distinct", distinct))
	var counts []int
	for n := range killCounts {
		counts = append(counts, n)
	}
	sort.Ints(counts)
	// vacuity: the kill images must show the install really proceeding in batches of
	// vm11BatchEntries entries / really flushing where the byte threshold is reached
	want := vm11FlushPoints(sizes)
	if len(want) == 0 || want[len(want)-1] != len(sizes) {
		want = append(want, len(sizes))
	}
	if stale {
		want = append([]int{0}, want...) // old generation deleted, nothing installed yet
	}
	missing := []int{}
	for _, n := range want {
		if !killCounts[n] {
			missing = append(missing, n)
		}
	}
	sec := ev.Section{Name: secName, Kind: "crash", Evaluations: evals, Distinct: inflight, Validated: distinct, Exhaustive: true,
		Bounds: map[string]any{"shape": shape.name, "stream_entries": len(sizes), "stream_bytes": len(stream), "pre_populated_target": stale,
			"crash_points": len(images), "images_after_acknowledgement": afterAck, "distinct_disk_contents": distinct,
			"contents_in_an_intermediate_state": intermediate, "entry_counts_seen_in_kill_images": counts,
			"write_calls_captured": !filtered},
		Note:  "one restore of a stream of this shape on a crash-capturing volume; every crash point x {kill, power} up to and including the clean Close after the acknowledgement; each distinct disk content is reopened, compared with the clean restore when the restore had been acknowledged, and the restore retried",
		WallS: time.Since(start).Seconds()}
	gname := secName
	nIn, nAfter, wantCopy, countsCopy := inflight, afterAck, append([]int(nil), want...), counts
	out.add(func(r *ev.R) {
		r.Section(sec)
		r.Guard(gname+"/inflight-images", nIn >= 2, "%d images captured while the restore was running", nIn)
		r.Guard(gname+"/images-after-acknowledgement", nAfter >= 2, "%d images captured after the restore had returned success", nAfter)
		r.Guard(gname+"/batch-boundary-states-visible", len(missing) == 0, "installed entry counts seen in kill images %v, wanted %v (missing %v)", countsCopy, wantCopy, missing)
	})
	return out
}

type vm11BoundaryJob struct {
	shape vm11Shape
	imp   vm11Importer
	heavy bool // moves 16 MiB through the capturing volume: run alone
}

func vm11BoundaryJobs(r *ev.R) []vm11BoundaryJob {
	reader, restore, clear := vm11Importers[1], vm11Importers[2], vm11Importers[3]
	B := vm11BatchEntries
	var jobs []vm11BoundaryJob
	counts := []int{B - 1, B, B + 1, 2 * B}
	imps := []vm11Importer{reader, clear, vm11WriterImporter}
	if r.Thorough() {
		counts = []int{B - 1, B, B + 1, 2*B - 1, 2 * B, 2*B + 1, 3 * B}
		imps = []vm11Importer{reader, restore, clear, vm11WriterImporter}
	}
	// byte threshold: the token-clearing restore counts the ORIGINAL value size against the
	// threshold but stages the rewritten (token-less) row, so it is cheap on the capturing
	// volume (first in the list: building the 16 MiB sources takes longest)
	jobs = append(jobs, vm11BoundaryJob{shape: vm11ShapeBigLast, imp: clear})
	jobs = append(jobs, vm11BoundaryJob{shape: vm11ShapeBigInner, imp: clear})
	for _, n := range counts {
		for _, imp := range imps {
			jobs = append(jobs, vm11BoundaryJob{shape: vm11EntryShape(n), imp: imp})
		}
	}
	if r.Thorough() {
		// the other paths stage the 16 MiB they count
		jobs = append(jobs, vm11BoundaryJob{shape: vm11ShapeBigLast, imp: reader, heavy: true})
		jobs = append(jobs, vm11BoundaryJob{shape: vm11ShapeBigInner, imp: reader, heavy: true})
		jobs = append(jobs, vm11BoundaryJob{shape: vm11ShapeBigLast, imp: restore, heavy: true})
		jobs = append(jobs, vm11BoundaryJob{shape: vm11ShapeBigLast, imp: vm11WriterImporter, heavy: true})
	}
	return jobs
}

func vm11Boundaries(r *ev.R, only string) {
	jobs := vm11BoundaryJobs(r)
	if f := os.Getenv("VM11_JOB"); f != "" {
		var sel []vm11BoundaryJob
		for _, j := range jobs {
			if strings.Contains(vm11BoundarySection(j.shape, j.imp), f) {
				sel = append(sel, j)
			}
		}
		jobs = sel
	}
	if only != "" {
		var sel []vm11BoundaryJob
		for _, j := range jobs {
			if vm11BoundarySection(j.shape, j.imp) == only {
				sel = append(sel, j)
			}
		}
		if len(sel) == 0 {
			// a section of the other tier
			parts := strings.Split(only, "/")
			if len(parts) == 3 {
				if imp, ok := vm11ImporterByName(parts[2]); ok {
					for _, sh := range []vm11Shape{vm11ShapeBigLast, vm11ShapeBigInner} {
						if sh.name == parts[1] {
							sel = append(sel, vm11BoundaryJob{shape: sh, imp: imp, heavy: true})
						}
					}
					var n int
					if _, err := fmt.Sscanf(parts[1], "entries=%d", &n); err == nil && n > 0 {
						sel = append(sel, vm11BoundaryJob{shape: vm11EntryShape(n), imp: imp})
					}
				}
			}
		}
		jobs = sel
	}
	results := make([]*vm11BoundaryResult, len(jobs))
	sem := make(chan struct{}, 4)
	var wg sync.WaitGroup
	for i, j := range jobs {
		if j.heavy {
			continue
		}
		i, j := i, j
		wg.Add(1)
		sem <- struct{}{}
		go func() {
			defer wg.Done()
			defer func() { <-sem }()
			results[i] = vm11Boundary(j.shape, j.imp)
		}()
	}
	wg.Wait()
	for i, j := range jobs {
		if j.heavy {
			results[i] = vm11Boundary(j.shape, j.imp)
		}
	}
	vm11StreamMu.Lock()
	vm11StreamCache = map[string]*vm11CachedStream{}
	vm11StreamMu.Unlock()
	shapes := map[string]bool{}
	for i, j := range jobs {
		shapes[j.shape.name] = true
		for _, f := range results[i].emit {
			f(r)
		}
	}
	if only == "" {
		var names []string
		for n := range shapes {
			names = append(names, n)
		}
		sort.Strings(names)
		r.Sample(map[string]any{"section": "meta-restore-batch-boundary", "shapes": names, "sections": len(jobs),
			"batch_entries": vm11BatchEntries, "batch_bytes": vm11BatchBytes})
		r.Assume("install-batch limits of the streaming metadata restore: 1024 entries / 16 MiB (harness copies of unexported constants, cross-checked by the batch-boundary-states-visible guards)")
	}
}
