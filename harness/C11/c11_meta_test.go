package meta_test

// C11 (metadata store part) - hash-slot snapshot export / import fidelity.
//
// E1: every short history over a small metadata table (users, device, channel,
// subscribers, runtime routing row, a row in a neighbour hash slot); in every state all
// export formats are imported into fresh and pre-populated databases through every import
// API and re-exported byte-identically. E2: every truncation and every offset x 4 byte
// mutations of one exported stream must be rejected with the target untouched (also with a
// re-sealed checksum: rejected => untouched). E4: an import on a crash-capturing volume,
// every crash image -> reopen -> retry -> same final export.

import (
	"bytes"
	"context"
	"encoding/binary"
	"encoding/json"
	"errors"
	"fmt"
	"hash/crc32"
	"io"
	"math/rand/v2"
	"os"
	"os/exec"
	"path/filepath"
	"sort"
	"strings"
	"sync"
	"sync/atomic"
	"testing"
	"time"

	"github.com/WuKongIM/WuKongIM/pkg/db/internal/engine"
	"github.com/WuKongIM/WuKongIM/pkg/db/meta"
	"github.com/WuKongIM/WuKongIM/pkg/zzverif/crashfs"
	"github.com/WuKongIM/WuKongIM/pkg/zzverif/ev"
	"github.com/WuKongIM/WuKongIM/pkg/zzverif/mc"
	"github.com/cockroachdb/pebble/v2"
	"github.com/cockroachdb/pebble/v2/vfs"
)

type vm11Quiet struct{}

func (vm11Quiet) Infof(string, ...interface{})  {}
func (vm11Quiet) Errorf(string, ...interface{}) {}
func (vm11Quiet) Fatalf(format string, args ...interface{}) {
	panic("pebble fatal: " + fmt.Sprintf(format, args...))
}

var (
	vm11Once     sync.Once
	vm11Router   *crashfs.Router
	vm11MountSeq atomic.Int64
)

func vm11Setup() *crashfs.Router {
	vm11Once.Do(func() {
		vm11Router = crashfs.NewRouter()
		engine.VerifFS = vm11Router
		engine.VerifTweak = func(o *pebble.Options) { o.Logger = vm11Quiet{} }
	})
	return vm11Router
}

const (
	vm11Slot  = uint16(7)
	vm11Other = uint16(9)
)

// vm11DB is one real metadata DB on its own in-memory volume (one DB per live instance:
// the package's commits go through a group-commit coordinator).
type vm11DB struct {
	prefix string
	vol    *crashfs.Volume
	db     *meta.DB
}

func vm11NewVolume() (string, *crashfs.Volume, error) {
	r := vm11Setup()
	prefix := fmt.Sprintf("/vm11m%d", vm11MountSeq.Add(1))
	vol := crashfs.NewVolume()
	r.Mount(prefix, vol)
	if err := vol.MkdirAllSynced(prefix + "/db"); err != nil {
		r.Unmount(prefix)
		return "", nil, err
	}
	return prefix, vol, nil
}

func vm11Fresh() (*vm11DB, error) {
	prefix, vol, err := vm11NewVolume()
	if err != nil {
		return nil, err
	}
	db, err := meta.Open(prefix + "/db")
	if err != nil {
		vm11Setup().Unmount(prefix)
		return nil, err
	}
	return &vm11DB{prefix: prefix, vol: vol, db: db}, nil
}

func (d *vm11DB) close() {
	if d.db != nil {
		_ = d.db.Close()
		d.db = nil
	}
	vm11Setup().Unmount(d.prefix)
}

// ---------------------------------------------------------------- model + events

type vm11Model struct {
	U1    string // "", "ta", "tb" (token)
	U2    bool
	Dev   string // "", "dt", "du"
	Chan  int    // 0 absent, 1 present, 2 present + banned
	Subs  int    // 0 none, 2 = {u1,u2}, 1 = {u2}
	RTM   int    // runtime routing row: 0 absent, 1 epoch 1, 2 epoch 2
	Other bool   // a user in the neighbour hash slot
}

func (m vm11Model) canon() string { return fmt.Sprintf("%+v", m) }

type vm11Inst struct {
	src *vm11DB
	m   vm11Model
	err error
}

func vm11NewInst() mc.Instance {
	in := &vm11Inst{}
	in.src, in.err = vm11Fresh()
	return in
}

func (in *vm11Inst) Close() {
	if in.src != nil {
		in.src.close()
		in.src = nil
	}
}

func (in *vm11Inst) Events() []string {
	evs := []string{"u1", "u2", "chan"}
	if in.m.Dev != "du" {
		evs = append(evs, "dev")
	}
	if in.m.Chan != 0 {
		if in.m.Subs == 0 {
			evs = append(evs, "sub")
		}
		if in.m.Subs == 2 {
			evs = append(evs, "unsub")
		}
	}
	if in.m.RTM < 2 {
		evs = append(evs, "rtm")
	}
	evs = append(evs, "other")
	return evs
}

func vm11RTM(epoch uint64) meta.ChannelRuntimeMeta {
	return meta.ChannelRuntimeMeta{ChannelID: "g1", ChannelType: 2, ChannelEpoch: epoch, LeaderEpoch: epoch, RouteGeneration: epoch,
		Replicas: []uint64{1, 2, 3}, ISR: []uint64{1, 2, 3}, Leader: 1, MinISR: 2, Status: 1}
}

func (in *vm11Inst) Apply(ev string, _ *mc.Env) (string, error) {
	if in.err != nil {
		return "", fmt.Errorf("harness: cannot open source db: %v", in.err)
	}
	ctx := context.Background()
	s := in.src.db.ForHashSlot(vm11Slot)
	var err error
	switch ev {
	case "u1":
		switch in.m.U1 {
		case "":
			err = s.CreateUser(ctx, meta.User{UID: "u1", Token: "ta", DeviceFlag: 1, DeviceLevel: 1})
			in.m.U1 = "ta"
		case "ta":
			err = s.UpdateUser(ctx, meta.User{UID: "u1", Token: "tb", DeviceFlag: 2, DeviceLevel: 0})
			in.m.U1 = "tb"
		default:
			err = s.DeleteUser(ctx, "u1")
			in.m.U1 = ""
		}
	case "u2":
		if !in.m.U2 {
			err = s.UpsertUser(ctx, meta.User{UID: "u2", Token: "", DeviceFlag: 0, DeviceLevel: 1})
		} else {
			err = s.DeleteUser(ctx, "u2")
		}
		in.m.U2 = !in.m.U2
	case "dev":
		if in.m.Dev == "" {
			err = s.UpsertDevice(ctx, meta.Device{UID: "u1", DeviceFlag: 1, Token: "dt", DeviceLevel: 1})
			in.m.Dev = "dt"
		} else {
			err = s.UpsertDevice(ctx, meta.Device{UID: "u1", DeviceFlag: 1, Token: "du", DeviceLevel: 0})
			in.m.Dev = "du"
		}
	case "chan":
		switch in.m.Chan {
		case 0:
			err = s.CreateChannel(ctx, meta.Channel{ChannelID: "g1", ChannelType: 2, AllowStranger: 1})
			in.m.Chan = 1
		case 1:
			err = s.UpdateChannel(ctx, meta.Channel{ChannelID: "g1", ChannelType: 2, Ban: 1, AllowStranger: 1})
			in.m.Chan = 2
		default:
			err = s.DeleteChannel(ctx, "g1", 2)
			in.m.Chan = 0
			in.m.Subs = -1 // whatever the delete does to subscriber rows is read back below
		}
	case "sub":
		err = s.AddSubscribers(ctx, "g1", 2, []string{"u2", "u1"}, 3)
		in.m.Subs = 2
	case "unsub":
		err = s.RemoveSubscribers(ctx, "g1", 2, []string{"u1"}, 4)
		in.m.Subs = 1
	case "rtm":
		in.m.RTM++
		err = s.UpsertChannelRuntimeMeta(ctx, vm11RTM(uint64(in.m.RTM)))
	case "other":
		o := in.src.db.ForHashSlot(vm11Other)
		if !in.m.Other {
			err = o.UpsertUser(ctx, meta.User{UID: "u1", Token: "other", DeviceFlag: 9})
		} else {
			err = o.DeleteUser(ctx, "u1")
		}
		in.m.Other = !in.m.Other
	default:
		return "", fmt.Errorf("harness: unknown event %s", ev)
	}
	if err != nil {
		return "", mc.Violatef("C11:history-step-refused:meta-"+ev, "metadata write %s refused: %v", ev, err)
	}
	if in.m.Subs == -1 {
		// deleting the channel: the model follows what the store reports for subscribers
		subs, _ := s.ListSubscribersSnapshot(ctx, "g1", 2)
		switch len(subs) {
		case 0:
			in.m.Subs = 0
		case 1:
			in.m.Subs = 1
		default:
			in.m.Subs = 2
		}
	}
	return ev, nil
}

func (in *vm11Inst) Canon() string { return in.m.canon() }

func vm11ErrLine(err error) string {
	switch {
	case err == nil:
		return "ok"
	case errors.Is(err, meta.ErrNotFound):
		return "absent"
	default:
		return "err(" + err.Error() + ")"
	}
}

// vm11Observe reads the menu of rows through the API. clearTokens renders what a restore
// with token invalidation must produce from it.
func vm11Observe(d *vm11DB, business bool) []string {
	ctx := context.Background()
	s := d.db.ForHashSlot(vm11Slot)
	var out []string
	for _, uid := range []string{"u1", "u2"} {
		u, err := s.GetUser(ctx, uid)
		if err != nil {
			out = append(out, fmt.Sprintf("user[%s]=%s", uid, vm11ErrLine(err)))
		} else {
			out = append(out, fmt.Sprintf("user[%s]=%+v", uid, u))
		}
	}
	if dv, err := s.GetDevice(ctx, "u1", 1); err != nil {
		out = append(out, "device="+vm11ErrLine(err))
	} else {
		out = append(out, fmt.Sprintf("device=%+v", dv))
	}
	if ch, err := s.GetChannel(ctx, "g1", 2); err != nil {
		out = append(out, "channel="+vm11ErrLine(err))
	} else {
		out = append(out, fmt.Sprintf("channel=%+v", ch))
	}
	if subs, err := s.ListSubscribersSnapshot(ctx, "g1", 2); err != nil {
		out = append(out, "subs="+vm11ErrLine(err))
	} else {
		sort.Strings(subs)
		out = append(out, fmt.Sprintf("subs=%v", subs))
	}
	if !business {
		if rt, err := s.GetChannelRuntimeMeta(ctx, "g1", 2); err != nil {
			out = append(out, "rtm="+vm11ErrLine(err))
		} else {
			out = append(out, fmt.Sprintf("rtm=%d/%d/%v", rt.ChannelEpoch, rt.RouteGeneration, rt.Replicas))
		}
	}
	if u, err := d.db.ForHashSlot(vm11Other).GetUser(ctx, "u1"); err != nil {
		out = append(out, "other="+vm11ErrLine(err))
	} else {
		out = append(out, fmt.Sprintf("other=%+v", u))
	}
	return out
}

func vm11ExpectSource(m vm11Model) []string {
	var out []string
	switch m.U1 {
	case "":
		out = append(out, "user[u1]=absent")
	case "ta":
		out = append(out, fmt.Sprintf("user[u1]=%+v", meta.User{UID: "u1", Token: "ta", DeviceFlag: 1, DeviceLevel: 1}))
	default:
		out = append(out, fmt.Sprintf("user[u1]=%+v", meta.User{UID: "u1", Token: "tb", DeviceFlag: 2}))
	}
	if m.U2 {
		out = append(out, fmt.Sprintf("user[u2]=%+v", meta.User{UID: "u2", DeviceLevel: 1}))
	} else {
		out = append(out, "user[u2]=absent")
	}
	switch m.Dev {
	case "":
		out = append(out, "device=absent")
	case "dt":
		out = append(out, fmt.Sprintf("device=%+v", meta.Device{UID: "u1", DeviceFlag: 1, Token: "dt", DeviceLevel: 1}))
	default:
		out = append(out, fmt.Sprintf("device=%+v", meta.Device{UID: "u1", DeviceFlag: 1, Token: "du"}))
	}
	return out
}

func vm11Diff(want, got []string) string {
	n := len(want)
	if len(got) > n {
		n = len(got)
	}
	for i := 0; i < n; i++ {
		w, g := "<none>", "<none>"
		if i < len(want) {
			w = want[i]
		}
		if i < len(got) {
			g = got[i]
		}
		if w != g {
			return fmt.Sprintf("want %q got %q", w, g)
		}
	}
	return ""
}

func vm11Kind(diff string) string {
	i := strings.Index(diff, "\"")
	if i < 0 {
		return "state"
	}
	s := diff[i+1:]
	if j := strings.IndexAny(s, "=["); j >= 0 {
		s = s[:j]
	}
	return s
}

// ---------------------------------------------------------------- export / import helpers

func vm11ReadAll(rd io.ReadCloser, err error) ([]byte, error) {
	if err != nil {
		return nil, err
	}
	data, rerr := io.ReadAll(rd)
	cerr := rd.Close()
	if rerr != nil {
		return nil, rerr
	}
	return data, cerr
}

type vm11Exports struct {
	full   []byte // ExportHashSlotSnapshot / OpenHashSlotSnapshot
	backup []byte // OpenBackupHashSlotSnapshot (business + recovery-critical rows only)
	other  []byte // full export of the neighbour slot
}

func vm11Export(d *vm11DB) (vm11Exports, error) {
	ctx := context.Background()
	var x vm11Exports
	snap, err := d.db.ExportHashSlotSnapshot(ctx, []uint16{vm11Slot})
	if err != nil {
		return x, fmt.Errorf("ExportHashSlotSnapshot: %w", err)
	}
	x.full = snap.Data
	stream, err := vm11ReadAll(d.db.OpenHashSlotSnapshot(ctx, []uint16{vm11Slot}))
	if err != nil {
		return x, fmt.Errorf("OpenHashSlotSnapshot: %w", err)
	}
	if !bytes.Equal(stream, x.full) {
		return x, fmt.Errorf("OpenHashSlotSnapshot (%d bytes) and ExportHashSlotSnapshot (%d bytes) differ", len(stream), len(x.full))
	}
	if snap.Stats.Bytes != len(x.full) {
		return x, fmt.Errorf("snapshot stats say %d bytes, payload has %d", snap.Stats.Bytes, len(x.full))
	}
	x.backup, err = vm11ReadAll(d.db.OpenBackupHashSlotSnapshot(ctx, []uint16{vm11Slot}))
	if err != nil {
		return x, fmt.Errorf("OpenBackupHashSlotSnapshot: %w", err)
	}
	o, err := d.db.ExportHashSlotSnapshot(ctx, []uint16{vm11Other})
	if err != nil {
		return x, fmt.Errorf("ExportHashSlotSnapshot(other): %w", err)
	}
	x.other = o.Data
	return x, nil
}

type vm11Importer struct {
	name     string
	business bool // imports the backup-only stream
	tokens   bool // clears authentication tokens
	run      func(d *vm11DB, data []byte) error
}

var vm11Importers = []vm11Importer{
	{name: "snapshot", run: func(d *vm11DB, data []byte) error {
		return d.db.ImportHashSlotSnapshot(context.Background(), meta.SlotSnapshot{HashSlots: []uint16{vm11Slot}, Data: data})
	}},
	{name: "reader", run: func(d *vm11DB, data []byte) error {
		return d.db.MetaDB().ImportHashSlotSnapshotReader(context.Background(), []uint16{vm11Slot}, bytes.NewReader(data), int64(len(data)))
	}},
	{name: "restore", business: true, run: func(d *vm11DB, data []byte) error {
		_, err := d.db.ImportHashSlotSnapshotReaderForRestoreWithStats(context.Background(), []uint16{vm11Slot}, bytes.NewReader(data), int64(len(data)), false)
		return err
	}},
	{name: "restore-clear-tokens", business: true, tokens: true, run: func(d *vm11DB, data []byte) error {
		return d.db.ImportHashSlotSnapshotReaderForRestore(context.Background(), []uint16{vm11Slot}, bytes.NewReader(data), int64(len(data)), true)
	}},
}

// vm11Stale pre-populates a target with rows the import must replace (slot 7) and rows it
// must not touch (slot 9).
func vm11Stale(d *vm11DB) error {
	ctx := context.Background()
	s := d.db.ForHashSlot(vm11Slot)
	if err := s.UpsertUser(ctx, meta.User{UID: "u2", Token: "stale", DeviceFlag: 5}); err != nil {
		return err
	}
	if err := s.UpsertUser(ctx, meta.User{UID: "zz", Token: "stale"}); err != nil {
		return err
	}
	if err := s.CreateChannel(ctx, meta.Channel{ChannelID: "g1", ChannelType: 2, SendBan: 1}); err != nil {
		return err
	}
	if err := s.AddSubscribers(ctx, "g1", 2, []string{"zz"}, 1); err != nil {
		return err
	}
	return d.db.ForHashSlot(vm11Other).UpsertUser(ctx, meta.User{UID: "keep", Token: "mine"})
}

func vm11ClearTokens(lines []string) []string {
	out := append([]string(nil), lines...)
	for i, l := range out {
		if strings.HasPrefix(l, "user[") || strings.HasPrefix(l, "device=") {
			if j := strings.Index(l, "Token:"); j >= 0 {
				k := strings.Index(l[j:], " ")
				if k < 0 {
					k = strings.Index(l[j:], "}")
				}
				out[i] = l[:j] + "Token:" + l[j+k:]
			}
		}
	}
	return out
}

// Check: the round-trip oracle, in every state.
func (in *vm11Inst) Check() error {
	if in.err != nil {
		return fmt.Errorf("harness: cannot open source db: %v", in.err)
	}
	srcLines := vm11Observe(in.src, false)
	if d := vm11Diff(vm11ExpectSource(in.m), srcLines[:3]); d != "" {
		return mc.Violatef("C11:source-differs-from-model:meta-"+vm11Kind(d), "source metadata differs from the reference model: %s", d)
	}
	x, err := vm11Export(in.src)
	if err != nil {
		return mc.Violatef("C11:meta-export-fails", "%v", err)
	}
	srcBusiness := vm11Observe(in.src, true)
	for _, imp := range vm11Importers {
		for _, stale := range []bool{false, true} {
			if err := vm11RoundTrip(imp, stale, x, srcLines, srcBusiness); err != nil {
				return err
			}
		}
	}
	return nil
}

func vm11RoundTrip(imp vm11Importer, stale bool, x vm11Exports, srcLines, srcBusiness []string) error {
	what := fmt.Sprintf("import via %s into a %s target", imp.name, map[bool]string{false: "fresh", true: "pre-populated"}[stale])
	dst, err := vm11Fresh()
	if err != nil {
		return fmt.Errorf("harness: cannot open target db: %v", err)
	}
	defer dst.close()
	if stale {
		if err := vm11Stale(dst); err != nil {
			return fmt.Errorf("harness: cannot pre-populate target: %v", err)
		}
	}
	otherBefore, err := dst.db.ExportHashSlotSnapshot(context.Background(), []uint16{vm11Other})
	if err != nil {
		return fmt.Errorf("harness: %v", err)
	}
	stream := x.full
	if imp.business {
		stream = x.backup
	}
	if err := imp.run(dst, stream); err != nil {
		return mc.Violatef("C11:meta-import-of-own-export-fails:"+imp.name, "%s failed: %v", what, err)
	}
	y, err := vm11Export(dst)
	if err != nil {
		return mc.Violatef("C11:meta-re-export-fails", "%s: %v", what, err)
	}
	if !bytes.Equal(y.other, otherBefore.Data) {
		return mc.Violatef("C11:meta-import-touches-other-hash-slot", "%s changed the neighbour hash slot", what)
	}
	want := srcLines
	if imp.business {
		want = srcBusiness
	}
	got := vm11Observe(dst, imp.business)
	// the neighbour slot of the target is its own
	want = append(append([]string(nil), want[:len(want)-1]...), got[len(got)-1])
	if imp.tokens {
		want = vm11ClearTokens(want)
	}
	if d := vm11Diff(want, got); d != "" {
		return mc.Violatef("C11:meta-restored-content-differs:"+vm11Kind(d), "%s: restored metadata differs from the source: %s", what, d)
	}
	switch {
	case imp.tokens:
		// tokens were rewritten on the way in: the re-export is the token-less image of the
		// stream, and importing THAT again must be a fixed point
		dst2, err := vm11Fresh()
		if err != nil {
			return fmt.Errorf("harness: cannot open target db: %v", err)
		}
		defer dst2.close()
		if err := imp.run(dst2, y.backup); err != nil {
			return mc.Violatef("C11:meta-import-of-own-export-fails:"+imp.name, "%s (second generation) failed: %v", what, err)
		}
		z, err := vm11Export(dst2)
		if err != nil {
			return mc.Violatef("C11:meta-re-export-fails", "%s: %v", what, err)
		}
		if !bytes.Equal(z.backup, y.backup) {
			return mc.Violatef("C11:meta-re-export-differs:"+imp.name, "%s: token-less re-export is not a fixed point", what)
		}
	case imp.business:
		if !bytes.Equal(y.backup, x.backup) {
			return mc.Violatef("C11:meta-re-export-differs:"+imp.name, "%s: backup re-export differs (%d vs %d bytes)", what, len(y.backup), len(x.backup))
		}
	default:
		if !bytes.Equal(y.full, x.full) {
			return mc.Violatef("C11:meta-re-export-differs:"+imp.name, "%s: re-export differs (%d vs %d bytes)", what, len(y.full), len(x.full))
		}
	}
	return nil
}

// ---------------------------------------------------------------- corruption

type vm11Case struct {
	label string
	data  []byte
}

func vm11Mutations(stream []byte, reseal bool) []vm11Case {
	var out []vm11Case
	n := len(stream)
	if !reseal {
		for l := 0; l < n; l++ {
			out = append(out, vm11Case{label: fmt.Sprintf("trunc@%d", l), data: append([]byte(nil), stream[:l]...)})
		}
	}
	limit := n
	if reseal {
		limit = n - 4
	}
	for off := 0; off < limit; off++ {
		orig := stream[off]
		for k, nb := range []byte{orig ^ 0x01, orig ^ 0x80, 0x00, 0xFF} {
			if nb == orig {
				continue
			}
			d := append([]byte(nil), stream...)
			d[off] = nb
			if reseal {
				binary.BigEndian.PutUint32(d[n-4:], crc32.ChecksumIEEE(d[:n-4]))
			}
			out = append(out, vm11Case{label: fmt.Sprintf("%s@%d", []string{"bit0", "bit7", "zero", "ff"}[k], off), data: d})
		}
	}
	return out
}

func vm11Build(history []string) (*vm11Inst, error) {
	in := vm11NewInst().(*vm11Inst)
	if in.err != nil {
		return nil, in.err
	}
	for _, e := range history {
		if _, err := in.Apply(e, nil); err != nil {
			in.Close()
			return nil, err
		}
	}
	return in, nil
}

func vm11State(d *vm11DB) (string, error) {
	a, err := d.db.ExportHashSlotSnapshot(context.Background(), []uint16{vm11Slot})
	if err != nil {
		return "", err
	}
	b, err := d.db.ExportHashSlotSnapshot(context.Background(), []uint16{vm11Other})
	if err != nil {
		return "", err
	}
	return string(a.Data) + "|" + string(b.Data), nil
}

// vm11CaseResult is the outcome of importing one mutated stream into one target.
type vm11CaseResult struct {
	Idx     int    `json:"idx"`
	Label   string `json:"label"`
	Target  string `json:"target"`
	Outcome string `json:"outcome"` // rejected | accepted | partially-applied | corrupted-accepted | panic
	Detail  string `json:"detail,omitempty"`
}

type vm11Target struct {
	name     string
	d        *vm11DB
	state    string
	baseline []byte // full export of the target hash slot in its baseline state
}

func vm11FreshTarget(stale bool) (*vm11Target, error) {
	d, err := vm11Fresh()
	if err != nil {
		return nil, err
	}
	t := &vm11Target{name: "empty", d: d}
	if stale {
		t.name = "populated"
		if err := vm11Stale(d); err != nil {
			d.close()
			return nil, err
		}
	}
	t.state, err = vm11State(d)
	if err != nil {
		d.close()
		return nil, err
	}
	snap, err := d.db.ExportHashSlotSnapshot(context.Background(), []uint16{vm11Slot})
	if err != nil {
		d.close()
		return nil, err
	}
	t.baseline = snap.Data
	return t, nil
}

// vm11RunCases imports cases[from:] through imp into an empty and a populated target and
// reports every outcome. before is called with the case index before each import (the
// child process uses it to leave a trace of the case that kills it).
func vm11RunCases(imp vm11Importer, cases []vm11Case, from int, reseal bool, before func(int), emit func(vm11CaseResult)) error {
	var targets []*vm11Target
	defer func() {
		for _, t := range targets {
			t.d.close()
		}
	}()
	for _, stale := range []bool{false, true} {
		t, err := vm11FreshTarget(stale)
		if err != nil {
			return err
		}
		targets = append(targets, t)
	}
	for idx := from; idx < len(cases); idx++ {
		c := cases[idx]
		if before != nil {
			before(idx)
		}
		if (idx-from)%64 == 63 {
			// every import leaves range tombstones behind; start over on fresh databases
			// before scans of the accumulated tombstones dominate the run
			for ti, t := range targets {
				nt, err := vm11FreshTarget(t.name == "populated")
				if err != nil {
					return err
				}
				t.d.close()
				targets[ti] = nt
			}
		}
		for ti, t := range targets {
			var ierr error
			perr := ev.Recover(func() { ierr = imp.run(t.d, c.data) })
			res := vm11CaseResult{Idx: idx, Label: c.label, Target: t.name}
			reset := false
			if perr != nil {
				res.Outcome, res.Detail, reset = "panic", perr.Error(), true
			} else {
				after, err := vm11State(t.d)
				if err != nil {
					return err
				}
				switch {
				case ierr != nil && after == t.state:
					res.Outcome, res.Detail = "rejected", ierr.Error()
				case ierr != nil:
					res.Outcome, res.Detail, reset = "partially-applied", ierr.Error(), true
				case !reseal:
					res.Outcome, reset = "corrupted-accepted", true
				default:
					res.Outcome, reset = "accepted", after != t.state
				}
			}
			emit(res)
			if reset {
				// cheap restore of the baseline (one batch); a fresh database when that does not work
				ok := false
				if res.Outcome == "accepted" {
					ctx := context.Background()
					var rerr error
					if t.name == "populated" {
						rerr = t.d.db.ImportHashSlotSnapshot(ctx, meta.SlotSnapshot{HashSlots: []uint16{vm11Slot}, Data: t.baseline})
					} else {
						rerr = t.d.db.DeleteHashSlotData(ctx, vm11Slot)
					}
					if rerr == nil {
						if st, err := vm11State(t.d); err == nil && st == t.state {
							ok = true
						}
					}
				}
				if !ok {
					nt, err := vm11FreshTarget(t.name == "populated")
					if err != nil {
						return err
					}
					t.d.close()
					targets[ti] = nt
				}
			}
		}
	}
	return nil
}

// vm11Streams rebuilds the fixed source and returns its exports (deterministic).
func vm11Streams(history []string) (vm11Exports, error) {
	in, err := vm11Build(history)
	if err != nil {
		return vm11Exports{}, err
	}
	defer in.Close()
	return vm11Export(in.src)
}

// TestVerifC11MetaChild is the child side of the process-isolated enumeration: a case
// that makes the import kill the process (runtime fatal error, not a panic) must not take
// the harness down with it.
func TestVerifC11MetaChild(t *testing.T) {
	spec := os.Getenv("VM11_CHILD")
	if spec == "" {
		t.Skip("child-process helper of TestVerifC11Meta")
	}
	var c struct {
		History  []string `json:"history"`
		Importer string   `json:"importer"`
		Reseal   bool     `json:"reseal"`
		From     int      `json:"from"`
		Out      string   `json:"out"`
	}
	if err := json.Unmarshal([]byte(spec), &c); err != nil {
		t.Fatal(err)
	}
	vm11Setup()
	x, err := vm11Streams(c.History)
	if err != nil {
		t.Fatal(err)
	}
	var imp vm11Importer
	for _, i := range vm11Importers {
		if i.name == c.Importer {
			imp = i
		}
	}
	stream := x.full
	if imp.business {
		stream = x.backup
	}
	out, err := os.OpenFile(c.Out, os.O_APPEND|os.O_CREATE|os.O_WRONLY, 0o644)
	if err != nil {
		t.Fatal(err)
	}
	defer out.Close()
	enc := json.NewEncoder(out)
	err = vm11RunCases(imp, vm11Mutations(stream, c.Reseal), c.From, c.Reseal,
		func(idx int) { fmt.Fprintf(out, "{\"begin\":%d}\n", idx) },
		func(res vm11CaseResult) { _ = enc.Encode(res) })
	if err != nil {
		t.Fatal(err)
	}
	fmt.Fprintln(out, "{\"done\":true}")
}

// vm11RunIsolated runs the enumeration for imp in child processes. A child that dies is
// reported as a violation for the case it was executing and the enumeration resumes after it.
func vm11RunIsolated(r *ev.R, secName string, history []string, imp vm11Importer, ncases int, reseal bool, emit func(vm11CaseResult), crash func(idx int, tail string)) {
	dir, err := os.MkdirTemp("", "vm11child")
	if err != nil {
		r.HarnessError("%s: %v", secName, err)
		return
	}
	defer os.RemoveAll(dir)
	from := 0
	for attempt := 0; from < ncases && attempt < 200; attempt++ {
		outPath := filepath.Join(dir, fmt.Sprintf("out-%d.jsonl", attempt))
		spec, _ := json.Marshal(map[string]any{"history": history, "importer": imp.name, "reseal": reseal, "from": from, "out": outPath})
		cmd := exec.Command(os.Args[0], "-test.run", "^TestVerifC11MetaChild$", "-test.timeout", "0")
		cmd.Env = append([]string{}, os.Environ()...)
		cmd.Env = append(cmd.Env, "VM11_CHILD="+string(spec), "VERIF_OUT=", "VERIF_REPLAY=")
		var stderr bytes.Buffer
		cmd.Stdout = &stderr
		cmd.Stderr = &stderr
		runErr := cmd.Run()
		data, _ := os.ReadFile(outPath)
		done := false
		last := -1
		for _, line := range strings.Split(string(data), "\n") {
			if line == "" {
				continue
			}
			var m map[string]any
			if json.Unmarshal([]byte(line), &m) != nil {
				continue
			}
			if _, ok := m["done"]; ok {
				done = true
				continue
			}
			if b, ok := m["begin"]; ok {
				last = int(b.(float64))
				continue
			}
			var res vm11CaseResult
			if json.Unmarshal([]byte(line), &res) == nil && res.Outcome != "" {
				emit(res)
			}
		}
		if done && runErr == nil {
			return
		}
		if last < from {
			r.HarnessError("%s: child process failed before the first case: %v: %s", secName, runErr, vm11Tail(stderr.String(), 600))
			return
		}
		crash(last, vm11Tail(stderr.String(), 1200))
		from = last + 1
	}
}

func vm11Tail(s string, n int) string {
	// the interesting part of a Go fatal error is its head
	if i := strings.Index(s, "fatal error"); i >= 0 {
		j := strings.LastIndex(s[:i], "\n")
		if j < 0 {
			j = 0
		}
		s = s[j:]
	}
	if len(s) > n {
		s = s[:n]
	}
	return strings.TrimSpace(s)
}

func vm11Corruption(r *ev.R, history []string, reseal bool) {
	secName := "meta-corruption"
	if reseal {
		secName = "meta-resealed-mismatch"
	}
	e := r.NewEnum(secName)
	x, err := vm11Streams(history)
	if err != nil {
		r.HarnessError("%s: %v", secName, err)
		return
	}
	accepted, rejected, total, crashes := 0, 0, 0, 0
	// every importer is enumerated on its own databases, concurrently; results are reported
	// in a fixed order afterwards
	type impResult struct {
		results []vm11CaseResult
		killed  []vm11CaseResult // cases during which the importing child process died
		err     error
		cases   []vm11Case
		stream  []byte
	}
	out := make([]*impResult, len(vm11Importers))
	var wg sync.WaitGroup
	for i, imp := range vm11Importers {
		i, imp := i, imp
		if reseal && !r.Thorough() && (imp.name == "restore" || imp.name == "reader") {
			continue // quick tier: the token-clearing variant of the same streaming import path is enumerated
		}
		res := &impResult{stream: x.full}
		if imp.business {
			res.stream = x.backup
		}
		res.cases = vm11Mutations(res.stream, reseal)
		out[i] = res
		wg.Add(1)
		go func() {
			defer wg.Done()
			emit := func(cr vm11CaseResult) { res.results = append(res.results, cr) }
			if reseal && imp.name == "snapshot" {
				// the in-memory importer trusts the entry count of a well-sealed payload: run it
				// in child processes so that a fatal runtime error is observed, not suffered
				vm11RunIsolated(r, secName, history, imp, len(res.cases), reseal, emit, func(idx int, tail string) {
					res.killed = append(res.killed, vm11CaseResult{Idx: idx, Label: res.cases[idx].label, Detail: tail})
				})
				return
			}
			res.err = vm11RunCases(imp, res.cases, 0, reseal, nil, emit)
		}()
	}
	wg.Wait()
	for i, imp := range vm11Importers {
		res := out[i]
		if res == nil {
			continue
		}
		if res.err != nil {
			r.HarnessError("%s: %s: %v", secName, imp.name, res.err)
			return
		}
		total += len(res.cases)
		stream := res.stream
		replay := func(label, target string) map[string]any {
			return map[string]any{"section": secName, "history": history, "case": label, "importer": imp.name, "target": target}
		}
		for _, cr := range res.results {
			where := fmt.Sprintf("%s: %s via %s into %s target (stream %d bytes)", secName, cr.Label, imp.name, cr.Target, len(stream))
			switch cr.Outcome {
			case "rejected":
				rejected++
			case "accepted":
				accepted++
			case "panic":
				r.Violation(ev.Violation{Fingerprint: "C11:meta-import-panics:" + imp.name, Message: where + ": " + cr.Detail, System: secName, Replay: replay(cr.Label, cr.Target)})
			case "partially-applied":
				fp := "C11:meta-rejected-stream-partially-applied:" + imp.name
				if !reseal {
					fp = "C11:meta-corrupted-stream-partially-applied:" + imp.name
				}
				r.Violation(ev.Violation{Fingerprint: fp, Message: fmt.Sprintf("%s: import failed (%s) but the target hash slot changed", where, cr.Detail), System: secName, Replay: replay(cr.Label, cr.Target)})
			case "corrupted-accepted":
				r.Violation(ev.Violation{Fingerprint: "C11:meta-corrupted-stream-accepted:" + imp.name, Message: where + ": import of a corrupted stream succeeded", System: secName, Replay: replay(cr.Label, cr.Target)})
			}
			e.Case(where, true, cr.Outcome)
		}
		for _, cr := range res.killed {
			crashes++
			where := fmt.Sprintf("%s: %s via %s (stream %d bytes)", secName, cr.Label, imp.name, len(stream))
			r.Violation(ev.Violation{Fingerprint: "C11:meta-import-kills-process:" + imp.name, Message: where + ": the importing process died: " + cr.Detail, System: secName, Replay: replay(cr.Label, "any")})
			e.Case(where, true, "process-killed")
		}
	}
	e.Done(true, map[string]any{"history": history, "full_stream_bytes": len(x.full), "backup_stream_bytes": len(x.backup), "mutated_streams": total, "importers": 4, "targets": 2, "resealed_checksum": reseal},
		"every truncation length and every offset x {bit0 flip, bit7 flip, 0x00, 0xFF}; a case = (mutated stream, import API, target state); the target state is the full export of the target hash slot and its neighbour")
	r.Count(secName+"/rejected-target-unchanged", int64(rejected))
	r.Count(secName+"/accepted", int64(accepted))
	r.Count(secName+"/process-killed", int64(crashes))
	if !reseal {
		r.Guard(secName+"/rejections", rejected >= total, "%d rejected imports for %d mutated streams", rejected, total)
	} else {
		r.Guard(secName+"/both-outcomes", rejected >= 1 && accepted >= 1, "%d rejected, %d accepted re-sealed streams", rejected, accepted)
	}
	r.Sample(map[string]any{"section": secName, "history": history, "full_stream_bytes": len(x.full), "backup_stream_bytes": len(x.backup), "cases": total})
}

// ---------------------------------------------------------------- crash retry

func vm11ImageHash(mem *vfs.MemFS, dir string) string {
	names, err := mem.List(dir)
	if err != nil {
		return "err:" + err.Error()
	}
	sort.Strings(names)
	var out strings.Builder
	for _, n := range names {
		full := mem.PathJoin(dir, n)
		info, err := mem.Stat(full)
		if err != nil {
			return "err:" + err.Error()
		}
		if info.IsDir() {
			out.WriteString(n + "/{" + vm11ImageHash(mem, full) + "}")
			continue
		}
		f, err := mem.Open(full)
		if err != nil {
			return "err:" + err.Error()
		}
		buf := make([]byte, info.Size())
		if len(buf) > 0 {
			if _, err := f.ReadAt(buf, 0); err != nil {
				f.Close()
				return "err:" + err.Error()
			}
		}
		f.Close()
		fmt.Fprintf(&out, "%s:%d:%08x;", n, len(buf), crc32.ChecksumIEEE(buf))
	}
	return out.String()
}

func vm11CrashRetry(r *ev.R, history []string, imp vm11Importer) {
	secName := "meta-restore-crash-retry/" + imp.name
	start := time.Now()
	in, err := vm11Build(history)
	if err != nil {
		r.HarnessError("%s: %v", secName, err)
		return
	}
	defer in.Close()
	x, err := vm11Export(in.src)
	if err != nil {
		r.HarnessError("%s: %v", secName, err)
		return
	}
	stream := x.full
	if imp.business {
		stream = x.backup
	}
	// reference: the same import without a crash, on the same pre-populated target
	ref, err := vm11Fresh()
	if err != nil {
		r.HarnessError("%s: %v", secName, err)
		return
	}
	if err := vm11Stale(ref); err == nil {
		err = imp.run(ref, stream)
	}
	if err != nil {
		ref.close()
		r.HarnessError("%s: clean import failed: %v", secName, err)
		return
	}
	refState, err := vm11State(ref)
	ref.close()
	if err != nil {
		r.HarnessError("%s: %v", secName, err)
		return
	}
	prefix, vol, err := vm11NewVolume()
	if err != nil {
		r.HarnessError("%s: %v", secName, err)
		return
	}
	router := vm11Setup()
	defer router.Unmount(prefix)
	db, err := meta.Open(prefix + "/db")
	if err != nil {
		r.HarnessError("%s: %v", secName, err)
		return
	}
	tgt := &vm11DB{prefix: prefix, vol: vol, db: db}
	if err := vm11Stale(tgt); err != nil {
		r.HarnessError("%s: %v", secName, err)
		return
	}
	staleState, err := vm11State(tgt)
	if err != nil {
		r.HarnessError("%s: %v", secName, err)
		return
	}
	var acked atomic.Int64
	vol.Meta = func() any { return acked.Load() }
	vol.Start()
	ierr := imp.run(tgt, stream)
	if ierr == nil {
		acked.Store(1)
	}
	vol.Stop()
	vol.Snapshot("idle")
	_ = db.Close()
	if ierr != nil {
		r.HarnessError("%s: import on the capturing volume failed: %v", secName, ierr)
		return
	}
	images := vol.Images()
	var evals, distinct, inflight, intermediate int64
	seen := map[string]bool{}
	violate := func(fp, format string, args ...any) {
		r.Violation(ev.Violation{Fingerprint: fp, Message: secName + ": " + fmt.Sprintf(format, args...), System: secName,
			Replay: map[string]any{"section": secName, "history": history, "importer": imp.name}})
	}
	for _, img := range images {
		done, _ := img.Meta.(int64)
		for _, mode := range []string{"kill", "power"} {
			mem := img.Kill
			if mode == "power" {
				mem = img.Power
			}
			evals++
			if done == 0 {
				inflight++
			}
			key := vm11ImageHash(mem, prefix) + fmt.Sprint(done)
			if seen[key] {
				continue
			}
			seen[key] = true
			distinct++
			where := fmt.Sprintf("crash point %d (before %q), %s image", img.K, img.Op, mode)
			cp := mem.CrashClone(vfs.CrashCloneCfg{UnsyncedDataPercent: 100, RNG: rand.New(rand.NewPCG(1, 2))})
			router.Mount(prefix, crashfs.FromImage(cp))
			db2, err := meta.Open(prefix + "/db")
			if err != nil {
				violate("C11:meta-restore-target-does-not-reopen-after-"+mode, "%s: %v", where, err)
				continue
			}
			d2 := &vm11DB{prefix: prefix, db: db2}
			st, err := vm11State(d2)
			if err != nil {
				violate("C11:meta-restore-target-unreadable-after-"+mode, "%s: %v", where, err)
				_ = db2.Close()
				continue
			}
			if done == 1 && st != refState {
				violate("C11:meta-acknowledged-import-incomplete-after-"+mode, "%s: the import had returned success but the reopened hash slot differs from the imported snapshot", where)
			}
			if st != refState && st != staleState {
				intermediate++
			}
			if err := imp.run(d2, stream); err != nil {
				violate("C11:meta-restore-retry-fails", "%s: retrying the import: %v", where, err)
				_ = db2.Close()
				continue
			}
			st2, err := vm11State(d2)
			_ = db2.Close()
			if err != nil {
				r.HarnessError("%s: %v", secName, err)
				continue
			}
			if st2 != refState {
				violate("C11:meta-restore-retry-does-not-converge", "%s: after the retry the hash slot differs from a clean import", where)
			}
		}
	}
	r.Section(ev.Section{Name: secName, Kind: "crash", Evaluations: evals, Distinct: inflight, Validated: distinct, Exhaustive: true,
		Bounds: map[string]any{"history": history, "stream_bytes": len(stream), "crash_points": len(images), "distinct_disk_contents": distinct, "contents_in_an_intermediate_state": intermediate},
		Note: "hash-slot import into a pre-populated target on a crash-capturing volume; every crash point x {kill, power}; each distinct disk content is reopened and the import retried", WallS: time.Since(start).Seconds()})
	r.Guard(secName+"/inflight-images", inflight >= 2, "%d images captured while the import was running", inflight)
}

func TestVerifC11Meta(t *testing.T) {
	r := ev.Start(t, "C11")
	defer r.Finish()
	vm11Setup()
	depth := ev.Pick(r, 3, 6)
	if os.Getenv("VM11_ONLY") != "" {
		depth = 1
	}
	res := mc.Run(r, mc.System{
		Name: "meta-snapshot-roundtrip", New: vm11NewInst, MaxDepth: depth,
		Bounds: map[string]any{"hash_slots": []uint16{vm11Slot, vm11Other}, "alphabet": "user u1 create/update/delete, user u2 upsert/delete, device upsert x2, channel create/update/delete, subscribers add {u1,u2} / remove u1, runtime routing row epoch 1,2, user in the neighbour slot"},
		Note:   "in every state: ExportHashSlotSnapshot == OpenHashSlotSnapshot; 4 import APIs x {fresh, pre-populated} target; re-export byte-identical; API-level content equal; neighbour slot untouched",
	})
	fixed := []string{"u1", "u2", "dev", "chan", "sub", "rtm"}
	if rf := r.Replay(); rf != nil {
		before := r.ViolationCount()
		switch {
		case rf.System == "meta-corruption":
			vm11Corruption(r, fixed, false)
		case rf.System == "meta-resealed-mismatch":
			vm11Corruption(r, fixed, true)
		case strings.HasPrefix(rf.System, "meta-restore-batch-boundary/"):
			vm11Boundaries(r, rf.System)
		case strings.HasPrefix(rf.System, "meta-restore-crash-retry/"):
			for _, imp := range vm11Importers {
				if strings.HasSuffix(rf.System, "/"+imp.name) {
					vm11CrashRetry(r, fixed, imp)
				}
			}
		}
		if r.ViolationCount() > before {
			r.MarkReplayReproduced()
		}
		return
	}
	r.Guard("meta-roundtrip-states", res.States >= 30, "%d states explored", res.States)
	if os.Getenv("VM11_ONLY") == "reseal" {
		vm11Corruption(r, fixed, true)
		return
	}
	if os.Getenv("VM11_ONLY") == "boundary" {
		vm11Boundaries(r, "")
		return
	}
	vm11Corruption(r, fixed, false)
	vm11Corruption(r, fixed, true)
	vm11CrashRetry(r, fixed, vm11Importers[1])
	vm11CrashRetry(r, fixed, vm11Importers[3])
	if r.Thorough() {
		vm11CrashRetry(r, fixed, vm11Importers[0])
		vm11CrashRetry(r, fixed, vm11Importers[2])
	}
	vm11Boundaries(r, "")
	r.Assume("metadata content is compared through the typed API for a fixed menu of rows and byte-wise through the hash-slot export of the target slot and its neighbour")
}
