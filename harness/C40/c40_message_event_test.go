package fsm_test

// C40 (a) - Message event projection is monotonic and idempotent.
//
// Explicit-state BFS (engine mc) over the durable message-event projection of ONE stream
// message, driven black-box through both write paths at once:
//   - the slot state machine command path (fsm.EncodeAppendMessageEventCommand -> ApplyBatch ->
//     fsm.DecodeAppendMessageEventResult), one command per ApplyBatch, and
//   - the direct metadb path (ShardStore.AppendMessageEvent), and
//   - the batch command (fsm.EncodeAppendMessageEventsCommand) carrying the event twice,
// each on its own channel of a Pebble DB the instance holds exclusively. The alphabet is
// {open, delta, snapshot, close, error, cancel} x {main, lane-b} x event-id pool + finish x
// event-id pool; ids are interchangeable keys, so they are introduced in first-use order
// (renaming symmetry). The oracle is a boring reducer model written from the statement of the
// property (sequence, terminal lanes, applied ids) plus property-level transition checks that
// do not depend on the model.

import (
	"context"
	"encoding/json"
	"fmt"
	"io"
	"log"
	"os"
	"sort"
	"strings"
	"sync"
	"sync/atomic"
	"testing"

	metadb "github.com/WuKongIM/WuKongIM/pkg/db/meta"
	"github.com/WuKongIM/WuKongIM/pkg/slot/fsm"
	"github.com/WuKongIM/WuKongIM/pkg/slot/multiraft"
	"github.com/WuKongIM/WuKongIM/pkg/zzverif/ev"
	"github.com/WuKongIM/WuKongIM/pkg/zzverif/mc"
)

var c40Ctx = context.Background()

const (
	c40HashSlot    uint16 = 7
	c40Slot        uint64 = 3
	c40ChannelType int64  = 2
	c40MsgNo              = "cmn-1"
	c40LaneB              = "lane-b"
)

// ---------------------------------------------------------------- DB arenas (one live instance per DB)

type c40Arena struct {
	db    *metadb.DB
	sm    multiraft.BatchStateMachine
	index uint64
	next  int
}

var (
	c40Mu     sync.Mutex
	c40Free   []*c40Arena
	c40All    []*c40Arena
	c40Base   string
	c40Arenas atomic.Int64
	c40Quiet  sync.Once
)

func c40Alloc() (*c40Arena, int) {
	c40Quiet.Do(func() { log.SetOutput(io.Discard) })
	c40Mu.Lock()
	defer c40Mu.Unlock()
	if c40Base == "" {
		d, err := os.MkdirTemp("/dev/shm", "verif-c40-")
		if err != nil {
			if d, err = os.MkdirTemp("", "verif-c40-"); err != nil {
				panic(err)
			}
		}
		c40Base = d
	}
	var a *c40Arena
	if n := len(c40Free); n > 0 {
		a, c40Free = c40Free[n-1], c40Free[:n-1]
	} else {
		n := c40Arenas.Add(1)
		db, err := metadb.Open(fmt.Sprintf("%s/a%d", c40Base, n))
		if err != nil {
			panic(fmt.Sprintf("c40 harness: open arena: %v", err))
		}
		sm, err := fsm.NewStateMachineWithHashSlots(db, c40Slot, []uint16{c40HashSlot})
		if err != nil {
			panic(fmt.Sprintf("c40 harness: state machine: %v", err))
		}
		a = &c40Arena{db: db, sm: sm.(multiraft.BatchStateMachine)}
		c40All = append(c40All, a)
	}
	a.next++
	return a, a.next
}

func c40Release(a *c40Arena) {
	c40Mu.Lock()
	c40Free = append(c40Free, a)
	c40Mu.Unlock()
}

func c40Shutdown() {
	c40Mu.Lock()
	defer c40Mu.Unlock()
	for _, a := range c40All {
		if a.db != nil {
			_ = a.db.Close()
			a.db = nil
		}
	}
	if c40Base != "" {
		_ = os.RemoveAll(c40Base)
	}
}

// ---------------------------------------------------------------- reference model (reducer written from the property)

type c40Lane struct {
	Status    string
	Seq       uint64
	LastID    string
	LastType  string
	Payload   string
	EndReason uint8
	Err       string
}

type c40Applied struct {
	Lane   string
	Seq    uint64
	Status string
}

type c40Model struct {
	Lanes   map[string]c40Lane
	Cursor  uint64
	Applied map[string]c40Applied
}

func c40Terminal(status string) bool {
	return status == metadb.EventStatusClosed || status == metadb.EventStatusError || status == metadb.EventStatusCancelled
}

type c40Outcome struct {
	Lane      string
	Seq       uint64
	Status    string
	Effective bool
}

// append is the model's reducer: an id is applied at most once, a terminal lane never
// changes again, every effective append takes the next sequence of the message.
func (m *c40Model) append(e c40Event) c40Outcome {
	lane := e.lane
	if e.typ == metadb.EventTypeStreamFinish {
		lane = metadb.EventKeyFinish
	}
	if rec, ok := m.Applied[e.id]; ok {
		return c40Outcome{Lane: rec.Lane, Seq: rec.Seq, Status: rec.Status}
	}
	l, exists := m.Lanes[lane]
	if exists && c40Terminal(l.Status) {
		return c40Outcome{Lane: lane, Seq: l.Seq, Status: l.Status}
	}
	if !exists {
		l = c40Lane{Status: metadb.EventStatusOpen}
	}
	switch e.typ {
	case metadb.EventTypeStreamDelta:
		l.Status = metadb.EventStatusOpen
		l.Payload = c40AppendText(l.Payload, e.id)
	case metadb.EventTypeStreamSnapshot:
		l.Status = metadb.EventStatusOpen
		l.Payload = c40Text("S" + e.id)
	case metadb.EventTypeStreamClose:
		l.Status = metadb.EventStatusClosed
		l.EndReason = 2
	case metadb.EventTypeStreamError:
		l.Status = metadb.EventStatusError
		l.Err = "boom"
		l.Payload = c40Text("E" + e.id)
	case metadb.EventTypeStreamCancel:
		l.Status = metadb.EventStatusCancelled
	case metadb.EventTypeStreamFinish:
		l.Status = metadb.EventStatusClosed
	}
	m.Cursor++
	l.Seq, l.LastID, l.LastType = m.Cursor, e.id, e.typ
	m.Lanes[lane] = l
	m.Applied[e.id] = c40Applied{Lane: lane, Seq: l.Seq, Status: l.Status}
	return c40Outcome{Lane: lane, Seq: l.Seq, Status: l.Status, Effective: true}
}

func c40Text(text string) string {
	b, _ := json.Marshal(struct {
		Kind string `json:"kind"`
		Text string `json:"text"`
	}{"text", text})
	return string(b)
}

func c40AppendText(existing, delta string) string {
	var cur struct {
		Kind string `json:"kind"`
		Text string `json:"text"`
	}
	text := ""
	if json.Unmarshal([]byte(existing), &cur) == nil && cur.Kind == "text" {
		text = cur.Text
	}
	return c40Text(text + delta)
}

// ---------------------------------------------------------------- events

type c40Event struct {
	typ, id, lane string
}

var c40Types = []struct{ short, typ string }{
	{"open", metadb.EventTypeStreamOpen},
	{"delta", metadb.EventTypeStreamDelta},
	{"snapshot", metadb.EventTypeStreamSnapshot},
	{"close", metadb.EventTypeStreamClose},
	{"error", metadb.EventTypeStreamError},
	{"cancel", metadb.EventTypeStreamCancel},
}

func c40Parse(label string) c40Event {
	p := strings.Split(label, ":")
	if p[0] == "finish" {
		return c40Event{typ: metadb.EventTypeStreamFinish, id: p[1], lane: metadb.EventKeyDefault}
	}
	for _, t := range c40Types {
		if t.short == p[0] {
			return c40Event{typ: t.typ, id: p[1], lane: p[2]}
		}
	}
	panic("c40 harness: bad label " + label)
}

func (e c40Event) payload() []byte {
	switch e.typ {
	case metadb.EventTypeStreamDelta:
		return []byte(fmt.Sprintf(`{"kind":"text","delta":%q}`, e.id))
	case metadb.EventTypeStreamSnapshot:
		return []byte(c40Text("S" + e.id))
	case metadb.EventTypeStreamClose:
		return []byte(`{"end_reason":2}`)
	case metadb.EventTypeStreamError:
		return []byte(fmt.Sprintf(`{"error":"boom","snapshot":%s}`, c40Text("E"+e.id)))
	case metadb.EventTypeStreamCancel:
		return []byte(`{}`)
	case metadb.EventTypeStreamFinish:
		return []byte(`{"end_reason":3}`)
	}
	return nil
}

func (e c40Event) request(channel string) metadb.MessageEventAppend {
	return metadb.MessageEventAppend{ChannelID: channel, ChannelType: c40ChannelType, ClientMsgNo: c40MsgNo, EventID: e.id, EventKey: e.lane,
		EventType: e.typ, Visibility: metadb.VisibilityPublic, OccurredAt: 1000, Payload: e.payload(), UpdatedAt: 2000}
}

// ---------------------------------------------------------------- instance

type c40Stats struct {
	effective, replayedID, afterTerminal, terminalFinalised, finishes, maxSeq atomic.Int64
	replayAfterLaneMoved, sameIDOtherLane, deltaAccumulated                   atomic.Int64
}

type c40Inst struct {
	r        *ev.R
	st       *c40Stats
	a        *c40Arena
	chFSM    string
	chDir    string
	chPair   string
	laneBAll bool // thorough: every event type on the second lane too
	ids      []string
	used     int // ids introduced so far (first-use order)
	m        c40Model
	rows     map[string]c40Lane // stored lanes of the fsm path, read back
	broken   bool
}

func c40New(r *ev.R, st *c40Stats, ids []string, laneBAll bool) mc.Instance {
	a, n := c40Alloc()
	return &c40Inst{r: r, st: st, a: a, chFSM: fmt.Sprintf("f%d", n), chDir: fmt.Sprintf("d%d", n), chPair: fmt.Sprintf("p%d", n), ids: ids, laneBAll: laneBAll,
		m: c40Model{Lanes: map[string]c40Lane{}, Applied: map[string]c40Applied{}}, rows: map[string]c40Lane{}}
}

func (in *c40Inst) Close() { c40Release(in.a) }

func (in *c40Inst) fail(format string, args ...any) {
	in.broken = true
	in.r.HarnessError("c40 harness: "+format, args...)
}

func (in *c40Inst) Events() []string {
	if in.broken {
		return nil
	}
	n := in.used + 1
	if n > len(in.ids) {
		n = len(in.ids)
	}
	var evs []string
	for _, id := range in.ids[:n] {
		for _, t := range c40Types {
			evs = append(evs, t.short+":"+id+":"+metadb.EventKeyDefault)
			if in.laneBAll || t.short == "delta" || t.short == "close" || t.short == "cancel" {
				evs = append(evs, t.short+":"+id+":"+c40LaneB)
			}
		}
		evs = append(evs, "finish:"+id)
	}
	return evs
}

func (in *c40Inst) readRows(channel string) map[string]c40Lane {
	states, err := in.a.db.ForHashSlot(c40HashSlot).ListMessageEventStates(c40Ctx, channel, c40ChannelType, c40MsgNo, 16)
	if err != nil {
		in.fail("ListMessageEventStates(%s): %v", channel, err)
		return nil
	}
	out := map[string]c40Lane{}
	for _, s := range states {
		out[s.EventKey] = c40Lane{Status: s.Status, Seq: s.LastMsgEventSeq, LastID: s.LastEventID, LastType: s.LastEventType,
			Payload: string(s.SnapshotPayload), EndReason: s.EndReason, Err: s.Error}
	}
	return out
}

func c40RowsStr(rows map[string]c40Lane) string {
	var keys []string
	for k := range rows {
		keys = append(keys, k)
	}
	sort.Strings(keys)
	var parts []string
	for _, k := range keys {
		l := rows[k]
		parts = append(parts, fmt.Sprintf("%s{%s seq=%d last=%s/%s payload=%s end=%d err=%q}", k, l.Status, l.Seq, l.LastID, l.LastType, l.Payload, l.EndReason, l.Err))
	}
	return "[" + strings.Join(parts, " ") + "]"
}

func c40RowsEq(a, b map[string]c40Lane) bool {
	if len(a) != len(b) {
		return false
	}
	for k, v := range a {
		if w, ok := b[k]; !ok || w != v {
			return false
		}
	}
	return true
}

func c40MaxSeq(rows map[string]c40Lane) uint64 {
	var m uint64
	for _, l := range rows {
		if l.Seq > m {
			m = l.Seq
		}
	}
	return m
}

func (in *c40Inst) Apply(label string, _ *mc.Env) (string, error) {
	e := c40Parse(label)
	for i, id := range in.ids {
		if id == e.id && i+1 > in.used {
			in.used = i + 1
		}
	}
	before := in.rows
	prevApplied, wasApplied := in.m.Applied[e.id]
	laneName := e.lane
	if e.typ == metadb.EventTypeStreamFinish {
		laneName = metadb.EventKeyFinish
	}
	laneBefore, laneExisted := before[laneName]

	// fsm command path
	in.a.index++
	res, err := in.a.sm.ApplyBatch(c40Ctx, []multiraft.Command{{SlotID: multiraft.SlotID(c40Slot), HashSlot: c40HashSlot, Index: in.a.index, Term: 1,
		Data: fsm.EncodeAppendMessageEventCommand(e.request(in.chFSM))}})
	if err != nil {
		in.fail("ApplyBatch(%s): %v", label, err)
		return "error", nil
	}
	got, err := fsm.DecodeAppendMessageEventResult(res[0])
	if err != nil {
		return "bad-result", mc.Violatef("C40:fsm-result-undecodable", "%s: the state machine returned %q, which does not decode as an append result (%v)", label, res[0], err)
	}
	// batch command path: the same event twice inside ONE append-events command (the second is a replay inside the batch)
	in.a.index++
	pres, err := in.a.sm.ApplyBatch(c40Ctx, []multiraft.Command{{SlotID: multiraft.SlotID(c40Slot), HashSlot: c40HashSlot, Index: in.a.index, Term: 1,
		Data: fsm.EncodeAppendMessageEventsCommand([]metadb.MessageEventAppend{e.request(in.chPair), e.request(in.chPair)})}})
	if err != nil {
		in.fail("ApplyBatch(pair %s): %v", label, err)
		return "error", nil
	}
	pgot, err := fsm.DecodeAppendMessageEventResults(pres[0])
	if err != nil || len(pgot) != 2 {
		return "bad-result", mc.Violatef("C40:fsm-result-undecodable", "%s twice in one command: the state machine returned %q (%d results, %v)", label, pres[0], len(pgot), err)
	}
	// direct metadb path
	dgot, err := in.a.db.ForHashSlot(c40HashSlot).AppendMessageEvent(c40Ctx, e.request(in.chDir))
	if err != nil {
		in.fail("AppendMessageEvent(%s): %v", label, err)
		return "error", nil
	}
	after, dafter := in.readRows(in.chFSM), in.readRows(in.chDir)
	in.rows = after
	want := in.m.append(e)
	changed := !c40RowsEq(before, after)
	obs := fmt.Sprintf("%s -> %s seq=%d %s changed=%v", label, got.EventKey, got.MsgEventSeq, got.Status, changed)

	// property-level checks (independent of the reducer model)
	if changed {
		if got.MsgEventSeq != c40MaxSeq(before)+1 || c40MaxSeq(after) != got.MsgEventSeq {
			return obs, mc.Violatef("C40:sequence-not-strictly-increasing", "%s changed the projection from %s to %s but returned sequence %d (previous maximum %d)", label, c40RowsStr(before), c40RowsStr(after), got.MsgEventSeq, c40MaxSeq(before))
		}
		for k, l := range before {
			if a, ok := after[k]; (!ok || a != l) && c40Terminal(l.Status) {
				return obs, mc.Violatef("C40:terminal-lane-changed", "%s changed lane %s after it was finalised: %s -> %s", label, k, c40RowsStr(before), c40RowsStr(after))
			}
			if a, ok := after[k]; ok && a != l && k != got.EventKey {
				return obs, mc.Violatef("C40:other-lane-changed", "%s (lane %s) changed lane %s: %s -> %s", label, got.EventKey, k, c40RowsStr(before), c40RowsStr(after))
			}
		}
		if wasApplied {
			return obs, mc.Violatef("C40:replayed-event-id-applied-again", "%s: event id %s was already applied to lane %s at sequence %d, the replay changed the projection from %s to %s", label, e.id, prevApplied.Lane, prevApplied.Seq, c40RowsStr(before), c40RowsStr(after))
		}
	}
	if wasApplied && (got.EventKey != prevApplied.Lane || got.MsgEventSeq != prevApplied.Seq) {
		return obs, mc.Violatef("C40:replayed-event-id-result-differs", "%s: event id %s was applied to lane %s at sequence %d, the replay reports lane %s sequence %d", label, e.id, prevApplied.Lane, prevApplied.Seq, got.EventKey, got.MsgEventSeq)
	}
	// the two write paths agree
	if !c40RowsEq(after, dafter) || got.EventKey != dgot.EventKey || got.MsgEventSeq != dgot.MsgEventSeq || got.Status != dgot.Status {
		return obs, mc.Violatef("C40:direct-and-fsm-paths-diverge", "%s: fsm path -> (%s,%d,%s) %s ; direct path -> (%s,%d,%s) %s", label, got.EventKey, got.MsgEventSeq, got.Status, c40RowsStr(after), dgot.EventKey, dgot.MsgEventSeq, dgot.Status, c40RowsStr(dafter))
	}
	if pafter := in.readRows(in.chPair); !c40RowsEq(after, pafter) {
		return obs, mc.Violatef("C40:event-repeated-in-one-batch-command-applied-twice", "%s sent twice inside one append-events command left %s, sent once it leaves %s", label, c40RowsStr(pafter), c40RowsStr(after))
	}
	for i, pr := range pgot {
		if pr.EventKey != got.EventKey || pr.MsgEventSeq != got.MsgEventSeq || pr.Status != got.Status {
			return obs, mc.Violatef("C40:batch-command-result-differs", "%s twice in one command: result %d is (%s,%d,%s), the single command gives (%s,%d,%s)", label, i, pr.EventKey, pr.MsgEventSeq, pr.Status, got.EventKey, got.MsgEventSeq, got.Status)
		}
	}
	// reducer model
	if changed != want.Effective {
		return obs, mc.Violatef("C40:projection-differs-from-reducer-model:effectiveness", "%s: projection changed=%v, the reducer model says effective=%v (%s -> %s)", label, changed, want.Effective, c40RowsStr(before), c40RowsStr(after))
	}
	if got.EventKey != want.Lane || got.MsgEventSeq != want.Seq || got.Status != want.Status {
		return obs, mc.Violatef("C40:projection-differs-from-reducer-model:result", "%s: result (%s,%d,%s), reducer model (%s,%d,%s)", label, got.EventKey, got.MsgEventSeq, got.Status, want.Lane, want.Seq, want.Status)
	}
	if !c40RowsEq(after, in.m.Lanes) {
		return obs, mc.Violatef("C40:projection-differs-from-reducer-model:rows", "%s: stored %s, reducer model %s", label, c40RowsStr(after), c40RowsStr(in.m.Lanes))
	}
	if want.Effective && (got.State.LastMsgEventSeq != got.MsgEventSeq || got.State.LastEventID != e.id || got.State.Status != got.Status) {
		return obs, mc.Violatef("C40:result-state-differs-from-result", "%s: result (%d,%s) but embedded state (%d,%s,last=%s)", label, got.MsgEventSeq, got.Status, got.State.LastMsgEventSeq, got.State.Status, got.State.LastEventID)
	}

	// bookkeeping for the vacuity guards
	if want.Effective {
		in.st.effective.Add(1)
		if c40Terminal(want.Status) {
			in.st.terminalFinalised.Add(1)
		}
		if e.typ == metadb.EventTypeStreamFinish {
			in.st.finishes.Add(1)
		}
		for {
			cur := in.st.maxSeq.Load()
			if int64(want.Seq) <= cur || in.st.maxSeq.CompareAndSwap(cur, int64(want.Seq)) {
				break
			}
		}
		if e.typ == metadb.EventTypeStreamDelta && laneExisted && laneBefore.Payload != "" && laneBefore.LastType == metadb.EventTypeStreamDelta {
			in.st.deltaAccumulated.Add(1)
		}
	} else if wasApplied {
		in.st.replayedID.Add(1)
		if prevApplied.Lane != laneName {
			in.st.sameIDOtherLane.Add(1)
		}
		if cur := after[prevApplied.Lane]; cur.LastID != e.id {
			in.st.replayAfterLaneMoved.Add(1)
		}
	} else {
		in.st.afterTerminal.Add(1)
	}
	return obs, nil
}

func (in *c40Inst) Canon() string {
	if in.broken {
		return ""
	}
	b, err := json.Marshal(struct {
		Rows map[string]c40Lane
		M    c40Model
		Used int
	}{in.rows, in.m, in.used})
	if err != nil {
		panic(err)
	}
	return string(b)
}

func (in *c40Inst) Check() error { return nil } // everything is checked on the transition

func TestVerifC40(t *testing.T) {
	r := ev.Start(t, "C40")
	defer r.Finish()
	defer c40Shutdown()
	defer func() {
		if p := recover(); p != nil {
			r.HarnessError("harness panic: %v", p)
		}
	}()
	st := &c40Stats{}
	type sysCfg struct {
		name     string
		ids      []string
		laneBAll bool
	}
	// quick: 3 ids, second lane with delta/close/cancel. thorough: the same pool with every event type on
	// both lanes, and a pool of 4 ids (sequence up to 4) with the reduced second lane.
	systems := ev.Pick(r, []sysCfg{{"event-projection", []string{"e1", "e2", "e3"}, false}},
		[]sysCfg{{"event-projection", []string{"e1", "e2", "e3"}, true}, {"event-projection-4-ids", []string{"e1", "e2", "e3", "e4"}, false}})
	var res mc.Result
	maxIDs := 0
	for _, sc := range systems {
		sc := sc
		if len(sc.ids) > maxIDs {
			maxIDs = len(sc.ids)
		}
		laneB := "delta close cancel"
		if sc.laneBAll {
			laneB = "all six"
		}
		x := mc.Run(r, mc.System{
			Name:      sc.name,
			New:       func() mc.Instance { return c40New(r, st, sc.ids, sc.laneBAll) },
			MaxDepth:  ev.Pick(r, 6, 8),
			MaxStates: ev.Pick(r, int64(300000), int64(3000000)),
			Bounds: map[string]any{"event_types": "open delta snapshot close error cancel finish", "lanes": []string{metadb.EventKeyDefault, c40LaneB, metadb.EventKeyFinish + " (finish only)"},
				"event_ids": sc.ids, "lane_b_event_types": laneB, "id_symmetry": "ids are introduced in first-use order",
				"message":  "one stream message per instance; the same sequence is applied through the slot state machine command path, through ShardStore.AppendMessageEvent and through the append-events batch command carrying every event twice",
				"payloads": "delta appends its event id to the text, snapshot replaces it, close carries end_reason, error carries an error text and a snapshot, cancel/finish carry no snapshot"},
			Note: "merging on the stored lanes read back through ListMessageEventStates + the reducer model (cursor, applied ids); an event id can be applied once, so the reachable space is finite and the frontier empties before the depth bound",
		})
		res.States += x.States
	}
	ids := make([]string, maxIDs)
	if r.Replay() != nil {
		return
	}
	r.Count("db_arenas", c40Arenas.Load())
	g := func(name string, n int64, min int64) { r.Guard(name, n >= min, "%s=%d (need >=%d)", name, n, min) }
	g("effective-appends", st.effective.Load(), 100)
	g("max-sequence-reached", st.maxSeq.Load(), int64(len(ids)))
	g("replayed-event-ids", st.replayedID.Load(), 100)
	g("replayed-id-sent-to-another-lane", st.sameIDOtherLane.Load(), 10)
	g("replayed-id-after-its-lane-moved-on", st.replayAfterLaneMoved.Load(), 10)
	g("appends-to-finalised-lane", st.afterTerminal.Load(), 100)
	g("terminal-events-applied", st.terminalFinalised.Load(), 100)
	g("finish-events-applied", st.finishes.Load(), 10)
	g("delta-accumulated-on-delta", st.deltaAccumulated.Load(), 10)
	r.Guard("state-space-nontrivial", res.States >= 500, "states=%d", res.States)
	r.Assume("a replayed event id reports the lane, sequence and status recorded when it was applied (not the lane's current status)")
	r.Assume("an event sent to an already finalised lane is not applied and leaves no applied-id record, so the same id may later be applied once to another lane")
}
