package cluster

// C40 (b) - A finish that would drop cached non-durable deltas fails closed.
//
// Explicit-state BFS (engine mc) over the leader-side stream cache of ONE stream message:
// a hand-assembled Node (real router with one slot led by this node, real
// messageEventStreamCache, no finish coalescer) whose proposer applies every proposed command
// to a real slot state machine on a real metadb.DB. Events go through the exported
// Node.AppendMessageEvent; the cache is lost the three ways the node loses it (restore reset,
// restore pause/resume, loss of the local slot leadership) and put under session pressure.
// In-package because the cache and the node's fields are unexported.

import (
	"context"
	"encoding/json"
	"errors"
	"fmt"
	"io"
	"log"
	"os"
	"sort"
	"strings"
	"sync"
	"sync/atomic"
	"testing"

	"github.com/WuKongIM/WuKongIM/pkg/cluster/control"
	"github.com/WuKongIM/WuKongIM/pkg/cluster/propose"
	"github.com/WuKongIM/WuKongIM/pkg/cluster/routing"
	metadb "github.com/WuKongIM/WuKongIM/pkg/db/meta"
	metafsm "github.com/WuKongIM/WuKongIM/pkg/slot/fsm"
	"github.com/WuKongIM/WuKongIM/pkg/slot/multiraft"
	"github.com/WuKongIM/WuKongIM/pkg/zzverif/ev"
	"github.com/WuKongIM/WuKongIM/pkg/zzverif/mc"
)

var c40bCtx = context.Background()

const (
	c40bType  int64 = 2
	c40bMsgNo       = "cmn-1"
	c40bLaneB       = "lane-b"
)

// ---------------------------------------------------------------- DB arenas (one live instance per DB)

type c40bArena struct {
	db    *metadb.DB
	sm    multiraft.BatchStateMachine
	index uint64
	next  int
	calls int // ProposeResult calls (reset per event by the instance)

	env      *mc.Env // environment of the event being applied (nil outside Apply)
	injected int     // proposals failed by the environment during the current event
}

// c40bErrProposal is what a caller sees when the slot proposal does not commit (propose
// timeout, leader hiccup, caller deadline): an error, and nothing was applied.
var c40bErrProposal = fmt.Errorf("c40b: injected proposal failure: %w", context.DeadlineExceeded)

// ProposeResult applies one proposed command to the real slot state machine (one command per
// ApplyBatch), as the slot Raft group would after commit.
func (a *c40bArena) ProposeResult(ctx context.Context, req propose.Request) ([]byte, error) {
	a.calls++
	// ENVIRONMENT DEVIATION: this durable proposal fails before it commits; nothing is applied
	// to the slot state machine and the caller gets an error.
	if a.env != nil && a.env.Choose("durable proposal fails before commit", 2) == 1 {
		a.injected++
		return nil, c40bErrProposal
	}
	a.index++
	res, err := a.sm.ApplyBatch(ctx, []multiraft.Command{{SlotID: 1, HashSlot: routing.HashSlotForKey(req.Key, 2), Index: a.index, Term: 1, Data: req.Command}})
	if err != nil {
		return nil, err
	}
	return res[0], nil
}

func (a *c40bArena) Propose(ctx context.Context, req propose.Request) error {
	_, err := a.ProposeResult(ctx, req)
	return err
}

var (
	c40bMu     sync.Mutex
	c40bFree   []*c40bArena
	c40bAll    []*c40bArena
	c40bBase   string
	c40bArenas atomic.Int64
	c40bQuiet  sync.Once
)

func c40bAlloc() (*c40bArena, int) {
	c40bQuiet.Do(func() { log.SetOutput(io.Discard) })
	c40bMu.Lock()
	defer c40bMu.Unlock()
	if c40bBase == "" {
		d, err := os.MkdirTemp("/dev/shm", "verif-c40b-")
		if err != nil {
			if d, err = os.MkdirTemp("", "verif-c40b-"); err != nil {
				panic(err)
			}
		}
		c40bBase = d
	}
	var a *c40bArena
	if n := len(c40bFree); n > 0 {
		a, c40bFree = c40bFree[n-1], c40bFree[:n-1]
	} else {
		n := c40bArenas.Add(1)
		db, err := metadb.Open(fmt.Sprintf("%s/a%d", c40bBase, n))
		if err != nil {
			panic(fmt.Sprintf("c40b harness: open arena: %v", err))
		}
		sm, err := metafsm.NewStateMachineWithHashSlots(db, 1, []uint16{0, 1})
		if err != nil {
			panic(fmt.Sprintf("c40b harness: state machine: %v", err))
		}
		a = &c40bArena{db: db, sm: sm.(multiraft.BatchStateMachine)}
		c40bAll = append(c40bAll, a)
	}
	a.next++
	return a, a.next
}

func c40bRelease(a *c40bArena) {
	c40bMu.Lock()
	c40bFree = append(c40bFree, a)
	c40bMu.Unlock()
}

func c40bShutdown() {
	c40bMu.Lock()
	defer c40bMu.Unlock()
	for _, a := range c40bAll {
		if a.db != nil {
			_ = a.db.Close()
			a.db = nil
		}
	}
	if c40bBase != "" {
		_ = os.RemoveAll(c40bBase)
	}
}

// ---------------------------------------------------------------- instance

type c40bStats struct {
	cached, cachedReplay, terminalDurable, finishFlushed, finishFailedAfterLoss, finishFailedNothingOpen atomic.Int64
	losses, lossesWithOpenContent, pressureRefused, pressureEvictedTerminal, finishAfterPartialLoss      atomic.Int64
	lossByReassignment, lossByLeaderOfNewSlot, localToLocal, authorityReturned                           atomic.Int64
	closeAfterLoss, mergedClose, flushedLanes, appendAfterTerminal, ownRefused                           atomic.Int64
	terminalProposalFailed, terminalProposalFailedTwoLanesCached, finishProposalFailed                   atomic.Int64
	finishProposalFailedTwoLanesCached, cancelDurable                                                    atomic.Int64
}

type c40bRow struct {
	Status  string
	Seq     uint64
	Text    string
	LastTyp string
}

// c40bLane is the model of one lane: what the clients were told was accepted.
type c40bLane struct {
	Acked    string // text of the acknowledged cache-only events since the lane was opened
	HasAcked bool   // at least one cache-only event was acknowledged and is not durable
	Cached   bool   // the model expects the lane to be in the cache (open)
	CText    string // text the cache is expected to hold
	Lost     bool   // acknowledged non-durable events of this lane were dropped by a cache loss
	Terminal bool   // a durable terminal event finalised the lane
	LastID   string // id of the last acknowledged delta (for the replay event)
}

type c40bInst struct {
	r  *ev.R
	st *c40bStats
	a  *c40bArena

	node    *Node
	channel string
	hs      uint16
	term    uint64
	rev     uint64 // control snapshot revision
	onSlot2 bool   // the stream's hash slot is assigned to slot 2
	lead2   bool   // this node leads slot 2
	nextID  int
	others  int // sessions of other messages created by the pressure event

	lanes    map[string]*c40bLane
	rows     map[string]c40bRow // durable lanes read back
	finished bool
	broken   bool
}

// c40bSnapshot is the control snapshot of a two-slot cluster: slot 1 is led by this node,
// slot 2 by node 2 (until the leader events say otherwise); the stream's hash slot hs lives on
// slot 1 or, after the reassignment event, on slot 2; the other hash slot stays on slot 1.
func c40bSnapshot(revision uint64, hs uint16, onSlot2 bool) control.Snapshot {
	owner := func(h uint16) uint32 {
		if h == hs && onSlot2 {
			return 2
		}
		return 1
	}
	return control.Snapshot{Revision: revision, ControllerID: 1,
		Nodes:     []control.Node{{NodeID: 1, Addr: "127.0.0.1:1001", Roles: []control.Role{control.RoleData}, Status: control.NodeAlive}, {NodeID: 2, Addr: "127.0.0.1:1002", Roles: []control.Role{control.RoleData}, Status: control.NodeAlive}},
		Slots:     []control.SlotAssignment{{SlotID: 1, DesiredPeers: []uint64{1, 2}, ConfigEpoch: 1, PreferredLeader: 1}, {SlotID: 2, DesiredPeers: []uint64{1, 2}, ConfigEpoch: 1, PreferredLeader: 2}},
		HashSlots: control.HashSlotTable{Revision: revision, Count: 2, Ranges: []control.HashSlotRange{{From: 0, To: 0, SlotID: owner(0)}, {From: 1, To: 1, SlotID: owner(1)}}}}
}

const c40bMaxSessions = 2

// c40bBehaviourOnly (diagnostic, VERIF_C40_BEHAVIOUR_ONLY=1, never set by ./check): switch off the
// white-box comparisons of the cache content after a failed proposal, so that a mutant is judged
// only by what later events return and store (used once to validate the finish/delta oracles).
var c40bBehaviourOnly = os.Getenv("VERIF_C40_BEHAVIOUR_ONLY") == "1"

func c40bNew(r *ev.R, st *c40bStats) mc.Instance {
	a, n := c40bAlloc()
	in := &c40bInst{r: r, st: st, a: a, channel: fmt.Sprintf("g%d", n), term: 9,
		lanes: map[string]*c40bLane{metadb.EventKeyDefault: {}, c40bLaneB: {}}, rows: map[string]c40bRow{}}
	in.hs = routing.HashSlotForKey(in.channel, 2)
	node := &Node{cfg: Config{NodeID: 1}, router: routing.NewRouter(), messageEventStreamCache: newMessageEventStreamCache(c40bMaxSessions),
		routeAuthorityEpochs: make(map[uint16]uint64), proposer: a}
	in.rev = 1
	if err := node.router.UpdateControlSnapshot(c40bSnapshot(in.rev, in.hs, false)); err != nil {
		panic(fmt.Sprintf("c40b harness: control snapshot: %v", err))
	}
	node.router.UpdateSlotLeaders([]routing.SlotStatus{{SlotID: 1, Leader: 1, LeaderTerm: in.term}, {SlotID: 2, Leader: 2, LeaderTerm: in.term}})
	node.publishRouteAuthorityChanges(nil)
	node.started.Store(true)
	in.node = node
	return in
}

func (in *c40bInst) Close() { c40bRelease(in.a) }

func (in *c40bInst) fail(format string, args ...any) {
	in.broken = true
	in.r.HarnessError("c40b harness: "+format, args...)
}

func (in *c40bInst) Events() []string {
	if in.broken {
		return nil
	}
	var route []string
	if in.onSlot2 {
		route = append(route, "move-back")
	} else {
		route = append(route, "move-to-slot2")
	}
	if in.lead2 {
		route = append(route, "remote-leads-slot2")
	} else {
		route = append(route, "lead-slot2")
	}
	if !in.authorityLocal() {
		return route // another node is the authority of the stream's hash slot: nothing can be appended here
	}
	evs := []string{"open:main", "delta:main", "snapshot:main", "delta:" + c40bLaneB, "snapshot:" + c40bLaneB}
	for _, l := range []string{metadb.EventKeyDefault, c40bLaneB} {
		if in.lanes[l].LastID != "" {
			evs = append(evs, "redelta:"+l)
		}
	}
	evs = append(evs, "close:main", "close:"+c40bLaneB, "error:main", "cancel:"+c40bLaneB, "finish", "reset", "restore")
	if !in.onSlot2 {
		evs = append(evs, "lose-leadership") // of slot 1, which owns the stream's hash slot
	}
	if in.others < 2 {
		evs = append(evs, "pressure")
	}
	return append(evs, route...)
}

func (in *c40bInst) readRows() map[string]c40bRow {
	states, err := in.a.db.ForHashSlot(in.hs).ListMessageEventStates(c40bCtx, in.channel, c40bType, c40bMsgNo, 16)
	if err != nil {
		in.fail("ListMessageEventStates: %v", err)
		return nil
	}
	out := map[string]c40bRow{}
	for _, s := range states {
		out[s.EventKey] = c40bRow{Status: s.Status, Seq: s.LastMsgEventSeq, Text: c40bTextOf(s.SnapshotPayload), LastTyp: s.LastEventType}
	}
	return out
}

// cacheView reads the open lanes of the message from the real cache.
func (in *c40bInst) cacheView() map[string]string {
	out := map[string]string{}
	for _, s := range in.node.messageEventStreamCache.states(metadb.MessageEventMessageKey{ChannelID: in.channel, ChannelType: c40bType, ClientMsgNo: c40bMsgNo}) {
		if s.Status == metadb.EventStatusOpen {
			out[s.EventKey] = c40bTextOf(s.SnapshotPayload)
		} else {
			out[s.EventKey] = "#" + s.Status
		}
	}
	return out
}

func c40bTextOf(payload []byte) string {
	if len(payload) == 0 {
		return ""
	}
	var cur struct {
		Kind string `json:"kind"`
		Text string `json:"text"`
	}
	if json.Unmarshal(payload, &cur) == nil && cur.Kind == "text" {
		return cur.Text
	}
	return "raw:" + string(payload)
}

func c40bRowsEq(a, b map[string]c40bRow) bool {
	if len(a) != len(b) {
		return false
	}
	for k, v := range a {
		if w, ok := b[k]; !ok || w != v {
			return false
		}
	}
	return true
}

func c40bRowsStr(rows map[string]c40bRow) string {
	var keys []string
	for k := range rows {
		keys = append(keys, k)
	}
	sort.Strings(keys)
	var parts []string
	for _, k := range keys {
		parts = append(parts, fmt.Sprintf("%s{%s seq=%d text=%q last=%s}", k, rows[k].Status, rows[k].Seq, rows[k].Text, rows[k].LastTyp))
	}
	return "[" + strings.Join(parts, " ") + "]"
}

func (in *c40bInst) request(typ, lane, id string, payload string) metadb.MessageEventAppend {
	return metadb.MessageEventAppend{ChannelID: in.channel, ChannelType: c40bType, ClientMsgNo: c40bMsgNo, EventID: id, EventKey: lane, EventType: typ,
		Visibility: metadb.VisibilityPublic, OccurredAt: 1000, Payload: []byte(payload), UpdatedAt: 2000}
}

func (in *c40bInst) freshID() string {
	in.nextID++
	return fmt.Sprintf("e%d", in.nextID)
}

func (in *c40bInst) loseCache(how string) {
	in.st.losses.Add(1)
	open := false
	for _, l := range in.lanes {
		if l.Cached && l.HasAcked && !l.Terminal {
			l.Lost = true
			open = true
		}
		l.Cached, l.CText, l.LastID = false, "", ""
	}
	if open {
		in.st.lossesWithOpenContent.Add(1)
	}
	in.others = 0
}

func (in *c40bInst) Apply(label string, env *mc.Env) (string, error) {
	p := strings.SplitN(label, ":", 2)
	op, lane := p[0], ""
	if len(p) == 2 {
		lane = p[1]
	}
	before := in.rows
	in.a.calls, in.a.injected, in.a.env = 0, 0, env
	defer func() { in.a.env = nil }()
	switch op {
	case "open", "delta", "snapshot", "redelta":
		return in.evCached(op, lane, before)
	case "close", "error", "cancel":
		return in.evTerminal(op, lane, before)
	case "finish":
		return in.evFinish(before)
	case "reset":
		in.node.messageEventStreamCache.resetAfterRestore()
		in.loseCache(op)
	case "restore":
		in.node.messageEventStreamCache.pauseForRestore()
		if _, err := in.node.AppendMessageEvent(c40bCtx, in.request(metadb.EventTypeStreamDelta, metadb.EventKeyDefault, "paused", `{"kind":"text","delta":"p"}`)); !errors.Is(err, ErrMaintenance) {
			return "restore", mc.Violatef("C40:cached-append-accepted-during-restore-pause", "a cache-only append during the restore pause returned %v, want ErrMaintenance", err)
		}
		in.node.messageEventStreamCache.resumeAfterRestore()
		in.loseCache(op)
	case "lose-leadership":
		t0 := in.node.router.Table()
		in.term++
		in.node.router.UpdateSlotLeaders([]routing.SlotStatus{{SlotID: 1, Leader: 2, LeaderTerm: in.term}})
		in.node.publishRouteAuthorityChanges(t0)
		t1 := in.node.router.Table()
		in.term++
		in.node.router.UpdateSlotLeaders([]routing.SlotStatus{{SlotID: 1, Leader: 1, LeaderTerm: in.term}})
		in.node.publishRouteAuthorityChanges(t1)
		in.loseCache(op)
	case "pressure":
		return in.evPressure()
	case "move-to-slot2", "move-back", "lead-slot2", "remote-leads-slot2":
		return in.evRoute(op, before)
	default:
		in.fail("unknown event %q", label)
		return "?", nil
	}
	if v := in.cacheView(); len(v) != 0 {
		return op, mc.Violatef("C40:cache-survived-loss-event", "after %s the cache still holds %v for the message", op, v)
	}
	if after := in.readRows(); !c40bRowsEq(before, after) {
		return op, mc.Violatef("C40:cache-loss-wrote-projection", "%s changed the durable projection from %s to %s", op, c40bRowsStr(before), c40bRowsStr(after))
	}
	return op + ": cache dropped", nil
}

// authorityLocal reports whether this node leads the slot that owns the stream's hash slot.
func (in *c40bInst) authorityLocal() bool { return !in.onSlot2 || in.lead2 }

// evRoute changes the real route table the way the node does when a control snapshot reassigns
// the hash slot or a slot leader observation arrives.
func (in *c40bInst) evRoute(op string, before map[string]c40bRow) (string, error) {
	wasLocal := in.authorityLocal()
	var err error
	switch op {
	case "move-to-slot2", "move-back":
		in.onSlot2 = op == "move-to-slot2"
		in.rev++
		snap := c40bSnapshot(in.rev, in.hs, in.onSlot2)
		err = in.node.updateRouteAuthorityTable(func() error { return in.node.router.UpdateControlSnapshot(snap) })
	case "lead-slot2", "remote-leads-slot2":
		in.lead2 = op == "lead-slot2"
		leader := uint64(2)
		if in.lead2 {
			leader = 1
		}
		in.term++
		st := []routing.SlotStatus{{SlotID: 2, Leader: leader, LeaderTerm: in.term}}
		err = in.node.updateRouteAuthorityTable(func() error { in.node.router.UpdateSlotLeaders(st); return nil })
	}
	if err != nil {
		in.fail("%s: %v", op, err)
		return "?", nil
	}
	nowLocal := in.authorityLocal()
	if r, rerr := in.node.RouteKey(in.channel); rerr != nil || (r.Leader == in.node.cfg.NodeID) != nowLocal {
		in.fail("%s: router says leader %d (%v), the harness expects local=%v", op, r.Leader, rerr, nowLocal)
		return "?", nil
	}
	view := in.cacheView()
	if after := in.readRows(); !c40bRowsEq(before, after) {
		return op, mc.Violatef("C40:cache-loss-wrote-projection", "%s changed the durable projection from %s to %s", op, c40bRowsStr(before), c40bRowsStr(after))
	}
	switch {
	case wasLocal && !nowLocal:
		if len(view) != 0 {
			return op, mc.Violatef("C40:cache-survived-authority-loss", "%s moved the authority for the stream's hash slot to another node, but the cache still holds %v for the message", op, view)
		}
		in.loseCache(op)
		if op == "move-to-slot2" || op == "move-back" {
			in.st.lossByReassignment.Add(1)
		} else {
			in.st.lossByLeaderOfNewSlot.Add(1)
		}
		return op + ": authority moved away, cache dropped", nil
	case wasLocal && nowLocal:
		modelCached := false
		for _, l := range in.lanes {
			modelCached = modelCached || l.Cached
		}
		if modelCached && len(view) == 0 { // dropping more than required is fail-closed, not a violation
			in.loseCache(op)
			return op + ": authority stays local, cache dropped anyway", nil
		}
		in.st.localToLocal.Add(1)
		return op + ": authority stays local", nil
	case !wasLocal && nowLocal:
		in.st.authorityReturned.Add(1)
		if len(view) != 0 {
			return op, mc.Violatef("C40:cache-survived-authority-loss", "%s returned the authority to this node and the cache holds the stale pre-move session %v", op, view)
		}
		return op + ": authority returned", nil
	}
	return op + ": authority stays remote", nil
}

func (in *c40bInst) evCached(op, lane string, before map[string]c40bRow) (string, error) {
	l := in.lanes[lane]
	var req metadb.MessageEventAppend
	replay := false
	switch op {
	case "open":
		req = in.request(metadb.EventTypeStreamOpen, lane, in.freshID(), ``)
	case "delta":
		req = in.request(metadb.EventTypeStreamDelta, lane, in.freshID(), fmt.Sprintf(`{"kind":"text","delta":%q}`, lane[:1]))
	case "snapshot":
		req = in.request(metadb.EventTypeStreamSnapshot, lane, in.freshID(), `{"kind":"text","text":"S"}`)
	case "redelta":
		req = in.request(metadb.EventTypeStreamDelta, lane, l.LastID, fmt.Sprintf(`{"kind":"text","delta":%q}`, lane[:1]))
		replay = true
	}
	hadSession := len(in.cacheView()) > 0
	res, err := in.node.AppendMessageEvent(c40bCtx, req)
	if errors.Is(err, ErrBackpressured) && !hadSession && in.others >= c40bMaxSessions {
		// the bounded cache is full of open sessions of other messages: the event is refused, not acknowledged
		in.st.ownRefused.Add(1)
		return fmt.Sprintf("%s:%s refused (backpressure)", op, lane), nil
	}
	if err != nil {
		in.fail("%s:%s: %v", op, lane, err)
		return "error", nil
	}
	if in.a.calls != 0 {
		in.fail("%s:%s proposed %d durable command(s); cache-only events are expected to stay in the cache", op, lane, in.a.calls)
		return "?", nil
	}
	if after := in.readRows(); !c40bRowsEq(before, after) {
		in.fail("%s:%s changed the durable projection", op, lane)
		return "?", nil
	}
	// The cache knows a lane as terminal only while the session that saw the durable terminal
	// event is still cached; after a loss it opens the lane again (the durable reducer will
	// refuse the flush later). The model follows the cache here.
	termInCache := strings.HasPrefix(in.cacheView()[lane], "#")
	if termInCache && !l.Terminal {
		return op, mc.Violatef("C40:cached-lane-terminal-without-durable-terminal-event", "%s:%s (id %s) was answered %q and swallowed: the cache holds the lane as %s although no terminal event of that lane was ever applied durably (durable lanes %s); acknowledged cached text %q", op, lane, req.EventID, res.Status, in.cacheView()[lane], c40bRowsStr(before), l.Acked)
	}
	if termInCache {
		in.st.appendAfterTerminal.Add(1)
		return fmt.Sprintf("%s:%s ignored (lane terminal in cache) -> %s", op, lane, res.Status), nil
	}
	if !replay {
		switch op {
		case "delta":
			l.CText += lane[:1]
			l.Acked += lane[:1]
			l.LastID = req.EventID
		case "snapshot":
			l.CText, l.Acked = "S", "S"
			l.Lost = false // a snapshot replaces everything that came before it
		}
		l.Cached, l.HasAcked = true, true
		in.st.cached.Add(1)
	} else {
		in.st.cachedReplay.Add(1)
	}
	got := c40bTextOf(res.State.SnapshotPayload)
	if replay {
		// a resent id is answered with the result recorded when it was first applied; what must
		// not happen is a second application to the cached lane
		if now := in.cacheView()[lane]; now != l.CText {
			return op, mc.Violatef("C40:cached-replayed-event-id-applied-again", "%s:%s (id %s): the cached lane now holds %q, the acknowledged events give %q", op, lane, req.EventID, now, l.CText)
		}
		return fmt.Sprintf("%s:%s resent id answered text=%q, lane unchanged", op, lane, got), nil
	}
	if got != l.CText {
		return op, mc.Violatef("C40:cached-projection-differs-from-acknowledged-events", "%s:%s (id %s): the cache answers text %q, the acknowledged events give %q", op, lane, req.EventID, got, l.CText)
	}
	return fmt.Sprintf("%s:%s cached text=%q", op, lane, got), nil
}

func (in *c40bInst) evTerminal(op, lane string, before map[string]c40bRow) (string, error) {
	l := in.lanes[lane]
	typ, payload := metadb.EventTypeStreamClose, `{"end_reason":2}`
	switch op {
	case "error":
		typ, payload = metadb.EventTypeStreamError, `{"error":"boom"}`
	case "cancel":
		typ, payload = metadb.EventTypeStreamCancel, ``
	}
	cvBefore := in.cacheView()
	res, err := in.node.AppendMessageEvent(c40bCtx, in.request(typ, lane, in.freshID(), payload))
	if in.a.injected > 0 {
		// the durable proposal of this terminal event failed: the caller must see the error and
		// NOTHING a later finish / delta / read can observe may have changed
		if err == nil {
			return op, mc.Violatef("C40:terminal-event-acknowledged-although-proposal-failed", "%s:%s returned success (%s seq=%d) although its durable proposal failed", op, lane, res.Status, res.MsgEventSeq)
		}
		if !errors.Is(err, c40bErrProposal) {
			in.fail("%s:%s: proposal failure surfaced as %v", op, lane, err)
			return "error", nil
		}
		if after := in.readRows(); !c40bRowsEq(before, after) {
			return op, mc.Violatef("C40:failed-terminal-append-wrote-projection", "%s:%s failed (%v) but the durable projection changed from %s to %s", op, lane, err, c40bRowsStr(before), c40bRowsStr(after))
		}
		if cvAfter := in.cacheView(); !c40bBehaviourOnly && fmt.Sprint(cvBefore) != fmt.Sprint(cvAfter) {
			return op, mc.Violatef("C40:failed-terminal-append-changed-cache", "%s:%s failed (%v, nothing durable) but the cached lanes of the message changed from %v to %v; acknowledged cached text of the lane %q", op, lane, err, cvBefore, cvAfter, l.Acked)
		}
		in.st.terminalProposalFailed.Add(1)
		if in.lanesWithCachedText() >= 2 && l.Cached && l.Acked != "" {
			in.st.terminalProposalFailedTwoLanesCached.Add(1)
		}
		return fmt.Sprintf("%s:%s proposal failed, nothing changed", op, lane), nil
	}
	if err != nil {
		in.fail("%s:%s: %v", op, lane, err)
		return "error", nil
	}
	after := in.readRows()
	in.rows = after
	prev, existed := before[lane]
	if existed && prev.Status != metadb.EventStatusOpen {
		if !c40bRowsEq(before, after) {
			return op, mc.Violatef("C40:terminal-lane-changed", "%s:%s changed the projection after the lane was finalised: %s -> %s", op, lane, c40bRowsStr(before), c40bRowsStr(after))
		}
		l.Cached, l.CText, l.LastID = false, "", ""
		return fmt.Sprintf("%s:%s lane already final (%s)", op, lane, res.Status), nil
	}
	row := after[lane]
	if row.Status == "" || row.Status == metadb.EventStatusOpen || row.Seq != c40bMaxSeq(before)+1 {
		return op, mc.Violatef("C40:terminal-event-not-finalising", "%s:%s: durable lane afterwards %+v (previous maximum sequence %d)", op, lane, row, c40bMaxSeq(before))
	}
	if l.Cached && !l.Lost && row.Text != l.Acked {
		return op, mc.Violatef("C40:terminal-event-dropped-cached-deltas", "%s:%s finalised the lane with text %q, the acknowledged cached events give %q", op, lane, row.Text, l.Acked)
	}
	if l.Cached && l.Acked != "" {
		in.st.mergedClose.Add(1)
	}
	if l.Lost {
		in.st.closeAfterLoss.Add(1)
	}
	l.Terminal, l.Cached, l.CText, l.HasAcked, l.LastID = true, false, "", false, ""
	in.st.terminalDurable.Add(1)
	if op == "cancel" {
		in.st.cancelDurable.Add(1)
	}
	return fmt.Sprintf("%s:%s durable %s seq=%d text=%q", op, lane, row.Status, row.Seq, row.Text), nil
}

// lanesWithCachedText counts the lanes that hold acknowledged, not yet durable text in the cache.
func (in *c40bInst) lanesWithCachedText() int {
	n := 0
	for _, l := range in.lanes {
		if l.Cached && !l.Terminal && l.CText != "" {
			n++
		}
	}
	return n
}

func c40bMaxSeq(rows map[string]c40bRow) uint64 {
	var m uint64
	for _, r := range rows {
		if r.Seq > m {
			m = r.Seq
		}
	}
	return m
}

func (in *c40bInst) evFinish(before map[string]c40bRow) (string, error) {
	lostOnly, partial := false, false
	cv := in.cacheView()
	realOpen := 0
	for _, v := range cv {
		if !strings.HasPrefix(v, "#") {
			realOpen++
		}
	}
	modelOpen := 0 // lanes with events acknowledged (and not lost) since the last cache loss
	for _, l := range in.lanes {
		if l.Cached { // also a durably finalised lane that the cache opened again after a loss
			modelOpen++
		}
	}
	for _, l := range in.lanes {
		if l.Lost && !l.Terminal {
			if modelOpen == 0 {
				lostOnly = true
			} else {
				partial = true
			}
		}
	}
	res, err := in.node.AppendMessageEvent(c40bCtx, in.request(metadb.EventTypeStreamFinish, "", in.freshID(), `{"end_reason":3}`))
	after := in.readRows()
	in.rows = after
	if in.a.injected > 0 && err == nil {
		return "finish", mc.Violatef("C40:finish-acknowledged-although-proposal-failed", "finish returned success (%s seq=%d) although its durable proposal failed; projection %s", res.Status, res.MsgEventSeq, c40bRowsStr(after))
	}
	if err != nil {
		if !c40bRowsEq(before, after) {
			return "finish", mc.Violatef("C40:failed-finish-wrote-projection", "finish failed (%v) but the durable projection changed from %s to %s", err, c40bRowsStr(before), c40bRowsStr(after))
		}
		if in.a.injected > 0 {
			if !errors.Is(err, c40bErrProposal) {
				in.fail("finish: proposal failure surfaced as %v", err)
				return "error", nil
			}
			if cvAfter := in.cacheView(); !c40bBehaviourOnly && fmt.Sprint(cv) != fmt.Sprint(cvAfter) {
				return "finish", mc.Violatef("C40:failed-finish-changed-cache", "finish failed (%v, nothing durable) but the cached lanes of the message changed from %v to %v", err, cv, cvAfter)
			}
			in.st.finishProposalFailed.Add(1)
			if in.lanesWithCachedText() >= 2 {
				in.st.finishProposalFailedTwoLanesCached.Add(1)
			}
			return "finish proposal failed, nothing changed", nil
		}
		if !errors.Is(err, ErrMessageEventStreamCacheMiss) {
			in.fail("finish: %v", err)
			return "error", nil
		}
		if realOpen > 0 {
			return "finish", mc.Violatef("C40:finish-refused-although-lanes-are-cached", "finish failed with a cache miss although the cache holds open lanes %v", cv)
		}
		if lostOnly {
			in.st.finishFailedAfterLoss.Add(1)
			return "finish failed closed (cached deltas were lost)", nil
		}
		in.st.finishFailedNothingOpen.Add(1)
		return "finish failed closed (no open cached lane)", nil
	}
	if lostOnly {
		return "finish", mc.Violatef("C40:finish-completed-after-cache-loss", "acknowledged cache-only events were dropped by a cache loss and nothing is cached for the message, but finish succeeded (%s seq=%d) and the projection is now %s", res.Status, res.MsgEventSeq, c40bRowsStr(after))
	}
	if modelOpen == 0 {
		return "finish", mc.Violatef("C40:finish-completed-without-cached-lanes", "finish succeeded although no open lane is cached and its payload carries no snapshot; projection %s", c40bRowsStr(after))
	}
	fin, ok := after[metadb.EventKeyFinish]
	if !ok || fin.Status != metadb.EventStatusClosed {
		return "finish", mc.Violatef("C40:finish-succeeded-without-finish-lane", "finish succeeded but the durable finish lane is %+v", fin)
	}
	for k, prev := range before {
		if prev.Status != metadb.EventStatusOpen && after[k] != prev {
			return "finish", mc.Violatef("C40:terminal-lane-changed", "finish changed lane %s after it was finalised: %s -> %s", k, c40bRowsStr(before), c40bRowsStr(after))
		}
	}
	flushed := 0
	for name, l := range in.lanes {
		if !l.Cached || l.Terminal {
			continue
		}
		row := after[name]
		prev, existed := before[name]
		if existed && prev.Status != metadb.EventStatusOpen {
			continue // the durable lane was finalised before the cache was lost and re-filled: the reducer keeps it
		}
		if row.Status != metadb.EventStatusClosed || (!l.Lost && row.Text != l.Acked) || (l.Lost && row.Text != l.CText) {
			return "finish", mc.Violatef("C40:finish-dropped-cached-deltas", "finish succeeded but lane %s is durable as %+v; the acknowledged cached events give text %q (cache %q, earlier loss=%v)", name, row, l.Acked, l.CText, l.Lost)
		}
		flushed++
	}
	if !c40bRowsEq(before, after) && c40bMaxSeq(after) <= c40bMaxSeq(before) {
		return "finish", mc.Violatef("C40:sequence-not-strictly-increasing", "finish changed the projection but the maximum sequence went %d -> %d", c40bMaxSeq(before), c40bMaxSeq(after))
	}
	if v := in.cacheView(); len(v) != 0 {
		return "finish", mc.Violatef("C40:cache-kept-after-finish", "finish succeeded but the cache still holds %v", v)
	}
	for _, l := range in.lanes {
		if l.Cached && !l.Terminal {
			l.Terminal = true
		}
		l.Cached, l.CText, l.HasAcked, l.LastID = false, "", false, ""
	}
	in.finished = true
	in.st.finishFlushed.Add(1)
	in.st.flushedLanes.Add(int64(flushed))
	if partial {
		in.st.finishAfterPartialLoss.Add(1)
		return fmt.Sprintf("finish flushed %d lane(s) after an earlier partial loss", flushed), nil
	}
	return fmt.Sprintf("finish flushed %d lane(s) in %d proposal(s)", flushed, in.a.calls), nil
}

// evPressure opens a session for another message while the cache is bounded to two sessions:
// only sessions whose lanes are all terminal may be evicted, an open session must survive.
func (in *c40bInst) evPressure() (string, error) {
	in.others++
	req := in.request(metadb.EventTypeStreamDelta, metadb.EventKeyDefault, fmt.Sprintf("other-%d", in.others), `{"kind":"text","delta":"o"}`)
	req.ClientMsgNo = fmt.Sprintf("other-%d", in.others)
	beforeView := in.cacheView()
	_, err := in.node.AppendMessageEvent(c40bCtx, req)
	afterView := in.cacheView()
	openBefore := false
	for _, v := range beforeView {
		if !strings.HasPrefix(v, "#") {
			openBefore = true
		}
	}
	if openBefore && fmt.Sprint(beforeView) != fmt.Sprint(afterView) {
		return "pressure", mc.Violatef("C40:open-session-evicted", "session pressure changed the cached open lanes of the message from %v to %v", beforeView, afterView)
	}
	switch {
	case errors.Is(err, ErrBackpressured):
		in.others--
		in.st.pressureRefused.Add(1)
		return "pressure: refused (backpressure)", nil
	case err != nil:
		in.fail("pressure: %v", err)
		return "error", nil
	}
	if len(beforeView) > 0 && len(afterView) == 0 {
		in.st.pressureEvictedTerminal.Add(1)
		for _, l := range in.lanes {
			l.Cached, l.CText, l.LastID = false, "", ""
		}
		return "pressure: terminal session evicted", nil
	}
	return "pressure: session added", nil
}

func (in *c40bInst) Canon() string {
	if in.broken {
		return ""
	}
	type lane struct {
		Acked, CText                          string
		HasAcked, Cached, Lost, Terminal, Rep bool
	}
	c := struct {
		Rows   map[string]c40bRow
		Cache  map[string]string
		Lanes  map[string]lane
		Others int
		Fin    bool
		On2    bool
		Lead2  bool
	}{Rows: in.rows, Cache: in.cacheView(), Lanes: map[string]lane{}, Others: in.others, Fin: in.finished, On2: in.onSlot2, Lead2: in.lead2}
	for k, l := range in.lanes {
		c.Lanes[k] = lane{l.Acked, l.CText, l.HasAcked, l.Cached, l.Lost, l.Terminal, l.LastID != ""}
	}
	b, err := json.Marshal(c)
	if err != nil {
		panic(err)
	}
	return string(b)
}

// Check compares the real cache with the model in every state.
func (in *c40bInst) Check() error {
	if in.broken {
		return nil
	}
	cv := in.cacheView()
	for name, l := range in.lanes {
		got, ok := cv[name]
		if l.Cached && !l.Terminal {
			if c40bBehaviourOnly && strings.HasPrefix(got, "#") {
				continue
			}
			if !ok || got != l.CText {
				return mc.Violatef("C40:cached-projection-differs-from-acknowledged-events", "lane %s: cache holds %q (present=%v), the acknowledged events give %q", name, got, ok, l.CText)
			}
		}
	}
	return nil
}

func TestVerifC40Cache(t *testing.T) {
	r := ev.Start(t, "C40")
	defer r.Finish()
	defer c40bShutdown()
	defer func() {
		if p := recover(); p != nil {
			r.HarnessError("harness panic: %v", p)
		}
	}()
	st := &c40bStats{}
	res := mc.Run(r, mc.System{
		Name:      "stream-cache-finish",
		New:       func() mc.Instance { return c40bNew(r, st) },
		MaxDepth:  ev.Pick(r, 5, 7),
		// environment deviations = durable proposals that fail before commit (terminal events and finish)
		MaxDeviations: ev.Pick(r, 1, 2),
		MaxStates:     ev.Pick(r, int64(300000), int64(3000000)),
		Bounds: map[string]any{"lanes": []string{metadb.EventKeyDefault, c40bLaneB}, "cache_max_sessions": c40bMaxSessions,
			"events": "open/delta/snapshot (cache-only, fresh ids), redelta (same id again), close/error/cancel (durable terminal, merges the cached snapshot), finish (payload without snapshot), ENVIRONMENT: every durable proposal (each terminal event, each finish flush) may fail before commit with a deadline error - nothing applied, error returned (a deviation), reset | restore pause+resume | lose and regain slot leadership (cache loss), pressure (sessions of other messages), route table: move the stream's hash slot to slot 2 / back to slot 1 (control snapshot), this node / node 2 leads slot 2 (no appends while another node is the authority)",
			"node":   "hand-assembled Node: real router (2 slots, 2 hash slots, this node leads slot 1, node 2 leads slot 2), real stream cache, no finish coalescer, proposer = real slot state machine on a real metadb.DB"},
		Note: "merging on the durable lanes, the real cache content read through messageEventStreamCache.states and the model of acknowledged events; event ids are fresh per event and left out of the canonical state (renaming symmetry)",
	})
	if r.Replay() != nil {
		return
	}
	r.Count("db_arenas_cache_run", c40bArenas.Load())
	g := func(name string, n int64, min int64) { r.Guard(name, n >= min, "%s=%d (need >=%d)", name, n, min) }
	g("cache-only-events-acknowledged", st.cached.Load(), 100)
	g("cached-event-id-replayed", st.cachedReplay.Load(), 10)
	g("cache-losses", st.losses.Load(), 100)
	g("cache-losses-dropping-acknowledged-deltas", st.lossesWithOpenContent.Load(), 10)
	g("finish-failed-closed-after-cache-loss", st.finishFailedAfterLoss.Load(), 10)
	g("finish-failed-closed-nothing-cached", st.finishFailedNothingOpen.Load(), 1)
	g("finish-flushed-cached-lanes", st.finishFlushed.Load(), 10)
	g("lanes-flushed-by-finish", st.flushedLanes.Load(), 10)
	g("terminal-event-merged-cached-snapshot", st.mergedClose.Load(), 10)
	g("authority-lost-by-hash-slot-reassignment", st.lossByReassignment.Load(), 10)
	g("authority-lost-by-leader-change-of-the-new-slot", st.lossByLeaderOfNewSlot.Load(), 1)
	g("authority-returned-to-this-node", st.authorityReturned.Load(), 10)
	g("hash-slot-moved-between-locally-led-slots", st.localToLocal.Load(), 1)
	g("session-pressure-refused-while-open", st.pressureRefused.Load(), 1)
	g("terminal-session-evicted-under-pressure", st.pressureEvictedTerminal.Load(), 1)
	g("terminal-proposal-failed", st.terminalProposalFailed.Load(), 100)
	g("terminal-proposal-failed-while-two-lanes-hold-cached-text", st.terminalProposalFailedTwoLanesCached.Load(), 10)
	g("finish-proposal-failed", st.finishProposalFailed.Load(), 10)
	g("finish-proposal-failed-while-two-lanes-hold-cached-text", st.finishProposalFailedTwoLanesCached.Load(), 1)
	g("cancel-applied-durably", st.cancelDurable.Load(), 10)
	r.Count("finish_succeeded_after_loss_then_new_deltas", st.finishAfterPartialLoss.Load())
	r.Count("terminal_event_after_cache_loss", st.closeAfterLoss.Load())
	r.Count("cache_only_event_on_lane_terminal_in_cache", st.appendAfterTerminal.Load())
	r.Count("own_event_refused_by_backpressure", st.ownRefused.Load())
	r.Guard("cache-state-space-nontrivial", res.States >= 300, "states=%d", res.States)
	r.Assume("fail-closed is demanded for a finish whose payload carries no snapshot when acknowledged cache-only events were dropped by a cache loss and nothing is cached for the message at finish time; a finish after loss + NEW cache-only events flushes only what the cache holds (the leader cannot know about the dropped prefix) - counted, not flagged")
	r.Assume("a failed durable proposal is modelled as: the proposer returns a context.DeadlineExceeded-wrapped error and applies nothing (the commit-but-reply-lost case is a different fault and not generated); after it the model of acknowledged events is unchanged, so every later finish / delta / terminal event is judged exactly as if the failed event had never been sent")
	r.Assume("the finish coalescer (time window) is not part of the assembled node; finish proposals go through appendMessageEventFinishPreparedDirect")
}
