package user_test

// C35 - Person and command channel ids are canonical.
//
// Bounded-exhaustive input enumeration (engine E2) over the real
// pkg/protocol/channelid functions. The UID alphabet is every string of at most k
// tokens over {a, b, @, #, &, ____cmd} (k = 2 quick, 3 thorough) plus hand-picked ids
// (empty, unicode, long, numeric, two CRC-32 collision pairs found by a deterministic
// in-test stride-order search). All ordered pairs and all (sender, a, b) triples are evaluated.
//
// The harness lives in internal/usecase/user (black box) because the admissible UID
// domain is taken from the real validator: a UID is admissible iff
// (*user.App)(nil).UpdateToken gets past UpdateTokenCommand validation (it then
// fails with ErrUserStoreRequired). For admissible UIDs the full oracle applies; for
// inadmissible ones (Appendix D: they contain "@", "#", "&" or are empty) only "no panic"
// and "normalize errors or returns a channel that contains the sender" are required.

import (
	"context"
	"encoding/json"
	"errors"
	"fmt"
	"hash/crc32"
	"sort"
	"strings"
	"testing"

	"github.com/WuKongIM/WuKongIM/internal/usecase/user"
	"github.com/WuKongIM/WuKongIM/pkg/protocol/channelid"
	"github.com/WuKongIM/WuKongIM/pkg/zzverif/ev"
)

// c35Admissible asks the real user API whether a UID can be created.
func c35Admissible(uid string) bool {
	err := (*user.App)(nil).UpdateToken(context.Background(), user.UpdateTokenCommand{UID: uid, Token: "t"})
	return errors.Is(err, user.ErrUserStoreRequired)
}

// c35Collisions finds CRC-32 collision pairs by a deterministic bounded search: it
// enumerates the 5-character strings over [a-z0-9] in stride order - the i-th string is the
// 5-digit base-36 numeral of (i*1000003) mod 36^5; the stride is coprime to 36, so the order
// is a fixed bijection on the whole 36^5 space - keeps crc -> first string, and returns the
// first `want` colliding pairs. (Plain lexicographic order cannot work: CRC-32 is injective
// on strings that differ only in their last four bytes, and the first 36^4 strings do.)
func c35Collisions(want int) ([][2]string, int) {
	const alpha = "abcdefghijklmnopqrstuvwxyz0123456789"
	const length, stride, limit = 5, 1000003, 3_000_000
	space := uint64(1)
	for i := 0; i < length; i++ {
		space *= uint64(len(alpha))
	}
	str := func(v uint64) string {
		var b [length]byte
		for k := length - 1; k >= 0; k-- {
			b[k] = alpha[v%uint64(len(alpha))]
			v /= uint64(len(alpha))
		}
		return string(b[:])
	}
	seen := make(map[uint32]uint64, 1<<18)
	var out [][2]string
	v := uint64(0)
	for n := 1; n <= limit; n++ {
		s := str(v)
		h := crc32.ChecksumIEEE([]byte(s))
		if o, ok := seen[h]; ok {
			out = append(out, [2]string{str(o), s})
			if len(out) == want {
				return out, n
			}
		} else {
			seen[h] = v
		}
		v = (v + stride) % space
	}
	return out, limit
}

type c35Probe struct {
	Kind string `json:"kind"` // "pair" | "normalize" | "command"
	A    string `json:"a,omitempty"`
	B    string `json:"b,omitempty"`
	S    string `json:"sender,omitempty"`
	X    string `json:"channel_id,omitempty"`
	rank int    // lower = more illustrative example (not part of the replay)
}

type c35Finding struct {
	fp, msg string
	probe   c35Probe
}

type c35Check struct {
	adm      map[string]bool
	findings map[string]c35Finding
	counts   map[string]int64
}

func (c *c35Check) admissible(u string) bool {
	v, ok := c.adm[u]
	if !ok {
		v = c35Admissible(u)
		c.adm[u] = v
	}
	return v
}

func (c *c35Check) bad(fp string, p c35Probe, format string, args ...any) {
	c.counts["violations"]++
	// keep, per fingerprint, the case with the shortest (then smallest) input: independent of the visiting order
	key := func(q c35Probe) string { return q.A + "\x00" + q.B + "\x00" + q.S + "\x00" + q.X }
	if o, ok := c.findings[fp]; ok {
		ko, kn := key(o.probe), key(p)
		if o.probe.rank < p.rank || (o.probe.rank == p.rank && (len(ko) < len(kn) || (len(ko) == len(kn) && ko <= kn))) {
			return
		}
	}
	c.findings[fp] = c35Finding{fp, fmt.Sprintf(format, args...), p}
}

func c35SameUsers(l, r, a, b string) bool { return (l == a && r == b) || (l == b && r == a) }

// weakContains: the channel id is s@... or ...@s (the only demand for inadmissible senders).
func c35WeakContains(ch, s string) bool {
	return strings.HasPrefix(ch, s+"@") || strings.HasSuffix(ch, "@"+s)
}

// pair checks one ordered pair of UIDs. Returns the outcome label.
func (c *c35Check) pair(a, b string) string {
	p := c35Probe{Kind: "pair", A: a, B: b}
	var ab, ba string
	if err := ev.Recover(func() { ab = channelid.EncodePersonChannel(a, b); ba = channelid.EncodePersonChannel(b, a) }); err != nil {
		c.bad("C35:panic:encode", p, "EncodePersonChannel(%q,%q): %v", a, b, err)
		return "panic"
	}
	if !c.admissible(a) || !c.admissible(b) {
		// outside the admissible domain: no panic, and decode must not panic either
		if err := ev.Recover(func() { _, _, _ = channelid.DecodePersonChannel(ab) }); err != nil {
			c.bad("C35:panic:decode", p, "DecodePersonChannel(%q): %v", ab, err)
		}
		return "inadmissible-uid:no-panic"
	}
	tie := crc32.ChecksumIEEE([]byte(a)) == crc32.ChecksumIEEE([]byte(b))
	kind := "crc-ordered"
	if a == b {
		kind = "equal-uids"
	} else if tie {
		kind = "crc-tie"
	}
	if ab != ba {
		c.bad("C35:encode-not-symmetric:"+kind, p, "EncodePersonChannel(%q,%q)=%q but EncodePersonChannel(%q,%q)=%q", a, b, ab, b, a, ba)
	}
	l, r, err := channelid.DecodePersonChannel(ab)
	if err != nil || !c35SameUsers(l, r, a, b) {
		c.bad("C35:decode-does-not-yield-users", p, "DecodePersonChannel(EncodePersonChannel(%q,%q)=%q) = (%q,%q,%v), want the two users", a, b, ab, l, r, err)
	}
	for _, s := range []string{a, b} {
		peer := b
		if s == b {
			peer = a
		}
		// normalizing the canonical id changes nothing
		if n, err := channelid.NormalizePersonChannel(s, ab); err != nil || n != ab {
			c.bad("C35:normalize-changes-canonical-id", p, "NormalizePersonChannel(%q, canonical %q) = (%q,%v), want it unchanged", s, ab, n, err)
		}
		// addressing the peer by UID gives the same id whichever user sends
		if n, err := channelid.NormalizePersonChannel(s, peer); err != nil || n != ab {
			c.bad("C35:normalize-depends-on-sender", p, "NormalizePersonChannel(sender %q, peer %q) = (%q,%v), want canonical %q", s, peer, n, err, ab)
		}
		// either written order of the two users names the same channel
		for _, x := range []string{a + "@" + b, b + "@" + a} {
			if n, err := channelid.NormalizePersonChannel(s, x); err != nil || n != ab {
				c.bad("C35:normalize-not-canonical-for-swapped-order", p, "NormalizePersonChannel(%q, %q) = (%q,%v), want canonical %q", s, x, n, err, ab)
			}
		}
	}
	return "admissible:" + kind
}

// normalize checks one (sender, addressed id) input.
func (c *c35Check) normalize(s, x string, xIsPairOf [2]string, xIsPair bool) string {
	p := c35Probe{Kind: "normalize", S: s, X: x}
	var n string
	var err error
	if perr := ev.Recover(func() { n, err = channelid.NormalizePersonChannel(s, x) }); perr != nil {
		c.bad("C35:panic:normalize", p, "NormalizePersonChannel(%q,%q): %v", s, x, perr)
		return "panic"
	}
	if !c.admissible(s) {
		if err == nil && !c35WeakContains(n, s) {
			c.bad("C35:normalize-returns-channel-without-sender:inadmissible-sender", p, "NormalizePersonChannel(%q,%q) = %q, which is neither %q@... nor ...@%q", s, x, n, s, s)
		}
		if err != nil {
			return "inadmissible-sender:error"
		}
		return "inadmissible-sender:contains-sender"
	}
	if err != nil {
		// a member of an admissible canonical pair must never be refused
		if xIsPair && (s == xIsPairOf[0] || s == xIsPairOf[1]) && c.admissible(xIsPairOf[0]) && c.admissible(xIsPairOf[1]) {
			c.bad("C35:normalize-refuses-member", p, "NormalizePersonChannel(%q,%q) = error %v although the sender is one of the two users", s, x, err)
		}
		return "admissible-sender:refused"
	}
	l, r, derr := channelid.DecodePersonChannel(n)
	if derr != nil || (l != s && r != s) {
		fp := "C35:normalize-admits-channel-without-sender"
		if xIsPair && s != xIsPairOf[0] && s != xIsPairOf[1] {
			fp = "C35:normalize-admits-non-member-sender"
		}
		c.bad(fp, p, "NormalizePersonChannel(sender %q, %q) = %q, decoded (%q,%q,%v): the sender is not one of the two users", s, x, n, l, r, derr)
		return "admissible-sender:VIOLATION"
	}
	// normalizing is idempotent
	if n2, err2 := channelid.NormalizePersonChannel(s, n); err2 != nil || n2 != n {
		c.bad("C35:normalize-not-idempotent", p, "NormalizePersonChannel(%q,%q) = %q, normalizing that again = (%q,%v)", s, x, n, n2, err2)
	}
	return "admissible-sender:accepted-contains-sender"
}

// command checks the command-channel mapping on one id. source = x is a source channel id
// (an admissible UID addressed as a person channel, or the person channel of two admissible UIDs).
func (c *c35Check) command(x string, source bool) string {
	p := c35Probe{Kind: "command", X: x}
	var cx, ccx, back string
	var ok bool
	if err := ev.Recover(func() {
		cx = channelid.ToCommandChannel(x)
		ccx = channelid.ToCommandChannel(cx)
		back, ok = channelid.FromCommandChannel(cx)
	}); err != nil {
		c.bad("C35:panic:command", p, "command mapping of %q: %v", x, err)
		return "panic"
	}
	if ccx != cx || !channelid.IsCommandChannel(cx) {
		c.bad("C35:command-mapping-not-idempotent", p, "ToCommandChannel(%q)=%q, applied again = %q, IsCommandChannel=%v", x, cx, ccx, channelid.IsCommandChannel(cx))
	}
	if !source {
		return "any-id:idempotent"
	}
	if back != x || !ok {
		if strings.HasSuffix(x, channelid.CommandChannelSuffix) {
			alias := ""
			if l, rr, derr := channelid.DecodePersonChannel(back); derr != nil || !c.admissible(l) || !c.admissible(rr) || channelid.EncodePersonChannel(l, rr) != back {
				p.rank = 1 // prefer an example whose reversed id is itself the canonical person channel of two admissible users
			} else if xl, xr, xerr := channelid.DecodePersonChannel(x); xerr == nil {
				alias = fmt.Sprintf(" [the person channel of users %q and %q has the id of the command channel of users %q and %q]", xl, xr, l, rr)
			}
			c.bad("C35:command-mapping-not-reversible:source-id-ends-with-command-suffix", p,
				"source channel id %q (built from UIDs the user API admits) ends with the command suffix: ToCommandChannel(%q) = %q (unchanged: the channel is its own command channel), FromCommandChannel(that) = (%q,%v), and ToCommandChannel(%q) = %q is the same id - two different source channels share one command-channel id, so the mapping cannot be reversed%s",
				x, x, cx, back, ok, back, channelid.ToCommandChannel(back), alias)
			return "source-id:NOT-REVERSIBLE(suffix)"
		}
		c.bad("C35:command-mapping-not-reversible", p, "FromCommandChannel(ToCommandChannel(%q)=%q) = (%q,%v), want (%q,true)", x, cx, back, ok, x)
		return "source-id:NOT-REVERSIBLE"
	}
	return "source-id:idempotent+reversible"
}

func c35Alphabet(maxTokens int, collisions [][2]string) []string {
	tokens := []string{"a", "b", "@", "#", "&", channelid.CommandChannelSuffix}
	set := map[string]bool{}
	var out []string
	add := func(s string) {
		if !set[s] {
			set[s] = true
			out = append(out, s)
		}
	}
	level := []string{""}
	for k := 0; k < maxTokens; k++ {
		var next []string
		for _, pfx := range level {
			for _, t := range tokens {
				next = append(next, pfx+t)
			}
		}
		for _, s := range next {
			add(s)
		}
		level = next
	}
	for _, s := range []string{"", "u1", "u2", "alice", "bob", "A", "0", "9", "10", "用户", "u 1", "u1" + channelid.CommandChannelSuffix, "U1",
		strings.Repeat("x", 64), "____cm", "_cmd", "u1@u2", "u2@u1", "u1@u2" + channelid.CommandChannelSuffix} {
		add(s)
	}
	for _, p := range collisions {
		add(p[0])
		add(p[1])
	}
	return out
}

func TestVerifC35(t *testing.T) {
	r := ev.Start(t, "C35")
	defer r.Finish()
	c := &c35Check{adm: map[string]bool{}, findings: map[string]c35Finding{}, counts: map[string]int64{}}

	if rf := r.Replay(); rf != nil {
		var p c35Probe
		if err := json.Unmarshal(rf.Replay, &p); err != nil {
			r.HarnessError("replay payload: %v", err)
			return
		}
		switch p.Kind {
		case "pair":
			fmt.Println("replay pair:", c.pair(p.A, p.B))
		case "normalize":
			fmt.Println("replay normalize:", c.normalize(p.S, p.X, [2]string{}, false))
			// the pair context decides only the fingerprint suffix; try it as a canonical pair too
			if l, rr, err := channelid.DecodePersonChannel(p.X); err == nil {
				c.normalize(p.S, p.X, [2]string{l, rr}, true)
			}
		case "command":
			fmt.Println("replay command:", c.command(p.X, true))
		}
		for fp, f := range c.findings {
			fmt.Printf("replay: [%s] %s\n", fp, f.msg)
			if fp == rf.Fingerprint {
				r.MarkReplayReproduced()
				r.Violation(ev.Violation{Fingerprint: fp, Message: f.msg, System: "channelid", Replay: f.probe})
			}
		}
		r.Section(ev.Section{Name: "replay", Kind: "enum", Evaluations: 1, Note: "replay"})
		return
	}

	// ---- deterministic CRC-32 collision search (no randomness)
	cols, searched := c35Collisions(2)
	r.Count("crc_collision_search_strings", int64(searched))
	okCols := len(cols) == 2
	for _, p := range cols {
		if p[0] == p[1] || crc32.ChecksumIEEE([]byte(p[0])) != crc32.ChecksumIEEE([]byte(p[1])) {
			okCols = false
		}
	}
	r.Guard("crc-collision-pairs", okCols, "found %d collision pairs %v after enumerating %d strings (need 2)", len(cols), cols, searched)
	if !okCols {
		return
	}

	U := c35Alphabet(ev.Pick(r, 2, 3), cols)
	if k := int(r.Seed() % int64(len(U))); k > 0 { // the seed only rotates the visiting order
		U = append(append([]string{}, U[k:]...), U[:k]...)
	}
	nAdm, nInadm, hi, lo := 0, 0, 0, 0
	for _, u := range U {
		if c.admissible(u) {
			nAdm++
			if crc32.ChecksumIEEE([]byte(u))>>31 == 1 {
				hi++
			} else {
				lo++
			}
		} else {
			nInadm++
		}
	}
	for _, u := range []string{"u1", "alice", "用户", channelid.CommandChannelSuffix} {
		if !c.admissible(u) {
			r.Assume(fmt.Sprintf("the user API rejects UID %q", u))
		}
	}
	for _, u := range []string{"", "a@b", "#", "a&"} {
		if c.admissible(u) {
			r.HarnessError("the user API unexpectedly admits UID %q: the Appendix D scoping no longer matches the code", u)
		}
	}
	r.Guard("admissible-uids", nAdm >= 12 && nInadm >= 8, "admissible=%d inadmissible=%d of %d UIDs", nAdm, nInadm, len(U))
	r.Guard("crc-sign-boundary", hi >= 2 && lo >= 2, "admissible UIDs with CRC >= 2^31: %d, below: %d (ordering must not depend on signedness)", hi, lo)

	// ---- section 1: all ordered pairs
	e1 := r.NewEnum("person-pairs")
	for _, a := range U {
		for _, b := range U {
			out := c.pair(a, b)
			e1.CaseByConstruction(strings.HasPrefix(out, "admissible"), out)
		}
	}
	e1.Done(true, map[string]any{"uids": len(U), "admissible": nAdm, "ordered_pairs": len(U) * len(U)},
		"every ordered pair of the UID alphabet (distinct by construction): encode symmetry, decode, normalize from either member in canonical / peer / swapped form")
	r.Guard("crc-tie-pairs-evaluated", e1.Outcome("admissible:crc-tie") >= 4, "crc-tie ordered pairs=%d (need >=4: two collision pairs, both orders)", e1.Outcome("admissible:crc-tie"))
	r.Guard("equal-uid-pairs-evaluated", e1.Outcome("admissible:equal-uids") >= int64(nAdm), "equal pairs=%d", e1.Outcome("admissible:equal-uids"))

	// ---- section 2: all (sender, addressed id) with the addressed id from: every UID, every
	// canonical pair id, every written pair a@b
	e2 := r.NewEnum("normalize-triples")
	for _, s := range U {
		for _, x := range U {
			out := c.normalize(s, x, [2]string{}, false)
			e2.CaseByConstruction(strings.HasPrefix(out, "admissible"), "uid-addressed/"+out)
		}
	}
	for _, a := range U {
		for _, b := range U {
			canon := channelid.EncodePersonChannel(a, b)
			written := a + "@" + b
			for _, s := range U {
				out := c.normalize(s, canon, [2]string{a, b}, true)
				e2.CaseByConstruction(strings.HasPrefix(out, "admissible"), "canonical-id/"+out)
				if written != canon {
					out = c.normalize(s, written, [2]string{a, b}, true)
					e2.CaseByConstruction(strings.HasPrefix(out, "admissible"), "written-id/"+out)
				}
			}
		}
	}
	e2.Done(true, map[string]any{"uids": len(U), "triples": len(U) * len(U) * len(U)},
		"every (sender, a, b) over the alphabet with the addressed id = canonical id of (a,b) and the written id a@b, plus every (sender, peer uid): the sender is accepted only into a channel that contains them, normalize is idempotent")
	r.Guard("non-member-refused", e2.Outcome("canonical-id/admissible-sender:refused") >= 100, "refused=%d", e2.Outcome("canonical-id/admissible-sender:refused"))
	r.Guard("member-accepted", e2.Outcome("canonical-id/admissible-sender:accepted-contains-sender") >= 100, "accepted=%d", e2.Outcome("canonical-id/admissible-sender:accepted-contains-sender"))

	// ---- section 3: command mapping on every UID, every canonical pair id and their command ids
	e3 := r.NewEnum("command-mapping")
	seen := map[string]bool{}
	cmdCase := func(x string, source bool) {
		key := fmt.Sprintf("%v|%s", source, x)
		if seen[key] {
			return
		}
		seen[key] = true
		e3.CaseByConstruction(source, c.command(x, source))
	}
	for _, a := range U {
		cmdCase(a, c.admissible(a))
		cmdCase(channelid.ToCommandChannel(a), false)
		for _, b := range U {
			x := channelid.EncodePersonChannel(a, b)
			cmdCase(x, c.admissible(a) && c.admissible(b))
			cmdCase(channelid.ToCommandChannel(x), false)
		}
	}
	e3.Done(true, map[string]any{"ids": len(seen)},
		"ToCommandChannel idempotent on every id; FromCommandChannel(ToCommandChannel(x)) = (x,true) for every source id x (admissible UID addressed as a person channel, or canonical id of two admissible UIDs)")
	r.Guard("command-source-ids", e3.Outcome("source-id:idempotent+reversible") >= 100, "reversible source ids=%d", e3.Outcome("source-id:idempotent+reversible"))

	keys := make([]string, 0, len(c.findings))
	for k := range c.findings {
		keys = append(keys, k)
	}
	sort.Strings(keys)
	for _, k := range keys {
		f := c.findings[k]
		r.Violation(ev.Violation{Fingerprint: f.fp, Message: f.msg, System: "channelid", Replay: f.probe})
	}
	r.Count("violating_cases", c.counts["violations"])
	a, b := cols[0][0], cols[0][1]
	r.Sample(map[string]any{"pair": []string{a, b}, "crc32": crc32.ChecksumIEEE([]byte(a)), "crc_tie": true,
		"encode_ab": channelid.EncodePersonChannel(a, b), "encode_ba": channelid.EncodePersonChannel(b, a)})
	n, err := channelid.NormalizePersonChannel("alice", channelid.EncodePersonChannel("u1", "u2"))
	r.Sample(map[string]any{"sender": "alice", "addressed": channelid.EncodePersonChannel("u1", "u2"), "normalize": n, "error": fmt.Sprint(err)})
	r.Assume("admissible UID domain = what (*user.App).UpdateToken validation accepts (evaluated on the real code for every UID of the alphabet); UIDs it rejects (@, #, &, empty) only need no panic and sender containment")
}
